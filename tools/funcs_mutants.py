#!/usr/bin/env python3
"""Measures the function-level tie on first-order mutants of the TRANSLATED functions only (operators of
tools/mutation_sweep.py): each mutant of a line inside a translated function body is applied to a scratch export of
/repo's HEAD; `cargo check` discards the ones that do not compile; tools/gen_funcs.py translates the mutated tree into
a scratch copy of the Lean project and the tie modules are rebuilt there (no harness, no test run).
Verdicts: stillborn / tie-broken (the tie theorem of the function no longer checks) / untranslatable / SURVIVES-TIE
(the mutated function is still proved equal to the model: an equivalent mutant or a hole in the theorem's hypotheses).
usage: funcs_mutants.py <scratch lean project> <scratch dir> [--limit N]   -> findings/funcs_mutants.jsonl"""
import json, os, re, shutil, subprocess, sys
sys.path.insert(0, os.path.dirname(os.path.abspath(__file__)))
import mutation_sweep as ms
import gen_funcs as gf
from propcfg import FUNC_TIES
lean, work = sys.argv[1], sys.argv[2]
limit = int(sys.argv[sys.argv.index("--limit") + 1]) if "--limit" in sys.argv else 10 ** 9
src0 = os.path.join(work, "base")
shutil.rmtree(work, ignore_errors=True)
os.makedirs(src0)
subprocess.run("git -C /repo archive HEAD | tar -x -C %s" % src0, shell=True, check=True)
# line ranges of the translated functions
ranges = {}
for tgt in gf.TARGETS:
    fname, impl, rust, leanname = tgt[:4]
    text = open(os.path.join(src0, "src", fname)).read()
    try:
        ftxt = gf.find_fn(gf.strip_tests(text), impl, rust)
    except gf.Untranslatable:
        continue
    # locate by the first line of the function text (comments were blanked, so compare the signature line)
    sig = ftxt.split("{")[0].strip().split("\n")[0]
    lines = text.split("\n")
    for i, l in enumerate(lines):
        if sig in gf.strip_comments(l) and (impl is None or re.search(impl, "\n".join(lines[:i + 1]))):
            n = len(ftxt.split("\n"))
            ranges.setdefault(fname, []).append((i, i + n, leanname))
mods = sorted({m for m, _ in FUNC_TIES.values() if os.path.exists(os.path.join(lean, m.replace(".", "/") + ".lean"))})
out = open("/verif/findings/funcs_mutants.jsonl", "w")
count = {}
done = 0
for fname in sorted(ranges):
    path = os.path.join(src0, "src", fname)
    orig = open(path).read()
    for (f, i, op, new) in ms.mutants_of(fname, path):
        fn = [ln for (a, b, ln) in ranges[fname] if a < i < b]
        if not fn or done >= limit:
            continue
        if fn[0] not in FUNC_TIES or not os.path.exists(os.path.join(lean, FUNC_TIES[fn[0]][0].replace(".", "/") + ".lean")):
            continue      # no tie theorem (yet) for this function
        done += 1
        lines = orig.split("\n")
        lines[i] = new
        open(path, "w").write("\n".join(lines))
        env = dict(os.environ, CARGO_NET_OFFLINE="true", CARGO_TARGET_DIR=os.path.join(work, "target"))
        c = subprocess.run(["cargo", "check", "--offline", "--lib", "-q"], cwd=src0, env=env, stdout=subprocess.PIPE, stderr=subprocess.STDOUT, text=True)
        if c.returncode != 0:
            verdict = "stillborn"
        else:
            r = subprocess.run([sys.executable, "/verif/tools/gen_funcs.py", "--src", os.path.join(src0, "src"), "--out", os.path.join(lean, "SstModel", "Generated", "Funcs.lean")], stdout=subprocess.PIPE, text=True)
            bad = [l.split()[0] for l in r.stdout.splitlines() if "UNTRANSLATABLE" in l]
            try:
                b = subprocess.run(["lake", "build"] + mods, cwd=lean, stdout=subprocess.PIPE, stderr=subprocess.STDOUT, text=True, timeout=300)
                rc = b.returncode
            except subprocess.TimeoutExpired:
                subprocess.run(["pkill", "-f", lean + "/SstModel/Props/FuncsTie"])
                rc = 124
            verdict = "untranslatable" if bad else ("tie-broken" if rc != 0 else "SURVIVES-TIE")
        open(path, "w").write(orig)
        count[verdict] = count.get(verdict, 0) + 1
        out.write(json.dumps({"file": fname, "line": i + 1, "function": fn[0], "op": op, "new": new.strip(), "verdict": verdict}) + "\n")
        out.flush()
        print("%-18s %-28s %-14s %s" % (fname + ":" + str(i + 1), fn[0], verdict, new.strip()[:90]))
        sys.stdout.flush()
print("SUMMARY", count)
shutil.rmtree(work, ignore_errors=True)
