"""Per-property configuration of ./check: Lean modules, obligation list (theorems whose axioms are
audited), translator constants the property depends on, correspondence streams.

`claimed`: the property has its theorem(s) and is listed under MANIFEST.checks; the others run the
same machinery (./check Cxx works) but are not claimed until their theorem is proved."""

COMMON_ASSUME = [
    "the hand-written Lean model mirrors the Rust functions in its cone; agreement is checked on the cases of this run only",
]
TIE = "SstModel.Props.ConstsTie"
TIE_T = ["Sst.ConstsTie.magic_eq", "Sst.ConstsTie.footer_lengths", "Sst.ConstsTie.trailer_length",
         "Sst.ConstsTie.mask_consts", "Sst.ConstsTie.compression_tags", "Sst.ConstsTie.crc_check_value",
         "Sst.ConstsTie.mask_zero"]
BLOOM_T = ["Sst.ConstsTie.filter_base", "Sst.ConstsTie.bloom_consts", "Sst.ConstsTie.default_bloom_k"]


def P(mods, thms, streams, claimed=False, level="proof", consts=(), assume=(), explanation="", partial=""):
    return {"lean_modules": mods, "theorems": thms, "streams": streams, "claimed": claimed, "level": level,
            "consts": list(consts), "assumptions": COMMON_ASSUME + list(assume), "explanation": explanation,
            "partial": partial}


PROPS = {
    "C01": P([TIE], TIE_T, ["S2", "S3", "S4", "S7", "S8", "S9", "S10"]),
    "C02": P([TIE], TIE_T + BLOOM_T, ["S1", "S2", "S3", "S4", "S5", "S6", "S7", "S8", "S9", "S10"]),
    "C03": P([TIE], TIE_T, ["S2", "S3", "S4", "S7", "S8", "S9", "S10"]),
    "C04": P([TIE], TIE_T, ["S2", "S3", "S4", "S7", "S8", "S9", "S10"]),
    "C05": P([TIE], TIE_T + BLOOM_T, ["S1-S7", "S9"]),
    "C06": P([TIE], TIE_T, ["S2", "S4", "S10"]),
    "C07": P([TIE], TIE_T, ["S2", "S3", "S10"]),
    "C08": P([TIE], TIE_T, ["S2", "S6", "S7", "S8", "S10"]),
    "C09": P(["SstModel.Props.C09", TIE],
             ["Sst.C09_bloom", "Sst.C09_filter_block", "Sst.C09_bloom_filter_block", "Sst.C09_nofilter",
              "Sst.C09_firstbyte"] + BLOOM_T,
             ["S2 codec (fixed32)", "S5 bloom: BloomPolicy hash / k / create_filter / key_may_match vs Model.Bloom",
              "S6 filterblock: FilterBlockBuilder/Reader vs model, members judged"],
             claimed=True, consts=["filterBaseLog2", "bloomSeed", "bloomM", "bloomR", "bloomKNum", "bloomKMin", "bloomKMax", "bloomMinBits"],
             assume=["f32 product bits_per_key*0.69 is modelled as floor(bits*69/100); compared with the crate for bits 0..64 and samples (S5)",
                     "theorem hypotheses: bit array < 512 MiB (FitsU32), filter block < 2^32 (resp. 2^29) bytes"]),
    "C10": P([TIE], TIE_T, ["S10", "S11"]),
    "C11": P([TIE], [], ["S11"]),
    "C12": P([TIE], TIE_T, ["S10", "S13"]),
    "C13": P([TIE], TIE_T, ["S9"]),
    "C14": P([TIE], TIE_T, ["S10"]),
    "C15": P([TIE], TIE_T, ["S9", "S10"]),
    "C16": P([TIE], [], ["S7", "S9"]),
    "C17": P(["SstModel.Props.C17"],
             ["Sst.C17_sep", "Sst.C17_succ", "Sst.C17_succ_strict", "Sst.C17_bracket",
              "Sst.model_order_is_lex", "Sst.model_le_is_lex"],
             ["S1 cmp: DefaultCmp::{cmp,find_shortest_sep,find_short_succ} vs Model.Cmp"], claimed=True,
             assume=["<[u8] as Ord>::cmp is lexicographic (std; modelled by cmpBytes and sampled by S1)"]),
    "C18": P([TIE], TIE_T + BLOOM_T, ["S5", "S6", "S10"]),
    "C19": P([TIE], TIE_T, ["S8", "S10"]),
    "C20": P(["SstModel.Props.C20", TIE],
             ["Sst.C20_display", "Sst.C20_conversions", "Sst.C20_names_distinct", "Sst.C20_all_codes",
              "Sst.C20_io_table", "Sst.C20_io_default", "Sst.ConstsTie.display_writes_err"],
             ["S12 status: Status::new / Display / to_string / dyn Error / From<io::Error|snap::Error|PoisonError> in a child process with a 256 KiB stack vs Model.Status"],
             claimed=True, consts=["statusCodes", "ioErrorTable", "ioErrorDefault", "displayWritesErr"],
             assume=["Rust's format!(\"{:?}\") of a field-less enum variant prints the variant name; String formatting of std"]),
}
