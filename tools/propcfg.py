"""Per-property configuration of ./check: Lean modules, obligation list (theorems whose axioms are
audited), translator constants the property depends on, correspondence streams.

`claimed`: the property has its theorem(s) and is listed under MANIFEST.checks; the others run the
same machinery (./check Cxx works) but are not claimed until their theorem is proved."""

COMMON_ASSUME = [
    "the hand-written Lean model mirrors the Rust functions in its cone; agreement is checked on the cases of this run only",
]
TIE = "SstModel.Props.ConstsTie"
TIE_T = ["Sst.ConstsTie.magic_eq", "Sst.ConstsTie.footer_lengths", "Sst.ConstsTie.trailer_length",
         "Sst.ConstsTie.mask_consts", "Sst.ConstsTie.compression_tags", "Sst.ConstsTie.crc_check_value",
         "Sst.ConstsTie.mask_zero"]
BLOOM_T = ["Sst.ConstsTie.filter_base", "Sst.ConstsTie.bloom_consts", "Sst.ConstsTie.default_bloom_k"]


def P(mods, thms, streams, claimed=False, level="proof", consts=(), assume=(), explanation="", partial=""):
    return {"lean_modules": mods, "theorems": thms, "streams": streams, "claimed": claimed, "level": level,
            "consts": list(consts), "assumptions": COMMON_ASSUME + list(assume), "explanation": explanation,
            "partial": partial}


PROPS = {
    "C01": P([TIE], TIE_T, ["S2", "S3", "S4", "S7", "S8", "S9", "S10"]),
    "C02": P([TIE], TIE_T + BLOOM_T, ["S1", "S2", "S3", "S4", "S5", "S6", "S7", "S8", "S9", "S10"]),
    "C03": P([TIE], TIE_T, ["S2", "S3", "S4", "S7", "S8", "S9", "S10"]),
    "C04": P([TIE], TIE_T, ["S2", "S3", "S4", "S7", "S8", "S9", "S10"]),
    "C05": P([TIE], TIE_T + BLOOM_T, ["S1-S7", "S9"]),
    "C06": P(["SstModel.Props.C06", TIE],
             ["Sst.C06_reader", "Sst.filterCompat_of_absent", "Sst.specTable_wf", "Sst.reader_history",
              "Sst.reader_scan", "Sst.reader_seek_current", "Sst.get_ok", "Sst.open_ok",
              "Sst.simB_seek", "Sst.simB_prev_valid", "Sst.simB_advance", "Sst.isWellFormed_complete",
              "Sst.parseBlock_wf", "Sst.defaultCmp_lawful", "Sst.reverseCmp_lawful"] + TIE_T,
             ["S2 codec", "S4 snappy: snap decoder vs the format model (encoder output, reference streams with literal/copy1/2/4, malformed)",
              "S10 table: files of the harness's reference encoder (free layouts), accepted by the independent Lean decoder, read through Table/TableIterator vs Model.Table"],
             claimed=True,
             assume=["the reference encoder's files are used only after Spec.decodeTable accepted them and decoded the intended entries (so they satisfy WFTable's `decodes`; ordering fields hold by construction of the generator)",
                     "theorem hypotheses: lawful comparator (proved for DefaultCmp and the harness's ReverseCmp), FilterCompat (trivial when the reader's policy name is absent from the metaindex; for a bloom block written by the same policy it is C09), fault-free source, image < 2^64 bytes",
                     "snap::raw::Decoder is modelled by the format-level decoder Model.Snappy (S4)"]),
    "C07": P(["SstModel.Props.C07", TIE],
             ["Sst.C07_nothing_unverified", "Sst.C07_crc_burst", "Sst.C07_altered_block_rejected",
              "Sst.C07_altered_checksum_rejected", "Sst.C07_mask_roundtrip"] + TIE_T,
             ["S2 codec (mask/unmask, fixed32)", "S3 crc: crc crate CRC_32_ISCSI vs bitwise model",
              "S10 table sessions on altered images (every offset x masks, range fills) vs model, judged against the independent decoder"],
             partial="block level proved (checksum layer); table-level right-or-error theorem pending"),
    "C08": P([TIE], TIE_T, ["S2", "S6", "S7", "S8", "S10"]),
    "C09": P(["SstModel.Props.C09", TIE],
             ["Sst.C09_bloom", "Sst.C09_filter_block", "Sst.C09_bloom_filter_block", "Sst.C09_nofilter",
              "Sst.C09_firstbyte"] + BLOOM_T,
             ["S2 codec (fixed32)", "S5 bloom: BloomPolicy hash / k / create_filter / key_may_match vs Model.Bloom",
              "S6 filterblock: FilterBlockBuilder/Reader vs model, members judged"],
             claimed=True, consts=["filterBaseLog2", "bloomSeed", "bloomM", "bloomR", "bloomKNum", "bloomKMin", "bloomKMax", "bloomMinBits"],
             assume=["f32 product bits_per_key*0.69 is modelled as floor(bits*69/100); compared with the crate for bits 0..64 and samples (S5)",
                     "theorem hypotheses: bit array < 512 MiB (FitsU32), filter block < 2^32 (resp. 2^29) bytes"]),
    "C10": P([TIE], TIE_T, ["S10", "S11"]),
    "C11": P(["SstModel.Props.C11"],
             ["Sst.HCache.C11_refines", "Sst.HCache.C11_step", "Sst.HCache.C11_spec_invariant"],
             ["S11 cache: Cache::{insert,get,remove,count} + verif_dump (forward order, backward links, map keys) vs the heap model, judged against Spec.Lru"],
             claimed=True,
             assume=["the heap model (node ids, liveness-checked dereference, Box ownership = owning `next`) stands for Rust's raw-pointer list; real memory safety of the compiled unsafe code is supported, not decided, by this (the address of the list head must be stable: the cache lives in an Arc<RwLock<_>>)",
                     "HashMap is modelled as an association list with unique keys"]),
    "C12": P([TIE], TIE_T, ["S10", "S13"]),
    "C13": P(["SstModel.Props.C13", TIE],
             ["Sst.C13_sink_any_schedule", "Sst.C13_hard_error_not_ok", "Sst.C13_write_all",
              "Sst.writeAll_prefix", "Sst.writeAll_no_diverge"] + TIE_T,
             ["S9 tablebuilder: every sink call (buffer offered, response) and the result of TableBuilder on scheduled sinks vs Model.TableBuilder"],
             claimed=True,
             assume=["std::io::Write::write_all behaves as documented (retry on Interrupted, WriteZero on Ok(0)); modelled by Sink.writeAll",
                     "the snappy compressor is a parameter of the model (any function); theorem hypothesis: reported size < 2^64"]),
    "C14": P([TIE], TIE_T, ["S10"]),
    "C15": P(["SstModel.Props.C15", TIE],
             ["Sst.open_rejects_without_magic", "Sst.C15_prefix_rejected", "Sst.C15_prefix_rejected_corruption"] + TIE_T,
             ["S9 tablebuilder (images)", "S10 table: Table::new on every prefix length vs Model.Table.new"],
             claimed=True,
             assume=["theorem hypothesis NoInnerMagic: no strict prefix of length >= 48 ends with the 8 magic bytes (finding F1: a value embedding a complete table makes one prefix a valid table - inherent to the format); the harness evaluates it on every image it runs",
                     "the clause 'the complete image opens with the full contents' is C01 (correspondence + judge here)"]),
    "C16": P(["SstModel.Props.C16"],
             ["Sst.C16_rejects", "Sst.C16_accepted_sorted", "Sst.C16_finished_sorted"],
             ["S9 tablebuilder: TableBuilder::add on sequences with one order violation at every position x block sizes vs Model.TableBuilder"],
             claimed=True,
             assume=["no law is assumed about the comparator; 'refused' = panic at that call (the model's add has no error return for order violations, like the Rust assert)"]),
    "C17": P(["SstModel.Props.C17"],
             ["Sst.C17_sep", "Sst.C17_succ", "Sst.C17_succ_strict", "Sst.C17_bracket",
              "Sst.model_order_is_lex", "Sst.model_le_is_lex"],
             ["S1 cmp: DefaultCmp::{cmp,find_shortest_sep,find_short_succ} vs Model.Cmp"], claimed=True,
             assume=["<[u8] as Ord>::cmp is lexicographic (std; modelled by cmpBytes and sampled by S1)"]),
    "C18": P([TIE], TIE_T + BLOOM_T, ["S5", "S6", "S10"]),
    "C19": P([TIE], TIE_T, ["S8", "S10"]),
    "C20": P(["SstModel.Props.C20", TIE],
             ["Sst.C20_display", "Sst.C20_conversions", "Sst.C20_names_distinct", "Sst.C20_all_codes",
              "Sst.C20_io_table", "Sst.C20_io_default", "Sst.ConstsTie.display_writes_err"],
             ["S12 status: Status::new / Display / to_string / dyn Error / From<io::Error|snap::Error|PoisonError> in a child process with a 256 KiB stack vs Model.Status"],
             claimed=True, consts=["statusCodes", "ioErrorTable", "ioErrorDefault", "displayWritesErr"],
             assume=["Rust's format!(\"{:?}\") of a field-less enum variant prints the variant name; String formatting of std"]),
}
