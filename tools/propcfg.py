"""Per-property configuration of ./check: Lean modules, obligation list (theorems whose axioms are
audited), translator constants the property depends on, correspondence streams."""

COMMON_ASSUME = [
    "the hand-written Lean model mirrors the Rust functions in its cone; agreement is checked on the cases of this run only",
]

PROPS = {
    "C17": {
        "lean_modules": ["SstModel.Props.C17"],
        "theorems": ["Sst.C17_sep", "Sst.C17_succ", "Sst.C17_succ_strict", "Sst.C17_bracket",
                     "Sst.model_order_is_lex", "Sst.model_le_is_lex"],
        "consts": [],
        "streams": ["S1 cmp: DefaultCmp::{cmp,find_shortest_sep,find_short_succ} vs Model.Cmp"],
        "level": "proof",
        "assumptions": COMMON_ASSUME + ["<[u8] as Ord>::cmp is lexicographic (std; modelled by cmpBytes and sampled by S1)"],
    },
}
