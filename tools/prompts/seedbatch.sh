#!/bin/bash
# usage: seedbatch.sh tag:Cxx,Cyy ...
cd /verif
for spec in "$@"; do
  tag=${spec%%:*}; props=${spec##*:}
  echo "=== $tag ($props)"
  if [ ! -f /root/confirmed_$tag ]; then
    tools/confirm_seed.sh /tmp/seed11_$tag > /root/confirm_$tag.log 2>&1
    grep -E "^test result|^== " /root/confirm_$tag.log | head -12
  fi
  cp /tmp/seed11_$tag/patch.diff /root/seed11_$tag.patch
  tools/try_seed.sh /root/seed11_$tag.patch ${props//,/ } 2>&1 | tail -12
done
