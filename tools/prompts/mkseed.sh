#!/bin/bash
# usage: mkseed.sh <tag> <Cxx>  -> creates worktree /tmp/seed11_<tag>, prints property text
tag=$1; prop=$2
W=/tmp/seed11_$tag
git -C /repo worktree remove --force $W 2>/dev/null; rm -rf $W
git -C /repo worktree add -q --detach $W HEAD
python3 - "$prop" <<'PY'
import json,sys
for l in open('/verif/properties.jsonl'):
    d=json.loads(l)
    if d['id']==sys.argv[1]:
        print("TITLE:", d['title']); print("STATEMENT:", d['statement']); print("QUANTIFIER:", d['quantifier']['text'])
PY
