import sys
tag, hint = sys.argv[1], sys.argv[2]
prop = open('/root/seed11_%s.txt' % tag).read()
print(f"""You are helping measure a verification framework for the Rust crate dermesser/sstable (LevelDB-format sorted string tables). You have your own scratch git worktree of the crate at /tmp/seed11_{tag} (work ONLY there; never touch /repo or /verif, and do not read anything under /verif). The machine is offline: use `cargo test --offline` and set CARGO_TARGET_DIR=/tmp/seed11_{tag}/target.

Here is a semantic property the crate is supposed to satisfy:

{prop}

Your task: make a realistic change to the crate's non-test source (under src/) that BREAKS this property, while the crate still compiles and ALL 39 existing tests still pass (`cargo test --offline`). The change should look like something a developer could plausibly write (an optimisation, a refactoring slip, a wrong boundary, two cooperating sites that each look fine alone) - not sabotage that ordinary use would expose at once. It must need something SPECIFIC to manifest: an unusual input, a particular size or alignment, a multi-step sequence of operations, a fault at a particular point, a particular interleaving. Hard mode: prefer a change that only shows on inputs or histories that a typical randomized test with small keys/small tables/short call sequences would be unlikely to hit. Focus hint (to diversify from other people doing the same exercise): {hint}

Deliver, in /tmp/seed11_{tag}:
 1. patch.diff - `git diff` of your change to src/ only (no test files in it), applying cleanly to the worktree's HEAD with `git apply`.
 2. tests/seeded_demo.rs - an integration test (public API of the crate `sstable` only; one or more #[test] fns) that FAILS with your change and PASSES without it. Verify both directions yourself (with the patch: `cargo test --offline` shows the 39 unit tests passing and seeded_demo failing; with `git apply -R patch.diff`: seeded_demo passes).
 3. SEEDED.md - 10-20 lines: what the change is, why it breaks the property, what exactly it needs in order to manifest, and what you ran.
Leave the worktree with the patch applied and the three files present. Do not use #[cfg(test)] tricks, environment variables, randomness or time to hide the change. Do not edit or remove existing tests. Keep the change small (ideally < 40 changed lines). In your final answer give a 5-line summary: the change, the trigger condition, and the outcome of your two verification runs.""")
