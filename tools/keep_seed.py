#!/usr/bin/env python3
"""usage: keep_seed.py <agent worktree> <seed id> <property> <needs> <caught_by comma list> <ran>
Stores a confirmed seeded change under /verif/seeded/<id>/ (patch.diff, demonstration, SEEDED.md, meta.json)."""
import json, os, shutil, sys
src, sid, prop, needs, caught, ran = sys.argv[1:7]
dst = os.path.join("/verif/seeded", sid)
os.makedirs(dst, exist_ok=True)
for f in ["patch.diff", "bug_only.diff", "SEEDED.md"]:
    if os.path.exists(os.path.join(src, f)):
        shutil.copy(os.path.join(src, f), dst)
demo = os.path.join(src, "tests", "seeded_demo.rs")
if os.path.exists(demo):
    shutil.copy(demo, os.path.join(dst, "seeded_demo.rs"))
json.dump({"seed": sid, "breaks_property": prop, "needs_to_manifest": needs,
           "apply_with": "git -C /repo apply /verif/seeded/%s/%s" % (sid, "bug_only.diff" if os.path.exists(os.path.join(dst, "bug_only.diff")) else "patch.diff"),
           "demonstration": "seeded_demo.rs (integration test, public API)" if os.path.exists(demo) else "in-file test `seeded_demo` contained in patch.diff",
           "confirmed": "tools/confirm_seed.sh in a fresh scratch worktree: 39 existing tests pass with the change, demonstration fails with it and passes without it",
           "caught_by": [c for c in caught.split(",") if c], "ran": ran},
          open(os.path.join(dst, "meta.json"), "w"), indent=1)
print("kept", dst)
