#!/usr/bin/env python3
"""Translator: constants of /repo/src/*.rs -> lean/SstModel/Generated/Consts.lean.

Runs on every check. The model imports the generated constants, so every theorem that mentions one
(magic number, CRC mask delta and rotations, footer/trailer lengths, filter base, bloom seed and
multiplier, probe-count rule, compression type tags, the io::ErrorKind table, the StatusCode list)
is re-checked by the kernel against what the source says now.  A constant that can no longer be
found is written as a Lean `#eval`-free comment and listed in the JSON report (`missing`): the
Lean build then fails on the first use, which the check reports as a broken tie.
"""
import json, os, re, sys

REPO = os.environ.get("SST_REPO", "/repo")
OUT = os.environ.get("SST_CONSTS_OUT") or os.path.join(os.path.dirname(os.path.abspath(__file__)), "..", "lean", "SstModel", "Generated", "Consts.lean")


def read(name):
    with open(os.path.join(REPO, "src", name)) as f:
        return f.read()


def strip_tests(src):
    i = src.find("#[cfg(test)]\nmod tests")
    return src if i < 0 else src[:i]


def norm(src):
    """comments stripped, whitespace collapsed: patterns below are written against this form and use \\w+ for
    local identifiers, so that renaming a local or re-wrapping a line does not lose a constant"""
    src = re.sub(r"//[^\n]*", "", src)
    return re.sub(r"\s+", " ", src)


def fn_body(src, name):
    """normalised text from `fn name` to the next `fn ` at the same or lower nesting (approximation: next '\n    fn ' / '\nfn ')"""
    m = re.search(r"fn %s\b" % re.escape(name), src)
    if not m:
        return ""
    rest = src[m.start():]
    n = re.search(r"\n\s*(pub )?fn \w+", rest[10:])
    return norm(rest[: n.start() + 10] if n else rest)


def num(s):
    s = s.strip().replace("_", "")
    s = re.sub(r"(u8|u32|u64|usize|i32)$", "", s)
    return int(s, 0)


def main():
    found, missing = {}, []

    def grab(key, src, pat, conv=num, group=1):
        m = re.search(pat, src, re.S)
        if not m:
            missing.append(key)
            return None
        try:
            v = conv(m.group(group))
        except Exception:
            missing.append(key)
            return None
        found[key] = v
        return v

    tb = strip_tests(read("table_builder.rs"))
    grab("footerLength", tb, r"pub const FOOTER_LENGTH: usize = ([0-9a-fx_]+);")
    m = re.search(r"pub const FULL_FOOTER_LENGTH: usize = FOOTER_LENGTH \+ ([0-9]+);", tb)
    if m and "footerLength" in found:
        found["fullFooterLength"] = found["footerLength"] + int(m.group(1))
    else:
        grab("fullFooterLength", tb, r"pub const FULL_FOOTER_LENGTH: usize = ([0-9]+);")
    grab("magicFooterEncoded", tb, r"const MAGIC_FOOTER_ENCODED: \[u8; 8\] = \[([^\]]+)\];",
         lambda s: [num(x) for x in s.split(",") if x.strip()])
    grab("tableBlockCompressLen", tb, r"pub const TABLE_BLOCK_COMPRESS_LEN: usize = ([0-9]+);")
    grab("tableBlockCksumLen", tb, r"pub const TABLE_BLOCK_CKSUM_LEN: usize = ([0-9]+);")

    ty = strip_tests(read("types.rs"))
    grab("maskDelta", ty, r"const MASK_DELTA: u32 = (0x[0-9a-fA-F]+);")
    tyn = norm(ty)
    mk = re.search(r"pub fn mask_crc\(\w+: u32\) -> u32 \{ \((\w+)\.wrapping_shr\((\d+)\) \| \1\.wrapping_shl\((\d+)\)\)\.wrapping_add\(MASK_DELTA\)", tyn)
    mr = re.search(r"pub fn mask_crc\(\w+: u32\) -> u32 \{ \w+\.rotate_right\((\d+)\)\.wrapping_add\(MASK_DELTA\)", tyn)
    if mk:
        found["maskShr"], found["maskShl"] = int(mk.group(2)), int(mk.group(3))
    elif mr:
        found["maskShr"], found["maskShl"] = int(mr.group(1)), 32 - int(mr.group(1))
    else:
        missing.extend(["maskShr", "maskShl"])
    um = re.search(r"let (\w+) = \w+\.wrapping_sub\(MASK_DELTA\); \1\.wrapping_shr\((\d+)\) \| \1\.wrapping_shl\((\d+)\)", tyn)
    ur = re.search(r"\w+\.wrapping_sub\(MASK_DELTA\)\.rotate_(right|left)\((\d+)\)", tyn) or \
        re.search(r"let (\w+) = \w+\.wrapping_sub\(MASK_DELTA\); \1\.rotate_(right|left)\((\d+)\)", tyn)
    if um:
        found["unmaskShr"], found["unmaskShl"] = int(um.group(2)), int(um.group(3))
    elif ur:
        k = int(ur.groups()[-1])
        found["unmaskShr"], found["unmaskShl"] = (k, 32 - k) if ur.groups()[-2] == "right" else (32 - k, k)
    else:
        missing.extend(["unmaskShr", "unmaskShl"])

    fb = strip_tests(read("filter_block.rs"))
    grab("filterBaseLog2", fb, r"const FILTER_BASE_LOG2: u32 = (\d+);")

    tbk = strip_tests(read("table_block.rs"))
    # fix D20: the declared uncompressed length of a snappy block is checked against this multiple of the
    # compressed length before the decoder allocates it
    if re.search(r"let (\w+) = snap::raw::decompress_len\(&(\w+)\)\?; if \1 > \2\.len\(\)\.saturating_mul\(SNAPPY_MAX_EXPANSION\) \{ return err\( ?StatusCode::CompressionError,", norm(tbk)):
        grab("snappyMaxExpansion", tbk, r"const SNAPPY_MAX_EXPANSION: usize = (\d+);")
    else:
        missing.append("snappyMaxExpansion")

    fl = strip_tests(read("filter.rs"))
    grab("bloomSeed", fl, r"const BLOOM_SEED: u32 = (0x[0-9a-fA-F]+);")
    bh = fn_body(fl, "bloom_hash")
    grab("bloomM", bh, r"let \w+: u32 = (0x[0-9a-fA-F]+);")
    grab("bloomR", bh, r"let \w+: u32 = (\d+);")
    grab("bloomMidShift", bh, r"(\w+) \^= \1 >> (\d+);", group=2)
    fln = norm(fl)
    grab("bloomDeltaShr", fln, r"let \w+ = \((\w+) >> (\d+)\) \| \(\1 << \d+\);", group=2)
    grab("bloomDeltaShl", fln, r"let \w+ = \((\w+) >> \d+\) \| \(\1 << (\d+)\);", group=2)
    # k = bits_per_key * 0.69, clamped to [1, 30]; 0.69 is written as a rational 69/100
    grab("bloomKNum", fln, r"\(\w+ as f32 \* 0\.(\d+)\) as u32")
    grab("bloomKMin", fln, r"if (\w+) < (\d+) \{ \1 = \d+; \}", group=2)
    grab("bloomKMax", fln, r"else if (\w+) > (\d+) \{ \1 = \d+; \}", group=2)
    cf = fn_body(fl[fl.find("impl FilterPolicy for BloomPolicy"):], "create_filter")
    km = fn_body(fl[fl.find("impl FilterPolicy for BloomPolicy"):], "key_may_match")
    grab("bloomMinBits", cf, r"if \w+ < (\d+) \{")
    # key_may_match: filters whose probe-count byte exceeds this are treated as "may match" (reserved encodings)
    grab("bloomReaderKMax", km, r"if \w+ > (\d+) \{ return true; \}")
    # width of the integer type in which the number of filter bits is computed (fix D19: u64; before: u32)
    ww = re.search(r"let (\w+) = \w+\.len\(\) as u(\d+) \* 8;", cf) or re.search(r"let (\w+) = \(\w+\.len\(\) \* 8\) as u(\d+);", cf)
    rw = re.search(r"let (\w+) = \(\w+\.len\(\) - 1\) as u(\d+) \* 8;", km)
    if ww and rw:
        widths = [int(ww.group(2)), int(rw.group(2))]
        # the remainder must be taken in the same width; the old code took `h % bits` in u32
        for body, var in ((cf, ww.group(1)), (km, rw.group(1))):
            u = re.search(r"\(\w+ as u(\d+) % " + re.escape(var) + r"\) as usize", body)
            widths.append(int(u.group(1)) if u else 32)
        found["bloomBitsWidth"] = min(widths)
    else:
        missing.append("bloomBitsWidth")
    grab("bloomName", fl, r'impl FilterPolicy for BloomPolicy \{\s*fn name\(&self\) -> &\'static str \{\s*"([^"]+)"', str)
    grab("noFilterName", fl, r'impl FilterPolicy for NoFilterPolicy \{\s*fn name\(&self\) -> &\'static str \{\s*"([^"]+)"', str)

    op = strip_tests(read("options.rs"))
    grab("compressionNone", op, r"CompressionNone = (\d+),")
    grab("compressionSnappy", op, r"CompressionSnappy = (\d+),")
    grab("defaultBlockSize", op, r"const BLOCK_MAX_SIZE: usize = (\d+) \* KB;", lambda s: int(s) * 1024)
    grab("defaultRestartInterval", op, r"block_restart_interval: (\d+),")
    grab("defaultBitsPerKey", op, r"const DEFAULT_BITS_PER_KEY: u32 = (\d+);")
    grab("defaultCompression", op, r"compression_type: CompressionType::(\w+),", str)

    er = strip_tests(read("error.rs"))
    m = re.search(r"pub enum StatusCode \{(.*?)\}", er, re.S)
    if m:
        found["statusCodes"] = [x.strip() for x in m.group(1).replace("\n", " ").split(",") if x.strip()]
    else:
        missing.append("statusCodes")
    ern = norm(er)
    m = re.search(r"impl From<io::Error> for Status \{.*?match \w+(?:\.kind\(\))? \{(.*?)\}", ern)
    if m:
        table = []
        for arm in re.finditer(r"((?:(?:io::)?ErrorKind::\w+ ?\|? ?)+)=> StatusCode::(\w+),", m.group(1)):
            for kind in re.findall(r"ErrorKind::(\w+)", arm.group(1)):
                table.append((kind, arm.group(2)))
        dflt = re.search(r"_ => StatusCode::(\w+),?", m.group(1))
        # canonical order: arms may be reordered or grouped without changing the mapping
        found["ioErrorTable"] = sorted(set(table))
        found["ioErrorDefault"] = dflt.group(1) if dflt else None
        if not dflt:
            missing.append("ioErrorDefault")
    else:
        missing.append("ioErrorTable")
    if re.search(r"impl Display for Status \{ fn fmt\(&self, \w+: &mut Formatter\) -> result::Result<\(\), fmt::Error> \{ (\w+\.write_str\(&self\.err\)|write!\(\w+, \"\{\}\", self\.err\)) \}", ern):
        found["displayWritesErr"] = "err"
    else:
        missing.append("displayWritesErr")

    cm = strip_tests(read("cmp.rs"))
    grab("defaultCmpId", cm, r'fn id\(&self\) -> &\'static str \{\s*"([^"]+)"', str)

    def lean_str(s):
        return '"' + s.replace("\\", "\\\\").replace('"', '\\"') + '"'

    L = ["/- GENERATED by tools/gen_consts.py from /repo/src — do not edit. -/", "namespace Sst.Consts", ""]
    for k in ["footerLength", "fullFooterLength", "tableBlockCompressLen", "tableBlockCksumLen", "maskDelta",
              "maskShr", "maskShl", "unmaskShr", "unmaskShl", "filterBaseLog2", "bloomSeed", "bloomM", "bloomR",
              "bloomMidShift", "bloomDeltaShr", "bloomDeltaShl", "bloomKNum", "bloomKMin", "bloomKMax",
              "bloomMinBits", "bloomReaderKMax", "bloomBitsWidth", "snappyMaxExpansion", "compressionNone", "compressionSnappy", "defaultBlockSize",
              "defaultRestartInterval", "defaultBitsPerKey"]:
        if k in found:
            L.append(f"def {k} : Nat := {found[k]}")
        else:
            L.append(f"-- MISSING: {k}")
    if "magicFooterEncoded" in found:
        L.append("def magicFooterEncoded : List UInt8 := [" + ", ".join(str(x) for x in found["magicFooterEncoded"]) + "]")
    for k in ["bloomName", "noFilterName", "defaultCmpId", "defaultCompression"]:
        if k in found:
            L.append(f"def {k} : String := {lean_str(found[k])}")
        else:
            L.append(f"-- MISSING: {k}")
    if "statusCodes" in found:
        L.append("def statusCodes : List String := [" + ", ".join(lean_str(x) for x in found["statusCodes"]) + "]")
    if "ioErrorTable" in found:
        L.append("def ioErrorTable : List (String × String) := [" + ", ".join(f"({lean_str(a)}, {lean_str(b)})" for a, b in found["ioErrorTable"]) + "]")
    if found.get("ioErrorDefault"):
        L.append(f"def ioErrorDefault : String := {lean_str(found['ioErrorDefault'])}")
    L.append(f"def displayWritesErr : Bool := {'true' if 'displayWritesErr' in found else 'false'}")
    L += ["", "end Sst.Consts", ""]
    text = "\n".join(L)
    out = os.path.normpath(OUT)
    os.makedirs(os.path.dirname(out), exist_ok=True)
    old = open(out).read() if os.path.exists(out) else None
    if old != text:
        with open(out, "w") as f:
            f.write(text)
    json.dump({"found": found, "missing": missing, "changed": old != text, "out": out}, sys.stdout, indent=1)
    print()


if __name__ == "__main__":
    main()
