#!/usr/bin/env python3
"""Translator: constants of /repo/src/*.rs -> lean/SstModel/Generated/Consts.lean.

Runs on every check. The model imports the generated constants, so every theorem that mentions one
(magic number, CRC mask delta and rotations, footer/trailer lengths, filter base, bloom seed and
multiplier, probe-count rule, compression type tags, the io::ErrorKind table, the StatusCode list)
is re-checked by the kernel against what the source says now.  A constant that can no longer be
found is written as a Lean `#eval`-free comment and listed in the JSON report (`missing`): the
Lean build then fails on the first use, which the check reports as a broken tie.
"""
import json, os, re, sys

REPO = os.environ.get("SST_REPO", "/repo")
OUT = os.environ.get("SST_CONSTS_OUT") or os.path.join(os.path.dirname(os.path.abspath(__file__)), "..", "lean", "SstModel", "Generated", "Consts.lean")


def read(name):
    with open(os.path.join(REPO, "src", name)) as f:
        return f.read()


def strip_tests(src):
    i = src.find("#[cfg(test)]\nmod tests")
    return src if i < 0 else src[:i]


def norm(src):
    """comments stripped, whitespace collapsed: patterns below are written against this form and use \\w+ for
    local identifiers, so that renaming a local or re-wrapping a line does not lose a constant"""
    src = re.sub(r"//[^\n]*", "", src)
    return re.sub(r"\s+", " ", src)


def fn_body(src, name):
    """normalised text from `fn name` to the next `fn ` at the same or lower nesting (approximation: next '\n    fn ' / '\nfn ')"""
    m = re.search(r"fn %s\b" % re.escape(name), src)
    if not m:
        return ""
    rest = src[m.start():]
    n = re.search(r"\n\s*(pub )?fn \w+", rest[10:])
    return norm(rest[: n.start() + 10] if n else rest)


def num(s):
    s = s.strip().replace("_", "")
    s = re.sub(r"(u8|u32|u64|usize|i32)$", "", s)
    return int(s, 0)


NUMLIT = r"(?:0x[0-9a-fA-F_]+|0b[01_]+|0o[0-7_]+|[0-9][0-9_]*)(?:u8|u16|u32|u64|usize|i32|i64)?"


class Env:
    """constants of one source file: `const NAME: T = <expr>;` (items and associated consts) and, per function,
    `let name: T = <literal>;` — evaluated with a tiny arithmetic evaluator, so that a constant may be written in
    decimal or hex, through another named constant, or as an expression (`FOOTER_LENGTH + 8`, `4 * KB`, `1 << 11`)"""

    def __init__(self, src):
        self.src = norm(src)
        self.raw = {}
        for m in re.finditer(r"const (\w+): ((?:\[[^\]]*\]|[^=;\[])+?) = ([^;]+);", self.src):
            self.raw[m.group(1)] = m.group(3).strip()

    def value(self, expr, local=None, depth=0):
        if depth > 8:
            raise ValueError("cyclic constant")
        e = expr.strip()
        e = re.sub(r"\bas (u8|u16|u32|u64|usize|i32|i64)\b", "", e)
        e = re.sub(r"\b(?:Self|\w+)::(\w+)\b", r"\1", e)

        def lit(m):
            t = re.sub(r"(u8|u16|u32|u64|usize|i32|i64)$", "", m.group(0)).replace("_", "")
            return str(int(t, 0))
        e = re.sub(r"\b" + NUMLIT + r"\b", lit, e)

        def ident(m):
            n = m.group(0)
            if local and n in local:
                return "(" + str(self.value(local[n], local, depth + 1)) + ")"
            if n in self.raw:
                return "(" + str(self.value(self.raw[n], local, depth + 1)) + ")"
            raise ValueError("unknown identifier " + n)
        e = re.sub(r"\b[A-Za-z_]\w*\b", ident, e)
        if not re.fullmatch(r"[0-9+\-*/<>() ]+", e):
            raise ValueError("not a constant expression: " + expr)
        return int(eval(e.replace("/", "//"), {"__builtins__": {}}, {}))

    def string(self, expr):
        e = expr.strip()
        m = re.fullmatch(r'"([^"]*)"', e)
        if m:
            return m.group(1)
        n = re.sub(r"^(?:Self|\w+)::", "", e)
        if n in self.raw:
            return self.string(self.raw[n])
        raise ValueError("not a string constant: " + expr)


def locals_of(body):
    """`let [mut] name[: T] = <literal or identifier>;` bindings of a normalised function body"""
    out = {}
    for m in re.finditer(r"let (?:mut )?(\w+)(?:: \w+)? = (" + NUMLIT + r"|[A-Z_][A-Z0-9_]*);", body):
        out[m.group(1)] = m.group(2)
    return out


def main():
    found, missing = {}, []

    def put(key, f):
        try:
            v = f()
            if v is None:
                raise ValueError("not found")
            found[key] = v
        except Exception:
            missing.append(key)

    def need(m):
        if not m:
            raise ValueError("pattern not found")
        return m

    tb = strip_tests(read("table_builder.rs"))
    etb = Env(tb)
    put("footerLength", lambda: etb.value("FOOTER_LENGTH"))
    put("fullFooterLength", lambda: etb.value("FULL_FOOTER_LENGTH"))
    put("tableBlockCompressLen", lambda: etb.value("TABLE_BLOCK_COMPRESS_LEN"))
    put("tableBlockCksumLen", lambda: etb.value("TABLE_BLOCK_CKSUM_LEN"))

    def magic():
        e = etb.raw["MAGIC_FOOTER_ENCODED"]
        m = re.fullmatch(r"\[(.*)\]", e)
        if m:
            return [etb.value(x) for x in m.group(1).split(",") if x.strip()]
        m = need(re.fullmatch(r"(.+)\.to_le_bytes\(\)", e))
        return list(etb.value(m.group(1)).to_bytes(8, "little"))
    put("magicFooterEncoded", magic)

    ty = strip_tests(read("types.rs"))
    ety = Env(ty)
    put("maskDelta", lambda: ety.value("MASK_DELTA"))
    tyn = ety.src
    mk = re.search(r"pub fn mask_crc\(\w+: u32\) -> u32 \{ \((\w+)\.wrapping_shr\((\d+)\) \| \1\.wrapping_shl\((\d+)\)\)\.wrapping_add\(MASK_DELTA\)", tyn)
    mr = re.search(r"pub fn mask_crc\(\w+: u32\) -> u32 \{ \w+\.rotate_(right|left)\((\d+)\)\.wrapping_add\(MASK_DELTA\)", tyn)
    if mk:
        found["maskShr"], found["maskShl"] = int(mk.group(2)), int(mk.group(3))
    elif mr:
        k = int(mr.group(2))
        found["maskShr"], found["maskShl"] = (k, 32 - k) if mr.group(1) == "right" else (32 - k, k)
    else:
        missing.extend(["maskShr", "maskShl"])
    um = re.search(r"let (\w+) = \w+\.wrapping_sub\(MASK_DELTA\); \1\.wrapping_shr\((\d+)\) \| \1\.wrapping_shl\((\d+)\)", tyn)
    ur = re.search(r"\w+\.wrapping_sub\(MASK_DELTA\)\.rotate_(right|left)\((\d+)\)", tyn) or \
        re.search(r"let (\w+) = \w+\.wrapping_sub\(MASK_DELTA\); \1\.rotate_(right|left)\((\d+)\)", tyn)
    if um:
        found["unmaskShr"], found["unmaskShl"] = int(um.group(2)), int(um.group(3))
    elif ur:
        k = int(ur.groups()[-1])
        found["unmaskShr"], found["unmaskShl"] = (k, 32 - k) if ur.groups()[-2] == "right" else (32 - k, k)
    else:
        missing.extend(["unmaskShr", "unmaskShl"])

    fb = strip_tests(read("filter_block.rs"))
    put("filterBaseLog2", lambda: Env(fb).value("FILTER_BASE_LOG2"))

    tbk = strip_tests(read("table_block.rs"))
    etk = Env(tbk)
    # fix D20: the declared uncompressed length of a snappy block is checked against a multiple of the compressed
    # length before the decoder allocates it
    put("snappyMaxExpansion", lambda: etk.value(need(re.search(
        r"let (\w+) = snap::raw::decompress_len\(&(\w+)\)\?; if \1 > \2\.len\(\)\.saturating_mul\(([\w:]+)\) \{ return err\( ?StatusCode::CompressionError,",
        etk.src)).group(3)))

    fl = strip_tests(read("filter.rs"))
    efl = Env(fl)
    fln = efl.src
    bh = fn_body(fl, "bloom_hash")
    lbh = locals_of(bh)
    put("bloomSeed", lambda: efl.value("BLOOM_SEED"))
    # the multiplier: `h = (h as u64 * <m> as u64) as u32`
    put("bloomM", lambda: efl.value(need(re.search(r"\((\w+) as u64 \* ([\w:]+) as u64\) as u32", bh)).group(2), lbh))
    shifts = re.findall(r"(\w+) \^= \1 >> ([\w:]+);", bh)
    put("bloomMidShift", lambda: efl.value(shifts[0][1], lbh))
    put("bloomR", lambda: efl.value(shifts[-1][1], lbh) if len(shifts) >= 2 else None)

    def delta():
        m = re.search(r"let \w+ = \((\w+) >> (\d+)\) \| \(\1 << (\d+)\);", fln)
        if m:
            return int(m.group(2)), int(m.group(3))
        m = need(re.search(r"let \w+ = \w+\.rotate_(right|left)\((\d+)\);", fln))
        k = int(m.group(2))
        return (k, 32 - k) if m.group(1) == "right" else (32 - k, k)
    put("bloomDeltaShr", lambda: delta()[0])
    put("bloomDeltaShl", lambda: delta()[1])
    # k = bits_per_key * 0.69, clamped to [1, 30]; 0.69 is written as a rational 69/100
    nu = fn_body(fl, "new_unwrapped")
    put("bloomKNum", lambda: int(need(re.search(r"\(\w+ as f32 \* 0\.(\d+)\) as u32", nu)).group(1)))

    def clamp():
        m = re.search(r"if (\w+) < ([\w:]+) \{ \1 = ([\w:]+); \} else if \1 > ([\w:]+) \{ \1 = ([\w:]+); \}", nu)
        if m:
            lo, lo2, hi, hi2 = (efl.value(m.group(i)) for i in (2, 3, 4, 5))
            if lo != lo2 or hi != hi2:
                raise ValueError("clamp bounds differ from the values assigned")
            return lo, hi
        m = re.search(r"\.clamp\(([\w:]+), ([\w:]+)\)", nu)
        if m:
            return efl.value(m.group(1)), efl.value(m.group(2))
        m = need(re.search(r"\.max\(([\w:]+)\)\.min\(([\w:]+)\)", nu))
        return efl.value(m.group(1)), efl.value(m.group(2))
    put("bloomKMin", lambda: clamp()[0])
    put("bloomKMax", lambda: clamp()[1])
    impl = fl[fl.find("impl FilterPolicy for BloomPolicy"):]
    cf = fn_body(impl, "create_filter")
    km = fn_body(impl, "key_may_match")
    put("bloomMinBits", lambda: efl.value(need(re.search(r"if \w+ < ([\w:]+) \{", cf)).group(1), locals_of(cf)))
    # key_may_match: filters whose probe-count byte exceeds this are treated as "may match" (reserved encodings)
    put("bloomReaderKMax", lambda: efl.value(need(re.search(r"if \w+ > ([\w:]+) \{ return true; \}", km)).group(1), locals_of(km)))
    # width of the integer type in which the number of filter bits is computed (fix D19: u64; before: u32)
    ww = re.search(r"let (\w+) = \w+\.len\(\) as u(\d+) \* 8;", cf) or re.search(r"let (\w+) = \(\w+\.len\(\) \* 8\) as u(\d+);", cf)
    rw = re.search(r"let (\w+) = \(\w+\.len\(\) - 1\) as u(\d+) \* 8;", km)
    if ww and rw:
        widths = [int(ww.group(2)), int(rw.group(2))]
        # the remainder must be taken in the same width; the old code took `h % bits` in u32
        for body, var in ((cf, ww.group(1)), (km, rw.group(1))):
            u = re.search(r"\(\w+ as u(\d+) % " + re.escape(var) + r"\) as usize", body)
            widths.append(int(u.group(1)) if u else 32)
        found["bloomBitsWidth"] = min(widths)
    else:
        missing.append("bloomBitsWidth")

    def name_of(impl_of):
        body = fn_body(fl[fl.find("impl FilterPolicy for " + impl_of):], "name")
        return efl.string(need(re.search(r"-> &'static str \{ (.+?) \}", body)).group(1))
    put("bloomName", lambda: name_of("BloomPolicy"))
    put("noFilterName", lambda: name_of("NoFilterPolicy"))

    op = strip_tests(read("options.rs"))
    eop = Env(op)
    opn = eop.src
    put("compressionNone", lambda: eop.value(need(re.search(r"CompressionNone = ([\w:]+),", opn)).group(1)))
    put("compressionSnappy", lambda: eop.value(need(re.search(r"CompressionSnappy = ([\w:]+),", opn)).group(1)))
    dfl = opn[opn.find("impl Default for Options"):]
    put("defaultBlockSize", lambda: eop.value(need(re.search(r"\bblock_size: ([^,]+),", dfl)).group(1)))
    put("defaultRestartInterval", lambda: eop.value(need(re.search(r"block_restart_interval: ([^,]+),", dfl)).group(1)))
    put("defaultBitsPerKey", lambda: eop.value("DEFAULT_BITS_PER_KEY"))
    put("defaultCompression", lambda: need(re.search(r"compression_type: CompressionType::(\w+),", dfl)).group(1))

    er = strip_tests(read("error.rs"))
    m = re.search(r"pub enum StatusCode \{(.*?)\}", er, re.S)
    if m:
        found["statusCodes"] = [x.strip() for x in m.group(1).replace("\n", " ").split(",") if x.strip()]
    else:
        missing.append("statusCodes")
    ern = norm(er)
    m = re.search(r"impl From<io::Error> for Status \{.*?match \w+(?:\.kind\(\))? \{(.*?)\}", ern)
    if m:
        table = []
        for arm in re.finditer(r"((?:(?:io::)?ErrorKind::\w+ ?\|? ?)+)=> StatusCode::(\w+),", m.group(1)):
            for kind in re.findall(r"ErrorKind::(\w+)", arm.group(1)):
                table.append((kind, arm.group(2)))
        dflt = re.search(r"_ => StatusCode::(\w+),?", m.group(1))
        # canonical order: arms may be reordered or grouped without changing the mapping
        found["ioErrorTable"] = sorted(set(table))
        found["ioErrorDefault"] = dflt.group(1) if dflt else None
        if not dflt:
            missing.append("ioErrorDefault")
    else:
        missing.append("ioErrorTable")
    if re.search(r"impl Display for Status \{ fn fmt\(&self, (\w+): &mut Formatter\) -> result::Result<\(\), fmt::Error> \{ (\1\.write_str\(&self\.err\)|write!\(\1, \"\{\}\", self\.err\)) \}", ern):
        found["displayWritesErr"] = "err"
    else:
        missing.append("displayWritesErr")

    cm = strip_tests(read("cmp.rs"))
    ecm = Env(cm)
    put("defaultCmpId", lambda: ecm.string(need(re.search(r"fn id\(&self\) -> &'static str \{ (.+?) \}", fn_body(cm[cm.find("impl Cmp for DefaultCmp"):], "id"))).group(1)))

    def lean_str(s):
        return '"' + s.replace("\\", "\\\\").replace('"', '\\"') + '"'

    L = ["/- GENERATED by tools/gen_consts.py from /repo/src — do not edit. -/", "namespace Sst.Consts", ""]
    for k in ["footerLength", "fullFooterLength", "tableBlockCompressLen", "tableBlockCksumLen", "maskDelta",
              "maskShr", "maskShl", "unmaskShr", "unmaskShl", "filterBaseLog2", "bloomSeed", "bloomM", "bloomR",
              "bloomMidShift", "bloomDeltaShr", "bloomDeltaShl", "bloomKNum", "bloomKMin", "bloomKMax",
              "bloomMinBits", "bloomReaderKMax", "bloomBitsWidth", "snappyMaxExpansion", "compressionNone", "compressionSnappy", "defaultBlockSize",
              "defaultRestartInterval", "defaultBitsPerKey"]:
        if k in found:
            L.append(f"def {k} : Nat := {found[k]}")
        else:
            L.append(f"-- MISSING: {k}")
    if "magicFooterEncoded" in found:
        L.append("def magicFooterEncoded : List UInt8 := [" + ", ".join(str(x) for x in found["magicFooterEncoded"]) + "]")
    for k in ["bloomName", "noFilterName", "defaultCmpId", "defaultCompression"]:
        if k in found:
            L.append(f"def {k} : String := {lean_str(found[k])}")
        else:
            L.append(f"-- MISSING: {k}")
    if "statusCodes" in found:
        L.append("def statusCodes : List String := [" + ", ".join(lean_str(x) for x in found["statusCodes"]) + "]")
    if "ioErrorTable" in found:
        L.append("def ioErrorTable : List (String × String) := [" + ", ".join(f"({lean_str(a)}, {lean_str(b)})" for a, b in found["ioErrorTable"]) + "]")
    if found.get("ioErrorDefault"):
        L.append(f"def ioErrorDefault : String := {lean_str(found['ioErrorDefault'])}")
    L.append(f"def displayWritesErr : Bool := {'true' if 'displayWritesErr' in found else 'false'}")
    L += ["", "end Sst.Consts", ""]
    text = "\n".join(L)
    out = os.path.normpath(OUT)
    os.makedirs(os.path.dirname(out), exist_ok=True)
    old = open(out).read() if os.path.exists(out) else None
    if old != text:
        with open(out, "w") as f:
            f.write(text)
    json.dump({"found": found, "missing": missing, "changed": old != text, "out": out}, sys.stdout, indent=1)
    print()


if __name__ == "__main__":
    main()
