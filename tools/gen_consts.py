#!/usr/bin/env python3
"""Translator: constants of /repo/src/*.rs -> lean/SstModel/Generated/Consts.lean.

Runs on every check. The model imports the generated constants, so every theorem that mentions one
(magic number, CRC mask delta and rotations, footer/trailer lengths, filter base, bloom seed and
multiplier, probe-count rule, compression type tags, the io::ErrorKind table, the StatusCode list)
is re-checked by the kernel against what the source says now.  A constant that can no longer be
found is written as a Lean `#eval`-free comment and listed in the JSON report (`missing`): the
Lean build then fails on the first use, which the check reports as a broken tie.
"""
import json, os, re, sys

REPO = os.environ.get("SST_REPO", "/repo")
OUT = os.environ.get("SST_CONSTS_OUT") or os.path.join(os.path.dirname(os.path.abspath(__file__)), "..", "lean", "SstModel", "Generated", "Consts.lean")


def read(name):
    with open(os.path.join(REPO, "src", name)) as f:
        return f.read()


def strip_tests(src):
    i = src.find("#[cfg(test)]\nmod tests")
    return src if i < 0 else src[:i]


def num(s):
    s = s.strip().replace("_", "")
    s = re.sub(r"(u8|u32|u64|usize|i32)$", "", s)
    return int(s, 0)


def main():
    found, missing = {}, []

    def grab(key, src, pat, conv=num, group=1):
        m = re.search(pat, src, re.S)
        if not m:
            missing.append(key)
            return None
        try:
            v = conv(m.group(group))
        except Exception:
            missing.append(key)
            return None
        found[key] = v
        return v

    tb = strip_tests(read("table_builder.rs"))
    grab("footerLength", tb, r"pub const FOOTER_LENGTH: usize = ([0-9a-fx_]+);")
    m = re.search(r"pub const FULL_FOOTER_LENGTH: usize = FOOTER_LENGTH \+ ([0-9]+);", tb)
    if m and "footerLength" in found:
        found["fullFooterLength"] = found["footerLength"] + int(m.group(1))
    else:
        grab("fullFooterLength", tb, r"pub const FULL_FOOTER_LENGTH: usize = ([0-9]+);")
    grab("magicFooterEncoded", tb, r"const MAGIC_FOOTER_ENCODED: \[u8; 8\] = \[([^\]]+)\];",
         lambda s: [num(x) for x in s.split(",") if x.strip()])
    grab("tableBlockCompressLen", tb, r"pub const TABLE_BLOCK_COMPRESS_LEN: usize = ([0-9]+);")
    grab("tableBlockCksumLen", tb, r"pub const TABLE_BLOCK_CKSUM_LEN: usize = ([0-9]+);")

    ty = strip_tests(read("types.rs"))
    grab("maskDelta", ty, r"const MASK_DELTA: u32 = (0x[0-9a-fA-F]+);")
    grab("maskShr", ty, r"pub fn mask_crc\(c: u32\) -> u32 \{\s*\(c\.wrapping_shr\((\d+)\) \| c\.wrapping_shl\(\d+\)\)\.wrapping_add\(MASK_DELTA\)")
    grab("maskShl", ty, r"pub fn mask_crc\(c: u32\) -> u32 \{\s*\(c\.wrapping_shr\(\d+\) \| c\.wrapping_shl\((\d+)\)\)\.wrapping_add\(MASK_DELTA\)")
    grab("unmaskShr", ty, r"let rot = mc\.wrapping_sub\(MASK_DELTA\);\s*rot\.wrapping_shr\((\d+)\) \| rot\.wrapping_shl\(\d+\)")
    grab("unmaskShl", ty, r"let rot = mc\.wrapping_sub\(MASK_DELTA\);\s*rot\.wrapping_shr\(\d+\) \| rot\.wrapping_shl\((\d+)\)")

    fb = strip_tests(read("filter_block.rs"))
    grab("filterBaseLog2", fb, r"const FILTER_BASE_LOG2: u32 = (\d+);")

    tbk = strip_tests(read("table_block.rs"))
    # fix D20: the declared uncompressed length of a snappy block is checked against this multiple of the
    # compressed length before the decoder allocates it
    if re.search(r"let declared = snap::raw::decompress_len\(&buf\)\?;\s*if declared > buf\.len\(\)\.saturating_mul\(SNAPPY_MAX_EXPANSION\) \{\s*return err\(\s*StatusCode::CompressionError,", tbk):
        grab("snappyMaxExpansion", tbk, r"const SNAPPY_MAX_EXPANSION: usize = (\d+);")
    else:
        missing.append("snappyMaxExpansion")

    fl = strip_tests(read("filter.rs"))
    grab("bloomSeed", fl, r"const BLOOM_SEED: u32 = (0x[0-9a-fA-F]+);")
    grab("bloomM", fl, r"let m: u32 = (0x[0-9a-fA-F]+);")
    grab("bloomR", fl, r"let r: u32 = (\d+);")
    grab("bloomMidShift", fl, r"h \^= h >> (\d+);\s*\}\s*// Process left-over")
    grab("bloomDeltaShr", fl, r"let delta = \(h >> (\d+)\) \| \(h << \d+\);")
    grab("bloomDeltaShl", fl, r"let delta = \(h >> \d+\) \| \(h << (\d+)\);")
    # k = bits_per_key * 0.69, clamped to [1, 30]; 0.69 is written as a rational 69/100
    grab("bloomKNum", fl, r"let mut k = \(bits_per_key as f32 \* 0\.(\d+)\) as u32;")
    grab("bloomKMin", fl, r"if k < (\d+) \{\s*k = \d+;")
    grab("bloomKMax", fl, r"else if k > (\d+) \{\s*k = \d+;")
    grab("bloomMinBits", fl, r"if filter_bits < (\d+) \{")
    # key_may_match: filters whose probe-count byte exceeds this are treated as "may match" (reserved encodings)
    grab("bloomReaderKMax", fl, r"if k > (\d+) \{\s*return true;")
    # width of the integer type in which the number of filter bits is computed (fix D19: u64; before: u32)
    ww = re.search(r"let adj_filter_bits = filter\.len\(\) as u(\d+) \* 8;", fl) or re.search(r"let adj_filter_bits = \(filter\.len\(\) \* 8\) as u(\d+);", fl)
    rw = re.search(r"let bits = \(filter\.len\(\) - 1\) as u(\d+) \* 8;", fl)
    wuse = re.search(r"let bitpos = \(h as u(\d+) % adj_filter_bits\) as usize;", fl)
    ruse = re.search(r"let bitpos = \(h as u(\d+) % bits\) as usize;", fl)
    if ww and rw:
        widths = [int(ww.group(1)), int(rw.group(1))]
        # the remainder must be taken in the same width (otherwise the expression would not even type-check
        # for u64 counts); the old code took `h % bits` in u32
        for u in (wuse, ruse):
            if u:
                widths.append(int(u.group(1)))
            else:
                widths.append(32)
        found["bloomBitsWidth"] = min(widths)
    else:
        missing.append("bloomBitsWidth")
    grab("bloomName", fl, r'impl FilterPolicy for BloomPolicy \{\s*fn name\(&self\) -> &\'static str \{\s*"([^"]+)"', str)
    grab("noFilterName", fl, r'impl FilterPolicy for NoFilterPolicy \{\s*fn name\(&self\) -> &\'static str \{\s*"([^"]+)"', str)

    op = strip_tests(read("options.rs"))
    grab("compressionNone", op, r"CompressionNone = (\d+),")
    grab("compressionSnappy", op, r"CompressionSnappy = (\d+),")
    grab("defaultBlockSize", op, r"const BLOCK_MAX_SIZE: usize = (\d+) \* KB;", lambda s: int(s) * 1024)
    grab("defaultRestartInterval", op, r"block_restart_interval: (\d+),")
    grab("defaultBitsPerKey", op, r"const DEFAULT_BITS_PER_KEY: u32 = (\d+);")
    grab("defaultCompression", op, r"compression_type: CompressionType::(\w+),", str)

    er = strip_tests(read("error.rs"))
    m = re.search(r"pub enum StatusCode \{(.*?)\}", er, re.S)
    if m:
        found["statusCodes"] = [x.strip() for x in m.group(1).replace("\n", " ").split(",") if x.strip()]
    else:
        missing.append("statusCodes")
    m = re.search(r"let c = match e\.kind\(\) \{(.*?)\};", er, re.S)
    if m:
        table = re.findall(r"io::ErrorKind::(\w+) => StatusCode::(\w+),", m.group(1))
        dflt = re.search(r"_ => StatusCode::(\w+),", m.group(1))
        found["ioErrorTable"] = table
        found["ioErrorDefault"] = dflt.group(1) if dflt else None
        if not dflt:
            missing.append("ioErrorDefault")
    else:
        missing.append("ioErrorTable")
    grab("displayWritesErr", er, r"impl Display for Status \{\s*fn fmt\(&self, fmt: &mut Formatter\) -> result::Result<\(\), fmt::Error> \{\s*fmt\.write_str\(&self\.(err)\)", str)

    cm = strip_tests(read("cmp.rs"))
    grab("defaultCmpId", cm, r'fn id\(&self\) -> &\'static str \{\s*"([^"]+)"', str)

    def lean_str(s):
        return '"' + s.replace("\\", "\\\\").replace('"', '\\"') + '"'

    L = ["/- GENERATED by tools/gen_consts.py from /repo/src — do not edit. -/", "namespace Sst.Consts", ""]
    for k in ["footerLength", "fullFooterLength", "tableBlockCompressLen", "tableBlockCksumLen", "maskDelta",
              "maskShr", "maskShl", "unmaskShr", "unmaskShl", "filterBaseLog2", "bloomSeed", "bloomM", "bloomR",
              "bloomMidShift", "bloomDeltaShr", "bloomDeltaShl", "bloomKNum", "bloomKMin", "bloomKMax",
              "bloomMinBits", "bloomReaderKMax", "bloomBitsWidth", "snappyMaxExpansion", "compressionNone", "compressionSnappy", "defaultBlockSize",
              "defaultRestartInterval", "defaultBitsPerKey"]:
        if k in found:
            L.append(f"def {k} : Nat := {found[k]}")
        else:
            L.append(f"-- MISSING: {k}")
    if "magicFooterEncoded" in found:
        L.append("def magicFooterEncoded : List UInt8 := [" + ", ".join(str(x) for x in found["magicFooterEncoded"]) + "]")
    for k in ["bloomName", "noFilterName", "defaultCmpId", "defaultCompression"]:
        if k in found:
            L.append(f"def {k} : String := {lean_str(found[k])}")
        else:
            L.append(f"-- MISSING: {k}")
    if "statusCodes" in found:
        L.append("def statusCodes : List String := [" + ", ".join(lean_str(x) for x in found["statusCodes"]) + "]")
    if "ioErrorTable" in found:
        L.append("def ioErrorTable : List (String × String) := [" + ", ".join(f"({lean_str(a)}, {lean_str(b)})" for a, b in found["ioErrorTable"]) + "]")
    if found.get("ioErrorDefault"):
        L.append(f"def ioErrorDefault : String := {lean_str(found['ioErrorDefault'])}")
    L.append(f"def displayWritesErr : Bool := {'true' if 'displayWritesErr' in found else 'false'}")
    L += ["", "end Sst.Consts", ""]
    text = "\n".join(L)
    out = os.path.normpath(OUT)
    os.makedirs(os.path.dirname(out), exist_ok=True)
    old = open(out).read() if os.path.exists(out) else None
    if old != text:
        with open(out, "w") as f:
            f.write(text)
    json.dump({"found": found, "missing": missing, "changed": old != text, "out": out}, sys.stdout, indent=1)
    print()


if __name__ == "__main__":
    main()
