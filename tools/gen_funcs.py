#!/usr/bin/env python3
"""Function-level translator: a whitelisted set of small Rust functions of /repo/src is parsed (tokenizer +
recursive-descent parser for the statement/expression subset they use) and re-emitted, statement by statement,
as Lean definitions over the runtime vocabulary `Sst.Rt` (lean/SstModel/Model/RustRt.lean).

Output: lean/SstModel/Generated/Funcs.lean, REGENERATED ON EVERY RUN.  `Props/FuncsTie.lean` proves, for every
input, that each generated definition equals the hand-written model function the property theorems are about;
a change of the Rust function changes the generated definition and the equality is re-checked by the kernel.

A function the translator cannot parse or type is emitted as a comment `-- UNTRANSLATABLE <name>: <reason>`
(the tie theorem then no longer builds and the check reports the broken tie by name).

usage: gen_funcs.py [--src DIR] [--out FILE] [--check]   (--check: print the result, do not write)
"""
import os, re, sys

SRC = "/repo/src"
OUT = os.path.join(os.path.dirname(os.path.abspath(__file__)), "..", "lean", "SstModel", "Generated", "Funcs.lean")

# (file, rust fn name, lean name, self fields passed as parameters {field: type})
# (file, impl header the function must be inside of (regex) or None, rust fn name, lean name, self fields passed as parameters)
TARGETS = [
    ("types.rs", None, "mask_crc", "mask_crc", {}),
    ("types.rs", None, "unmask_crc", "unmask_crc", {}),
    ("filter_block.rs", None, "get_filter_index", "get_filter_index", {}),
    ("cmp.rs", r"impl\s+Cmp\s+for\s+DefaultCmp", "find_shortest_sep", "find_shortest_sep", {}),
    ("cmp.rs", r"impl\s+Cmp\s+for\s+DefaultCmp", "find_short_succ", "find_short_succ", {}),
    ("filter.rs", r"impl\s+BloomPolicy", "bloom_hash", "bloom_hash", {}),
    ("filter.rs", r"impl\s+FilterPolicy\s+for\s+BloomPolicy", "key_may_match", "bloom_key_may_match", {}),
    ("filter.rs", r"impl\s+FilterPolicy\s+for\s+BloomPolicy", "create_filter", "bloom_create_filter", {"bits_per_key": "u32", "k": "u32"}),
    ("filter_block.rs", r"impl\s+FilterBlockReader", "is_well_formed", "fbr_is_well_formed", {}),
    ("filter_block.rs", r"impl\s+FilterBlockReader", "num", "fbr_num", {"block": "bytes", "offsets_offset": "usize"}),
    ("filter_block.rs", r"impl\s+FilterBlockReader", "offset_of", "fbr_offset_of", {"block": "bytes", "offsets_offset": "usize"}),
    ("filter_block.rs", r"impl\s+FilterBlockReader", "key_may_match", "fbr_key_may_match",
     {"block": "bytes", "offsets_offset": "usize", "filter_base_lg2": "u32", "policy": "policy"}),
]

# methods translated over a model structure: `self.f` reads/writes become reads/updates of the Lean structure value
STRUCTS = {
    "BlockIter": {"lean": "BlockIter",
                  "fields": {"block": ("block", "bytes"), "restarts_off": ("restartsOff", "usize"), "offset": ("offset", "usize"),
                             "current_entry_offset": ("curEntryOff", "usize"), "current_restart_ix": ("curRestartIx", "usize"),
                             "key": ("key", "bytes"), "val_offset": ("valOffset", "usize")},
                  "cmp_field": "cmp"},
}
# plain value structures built with struct literals
VALUE_STRUCTS = {"BlockHandle": {"lean": "BlockHandle", "fields": {"offset": "offset", "size": "size"}},
                 "Footer": {"lean": "Footer", "fields": {"meta_index": "metaIndex", "index": "index"}}}
STRUCTS["BlockBuilder"] = {"lean": "BlockBuilder", "cmp_param": True,
                           "fields": {"buffer": ("buffer", "bytes"), "restarts": ("restarts", "natlist"), "last_key": ("lastKey", "bytes"),
                                      "restart_counter": ("restartCounter", "usize"), "counter": ("counter", "usize")},
                           "nested": {("opt", "block_restart_interval"): ("restartInterval", "usize")}}
_BI = r"impl\s+(?:SSIterator\s+for\s+)?BlockIter"
TARGETS += [
    ("block.rs", _BI, "number_restarts", "bi_number_restarts", {}, "BlockIter"),
    ("block.rs", _BI, "get_restart_point", "bi_get_restart_point", {}, "BlockIter"),
    ("block.rs", _BI, "reset", "bi_reset", {}, "BlockIter"),
    ("block.rs", _BI, "valid", "bi_valid", {}, "BlockIter"),
    ("block.rs", _BI, "parse_entry_and_advance", "bi_parse_entry_and_advance", {}, "BlockIter"),
    ("block.rs", _BI, "assemble_key", "bi_assemble_key", {}, "BlockIter"),
    ("block.rs", _BI, "seek_to_restart_point", "bi_seek_to_restart_point", {}, "BlockIter"),
    ("block.rs", _BI, "advance", "bi_advance", {}, "BlockIter"),
    ("block.rs", _BI, "seek_to_last", "bi_seek_to_last", {}, "BlockIter"),
    ("block.rs", _BI, "prev", "bi_prev", {}, "BlockIter"),
    ("table_reader.rs", r"impl\s+Table\b", "block_cache_handle", "table_block_cache_handle", {"cache_id": "u64"}),
    ("blockhandle.rs", r"impl\s+BlockHandle", "try_decode", "bh_try_decode", {}),
    ("table_builder.rs", r"impl\s+Footer", "try_decode", "footer_try_decode", {}),
    ("block.rs", _BI, "current", "bi_current", {}, "BlockIter"),
    ("types.rs", r"pub\s+trait\s+SSIterator", "next", "bi_next", {}, "BlockIter"),
    ("block.rs", _BI, "seek", "bi_seek", {}, "BlockIter"),
    ("block.rs", r"impl\s+Block\b", "is_well_formed", "block_is_well_formed", {}),
    ("block_builder.rs", r"impl\s+BlockBuilder", "entries", "bb_entries", {}, "BlockBuilder"),
    ("block_builder.rs", r"impl\s+BlockBuilder", "size_estimate", "bb_size_estimate", {}, "BlockBuilder"),
    ("block_builder.rs", r"impl\s+BlockBuilder", "add", "bb_add", {}, "BlockBuilder"),
    ("block_builder.rs", r"impl\s+BlockBuilder", "finish", "bb_finish", {}, "BlockBuilder"),
]

WIDTH = {"u8": 8, "u32": 32, "u64": 64, "usize": 64}
INTS = set(WIDTH)


class Untranslatable(Exception):
    pass


# ------------------------------------------------------------------------------------------ tokenizer
TOK = re.compile(r"""
    (?P<ws>\s+|//[^\n]*|/\*.*?\*/)
  | (?P<num>0x[0-9a-fA-F_]+(?:u8|u32|u64|usize|i32)?|[0-9][0-9_]*(?:u8|u32|u64|usize|i32)?)
  | (?P<id>[A-Za-z_][A-Za-z0-9_]*!?)
  | (?P<life>'[a-z_]+\b(?!'))
  | (?P<chr>b'(?:\\.|[^'])')
  | (?P<str>"(?:\\.|[^"\\])*")
  | (?P<op><<=|>>=|\.\.=|==|!=|<=|>=|&&|\|\||<<|>>|\+=|-=|\*=|/=|%=|\|=|\^=|&=|\.\.|::|->|=>|[-+*/%&|^!<>=.,;:(){}\[\]#?])
""", re.X | re.S)


def tokenize(s):
    out, i = [], 0
    while i < len(s):
        m = TOK.match(s, i)
        if not m:
            raise Untranslatable("cannot tokenize at %r" % s[i:i + 20])
        i = m.end()
        k = m.lastgroup
        if k == "ws":
            continue
        out.append((k, m.group(k)))
    return out


def strip_tests(text):
    i = text.find("#[cfg(test)]")
    return text if i < 0 else text[:i]


def brace_block(text, j):
    """index just behind the `}` matching the `{` at j"""
    depth, k = 0, j
    while k < len(text):
        c = text[k]
        if c == "{":
            depth += 1
        elif c == "}":
            depth -= 1
            if depth == 0:
                return k + 1
        k += 1
    raise Untranslatable("unbalanced braces")


def strip_comments(text):
    return re.sub(r"//[^\n]*|/\*.*?\*/", lambda m: " " * len(m.group(0)) if "\n" not in m.group(0) else re.sub(r"[^\n]", " ", m.group(0)), text, flags=re.S)


def find_fn(text, impl, name):
    """source text of `fn name(...) ... { body }`, inside the impl block whose header matches `impl` (any such
    block; #[cfg(sstable_verif)] hook blocks are never searched first because they only wrap)"""
    text = strip_comments(text)
    scopes = [text]
    if impl is not None:
        scopes = []
        for m in re.finditer(impl + r"\b[^{;]*\{", text):
            j = m.end() - 1
            scopes.append(text[j:brace_block(text, j)])
        if not scopes:
            raise Untranslatable("impl block not found")
    for sc in scopes:
        for m in re.finditer(r"\bfn\s+%s\s*[(<]" % re.escape(name), sc):
            i = m.start()
            j = sc.find("{", i)
            semi = sc.find(";", i)
            if j < 0 or (0 <= semi < j):
                continue          # a declaration without body (trait method)
            return sc[i:brace_block(sc, j)]
    raise Untranslatable("function not found")


def collect_consts(text):
    """`const NAME: T = expr;` at any level -> {NAME: (type, expr text)}"""
    env = {}
    for m in re.finditer(r"\bconst\s+([A-Z_][A-Z0-9_]*)\s*:\s*([A-Za-z0-9_]+)\s*=\s*([^;]+);", text):
        env[m.group(1)] = (m.group(2), m.group(3).strip())
    for m in re.finditer(r"\bconst\s+([A-Z_][A-Z0-9_]*)\s*:\s*\[\s*u8\s*;[^\]]*\]\s*=\s*(\[[^;]+\]);", text):
        env[m.group(1)] = ("bytes", m.group(2).strip())
    return env


# ------------------------------------------------------------------------------------------ parser
class P:
    def __init__(self, toks):
        self.t, self.i = toks, 0

    def peek(self, k=0):
        return self.t[self.i + k] if self.i + k < len(self.t) else ("eof", "")

    def next(self):
        x = self.peek()
        self.i += 1
        return x

    def at(self, v):
        return self.peek()[1] == v

    def eat(self, v):
        if self.at(v):
            self.i += 1
            return True
        return False

    def expect(self, v):
        if not self.eat(v):
            raise Untranslatable("expected %r, found %r" % (v, self.peek()[1]))

    # ---- types
    def ty(self):
        if self.eat("&"):
            if self.peek()[0] == "life":
                self.next()
            self.eat("mut")
            return self.ty()
        if self.eat("["):
            t = self.ty()
            if self.eat(";"):
                self.expr()
            self.expect("]")
            return "bytes" if t == "u8" else ("usizelist" if t == "usize" else ("natlist" if t in INTS else ("list", t)))
        if self.eat("("):
            ts = []
            while not self.at(")"):
                ts.append(self.ty())
                self.eat(",")
            self.expect(")")
            return ("tuple", tuple(ts))
        k, v = self.next()
        if k != "id":
            raise Untranslatable("type expected, found %r" % v)
        while self.at("::"):
            self.next()
            k, v = self.next()
        if v == "CacheKey":
            return "bytes"
        if v == "CacheID":
            return "u64"
        if v == "Vec":
            self.expect("<")
            t = self.ty()
            self.expect(">")
            return "bytes" if t == "u8" else ("natlist" if t in INTS else ("list", t))
        if v == "BlockContents":
            return "bytes"
        if v in VALUE_STRUCTS:
            return "vstruct:" + v
        if v == "Option":
            self.expect("<")
            t = self.ty()
            self.expect(">")
            return ("option", t)
        if v in INTS or v == "bool":
            return v
        if len(v) == 1 and v.isupper():
            return "closure"
        if v == "Ordering":
            return "ordering"
        raise Untranslatable("unsupported type %s" % v)

    # ---- function
    def function(self):
        self.expect("fn")
        name = self.next()[1]
        if self.at("<"):
            depth = 0
            while True:
                v = self.next()[1]
                if v == "<":
                    depth += 1
                elif v == ">":
                    depth -= 1
                    if depth == 0:
                        break
                elif v == ">>":
                    depth -= 2
                    if depth <= 0:
                        break
        self.expect("(")
        params = []
        self.selfkind = None
        self.outs = []
        while not self.at(")"):
            if self.eat("&"):
                m = self.eat("mut")
                if self.eat("self"):
                    self.selfkind = "mut" if m else "ref"
                    self.eat(",")
                    continue
                raise Untranslatable("pattern parameter")
            if self.eat("self"):
                self.selfkind = "mut"
                self.eat(",")
                continue
            if self.at("mut") and self.peek(1)[1] == "self":
                self.next(); self.next()
                self.selfkind = "mut"
                self.eat(",")
                continue
            self.eat("mut")
            pn = self.next()[1]
            self.expect(":")
            if self.at("&") and self.peek(1)[1] == "mut":
                self.outs.append(pn)
            params.append((pn, self.ty()))
            self.eat(",")
        self.expect(")")
        ret = "unit"
        if self.eat("->"):
            ret = self.ty()
        body = self.block()
        return name, params, ret, body

    def block(self):
        self.expect("{")
        stmts = []
        while not self.at("}"):
            stmts.append(self.stmt())
        self.expect("}")
        return stmts

    def stmt(self):
        k, v = self.peek()
        if v == "let":
            self.next()
            mut = self.eat("mut")
            if self.at("("):
                self.next()
                names = []
                while not self.at(")"):
                    self.eat("mut")
                    names.append(self.next()[1])
                    self.eat(",")
                self.expect(")")
                self.expect("=")
                init = self.expr()
                self.expect(";")
                return ("letpat", names, init)
            name = self.next()[1]
            ty = None
            if self.eat(":"):
                ty = self.ty()
            init = None
            if self.eat("="):
                init = self.expr()
            self.expect(";")
            return ("let", name, ty, init, mut)
        if v == "while":
            self.next()
            if self.at("let"):
                # while let Some(pat) = e { body }   ==   loop { match e { Some(pat) => body, None => break } }
                self.next()
                self.expect("Some")
                self.expect("(")
                names, tup = [], False
                if self.eat("("):
                    tup = True
                    while not self.at(")"):
                        self.eat("mut")
                        names.append(self.next()[1])
                        self.eat(",")
                    self.expect(")")
                else:
                    names.append(self.next()[1])
                self.expect(")")
                self.expect("=")
                e = self.expr(nostruct=True)
                body = self.block()
                return ("while", ("bool", True), [("expr", ("matchopt", e, (names, tup), body, [("break",)]), False)])
            c = self.expr(nostruct=True)
            return ("while", c, self.block())
        if v == "loop":
            self.next()
            return ("while", ("bool", True), self.block())
        if v == "for":
            self.next()
            var = self.next()[1]
            self.expect("in")
            it = self.expr(nostruct=True)
            return ("for", var, it, self.block())
        if v == "return":
            self.next()
            e = None if self.at(";") else self.expr()
            self.eat(";")
            return ("return", e)
        if v == "break":
            self.next(); self.eat(";")
            return ("break",)
        if v == "continue":
            self.next(); self.eat(";")
            return ("continue",)
        if v == "if":
            e = self.if_expr()
            self.eat(";")
            return ("expr", e, self.at("}") and not self.t[self.i - 1][1] == ";")
        if v == "match":
            e = self.primary(False)
            self.eat(";")
            return ("expr", e, False)
        if v in ("assert_eq!", "debug_assert_eq!"):
            self.next()
            self.expect("(")
            a = self.expr()
            self.expect(",")
            b = self.expr()
            while self.eat(","):
                self.expr()
            self.expect(")")
            self.eat(";")
            return ("assert", ("bin", "==", a, b))
        if v in ("assert!", "debug_assert!"):
            self.next()
            self.expect("(")
            c = self.expr()
            while self.eat(","):
                self.expr()
            self.expect(")")
            self.eat(";")
            return ("assert", c)
        e = self.expr()
        for op in ("=", "+=", "-=", "*=", "/=", "%=", "|=", "^=", "&=", "<<=", ">>="):
            if self.at(op):
                self.next()
                r = self.expr()
                self.expect(";")
                return ("assign", op, e, r)
        if self.eat(";"):
            return ("expr", e, False)
        if self.at("}"):
            return ("expr", e, True)     # tail expression
        raise Untranslatable("unexpected token %r after expression" % self.peek()[1])

    def arm_stmt(self):
        """a match arm without braces: `return e` or an expression"""
        if self.at("return"):
            self.next()
            e = None if self.at(",") or self.at("}") else self.expr()
            return ("return", e)
        return ("expr", self.expr(), True)

    def if_expr(self):
        self.expect("if")
        c = self.expr(nostruct=True)
        th = self.block()
        el = None
        if self.eat("else"):
            if self.at("if"):
                el = [("expr", self.if_expr(), True)]
            else:
                el = self.block()
        return ("if", c, th, el)

    # ---- expressions (Rust precedence)
    BIN = [("||",), ("&&",), ("==", "!=", "<", ">", "<=", ">="), ("|",), ("^",), ("&",), ("<<", ">>"),
           ("+", "-"), ("*", "/", "%")]

    def expr(self, nostruct=False):
        return self.range_(nostruct)

    def range_(self, ns):
        if self.at(".."):
            self.next()
            hi = None if self.at("]") or self.at(")") else self.binary(0, ns)
            return ("range", None, hi)
        lo = self.binary(0, ns)
        if self.at("..") or self.at("..="):
            incl = self.next()[1] == "..="
            hi = None if self.at("]") or self.at(")") or self.at("{") else self.binary(0, ns)
            if incl:
                hi = ("bin", "+", hi, ("num", 1, None))
            return ("range", lo, hi)
        return lo

    def binary(self, lvl, ns):
        if lvl == len(self.BIN):
            return self.cast(ns)
        l = self.binary(lvl + 1, ns)
        while self.peek()[0] == "op" and self.peek()[1] in self.BIN[lvl]:
            # `<` directly followed by a type-looking token could be generics; not used in expression position here
            op = self.next()[1]
            r = self.binary(lvl + 1, ns)
            l = ("bin", op, l, r)
        return l

    def cast(self, ns):
        e = self.unary(ns)
        while self.at("as"):
            self.next()
            e = ("as", e, self.ty())
        return e

    def unary(self, ns):
        if self.eat("!"):
            return ("not", self.unary(ns))
        if self.eat("*"):
            return self.unary(ns)            # deref: values are immutable in the translation
        if self.eat("&"):
            self.eat("mut")
            return self.unary(ns)            # borrow: idem
        if self.eat("-"):
            raise Untranslatable("negation")
        return self.postfix(ns)

    def postfix(self, ns):
        e = self.primary(ns)
        while True:
            if self.eat("."):
                k, v = self.next()
                if k == "num":
                    e = ("tfield", e, int(v))
                elif self.at("("):
                    e = ("mcall", e, v, self.args())
                else:
                    e = ("field", e, v)
            elif self.at("["):
                self.next()
                ix = self.expr()
                self.expect("]")
                e = ("index", e, ix)
            elif self.at("(") and e[0] == "path":
                e = ("call", e[1], self.args())
            elif self.at("(") and e[0] == "var":
                e = ("call", [e[1]], self.args())
            elif self.at("?"):
                self.next()
                e = ("try", e)
            elif self.at("{") and not ns and e[0] == "var" and e[1] in VALUE_STRUCTS:
                self.next()
                fs = []
                while not self.at("}"):
                    fn_ = self.next()[1]
                    self.expect(":")
                    fs.append((fn_, self.expr()))
                    self.eat(",")
                self.expect("}")
                e = ("structlit", e[1], fs)
            else:
                return e

    def args(self):
        self.expect("(")
        a = []
        while not self.at(")"):
            a.append(self.expr())
            self.eat(",")
        self.expect(")")
        return a

    def primary(self, ns):
        k, v = self.peek()
        if k == "num":
            self.next()
            m = re.match(r"(0x[0-9a-fA-F_]+?|[0-9][0-9_]*?)(u8|u32|u64|usize|i32)?$", v)
            return ("num", int(m.group(1).replace("_", ""), 0), m.group(2))
        if k == "chr":
            self.next()
            body = v[2:-1]
            val = {"\\n": 10, "\\0": 0, "\\\\": 92, "\\'": 39}.get(body)
            if val is None:
                if body.startswith("\\x"):
                    val = int(body[2:], 16)
                elif len(body) == 1:
                    val = ord(body)
                else:
                    raise Untranslatable("byte literal %s" % v)
            return ("num", val, "u8")
        if v == "(":
            self.next()
            e = self.expr()
            if self.at(","):
                items = [e]
                while self.eat(","):
                    if self.at(")"):
                        break
                    items.append(self.expr())
                self.expect(")")
                return ("tuple", items)
            self.expect(")")
            return ("paren", e)
        if v == "[":
            self.next()
            items = []
            while not self.at("]"):
                items.append(self.expr())
                if self.eat(";"):
                    n = self.expr()
                    self.expect("]")
                    return ("arrayrep", items[0], n)
                self.eat(",")
            self.expect("]")
            return ("array", items)
        if v == "if":
            return self.if_expr()
        if v == "{":
            return ("block", self.block())
        if v in ("true", "false"):
            self.next()
            return ("bool", v == "true")
        if v == "vec!":
            self.next()
            self.expect("[")
            items = []
            while not self.at("]"):
                items.append(self.expr())
                if self.eat(";"):
                    n = self.expr()
                    self.expect("]")
                    return ("arrayrep", items[0], n)
                self.eat(",")
            self.expect("]")
            return ("array", items)
        if k == "str":
            self.next()
            return ("str", v)
        if v == "|":
            # closure: |a: T, b: T| -> R { body }  (only called directly; inlined by the emitter)
            self.next()
            ps = []
            while not self.at("|"):
                self.eat("mut")
                pn = self.next()[1]
                pt = None
                if self.eat(":"):
                    pt = self.ty()
                ps.append((pn, pt))
                self.eat(",")
            self.expect("|")
            rt = None
            if self.eat("->"):
                rt = self.ty()
            body = self.block() if self.at("{") else [("expr", self.expr(), True)]
            return ("closure", ps, rt, body)
        if v == "match":
            self.next()
            scrut = self.expr(nostruct=True)
            self.expect("{")
            some_names, some_body, none_body = None, None, None
            while not self.at("}"):
                if self.eat("Some"):
                    self.expect("(")
                    names = []
                    if self.eat("("):
                        while not self.at(")"):
                            self.eat("mut")
                            names.append(self.next()[1])
                            self.eat(",")
                        self.expect(")")
                        tup = True
                    else:
                        names.append(self.next()[1])
                        tup = False
                    self.expect(")")
                    self.expect("=>")
                    some_names = (names, tup)
                    some_body = self.block() if self.at("{") else [self.arm_stmt()]
                elif self.eat("None"):
                    self.expect("=>")
                    none_body = self.block() if self.at("{") else [self.arm_stmt()]
                else:
                    raise Untranslatable("match arm %r (only Some(..) / None)" % self.peek()[1])
                self.eat(",")
            self.expect("}")
            if some_body is None or none_body is None:
                raise Untranslatable("match without both Some and None arms")
            return ("matchopt", scrut, some_names, some_body, none_body)
        if k == "id" or v == "self":
            self.next()
            path = [v]
            while self.at("::"):
                self.next()
                if self.at("<"):
                    raise Untranslatable("turbofish")
                path.append(self.next()[1])
            if len(path) == 1:
                return ("var", v)
            return ("path", path)
        raise Untranslatable("unexpected token %r" % v)


# ------------------------------------------------------------------------------------------ emitter
def lean_ty(t):
    if t in INTS:
        return "Nat"
    if isinstance(t, tuple) and t[0] == "option":
        return "Option " + par(lean_ty(t[1]))
    if isinstance(t, tuple) and t[0] == "tuple":
        return " × ".join(par(lean_ty(x)) if isinstance(x, tuple) else lean_ty(x) for x in t[1])
    if isinstance(t, str) and t.startswith("struct:"):
        return STRUCTS[t[7:]]["lean"]
    if isinstance(t, str) and t.startswith("vstruct:"):
        return VALUE_STRUCTS[t[8:]]["lean"]
    return {"bool": "Bool", "bytes": "Bytes", "ordering": "Ordering", "unit": "Unit", "policy": "Bytes → Bytes → Bool", "natlist": "List Nat", "usizelist": "List Nat"}[t]


class Ctx:
    """how control leaves the current block; `on_return` takes the Rust return value, `on_return_w` a value that is
    already the function's full result (for &mut self methods: the pair of the structure and the value)"""
    def __init__(self, on_end, on_return, on_break=None, on_continue=None, on_return_w=None):
        self.on_end, self.on_return, self.on_break, self.on_continue = on_end, on_return, on_break, on_continue
        self.on_return_w = on_return_w or on_return


def norm_writer(e):
    """`X.write_varint(a).expect("..")` / `X.write_fixedint(a).expect("..")` / `.unwrap()` -> a mutation of X"""
    if isinstance(e, tuple) and e[0] == "mcall" and e[2] in ("expect", "unwrap") and isinstance(e[1], tuple) and e[1][0] == "mcall" \
            and e[1][2] in ("write_varint", "write_fixedint") and len(e[1][3]) == 1:
        return ("mcall", e[1][1], e[1][2], e[1][3])
    return e


MUTATORS = ("push", "extend_from_slice", "resize", "clear", "truncate", "write_varint", "write_fixedint", "reserve")
# helper functions that take a closure: inlined at their call sites together with the closure (file -> names)
INLINE_HELPERS = {"filter.rs": ["offset_data_iterate"]}
MUT_SELF_METHODS = set()
ASSOC_FNS = {}             # (Type, fn) -> (lean name, params, return type) of translated associated functions without self   # names of translated &mut self methods (filled while translating, callee before caller)


def assigned_vars(stmts, acc=None):
    """names assigned (not declared) anywhere in the statements, in first-occurrence order"""
    acc = [] if acc is None else acc
    declared = set()

    def lv_root(e):
        while e[0] in ("index", "field", "paren"):
            e = e[1]
        return e[1] if e[0] == "var" else None

    def walk_expr(e):
        if not isinstance(e, tuple):
            return
        if e[0] == "mcall" and e[1] == ("var", "self") and e[2] in MUT_SELF_METHODS:
            if "self" not in declared and "self" not in acc:
                acc.append("self")
        e = norm_writer(e)
        if e[0] == "mcall" and e[2] in MUTATORS:
            r = lv_root(e[1])
            if r and r not in declared and r not in acc:
                acc.append(r)
        if e[0] == "if":
            walk_expr(e[1]); walk(e[2]); walk(e[3] or [])
            return
        if e[0] == "block":
            walk(e[1])
            return
        if e[0] == "matchopt":
            walk_expr(e[1]); walk(e[3]); walk(e[4])
            return
        if e[0] == "closure":
            return
        for x in e[1:]:
            if isinstance(x, tuple):
                walk_expr(x)
            elif isinstance(x, list):
                for y in x:
                    walk_expr(y)

    def walk(ss):
        for s in ss:
            if s[0] == "let":
                walk_expr(s[3])
                declared.add(s[1])
            elif s[0] == "letpat":
                walk_expr(s[2])
                declared.update(s[1])
            elif s[0] == "assign":
                r = lv_root(s[2])
                if r and r not in declared and r not in acc:
                    acc.append(r)
                walk_expr(s[3])
            elif s[0] == "natset":
                if s[1] not in declared and s[1] not in acc:
                    acc.append(s[1])
            elif s[0] in ("while",):
                walk_expr(s[1]); walk(s[2])
            elif s[0] == "for":
                walk_expr(s[2])
                declared.add(s[1]); walk(s[3])
            elif s[0] in ("expr", "return", "assert"):
                walk_expr(s[1])
    walk(stmts)
    return acc


def has_return(stmts):
    for st in stmts:
        if st[0] == "return":
            return True
        if st[0] in ("while",) and has_return(st[2]):
            return True
        if st[0] == "for" and has_return(st[3]):
            return True
        if st[0] == "expr" and isinstance(st[1], tuple) and st[1][0] == "if" and (has_return(st[1][2]) or has_return(st[1][3] or [])):
            return True
    return False


def returns_to_continue(stmts):
    """a `return` inside a closure ends the CLOSURE call; when that call is the last statement of a loop body this is
    `continue` (only top-level and if-nested returns: a return inside a loop of the closure would need a label)"""
    out = []
    for st in stmts:
        if st[0] == "return":
            if st[1] is not None:
                raise Untranslatable("closure returning a value")
            out.append(("continue",))
        elif st[0] == "expr" and isinstance(st[1], tuple) and st[1][0] == "if":
            e = st[1]
            out.append(("expr", ("if", e[1], returns_to_continue(e[2]), returns_to_continue(e[3]) if e[3] is not None else None), st[2]))
        elif st[0] in ("while", "for") and has_return(st[2] if st[0] == "while" else st[3]):
            raise Untranslatable("return inside a loop inside a closure")
        else:
            out.append(st)
    return out


def subst_closure_calls(stmts, fname, closure, loop_body=False):
    """statements with every call statement `fname(arg)` replaced by the closure's body (parameter bound to arg)"""
    _, ps, rt, cbody = closure
    out = []
    for ix, st in enumerate(stmts):
        if st[0] == "expr" and isinstance(st[1], tuple) and st[1][0] == "call" and st[1][1] == [fname]:
            if len(ps) != len(st[1][2]):
                raise Untranslatable("closure arity")
            body = list(cbody)
            if has_return(body):
                if not (loop_body and ix == len(stmts) - 1):
                    raise Untranslatable("closure with `return` called elsewhere than at the end of a loop body")
                body = returns_to_continue(body)
            out += [("let", pn, pt, a, False) for (pn, pt), a in zip(ps, st[1][2])] + body
        elif st[0] == "while":
            out.append(("while", st[1], subst_closure_calls(st[2], fname, closure, True)))
        elif st[0] == "for":
            out.append(("for", st[1], st[2], subst_closure_calls(st[3], fname, closure, True)))
        elif st[0] == "expr" and isinstance(st[1], tuple) and st[1][0] == "if":
            e = st[1]
            out.append(("expr", ("if", e[1], subst_closure_calls(e[2], fname, closure), subst_closure_calls(e[3], fname, closure) if e[3] is not None else None), st[2]))
        else:
            out.append(st)
    return out


def always_leaves(stmts):
    """the block never falls through its end (ends in return/break/continue on every path)"""
    if not stmts:
        return False
    s = stmts[-1]
    if s[0] in ("return", "break", "continue"):
        return True
    if s[0] == "expr" and isinstance(s[1], tuple) and s[1][0] == "if" and s[1][3] is not None:
        return always_leaves(s[1][2]) and always_leaves(s[1][3])
    if s[0] == "expr" and isinstance(s[1], tuple) and s[1][0] == "matchopt":
        return always_leaves(s[1][3]) and always_leaves(s[1][4])
    return False


class Emitter:
    def __init__(self, fname, consts, selffields, known_fns, rettype, struct=None, selfkind=None, outs=()):
        self.fname, self.consts, self.selffields, self.known = fname, consts, selffields, known_fns
        self.ret = rettype
        self.struct = struct            # name in STRUCTS when the method works on a model structure value
        self.mutself = struct is not None and selfkind == "mut"
        self.checked_usize = struct is not None   # struct methods: usize + and * panic on overflow (2^64), as the model has it
        self.n = 0
        self.sites = 0
        self.uses_fuel = False
        self.uses_cmp = False
        self.closures = {}
        self.inline_helpers = {}
        self.outs = list(outs)          # names of `&mut Vec<u8>` parameters: returned together with the value

    def fresh(self, p):
        self.n += 1
        return "%s%d" % (p, self.n)

    def wrap_ret(self, code):
        """the function's full result for the Rust return value `code`: the structure (for &mut self), the value, the
        final contents of the `&mut` parameters"""
        parts = []
        if self.mutself:
            parts.append("self_")
        if self.ret != "unit" or (not parts and not self.outs):
            parts.append(code)
        parts += [self.lname(o, {}) for o in self.outs]
        return parts[0] if len(parts) == 1 else "(" + ", ".join(parts) + ")"

    def full_ret_ty(self):
        parts = []
        if self.mutself:
            parts.append(STRUCTS[self.struct]["lean"])
        if self.ret != "unit" or (not parts and not self.outs):
            parts.append(par(lean_ty(self.ret)))
        parts += ["Bytes" for _ in self.outs]
        return parts[0] if len(parts) == 1 else "(" + " × ".join(parts) + ")"

    def mut_call(self, e, env):
        """`self.m(args)` for a translated &mut self method: (lean action, rust return type)"""
        name, args = e[2], e[3]
        lean, ptypes, ret, fuel, fields, skind, cstruct = self.known[name][:7]
        if self.known[name][8]:
            raise Untranslatable("call of %s (it has &mut parameters) in this position" % name)
        if cstruct != self.struct or not self.mutself:
            raise Untranslatable("call of the &mut self method %s from a method that does not own the structure" % name)
        cs = []
        for a, (pn, pt) in zip(args, ptypes):
            c, t = self.expr(a, env, pt)
            if t != pt:
                raise Untranslatable("argument type %s for %s" % (t, pt))
            cs.append(par(c))
        if fuel:
            self.uses_fuel = True
        if self.known[name][7]:
            self.uses_cmp = True
        return "%s %s" % (lean, " ".join((["fuel"] if fuel else []) + (["cmp"] if self.known[name][7] else []) + ["self_"] + cs)), ret

    def is_out_call(self, e):
        return isinstance(e, tuple) and e[0] == "mcall" and e[1] == ("var", "self") and e[2] in self.known and self.known[e[2]][8]

    def out_call(self, e, env):
        """(lean action, return type, [rust names of the variables bound to the &mut parameters])"""
        name, args = e[2], e[3]
        lean, ptypes, ret, fuel, fields, skind, cstruct = self.known[name][:7]
        outs = self.known[name][8]
        if skind == "mut" or cstruct != self.struct:
            raise Untranslatable("call of %s: &mut self together with &mut parameters" % name)
        cs, bound = [], []
        for a, (pn, pt) in zip(args, ptypes):
            if pn in outs:
                if a[0] != "var" or a[1] not in env:
                    raise Untranslatable("&mut argument that is not a local variable")
                bound.append(a[1])
                cs.append(env[a[1]][0])
            else:
                c, t = self.expr(a, env, pt)
                cs.append(par(c))
        if fuel:
            self.uses_fuel = True
        if self.known[name][7]:
            self.uses_cmp = True
        return "%s %s" % (lean, " ".join((["fuel"] if fuel else []) + (["cmp"] if self.known[name][7] else []) + ["self_"] + cs)), ret, bound

    def hoist(self, cond, env):
        """`if self.m(..)` / `if !self.m(..)` where m is a &mut self method or has &mut parameters: the call is bound
        first; returns (prelude statements, condition code)"""
        neg = False
        e = cond
        while e[0] in ("not", "paren"):
            if e[0] == "not":
                neg = not neg
            e = e[1]
        if self.is_out_call(e):
            act, rt, bound = self.out_call(e, env)
            if rt != "bool":
                raise Untranslatable("condition of type %s" % rt)
            c = self.fresh("c")
            pre = "let (%s) ← %s\n" % (", ".join([c] + [env[b][0] for b in bound]), act)
            return pre, ("(!%s)" % c if neg else c)
        if self.is_mut_call(e):
            act, rt = self.mut_call(e, env)
            if rt != "bool":
                raise Untranslatable("condition of type %s" % rt)
            c = self.fresh("c")
            return "let (self_, %s) ← %s\n" % (c, act), ("(!%s)" % c if neg else c)
        c, _ = self.expr(cond, env, "bool")
        return "", c

    def is_mut_call(self, e):
        return isinstance(e, tuple) and e[0] == "mcall" and e[1] == ("var", "self") and e[2] in self.known and self.known[e[2]][5] == "mut"

    def site(self, what):
        self.sites += 1
        return '"%s: %s #%d"' % (self.fname, what, self.sites)

    # ---- expressions: returns (lean code, type); `want` is the expected type for literals
    def const_val(self, name):
        if name not in self.consts:
            raise Untranslatable("unknown constant %s" % name)
        ty, txt = self.consts[name]
        p = P(tokenize(txt))
        e = p.expr()
        code, t = self.expr(e, {}, ty)
        if "←" in code:
            raise Untranslatable("constant %s is not a plain literal expression" % name)
        return code, ty

    def expr(self, e, env, want=None):
        k = e[0]
        if k == "num":
            t = e[2] or want or "usize"
            if t not in INTS:
                t = "usize"
            return str(e[1]), t
        if k == "bool":
            return ("true" if e[1] else "false"), "bool"
        if k == "paren":
            c, t = self.expr(e[1], env, want)
            return "(%s)" % c, t
        if k == "var":
            v = e[1]
            if v in env:
                return env[v][0], env[v][1]
            if v == "None" and isinstance(want, tuple) and want[0] == "option":
                return "none", want
            if re.match(r"[A-Z_][A-Z0-9_]*$", v):
                return self.const_val(v)
            raise Untranslatable("unknown variable %s" % v)
        if k == "path":
            p = e[1]
            if p[0] == "Ordering" and len(p) == 2:
                return {"Less": "Ordering.lt", "Equal": "Ordering.eq", "Greater": "Ordering.gt"}[p[1]], "ordering"
            if p[0] == "Self" and len(p) == 2:
                return self.const_val(p[1])
            if len(p) == 2 and p[0] in INTS and p[1] == "BITS":
                return str(WIDTH[p[0]]), "u32"
            if len(p) == 2 and p[0] in INTS and p[1] == "MAX":
                return str(2 ** WIDTH[p[0]] - 1), p[0]
            raise Untranslatable("path %s" % "::".join(p))
        if k == "field":
            if self.struct and e[1][0] == "field" and e[1][1] == ("var", "self") and (e[1][2], e[2]) in STRUCTS[self.struct].get("nested", {}):
                lf, t = STRUCTS[self.struct]["nested"][(e[1][2], e[2])]
                return "self_.%s" % lf, t
            if e[1] == ("var", "self") and self.struct and e[2] in STRUCTS[self.struct]["fields"]:
                lf, t = STRUCTS[self.struct]["fields"][e[2]]
                return "self_.%s" % lf, t
            if e[1] == ("var", "self") and e[2] in self.selffields:
                return "self_" + e[2], self.selffields[e[2]]
            raise Untranslatable("field access .%s" % e[2])
        if k == "tfield":
            if e[1][0] == "mcall" and e[1][2] in ("overflowing_add", "overflowing_sub", "overflowing_mul") and e[2] == 0:
                return self.expr(("mcall", e[1][1], e[1][2].replace("overflowing", "wrapping"), e[1][3]), env, want)
            raise Untranslatable("tuple field")
        if k == "not":
            c, t = self.expr(e[1], env, "bool")
            if t != "bool":
                raise Untranslatable("bitwise not")
            return "(!%s)" % c, "bool"
        if k == "as":
            c, s = self.expr(e[1], env, None)
            t = e[2]
            if s not in INTS or t not in INTS:
                raise Untranslatable("cast %s as %s" % (s, t))
            if WIDTH[t] < WIDTH[s]:
                return "(%s %% %d)" % (c, 2 ** WIDTH[t]), t
            return c, t
        if k == "bin":
            return self.binop(e, env, want)
        if k == "index":
            b, bt = self.expr(e[1], env)
            if bt in ("natlist", "usizelist") and e[2][0] != "range":
                i, _ = self.expr(e[2], env, "usize")
                return "(← Rt.idxN %s %s %s)" % (b, par(i), self.site("index")), ("usize" if bt == "usizelist" else "u32")
            if bt != "bytes":
                raise Untranslatable("indexing a non-byte sequence")
            ix = e[2]
            if ix[0] == "range":
                lo = "0" if ix[1] is None else self.expr(ix[1], env, "usize")[0]
                hi = ("(%s).length" % b) if ix[2] is None else self.expr(ix[2], env, "usize")[0]
                return "(← Rt.sliceChk %s %s %s %s)" % (b, par(lo), par(hi), self.site("slice")), "bytes"
            i, it = self.expr(ix, env, "usize")
            return "(← Rt.idx %s %s %s)" % (b, par(i), self.site("index")), "u8"
        if k == "structlit":
            vs = VALUE_STRUCTS[e[1]]
            parts = []
            for fn_, fe in e[2]:
                if fn_ not in vs["fields"]:
                    raise Untranslatable("field %s of %s" % (fn_, e[1]))
                c, t = self.expr(fe, env, None)
                parts.append("%s := %s" % (vs["fields"][fn_], c))
            return "({ %s } : %s)" % (", ".join(parts), vs["lean"]), "vstruct:" + e[1]
        if k == "try":
            raise Untranslatable("? operator in this position")
        if k == "rawcond":
            return e[1], "bool"
        if k == "natidx":
            a, at_ = self.expr(e[1], env)
            i, _ = self.expr(e[2], env, "usize")
            return "(← Rt.idxN %s %s %s)" % (a, par(i), self.site("index")), ("usize" if at_ == "usizelist" else "u32")
        if k == "tuple":
            wants = want[1] if isinstance(want, tuple) and want[0] == "tuple" and len(want[1]) == len(e[1]) else [None] * len(e[1])
            items = [self.expr(x, env, w) for x, w in zip(e[1], wants)]
            return "(" + ", ".join(c for c, _ in items) + ")", ("tuple", tuple(t for _, t in items))
        if k == "array":
            items = [self.expr(x, env, "u8") for x in e[1]]
            if not items:
                return "([] : Bytes)", "bytes"
            return "[" + ", ".join("Rt.byteLit %s" % par(c) for c, _ in items) + "]", "bytes"
        if k == "arrayrep":
            et = self.peek_type(e[1], env)
            n, _ = self.expr(e[2], env, "usize")
            if et in INTS and et != "u8":
                v, _ = self.expr(e[1], env, et)
                return "(List.replicate %s %s)" % (par(n), par(v)), ("usizelist" if et == "usize" else "natlist")
            v, _ = self.expr(e[1], env, "u8")
            return "(List.replicate %s (Rt.byteLit %s))" % (par(n), par(v)), "bytes"
        if k == "if":
            if e[3] is None:
                raise Untranslatable("if without else used as a value")
            c, _ = self.expr(e[1], env, "bool")
            a, at_ = self.block_value(e[2], env, want)
            b, bt = self.block_value(e[3], env, want or at_)
            if at_ != bt:
                raise Untranslatable("if branches of different type")
            if a.startswith("pure ") and b.startswith("pure ") and "←" not in a + b + c:
                return "(if %s then %s else %s)" % (c, a[5:], b[5:]), at_
            return "(← (if %s then (do %s) else (do %s)))" % (c, a, b), at_
        if k == "block":
            c, t = self.block_value(e[1], env, want)
            return "(← (do %s))" % c, t
        if k == "call":
            return self.call(e[1], e[2], env, want)
        if k == "mcall":
            return self.mcall(e, env, want)
        raise Untranslatable("expression kind %s" % k)

    def block_value(self, stmts, env, want):
        """a block used as a value: only `let`s followed by a tail expression"""
        env = dict(env)
        out = []
        for s in stmts[:-1]:
            if s[0] != "let" or s[3] is None:
                raise Untranslatable("statement inside a value block")
            c, t = self.expr(s[3], env, s[2])
            nm = self.lname(s[1], env)
            env[s[1]] = (nm, s[2] or t)
            out.append("let %s : %s := %s; " % (nm, lean_ty(s[2] or t), c))
        s = stmts[-1]
        if s[0] != "expr" or not s[2]:
            raise Untranslatable("value block without tail expression")
        c, t = self.expr(s[1], env, want)
        return "".join(out) + "pure %s" % par(c), t

    def binop(self, e, env, want):
        op = e[1]
        if op in ("&&", "||"):
            a, _ = self.expr(e[2], env, "bool")
            b, _ = self.expr(e[3], env, "bool")
            if "←" in b:      # short circuit: the right operand must not be evaluated (it may panic)
                if op == "&&":
                    return "(← (if %s then (do pure %s) else pure false))" % (a, par(b)), "bool"
                return "(← (if %s then pure true else (do pure %s)))" % (a, par(b)), "bool"
            return "(%s %s %s)" % (a, op, b), "bool"
        # operand types: literals adapt to the other side
        lt = self.peek_type(e[2], env)
        rt = self.peek_type(e[3], env)
        if op in ("<<", ">>"):
            a, t = self.expr(e[2], env, want)
            b, _ = self.expr(e[3], env, None)
            if re.match(r"^\d+$", b) and int(b) < WIDTH[t]:
                # a literal amount below the width cannot panic: same canonical form as wrapping_shl / wrapping_shr /
                # rotate_* with a literal amount (so that `(h >> 17) | (h << 15)` and `h.rotate_right(17)` coincide)
                return "(%s %d %s %s)" % ("Rt.wrappingShl" if op == "<<" else "Rt.wrappingShr", WIDTH[t], par(a), b), t
            f = "Rt.shlChk" if op == "<<" else "Rt.shrChk"
            return "(← %s %d %s %s %s)" % (f, WIDTH[t], par(a), par(b), self.site("shift")), t
        t0 = lt or rt or (want if want in INTS else None)
        a, t = self.expr(e[2], env, t0)
        b, t2 = self.expr(e[3], env, t)
        if op in ("==", "!=", "<", ">", "<=", ">="):
            if t != t2:
                raise Untranslatable("comparison of %s with %s" % (t, t2))
            if op == "==":
                return "(%s == %s)" % (a, b), "bool"
            if op == "!=":
                return "(%s != %s)" % (a, b), "bool"
            if t == "ordering":
                return "(decide (Rt.ordNat %s %s Rt.ordNat %s))" % (a, {"<": "<", ">": ">", "<=": "≤", ">=": "≥"}[op], b), "bool"
            if t not in INTS:
                raise Untranslatable("ordering comparison on %s" % t)
            return "(decide (%s %s %s))" % (a, {"<": "<", ">": ">", "<=": "≤", ">=": "≥"}[op], b), "bool"
        if t != t2 or t not in INTS:
            raise Untranslatable("arithmetic on %s and %s" % (t, t2))
        if op == "+":
            if t == "usize" and not self.checked_usize:
                return "(%s + %s)" % (a, b), t
            return "(← Rt.addW %d %s %s %s)" % (2 ** WIDTH[t], par(a), par(b), self.site("add overflow")), t
        if op == "*":
            if t == "usize" and not self.checked_usize:
                return "(%s * %s)" % (a, b), t
            return "(← Rt.mulW %d %s %s %s)" % (2 ** WIDTH[t], par(a), par(b), self.site("mul overflow")), t
        if op == "-":
            return "(← Rt.subChk %s %s %s)" % (par(a), par(b), self.site("sub underflow")), t
        if op == "/":
            return "(← Rt.divChk %s %s %s)" % (par(a), par(b), self.site("div by zero")), t
        if op == "%":
            return "(← Rt.modChk %s %s %s)" % (par(a), par(b), self.site("rem by zero")), t
        if op in ("|", "^", "&"):
            return "(%s %s %s)" % ({"|": "Nat.lor", "^": "Nat.xor", "&": "Nat.land"}[op], par(a), par(b)), t
        raise Untranslatable("operator %s" % op)

    def peek_type(self, e, env):
        """type of an expression if it is not an untyped literal"""
        if e[0] == "num" and e[2] is None:
            return None
        if e[0] == "paren":
            return self.peek_type(e[1], env)
        save = (self.n, self.sites)
        try:
            _, t = self.expr(e, env, None)
        finally:
            self.n, self.sites = save
        return t

    def call(self, path, args, env, want):
        p = "::".join(path)
        if p == "Some" and len(args) == 1:
            inner = want[1] if isinstance(want, tuple) and want[0] == "option" else None
            c, t = self.expr(args[0], env, inner)
            return "(some %s)" % par(c), ("option", t)
        if p in ("usize::decode_var", "u64::decode_var") and len(args) == 1:
            a, at_ = self.expr(args[0], env)
            if at_ != "bytes":
                raise Untranslatable("decode_var of a non-byte slice")
            return "(decodeVarint %s)" % par(a), ("option", ("tuple", ("usize", "usize")))
        if p == "u32::decode_fixed" and len(args) == 1:
            a, _ = self.expr(args[0], env)
            return "(← Rt.decodeFixed32Chk %s %s)" % (par(a), self.site("decode_fixed")), "u32"
        if p in ("Vec::from",) and len(args) == 1:
            return self.expr(args[0], env)
        if p in ("Vec::with_capacity", "Vec::new"):
            if args:
                c, _ = self.expr(args[0], env, "usize")
                if "←" in c:
                    # the capacity is evaluated (it may panic), the value is an empty vector
                    return "(← (do let cap_ : Nat := %s; pure ([] : Bytes)))" % c, "bytes"
            return "([] : Bytes)", "bytes"
        if len(path) == 1 and path[0] in self.closures:
            _, ps, rt, body = self.closures[path[0]]
            if len(ps) != len(args):
                raise Untranslatable("closure arity")
            env2 = dict(env)
            pre = []
            for (pn, pt), a in zip(ps, args):
                c, t = self.expr(a, env, pt)
                if pt is not None and pt != t:
                    raise Untranslatable("closure argument of type %s for %s" % (t, pt))
                ln = self.fresh("arg_" + pn + "_")
                env2[pn] = (ln, t)
                pre.append("let %s : %s := %s; " % (ln, lean_ty(t), c))
            code, t = self.block_value(body, env2, rt)
            if rt is not None and rt != t:
                raise Untranslatable("closure returns %s, declared %s" % (t, rt))
            return "(← (do %s%s))" % ("".join(pre), code), t
        if len(path) == 1 and path[0] in self.known:
            return self.fn_call(path[0], args, env)
        if len(path) == 2 and (path[0], path[1]) in ASSOC_FNS:
            lean, ptypes, ret = ASSOC_FNS[(path[0], path[1])]
            cs = []
            for a, (pn, pt) in zip(args, ptypes):
                c, t = self.expr(a, env, pt)
                if t != pt:
                    raise Untranslatable("argument type %s for %s" % (t, pt))
                cs.append(par(c))
            return "(← %s %s)" % (lean, " ".join(cs)), ret
        raise Untranslatable("call of %s" % p)

    def fn_call(self, name, args, env):
        lean, ptypes, ret, fuel, fields, skind, cstruct = self.known[name][:7]
        if self.known[name][8]:
            raise Untranslatable("call of %s (it has &mut parameters) inside an expression" % name)
        cs = []
        for a, (pn, pt) in zip(args, ptypes):
            c, t = self.expr(a, env, pt)
            if t != pt:
                raise Untranslatable("argument type %s for %s" % (t, pt))
            cs.append(par(c))
        for f in fields:
            if f not in self.selffields:
                raise Untranslatable("call of %s needs self.%s" % (name, f))
        extra = ["self_" + f for f in fields]
        if cstruct:
            if cstruct != self.struct:
                raise Untranslatable("call of a %s method outside %s" % (cstruct, cstruct))
            extra = ["self_"] + extra
        if self.known[name][7]:
            self.uses_cmp = True
            extra = ["cmp"] + extra
        if fuel:
            self.uses_fuel = True
            extra = ["fuel"] + extra
        return "(← %s %s)" % (lean, " ".join(extra + cs)), ret

    def mcall(self, e, env, want):
        recv, m, args = e[1], e[2], e[3]
        if m == "unwrap" and not args and recv[0] == "call" and recv[1] in (["usize", "decode_var"], ["u64", "decode_var"]) and len(recv[2]) == 1:
            a, at_ = self.expr(recv[2][0], env)
            if at_ != "bytes":
                raise Untranslatable("decode_var of a non-byte slice")
            return "(← Rt.unwrapO (decodeVarint %s) %s)" % (par(a), self.site("unwrap")), ("tuple", ("usize", "usize"))
        if self.struct and STRUCTS[self.struct].get("cmp_field") and recv == ("field", ("var", "self"), STRUCTS[self.struct]["cmp_field"]) and m == "cmp" and len(args) == 2:
            a, _ = self.expr(args[0], env)
            b, _ = self.expr(args[1], env)
            self.uses_cmp = True
            return "(cmp.cmp %s %s)" % (par(a), par(b)), "ordering"
        if self.struct and STRUCTS[self.struct].get("cmp_param") and recv == ("field", ("field", ("var", "self"), "opt"), "cmp") and m == "cmp" and len(args) == 2:
            a, _ = self.expr(args[0], env)
            b, _ = self.expr(args[1], env)
            self.uses_cmp = True
            return "(cmp.cmp %s %s)" % (par(a), par(b)), "ordering"
        if recv == ("field", ("var", "self"), "policy") and self.selffields.get("policy") == "policy" and m == "key_may_match" and len(args) == 2:
            a, at_ = self.expr(args[0], env)
            b, bt = self.expr(args[1], env)
            if at_ != "bytes" or bt != "bytes":
                raise Untranslatable("policy.key_may_match on non-byte arguments")
            return "(self_policy %s %s)" % (par(a), par(b)), "bool"
        if recv == ("var", "self"):
            if m == "cmp" and len(args) == 2:
                a, _ = self.expr(args[0], env)
                b, _ = self.expr(args[1], env)
                return "(cmpBytes %s %s)" % (par(a), par(b)), "ordering"
            if m in self.known:
                if self.known[m][5] == "mut":
                    raise Untranslatable("call of the &mut self method %s inside an expression" % m)
                return self.fn_call(m, args, env)
            raise Untranslatable("method self.%s" % m)
        r, rt = self.expr(recv, env, want if m.startswith("wrapping_") else None)
        if rt == "bytes":
            if m == "len" and not args:
                return "(%s).length" % r, "usize"
            if m in ("to_vec", "iter", "clone", "as_slice", "to_owned") and not args:
                return r, "bytes"
            if m == "is_empty" and not args:
                return "(%s).isEmpty" % r, "bool"
            raise Untranslatable("method .%s on bytes" % m)
        if rt in ("natlist", "usizelist"):
            if m == "len" and not args:
                return "(%s).length" % r, "usize"
            if m in ("iter", "iter_mut", "clone") and not args:
                return r, rt
            raise Untranslatable("method .%s on a Vec of integers" % m)
        if rt in INTS:
            w = WIDTH[rt]
            if m in ("wrapping_add", "wrapping_sub", "wrapping_mul") and len(args) == 1:
                a, _ = self.expr(args[0], env, rt)
                f = {"wrapping_add": "Rt.wrappingAdd", "wrapping_sub": "Rt.wrappingSub", "wrapping_mul": "Rt.wrappingMul"}[m]
                return "(%s %d %s %s)" % (f, 2 ** w, par(r), par(a)), rt
            if m in ("wrapping_shr", "wrapping_shl") and len(args) == 1:
                a, _ = self.expr(args[0], env, "u32")
                f = "Rt.wrappingShr" if m == "wrapping_shr" else "Rt.wrappingShl"
                return "(%s %d %s %s)" % (f, w, par(r), par(a)), rt
            if m in ("rotate_right", "rotate_left") and len(args) == 1:
                a, _ = self.expr(args[0], env, "u32")
                if re.match(r"^\d+$", a) and 0 < int(a) < w:
                    n = int(a)
                    if m == "rotate_right":
                        return "(Nat.lor (Rt.wrappingShr %d %s %d) (Rt.wrappingShl %d %s %d))" % (w, par(r), n, w, par(r), w - n), rt
                    return "(Nat.lor (Rt.wrappingShr %d %s %d) (Rt.wrappingShl %d %s %d))" % (w, par(r), w - n, w, par(r), n), rt
                if rt != "u32":
                    raise Untranslatable("rotate on %s" % rt)
                if m == "rotate_right":
                    return "(Nat.lor (Rt.wrappingShr 32 %s %s) (Rt.wrappingShl 32 %s (32 - %s %% 32)))" % (par(r), par(a), par(r), par(a)), rt
                return "(Nat.lor (Rt.wrappingShl 32 %s %s) (Rt.wrappingShr 32 %s (32 - %s %% 32)))" % (par(r), par(a), par(r), par(a)), rt
        raise Untranslatable("method .%s on %s" % (m, rt))

    # ---- statements
    def lname(self, v, env):
        """Lean name of a (re)declared Rust variable: shadowing is plain `let` shadowing"""
        if v == "_":
            return self.fresh("_u")
        return v if re.match(r"[a-z_][a-z0-9_]*$", v) and v not in ("at", "from", "end", "fun", "do", "then", "open", "by", "have", "show", "match", "with", "in", "let", "if", "else", "fuel", "meta", "instance", "structure", "class", "where", "def", "theorem", "namespace", "section", "variable", "universe", "import", "export", "private", "protected", "partial", "unsafe", "mutual", "deriving", "extends", "abbrev", "example", "inductive", "macro", "syntax", "notation", "prefix", "infix", "postfix", "attribute", "set_option", "using", "calc", "suffices", "obtain", "return", "for", "unless", "try", "catch", "finally", "break", "continue", "mut", "nomatch", "nofun", "this", "cmp", "self_", "Type", "Prop", "Sort", "local", "scoped", "noncomputable", "opaque", "axiom", "initialize", "omit", "include") else "v_" + v

    def stmts(self, ss, env, ctx):
        """Lean `do`-sequence text (type Res <ctx result>) for the statements followed by the context's end"""
        if not ss:
            return ctx.on_end(env)
        s, rest = ss[0], ss[1:]
        k = s[0]
        if k in ("letpat", "let") and isinstance(s[2] if k == "letpat" else s[3], tuple) and (s[2] if k == "letpat" else s[3])[0] == "try":
            # let pat = e?;   ==   match e { Some(pat) => rest, None => return None }
            init = (s[2] if k == "letpat" else s[3])[1]
            if not (isinstance(self.ret, tuple) and self.ret[0] == "option"):
                raise Untranslatable("? in a function that does not return an Option")
            names = (s[1], True) if k == "letpat" else ([s[1]], False)
            return self.match_stmt(("matchopt", init, names, rest, [("return", ("var", "None"))]), [], env, ctx)
        if k == "letpat":
            _, names, init = s
            env2 = dict(env)
            lns = []
            if self.is_mut_call(init):
                act, rt = self.mut_call(init, env)
            else:
                act, rt = None, None
                code, rt = self.expr(init, env)
            if not (isinstance(rt, tuple) and rt[0] == "tuple" and len(rt[1]) == len(names)):
                raise Untranslatable("tuple pattern for a value of type %s" % (rt,))
            for n, t in zip(names, rt[1]):
                ln = self.lname(n, env)
                lns.append(ln)
                if n != "_":
                    env2[n] = (ln, t)
            pat = "(" + ", ".join(lns) + ")"
            if act is not None:
                return "let (self_, %s) ← %s\n%s" % (pat, act, self.stmts(rest, env2, ctx))
            return "let %s := %s\n%s" % (pat, code, self.stmts(rest, env2, ctx))
        if k == "let" and isinstance(s[3], tuple) and s[3][0] == "closure":
            # a local closure is inlined at its calls (it may only read immutable locals)
            self.closures[s[1]] = s[3]
            return self.stmts(rest, env, ctx)
        if k == "let" and self.is_mut_call(s[3]):
            _, name, ty, init, mut = s
            act, rt = self.mut_call(init, env)
            env2 = dict(env)
            nm = self.lname(name, env)
            env2[name] = (nm, rt)
            return "let (self_, %s) ← %s\n%s" % (nm, act, self.stmts(rest, env2, ctx))
        if k == "let":
            _, name, ty, init, mut = s
            env2 = dict(env)
            nm = self.lname(name, env)
            if init is None and ty is None:
                ty = self.first_assigned_type(name, rest, env)
            if init is None:
                if ty is None:
                    raise Untranslatable("let without type or initialiser")
                env2[name] = (nm, ty)
                dflt = {"bytes": "([] : Bytes)", "bool": "false"}.get(ty, "0")
                return "let %s : %s := %s\n%s" % (nm, lean_ty(ty), dflt, self.stmts(rest, env2, ctx))
            c, t = self.expr(init, env, ty)
            if ty is not None and ty != t:
                raise Untranslatable("let %s: %s initialised with %s" % (name, ty, t))
            env2[name] = (nm, t)
            return "let %s : %s := %s\n%s" % (nm, lean_ty(t), c, self.stmts(rest, env2, ctx))
        if k == "natset":
            _, lv, j, var = s
            nm = env[lv][0]
            return "let %s : List Nat := %s.set %s %s\n%s" % (nm, nm, env[j][0], env[var][0], self.stmts(rest, env, ctx))
        if k == "assert":
            c, _ = self.expr(s[1], env, "bool")
            return "Rt.assertR %s %s\n%s" % (par(c), self.site("assert"), self.stmts(rest, env, ctx))
        if k == "return":
            if s[1] is None:
                return ctx.on_return("()")
            c, t = self.expr(s[1], env, self.ret)
            if t != self.ret:
                raise Untranslatable("return of %s in a function returning %s" % (t, self.ret))
            return ctx.on_return(c)
        if k == "break":
            if ctx.on_break is None:
                raise Untranslatable("break outside a loop")
            return ctx.on_break(env)
        if k == "continue":
            if ctx.on_continue is None:
                raise Untranslatable("continue outside a loop")
            return ctx.on_continue(env)
        if k == "assign":
            return self.assign(s, env) + "\n" + self.stmts(rest, env, ctx)
        if k == "expr":
            e, tail = s[1], s[2]
            if tail and not rest and e[0] != "if":
                c, t = self.expr(e, env, self.ret)
                if t != self.ret:
                    raise Untranslatable("tail expression of type %s, function returns %s" % (t, self.ret))
                return ctx.on_return(c)
            if e[0] == "matchopt":
                return self.match_stmt(e, rest, env, ctx)
            if e[0] == "if":
                if tail and not rest and e[3] is not None and self.ret != "unit":
                    # `if` as the value of the function: both branches end in their own tail expression
                    pre, c = self.hoist(e[1], env)
                    a = self.stmts(e[2], env, ctx)
                    b = self.stmts(e[3], env, ctx)
                    return pre + "if %s then do\n%s\nelse do\n%s" % (c, ind(a), ind(b))
                return self.if_stmt(e, rest, env, ctx)
            if self.is_mut_call(e):
                act, rt = self.mut_call(e, env)
                if tail and not rest and rt == self.ret and rt != "unit":
                    # `self.m(..)` as the value of the method
                    return "let (self_, r_) ← %s\n%s" % (act, ctx.on_return("r_"))
                bind = "let self_ ← %s" % act if rt == "unit" else "let (self_, _) ← %s" % act
                return bind + "\n" + self.stmts(rest, env, ctx)
            e = norm_writer(e)
            if e[0] == "mcall" and e[2] in MUTATORS:
                return self.mutate(e, env) + "\n" + self.stmts(rest, env, ctx)
            if e[0] == "call" and len(e[1]) == 1 and e[1][0] in self.inline_helpers:
                return self.stmts(self.inline_helper(e[1][0], e[2], env) + rest, env, ctx)
            if e[0] == "call" and len(e[1]) == 1 and e[1][0] in self.closures:
                # a closure called for its effects: its body runs here
                _, ps, rt, body = self.closures[e[1][0]]
                if len(ps) != len(e[2]):
                    raise Untranslatable("closure arity")
                pre = [("let", pn, pt, a, False) for (pn, pt), a in zip(ps, e[2])]
                return self.stmts(pre + body + rest, env, ctx)
            raise Untranslatable("expression statement %s" % e[0])
        if k == "while":
            return self.loop(s[1], s[2], None, rest, env, ctx)
        if k == "for":
            return self.for_loop(s, rest, env, ctx)
        raise Untranslatable("statement %s" % k)

    def inline_helper(self, name, args, env):
        """statements of the helper `name` with its parameters bound to the arguments; a closure argument is
        registered under the parameter's name, so that the helper's `f(x)` runs the closure body in place"""
        hname, hparams, hret, hbody = self.inline_helpers[name]
        if len(hparams) != len(args):
            raise Untranslatable("helper arity")
        pre = []
        body = hbody
        for (pn, pt), a in zip(hparams, args):
            if isinstance(a, tuple) and a[0] == "closure":
                body = subst_closure_calls(body, pn, a)     # AST level: the loop-state analysis must see the closure body
            else:
                if pn in env:
                    raise Untranslatable("helper parameter %s clashes with a local of the caller" % pn)
                pre.append(("let", pn, None, a, False))
        return pre + body

    def first_assigned_type(self, name, stmts, env):
        """type of the first `name = rhs` found in the statements (declaration without type and initialiser)"""
        for st in stmts:
            if st[0] == "assign" and st[1] == "=" and st[2] == ("var", name):
                if self.is_mut_call(st[3]):
                    return self.known[st[3][2]][2]
                return self.peek_type(st[3], env)
            subs = []
            if st[0] == "while":
                subs = [st[2]]
            elif st[0] == "for":
                subs = [st[3]]
            elif st[0] == "expr" and isinstance(st[1], tuple) and st[1][0] == "if":
                subs = [st[1][2], st[1][3] or []]
            for b in subs:
                t = self.first_assigned_type(name, b, env)
                if t is not None:
                    return t
        return None

    def lvalue_var(self, e, env):
        if e[0] != "var" or e[1] not in env:
            raise Untranslatable("assignment target")
        return e[1]

    def assign(self, s, env):
        _, op, lhs, rhs = s
        if lhs[0] == "field" and lhs[1] == ("var", "self") and self.struct and lhs[2] in STRUCTS[self.struct]["fields"]:
            if not self.mutself:
                raise Untranslatable("assignment to self.%s in a &self method" % lhs[2])
            lf, t = STRUCTS[self.struct]["fields"][lhs[2]]
            if op == "=":
                c, t2 = self.expr(rhs, env, t)
            else:
                c, t2 = self.expr(("bin", op[:-1], lhs, rhs), env, t)
            if t2 != t:
                raise Untranslatable("assignment of %s to self.%s : %s" % (t2, lhs[2], t))
            return "let self_ : %s := { self_ with %s := %s }" % (STRUCTS[self.struct]["lean"], lf, c)
        if lhs[0] == "index":
            v = self.lvalue_var(lhs[1], env)
            nm, t = env[v]
            if t != "bytes":
                raise Untranslatable("indexed assignment into %s" % t)
            i, _ = self.expr(lhs[2], env, "usize")
            if op == "=":
                val, _ = self.expr(rhs, env, "u8")
            else:
                val, _ = self.expr(("bin", op[:-1], lhs, rhs), env, "u8")
            return "let %s : Bytes := (← Rt.setIdx %s %s %s %s)" % (nm, nm, par(i), par(val), self.site("index assign"))
        v = self.lvalue_var(lhs, env)
        nm, t = env[v]
        if op == "=" and self.is_mut_call(rhs):
            act, rt = self.mut_call(rhs, env)
            if rt != t:
                raise Untranslatable("assignment of %s to %s" % (rt, t))
            return "let (self_, %s) ← %s" % (nm, act)
        if op == "=":
            c, t2 = self.expr(rhs, env, t)
        else:
            c, t2 = self.expr(("bin", op[:-1], lhs, rhs), env, t)
        if t2 != t:
            raise Untranslatable("assignment of %s to %s" % (t2, t))
        return "let %s : %s := %s" % (nm, lean_ty(t), c)

    def mutate(self, e, env):
        if e[1][0] == "field" and e[1][1] == ("var", "self") and self.struct and e[1][2] in STRUCTS[self.struct]["fields"]:
            if not self.mutself:
                raise Untranslatable("mutation of self.%s in a &self method" % e[1][2])
            lf, t = STRUCTS[self.struct]["fields"][e[1][2]]
            if t not in ("bytes", "natlist"):
                raise Untranslatable("mutation of %s" % t)
            # translate as a mutation of a temporary, then store it back
            tmp = self.fresh("fld")
            env2 = dict(env)
            env2[tmp] = (tmp, t)
            inner = self.mutate(("mcall", ("var", tmp), e[2], e[3]), env2)
            return "let %s : %s := self_.%s\n%s\nlet self_ : %s := { self_ with %s := %s }" % (tmp, lean_ty(t), lf, inner, STRUCTS[self.struct]["lean"], lf, tmp)
        tgt = e[1]
        while tgt[0] == "paren":
            tgt = tgt[1]
        if tgt[0] == "index" and tgt[2][0] == "range" and tgt[1][0] == "var" and tgt[1][1] in env and e[2] == "write_fixedint":
            # (&mut x[a..b]).write_fixedint(v): the little-endian bytes of v overwrite the head of the sub-slice
            nm, t = env[tgt[1][1]]
            if t != "bytes":
                raise Untranslatable("write into a slice of %s" % t)
            lo = "0" if tgt[2][1] is None else self.expr(tgt[2][1], env, "usize")[0]
            hi = ("(%s).length" % nm) if tgt[2][2] is None else self.expr(tgt[2][2], env, "usize")[0]
            c, ct = self.expr(e[3][0], env, None)
            enc = {"u32": "encodeFixed32", "u64": "encodeFixed64"}.get(ct)
            if enc is None:
                raise Untranslatable("write_fixedint of %s" % ct)
            return "let %s : Bytes := (← Rt.writeAt %s %s %s (%s %s) %s)" % (nm, nm, par(lo), par(hi), enc, par(c), self.site("write into slice"))
        v = self.lvalue_var(e[1], env)
        nm, t = env[v]
        m, args = e[2], e[3]
        if m == "reserve":
            # a capacity hint: no effect on the value, but its argument is evaluated (it may panic)
            c, _ = self.expr(args[0], env, "usize")
            return "let _ : Nat := %s" % c
        if t == "natlist":
            if m == "push":
                c, ct = self.expr(args[0], env, "u32")
                return "let %s : List Nat := %s ++ [%s]" % (nm, nm, c)
            raise Untranslatable("mutation .%s of a Vec of integers" % m)
        if t != "bytes":
            raise Untranslatable("mutation of %s" % t)
        if m == "write_varint":
            c, ct = self.expr(args[0], env, "usize")
            if ct not in ("usize", "u64"):
                raise Untranslatable("write_varint of %s" % ct)
            return "let %s : Bytes := %s ++ encodeVarint %s" % (nm, nm, par(c))
        if m == "write_fixedint":
            c, ct = self.expr(args[0], env, "u32")
            if ct != "u32":
                raise Untranslatable("write_fixedint of %s" % ct)
            return "let %s : Bytes := %s ++ encodeFixed32 %s" % (nm, nm, par(c))
        if m == "push":
            c, _ = self.expr(args[0], env, "u8")
            return "let %s : Bytes := %s ++ [Rt.byteLit %s]" % (nm, nm, par(c))
        if m == "extend_from_slice":
            c, _ = self.expr(args[0], env)
            return "let %s : Bytes := %s ++ %s" % (nm, nm, c)
        if m == "resize":
            n, _ = self.expr(args[0], env, "usize")
            f, _ = self.expr(args[1], env, "u8")
            return "let %s : Bytes := Rt.resizeB %s %s %s" % (nm, nm, par(n), par(f))
        if m == "clear":
            return "let %s : Bytes := []" % nm
        if m == "truncate":
            n, _ = self.expr(args[0], env, "usize")
            return "let %s : Bytes := %s.take %s" % (nm, nm, par(n))
        raise Untranslatable("mutation .%s" % m)

    def state(self, vs, env):
        if not vs:
            return "()", "Unit"
        names = [env[v][0] for v in vs]
        tys = [lean_ty(env[v][1]) for v in vs]
        return ("(" + ", ".join(names) + ")" if len(vs) > 1 else names[0]), (" × ".join(tys) if len(vs) > 1 else tys[0])

    def if_stmt(self, e, rest, env, ctx):
        _, cond, th, el = e
        el = el or []
        pre, c = self.hoist(cond, env)
        if pre:
            return pre + self.if_stmt(("if", ("rawcond", c), th, el), rest, env, ctx)
        tl, elv = always_leaves(th), always_leaves(el)
        if tl or elv or not rest:
            # no join point needed: the code behind the `if` continues the branch(es) that fall through
            a = self.stmts(th + (rest if not tl else []), env, ctx) if not (tl and False) else ""
            b = self.stmts(el + (rest if not elv else []), env, ctx)
            if not tl and not elv and rest:
                pass
            return "if %s then do\n%s\nelse do\n%s" % (c, ind(a), ind(b))
        vs = [v for v in assigned_vars(th + el) if v in env]
        j = self.fresh("join")
        st, sty = self.state(vs, env)
        restcode = self.stmts(rest, env, ctx)
        jctx = Ctx(lambda env2: "%s %s" % (j, self.state(vs, env2)[0]), ctx.on_return, ctx.on_break, ctx.on_continue, ctx.on_return_w)
        a = self.stmts(th, env, jctx)
        b = self.stmts(el, env, jctx)
        return "let %s := fun (%s : %s) => do\n%s\nif %s then do\n%s\nelse do\n%s" % (
            j, ("_s" if not vs else "s_"), sty, ind(self.destruct(vs, env, "s_") + restcode), c, ind(a), ind(b))

    def match_stmt(self, e, rest, env, ctx):
        """match <option> { Some(pat) => A, None => B } as a statement, followed by rest"""
        _, scrut, (names, tup), some_body, none_body = e
        if self.is_mut_call(scrut):
            act, t = self.mut_call(scrut, env)
            m_ = self.fresh("m")
            env = dict(env)
            env[m_] = (m_, t)
            return "let (self_, %s) ← %s\n" % (m_, act) + self.match_stmt(("matchopt", ("var", m_), (names, tup), some_body, none_body), rest, env, ctx)
        c, t = self.expr(scrut, env)
        if not (isinstance(t, tuple) and t[0] == "option"):
            raise Untranslatable("match on a value of type %s" % (t,))
        inner = t[1]
        env_s = dict(env)
        if tup:
            if not (isinstance(inner, tuple) and inner[0] == "tuple" and len(inner[1]) == len(names)):
                raise Untranslatable("Some((..)) pattern for %s" % (inner,))
            lns = []
            for n, ty in zip(names, inner[1]):
                ln = self.lname(n, env)
                lns.append(ln)
                if n != "_":
                    env_s[n] = (ln, ty)
            pat = "(" + ", ".join(lns) + ")"
        else:
            ln = self.lname(names[0], env)
            env_s[names[0]] = (ln, inner)
            pat = ln
        sl, nl = always_leaves(some_body), always_leaves(none_body)
        if sl or nl or not rest:
            a = self.stmts(some_body + (rest if not sl else []), env_s, ctx)
            b = self.stmts(none_body + (rest if not nl else []), env, ctx)
            return "match %s with\n| some %s => do\n%s\n| none => do\n%s" % (c, pat, ind(a), ind(b))
        vs = [v for v in assigned_vars(some_body + none_body) if v in env]
        j = self.fresh("join")
        st, sty = self.state(vs, env)
        restcode = self.stmts(rest, env, ctx)
        jctx = Ctx(lambda env2: "%s %s" % (j, self.state(vs, env2)[0]), ctx.on_return, ctx.on_break, ctx.on_continue, ctx.on_return_w)
        a = self.stmts(some_body, env_s, jctx)
        b = self.stmts(none_body, env, jctx)
        return "let %s := fun (%s : %s) => do\n%s\nmatch %s with\n| some %s => do\n%s\n| none => do\n%s" % (
            j, ("_s" if not vs else "s_"), sty, ind(self.destruct(vs, env, "s_") + restcode), c, pat, ind(a), ind(b))

    def destruct(self, vs, env, s):
        if not vs:
            return ""
        if len(vs) == 1:
            return "let %s := %s\n" % (env[vs[0]][0], s)
        return "let (%s) := %s\n" % (", ".join(env[v][0] for v in vs), s)

    def loop(self, cond, body, post, rest, env, ctx):
        """while cond { body; post }  followed by rest"""
        self.uses_fuel = True
        vs = [v for v in assigned_vars(body + (post or [])) if v in env]
        st, sty = self.state(vs, env)
        ret_ty = self.full_ret_ty()
        lctx = Ctx(lambda env2: "pure (Rt.LStep.cont %s)" % self.state(vs, env2)[0],
                   lambda code: "pure (Rt.LStep.ret %s)" % par(self.wrap_ret(code)),
                   lambda env2: "pure (Rt.LStep.brk %s)" % self.state(vs, env2)[0],
                   None, lambda code: "pure (Rt.LStep.ret %s)" % par(code))
        if post:
            # `continue` must still run the increment: not needed by the translated functions
            lctx.on_continue = None
        else:
            lctx.on_continue = lctx.on_end
        c, _ = self.expr(cond, env, "bool")
        inner = self.stmts(body + (post or []), env, lctx)
        bodycode = "if %s then do\n%s\nelse pure (Rt.LStep.brk %s)" % (c, ind(inner), st)
        restcode = self.stmts(rest, env, ctx)
        lp = self.fresh("loop")
        return ("let %s := fun (s_ : %s) => (do\n%s : Res (Rt.LStep (%s) %s))\n"
                "match ← Rt.loopFuel %s fuel %s with\n| Rt.Flow.ret r_ => %s\n| Rt.Flow.done s_ =>\n%s") % (
            lp, sty, ind(self.destruct(vs, env, "s_") + bodycode), sty, par(ret_ty),
            lp, st, ctx.on_return_w("r_"), ind(self.destruct(vs, env, "s_") + restcode))

    def for_loop(self, s, rest, env, ctx):
        _, var, it, body = s
        env2 = dict(env)
        if it[0] == "range" and it[1] is not None and it[2] is not None:
            hi_c, hi_t = self.expr(it[2], env, None if it[1][0] != "num" else self.peek_type(it[2], env))
            lo_c, lo_t = self.expr(it[1], env, hi_t)
            hi = self.fresh("hi")
            i = self.lname(var, env) if var != "_" else self.fresh("i")
            key = var if var != "_" else i
            env2[hi] = (hi, hi_t)
            env2[key] = (i, lo_t)
            cond = ("bin", "<", ("var", key), ("var", hi))
            post = [("assign", "+=", ("var", key), ("num", 1, None))]
            # the counter of a Rust range never overflows: use an unchecked increment
            code = self.loop_counter(cond, body, key, rest, env2, ctx)
            return "let %s : Nat := %s\nlet %s : Nat := %s\n%s" % (hi, hi_c, i, lo_c, code)
        # for b in <bytes>.iter()
        xs_c, xs_t = self.expr(it, env)
        if xs_t in ("natlist", "usizelist") and it[0] == "mcall" and it[2] == "iter_mut" and it[1][0] == "var" and it[1][1] in env:
            # `for l in v.iter_mut() { .. *l = e .. }`: index loop over v itself, the element is written back
            lv = it[1][1]
            j = self.fresh("j")
            env2[j] = (j, "usize")
            cond = ("bin", "<", ("var", j), ("mcall", ("var", lv), "len", []))
            body2 = [("let", var, None, ("natidx", ("var", lv), ("var", j)), True)] + body + [("natset", lv, j, var)]
            code = self.loop_counter(cond, body2, j, rest, env2, ctx)
            return "let %s : Nat := 0\n%s" % (j, code)
        if xs_t == "natlist":
            xs, j = self.fresh("xs"), self.fresh("j")
            env2[xs] = (xs, "natlist")
            env2[j] = (j, "usize")
            cond = ("bin", "<", ("var", j), ("mcall", ("var", xs), "len", []))
            body2 = [("let", var, None, ("natidx", ("var", xs), ("var", j)), False)] + body
            code = self.loop_counter(cond, body2, j, rest, env2, ctx)
            return "let %s : List Nat := %s\nlet %s : Nat := 0\n%s" % (xs, xs_c, j, code)
        if xs_t != "bytes":
            raise Untranslatable("for over %s" % xs_t)
        xs, j = self.fresh("xs"), self.fresh("j")
        env2[xs] = (xs, "bytes")
        env2[j] = (j, "usize")
        cond = ("bin", "<", ("var", j), ("mcall", ("var", xs), "len", []))
        body2 = [("let", var, None, ("index", ("var", xs), ("var", j)), False)] + body
        code = self.loop_counter(cond, body2, j, rest, env2, ctx)
        return "let %s : Bytes := %s\nlet %s : Nat := 0\n%s" % (xs, xs_c, j, code)

    def loop_counter(self, cond, body, key, rest, env, ctx):
        """loop whose counter `key` is incremented (unchecked) at the end of every iteration"""
        self.uses_fuel = True
        vs = [key] + [v for v in assigned_vars(body) if v in env and v != key]
        st, sty = self.state(vs, env)
        ret_ty = self.full_ret_ty()

        def bump(env2):
            e3 = dict(env2)
            e3[key] = ("(%s + 1)" % env2[key][0], env2[key][1])
            return self.state(vs, e3)[0]
        lctx = Ctx(lambda env2: "pure (Rt.LStep.cont %s)" % bump(env2),
                   lambda code: "pure (Rt.LStep.ret %s)" % par(self.wrap_ret(code)),
                   lambda env2: "pure (Rt.LStep.brk %s)" % self.state(vs, env2)[0],
                   lambda env2: "pure (Rt.LStep.cont %s)" % bump(env2), lambda code: "pure (Rt.LStep.ret %s)" % par(code))
        c, _ = self.expr(cond, env, "bool")
        inner = self.stmts(body, env, lctx)
        bodycode = "if %s then do\n%s\nelse pure (Rt.LStep.brk %s)" % (c, ind(inner), st)
        restcode = self.stmts(rest, env, ctx)
        lp = self.fresh("loop")
        return ("let %s := fun (s_ : %s) => (do\n%s : Res (Rt.LStep (%s) %s))\n"
                "match ← Rt.loopFuel %s fuel %s with\n| Rt.Flow.ret r_ => %s\n| Rt.Flow.done s_ =>\n%s") % (
            lp, sty, ind(self.destruct(vs, env, "s_") + bodycode), sty, par(ret_ty),
            lp, st, ctx.on_return_w("r_"), ind(self.destruct(vs, env, "s_") + restcode))


def par(c):
    c = c.strip()
    if re.match(r"^[A-Za-z0-9_.']+$", c) or (c.startswith("(") and balanced(c)) or (c.startswith("[") and c.endswith("]")):
        return c
    return "(" + c + ")"


def balanced(c):
    d = 0
    for i, ch in enumerate(c):
        if ch == "(":
            d += 1
        elif ch == ")":
            d -= 1
            if d == 0 and i != len(c) - 1:
                return False
    return d == 0


def ind(s, n=2):
    return "\n".join((" " * n + l if l else l) for l in s.split("\n"))


def translate(src_dir):
    out, report, allknown = [], [], {}
    MUT_SELF_METHODS.clear()
    ASSOC_FNS.clear()
    for tgt in TARGETS:
        fname, impl, rust, lean, fields = tgt[:5]
        struct = tgt[5] if len(tgt) > 5 else None
        # callees are looked up among the translated functions of the same file, methods among those of the same structure
        known = allknown.setdefault("struct:" + struct if struct else fname, {})
        try:
            text = strip_tests(open(os.path.join(src_dir, fname)).read())
            consts = collect_consts(text)
            ftxt = find_fn(text, impl, rust)
            pr = P(tokenize(ftxt))
            name, params, ret, body = pr.function()
            em = Emitter(rust, consts, fields, known, ret, struct, pr.selfkind, pr.outs)
            for hn in INLINE_HELPERS.get(fname, []):
                try:
                    em.inline_helpers[hn] = P(tokenize(find_fn(text, None, hn))).function()
                except Untranslatable:
                    pass
            env = {}
            if struct:
                env["self"] = ("self_", "struct:" + struct)
            for pn, pt in params:
                env[pn] = (em.lname(pn, env), pt)

            def at_end(env2, ret=ret, em=em):
                if ret == "unit":
                    return "pure %s" % (em.wrap_ret("()") if em.mutself else "()")
                raise Untranslatable("function end without value")
            ctx = Ctx(at_end, lambda code, em=em: "pure %s" % par(em.wrap_ret(code)), None, None, lambda code: "pure %s" % par(code))
            code = em.stmts(body, env, ctx)
            sig = (" (cmp : Cmp)" if em.uses_cmp else "") + (" (self_ : %s)" % STRUCTS[struct]["lean"] if struct else "") + \
                "".join(" (self_%s : %s)" % (f, lean_ty(ft)) for f, ft in fields.items()) + \
                "".join(" (%s : %s)" % (env[pn][0], lean_ty(pt)) for pn, pt in params)
            fuel = em.uses_fuel
            out.append("/-- %s::%s -/\ndef %s%s%s : Res %s := do\n%s\n" % (
                fname, rust, lean, " (fuel : Nat)" if fuel else "", sig, em.full_ret_ty(), ind(code)))
            known[rust] = (lean, params, ret, fuel, list(fields), pr.selfkind if struct else None, struct, em.uses_cmp, list(pr.outs))
            if struct and pr.selfkind == "mut":
                MUT_SELF_METHODS.add(rust)
            if not struct and pr.selfkind is None and impl and not fuel:
                mm = re.search(r"impl\\s\+(\w+)", impl)
                if mm:
                    ASSOC_FNS[(mm.group(1), rust)] = (lean, params, ret)
            report.append((lean, "ok"))
        except Untranslatable as ex:
            out.append("-- UNTRANSLATABLE %s (%s::%s): %s\n" % (lean, fname, rust, ex))
            report.append((lean, "UNTRANSLATABLE: %s" % ex))
        except (OSError, ValueError, IndexError, KeyError, TypeError) as ex:
            out.append("-- UNTRANSLATABLE %s (%s::%s): %s %s\n" % (lean, fname, rust, type(ex).__name__, ex))
            report.append((lean, "UNTRANSLATABLE: %s %s" % (type(ex).__name__, ex)))
    head = ("import SstModel.Model.RustRt\nimport SstModel.Model.Block\nimport SstModel.Model.BlockBuilder\n/- GENERATED by tools/gen_funcs.py from /repo/src — do not edit. -/\n"
            "set_option linter.unusedVariables false\nnamespace Sst.Gen\nopen Sst\n\n")
    return head + "\n".join(out) + "\nend Sst.Gen\n", report


def main():
    src, outp, check = SRC, OUT, False
    a = sys.argv[1:]
    while a:
        x = a.pop(0)
        if x == "--src":
            src = a.pop(0)
        elif x == "--out":
            outp = a.pop(0)
        elif x == "--check":
            check = True
    text, report = translate(src)
    if check:
        sys.stdout.write(text)
    else:
        old = open(outp).read() if os.path.exists(outp) else None
        if old != text:
            open(outp, "w").write(text)
    for n, r in report:
        print("%-24s %s" % (n, r), file=sys.stderr if check else sys.stdout)
    return 0


if __name__ == "__main__":
    sys.exit(main())
