#!/usr/bin/env python3
"""Re-applies every kept seeded change (seeded/*/meta.json) to /repo in turn, runs the quick check of the
property it breaks (and of the other checks recorded as catching it), expects a VIOLATION, and restores /repo."""
import glob, json, os, subprocess, sys
bad = 0
for mf in sorted(glob.glob("/verif/seeded/*/meta.json")):
    m = json.load(open(mf))
    d = os.path.dirname(mf)
    patch = os.path.join(d, "bug_only.diff" if os.path.exists(os.path.join(d, "bug_only.diff")) else "patch.diff")
    subprocess.run(["git", "-C", "/repo", "reset", "-q", "--hard", "HEAD"], check=True)
    r = subprocess.run(["git", "-C", "/repo", "apply", patch])
    if r.returncode != 0:
        print("%-50s patch does not apply" % m["seed"]); bad += 1; continue
    res = []
    for p in (m["caught_by"] if len(sys.argv) < 2 else [m["breaks_property"]]):
        c = subprocess.run(["/verif/check", p], cwd="/verif", stdout=subprocess.PIPE, stderr=subprocess.STDOUT, text=True)
        v = [l for l in c.stdout.splitlines() if l.startswith("VIOLATION")]
        kind = "judge" if v and "no-failing-input-found" not in v[0] else ("tie" if v else "MISSED")
        if p == m["breaks_property"] and kind == "MISSED":
            bad += 1
        res.append("%s:%s" % (p, kind))
    print("%-50s %s" % (m["seed"], " ".join(res)))
    sys.stdout.flush()
    subprocess.run(["git", "-C", "/repo", "reset", "-q", "--hard", "HEAD"], check=True)
subprocess.run(["git", "-C", "/verif", "checkout", "-q", "--", "evidence"])  # evidence written while /repo was patched is not kept
subprocess.run(["python3", "/verif/tools/gen_consts.py"], stdout=subprocess.DEVNULL)
subprocess.run(["python3", "/verif/tools/gen_funcs.py"], stdout=subprocess.DEVNULL)
sys.exit(1 if bad else 0)
