#!/bin/bash
# usage: try_seed.sh <patch.diff> <Cxx> [Cyy ...]  — applies a seeded change to /repo, runs the checks, reverts.
set -u
patch="$1"; shift
git -C /repo reset -q --hard HEAD
if ! git -C /repo apply "$patch"; then echo "patch does not apply"; exit 2; fi
for p in "$@"; do
  out=$(cd /verif && ./check "$p" 2>&1); rc=$?
  echo "$p rc=$rc $(echo "$out" | grep -E '^VIOLATION' | head -1)"
  echo "$out" | grep -vE '^VIOLATION|^KNOWN' | tail -1
done
git -C /repo reset -q --hard HEAD
git -C /repo status --short
git -C /verif checkout -q -- evidence 2>/dev/null  # evidence written while /repo was patched is not kept
python3 /verif/tools/gen_consts.py > /dev/null
python3 /verif/tools/gen_funcs.py > /dev/null   # the generated files must describe the UNCHANGED tree again
