#!/bin/bash
# usage: confirm_seed.sh <agent worktree> — re-validates a seeded change in a fresh scratch worktree:
#  with the change: the 39 existing tests pass and the demonstration fails; without it: the demonstration passes.
set -u
src="$1"; name=$(basename "$src")
W=/tmp/confirm_$name
git -C /repo worktree remove --force "$W" 2>/dev/null; rm -rf "$W"
git -C /repo worktree add -q --detach "$W" HEAD || exit 2
cd "$W"
bug="$src/patch.diff"; [ -f "$src/bug_only.diff" ] && bug="$src/bug_only.diff"
git apply "$src/patch.diff" || { echo "patch.diff does not apply"; exit 2; }
[ -f "$src/tests/seeded_demo.rs" ] && mkdir -p tests && cp "$src/tests/seeded_demo.rs" tests/
export CARGO_NET_OFFLINE=true CARGO_TARGET_DIR="$W/target"
echo "== with the change"
cargo test --offline 2>&1 | grep -E "^test result|seeded_demo|FAILED|failed" | head -12
echo "== without the change"
git apply -R "$bug" || { echo "cannot revert bug"; }
cargo test --offline 2>&1 | grep -E "^test result|seeded_demo" | head -8
cd /; git -C /repo worktree remove --force "$W"; rm -rf "$W"
