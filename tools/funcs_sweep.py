#!/usr/bin/env python3
"""Measures the function-level tie alone (no harness): for each diff given (default: /verif/harmless/*.diff) the diff
is applied to a scratch export of /repo's HEAD, tools/gen_funcs.py translates that tree into a scratch copy of the
Lean project, and the tie modules are rebuilt there.  Prints per diff: which functions were untranslatable, whether
the tie theorems still check.  usage: funcs_sweep.py <scratch lean project> [diff ...]"""
import glob, os, re, subprocess, sys, tempfile, shutil
lean = sys.argv[1]
diffs = sys.argv[2:] or sorted(glob.glob("/verif/harmless/*.diff"), key=lambda p: int(re.findall(r"(\d+)\.diff", p)[0]))
sys.path.insert(0, os.path.dirname(os.path.abspath(__file__)))
from propcfg import FUNC_TIES
mods = sorted({m for m, _ in FUNC_TIES.values() if os.path.exists(os.path.join(lean, m.replace(".", "/") + ".lean"))})
for d in diffs:
    tmp = tempfile.mkdtemp(prefix="fsweep_", dir="/root/scratch")
    try:
        subprocess.run("git -C /repo archive HEAD src | tar -x -C %s" % tmp, shell=True, check=True)
        if subprocess.run(["git", "apply", "--directory", tmp, "--unsafe-paths", d], cwd=tmp).returncode != 0:
            # fall back to patch(1)
            if subprocess.run(["patch", "-s", "-p1", "-d", tmp, "-i", d]).returncode != 0:
                print("%-60s does not apply" % os.path.basename(os.path.dirname(d) if d.endswith("patch.diff") else d)); continue
        r = subprocess.run([sys.executable, os.path.join(os.path.dirname(os.path.abspath(__file__)), "gen_funcs.py"), "--src", os.path.join(tmp, "src"),
                            "--out", os.path.join(lean, "SstModel", "Generated", "Funcs.lean")], stdout=subprocess.PIPE, text=True)
        bad = [l.split()[0] for l in r.stdout.splitlines() if "UNTRANSLATABLE" in l]
        try:
            b = subprocess.run(["lake", "build"] + mods, cwd=lean, stdout=subprocess.PIPE, stderr=subprocess.STDOUT, text=True, timeout=300)
        except subprocess.TimeoutExpired:
            subprocess.run(["pkill", "-f", lean + "/SstModel/Props/FuncsTie"])
            b = subprocess.CompletedProcess([], 124, "error: TIMEOUT.lean:0")
        errs = sorted(set(re.findall(r"error: (\S+?\.lean):\d+", b.stdout)))
        name = os.path.basename(os.path.dirname(d)) if d.endswith("patch.diff") else os.path.basename(d)
        files = ",".join(re.findall(r"^\+\+\+ b/src/(\S+)", open(d).read(), re.M))
        print("%-60s %-28s untranslatable=%s tie=%s" % (name, files, ",".join(bad) or "-", "ok" if b.returncode == 0 else "BROKEN " + ",".join(os.path.basename(e) for e in errs)))
        sys.stdout.flush()
    finally:
        shutil.rmtree(tmp, ignore_errors=True)
