#!/usr/bin/env python3
"""Systematic measurement of detection power (complements the LLM-seeded changes of DESIGN §11.5).

Enumerates first-order mutants of the non-test code of /repo/src (relational / logical / arithmetic operator
replacement, small-constant increments, boolean flips, negation removal, is_some/is_none swaps, deletion of
call / field-assignment statements), and for each one, in a scratch worktree (never in /repo):
  1. cargo build            - does not compile                     -> stillborn
  2. cargo test --lib       - the crate's 39 tests fail            -> killed by the existing tests
  3. tools/gen_consts.py    - a regenerated constant changes/vanishes -> killed by the translator
  4. the harness (built against the mutated tree) runs the quick tier of the properties mapped to the file,
     plus their regression witnesses: judge failure / model disagreement / crash / hang -> killed by <Cxx>
  otherwise                                                          -> SURVIVOR (equivalent mutant or a hole)
Workers run in parallel, each with its own worktree, harness copy and target directories under --work.
Usage: mutation_sweep.py [--work /tmp/mut] [--jobs 6] [--files a.rs,b.rs] [--limit N] [--out FILE] [--resume]
"""
import json, os, re, shutil, subprocess, sys, time, hashlib
from concurrent.futures import ThreadPoolExecutor

ROOT = "/verif"
DRIVER = os.path.join(ROOT, "lean/.lake/build/bin/sstdriver")
FILE_PROPS = {
    "block.rs": ["C04", "C06", "C08", "C03", "C01"],
    "block_builder.rs": ["C16", "C05", "C01"],
    "blockhandle.rs": ["C08", "C05", "C01"],
    "cache.rs": ["C11", "C10"],
    "cmp.rs": ["C17", "C02"],
    "error.rs": ["C20"],
    "filter.rs": ["C09", "C18", "C05", "C02"],
    "filter_block.rs": ["C09", "C08", "C05", "C02"],
    "options.rs": ["C08", "C20", "C01"],
    "table_block.rs": ["C07", "C14", "C08", "C01"],
    "table_builder.rs": ["C13", "C16", "C15", "C05", "C01"],
    "table_reader.rs": ["C04", "C06", "C10", "C14", "C07", "C08", "C18", "C15", "C12", "C01", "C02", "C03", "C19"],
    "types.rs": ["C07", "C08", "C01"],
}
REL = [(" < ", " <= "), (" <= ", " < "), (" > ", " >= "), (" >= ", " > "), (" == ", " != "), (" != ", " == "),
       (" && ", " || "), (" || ", " && "), (" + ", " - "), (" - ", " + "), (" + 1", ""), (" - 1", ""),
       (" + 1", " + 2"), ("true", "false"), ("false", "true"), ("if !", "if "), (".is_some()", ".is_none()"),
       (".is_none()", ".is_some()"), (".is_empty()", ".len() == 1"), (" >> ", " << "), (" << ", " >> "),
       (" | ", " & "), (" & ", " | "), (" / ", " * "), (" % ", " / "), ("Ordering::Less", "Ordering::Greater"),
       ("Ordering::Greater", "Ordering::Less"), (".min(", ".max("), (".max(", ".min("), ("break;", "continue;"),
       ("continue;", "break;"), ("Ordering::Equal", "Ordering::Less")]


def code_lines(path):
    """(line index, text) of mutable lines: outside `mod tests`, hook blocks, comments, attributes."""
    src = open(path).read().split("\n")
    out, skip_next, in_tests, depth_hook = [], False, False, None
    for i, l in enumerate(src):
        s = l.strip()
        if s.startswith("#[cfg(test)]"):
            in_tests = True
        if in_tests:
            continue
        if s.startswith("#[cfg(sstable_verif)]"):
            skip_next = True
            continue
        if skip_next:
            # skip the hooked item: a single statement/line, or a block up to its closing brace at same indent
            if s.endswith("{") or s.endswith("("):
                depth_hook = len(l) - len(l.lstrip())
            skip_next = False
            continue
        if depth_hook is not None:
            if (len(l) - len(l.lstrip())) <= depth_hook and (s.startswith("}") or s.startswith(")")):
                depth_hook = None
            continue
        if not s or s.startswith("//") or s.startswith("#[") or s.startswith("use ") or s.startswith("pub use"):
            continue
        out.append((i, l))
    return src, out


def strip_strings(l):
    return re.sub(r'"(?:[^"\\]|\\.)*"', lambda m: '"' + "_" * (len(m.group(0)) - 2) + '"', l).split("//")[0]


def mutants_of(fname, path):
    src, lines = code_lines(path)
    res = []
    for i, l in lines:
        bare = strip_strings(l)
        for a, b in ([] if os.environ.get("MUT_EXT") else REL):
            start = 0
            while True:
                j = bare.find(a, start)
                if j < 0:
                    break
                start = j + len(a)
                if a in ("true", "false") and (j > 0 and (bare[j - 1].isalnum() or bare[j - 1] == "_") or (j + len(a) < len(bare) and (bare[j + len(a)].isalnum() or bare[j + len(a)] == "_"))):
                    continue
                if a == " - " and "->" in bare[j:j + 4]:
                    continue
                if a in (" < ", " > ") and ("Vec<" in bare or "Option<" in bare or "Result<" in bare or "impl<" in bare or "fn " in bare and "<" in bare.split("(")[0]):
                    continue
                if a == " & " and ("&self" in bare or ": &" in bare):
                    pass
                new = l[:j] + b + l[j + len(a):]
                res.append((fname, i, "%s->%s" % (a.strip() or "''", b.strip() or "''"), new))
        # small integer literals (not in const tables / shifts of masks)
        for m in ([] if os.environ.get("MUT_EXT") else re.finditer(r"(?<![\w.\]])(\d{1,2})(?![\w.\d])", bare)):
            v = int(m.group(1))
            if v > 64 or "const " in bare or "0x" in bare:
                continue
            new = l[:m.start(1)] + str(v + 1) + l[m.end(1):]
            res.append((fname, i, "%d->%d" % (v, v + 1), new))
        if os.environ.get("MUT_EXT"):
            # second operator set: range ends, index shifts, narrowing casts, swapped comparator arguments,
            # Some -> None results, early `return` removal of guards
            for m in re.finditer(r"\.\.([A-Za-z_][\w\.\(\)]*)\]", bare):
                res.append((fname, i, "range end -1", l[:m.start(1)] + m.group(1) + " - 1" + l[m.end(1):]))
            for m in re.finditer(r"\[([A-Za-z_][\w\.]*)\.\.", bare):
                res.append((fname, i, "range start +1", l[:m.start(1)] + m.group(1) + " + 1" + l[m.end(1):]))
            for m in re.finditer(r"\[([a-z_][\w\.]*)\](?!\s*=[^=])", bare):
                res.append((fname, i, "index +1", l[:m.start(1)] + m.group(1) + " + 1" + l[m.end(1):]))
            for a, b in [(" as u32", " as u16"), (" as usize", " as u8"), (" as u64", " as u32"), (" as u8", " as u32 as u8")]:
                j = bare.find(a)
                if j >= 0 and a != " as u8":
                    res.append((fname, i, "%s->%s" % (a.strip(), b.strip()), l[:j] + b + l[j + len(a):]))
            for m in re.finditer(r"\.cmp\(([^,()]+), ([^,()]+)\)", bare):
                res.append((fname, i, "swap cmp args", l[:m.start(1)] + m.group(2) + ", " + m.group(1) + l[m.end(2):]))
            m = re.match(r"^(\s*)(return )?Some\((.*)\)(;?)$", l.split("//")[0].rstrip())
            if m and "=>" not in l:
                res.append((fname, i, "Some->None", m.group(1) + (m.group(2) or "") + "None" + m.group(4)))
            for a, b in [(".wrapping_add(", ".wrapping_sub("), (".wrapping_shr(", ".wrapping_shl("), (".saturating_mul(", ".saturating_add("), (".checked_add(", ".checked_sub("), (".len()", ".len() + 1"), (".seek_to_first()", ".reset()"), (".advance()", ".valid()"), (".is_ok()", ".is_err()"), ("Ok(true)", "Ok(false)"), ("Ok(false)", "Ok(true)"), (".clone()", ".clone()")]:
                if a == b:
                    continue
                j = bare.find(a)
                if j >= 0:
                    res.append((fname, i, "%s->%s" % (a, b), l[:j] + b + l[j + len(a):]))
            continue
        # statement deletion: plain call statements and field assignments
        s = l.strip()
        if re.match(r"^(self\.)?[\w\.]+\([^;]*\);$", s) or re.match(r"^self\.[\w\.]+ (\+|-)?= [^;]*;$", s):
            if not s.startswith("assert") and not s.startswith("debug_assert"):
                res.append((fname, i, "delete statement", l[:len(l) - len(l.lstrip())] + "();" if False else ""))
    # dedupe identical results
    seen, out = set(), []
    for m in res:
        key = (m[0], m[1], m[3])
        if key in seen or m[3] == src[m[1]]:
            continue
        seen.add(key)
        out.append(m)
    return out


def sh(cmd, cwd=None, env=None, timeout=1800):
    e = dict(os.environ)
    e["CARGO_NET_OFFLINE"] = "true"
    if env:
        e.update(env)
    try:
        p = subprocess.run(cmd, cwd=cwd, env=e, stdout=subprocess.PIPE, stderr=subprocess.STDOUT, text=True, timeout=timeout)
        return p.returncode, p.stdout
    except subprocess.TimeoutExpired as ex:
        return 124, "TIMEOUT " + str(ex.stdout or "")[-300:]


class Worker:
    def __init__(self, k, work):
        self.k = k
        self.repo = os.path.join(work, "w%d" % k)
        self.harness = os.path.join(work, "h%d" % k)
        self.tmp = os.path.join(work, "t%d" % k)
        sh(["git", "-C", "/repo", "worktree", "remove", "--force", self.repo])
        shutil.rmtree(self.repo, ignore_errors=True)
        rc, o = sh(["git", "-C", "/repo", "worktree", "add", "-q", "--detach", self.repo, "HEAD"])
        assert rc == 0, o
        if not os.path.exists(os.path.join(self.repo, "Cargo.lock")):
            shutil.copy("/repo/Cargo.lock", os.path.join(self.repo, "Cargo.lock"))
        shutil.rmtree(self.harness, ignore_errors=True)
        shutil.copytree(os.path.join(ROOT, "harness"), self.harness, ignore=shutil.ignore_patterns("target"))
        ct = open(os.path.join(self.harness, "Cargo.toml")).read().replace('path = "/repo"', 'path = "%s"' % self.repo)
        open(os.path.join(self.harness, "Cargo.toml"), "w").write(ct)
        cfg = open(os.path.join(self.harness, ".cargo/config.toml")).read()
        cfg = re.sub(r'target-dir = "[^"]*"', 'target-dir = "%s/target"' % self.harness, cfg)
        open(os.path.join(self.harness, ".cargo/config.toml"), "w").write(cfg)
        shutil.copy("/repo/Cargo.lock", os.path.join(self.harness, "Cargo.lock"))
        os.makedirs(self.tmp, exist_ok=True)
        self.base_consts = self.consts()
        # warm builds
        sh(["cargo", "test", "--offline", "--lib", "--no-run", "-j", "3"], cwd=self.repo, env={"CARGO_TARGET_DIR": self.repo + "/target"})
        sh(["cargo", "build", "--offline", "--bins", "-j", "3"], cwd=self.harness)

    def consts(self):
        out = os.path.join(self.tmp, "Consts.lean")
        rc, o = sh(["python3", os.path.join(ROOT, "tools/gen_consts.py")], env={"SST_REPO": self.repo, "SST_CONSTS_OUT": out})
        try:
            j = json.loads(o)
            return json.dumps({"found": j["found"], "missing": j["missing"]}, sort_keys=True)
        except Exception:
            return "unparsable: " + o[-200:]

    def run(self, mut):
        fname, line, op, new = mut
        path = os.path.join(self.repo, "src", fname)
        orig = open(path).read()
        src = orig.split("\n")
        old = src[line]
        if new == "":
            src[line] = ""
        else:
            src[line] = new
        open(path, "w").write("\n".join(src))
        t0 = time.time()
        try:
            env = {"CARGO_TARGET_DIR": self.repo + "/target"}
            rc, o = sh(["cargo", "build", "--offline", "-j", "3"], cwd=self.repo, env=env, timeout=600)
            if rc != 0:
                return "stillborn", ""
            rc, o = sh(["cargo", "test", "--offline", "--lib", "-j", "3"], cwd=self.repo, env=env, timeout=150)
            if rc != 0:
                m = re.findall(r"test (\S+) \.\.\. FAILED", o)
                return "killed:tests", ",".join(m[:3]) or ("timeout" if rc == 124 else "abort")
            c = self.consts()
            if c != self.base_consts:
                return "killed:translator", ""
            rc, o = sh(["cargo", "build", "--offline", "--bins", "-j", "3"], cwd=self.harness, timeout=900)
            if rc != 0:
                return "killed:harness-build", o[-200:]
            bin_ = os.path.join(self.harness, "target/debug")
            for p in FILE_PROPS[fname]:
                rc, o = sh([os.path.join(bin_, "witness"), "all", p], timeout=300)
                if " VIOLATED" in o:
                    return "killed:%s" % p, "witness " + [l for l in o.splitlines() if " VIOLATED" in l][0][:80]
                outf = os.path.join(self.tmp, "out.json")
                if os.path.exists(outf):
                    os.remove(outf)
                rc, o = sh([os.path.join(bin_, "sstverif"), p, "--tier", "quick", "--seed", "1", "--driver", DRIVER, "--threads", "3", "--out", outf], timeout=420)
                if rc != 0 or not os.path.exists(outf):
                    return "killed:%s" % p, "crash/hang rc=%s" % rc
                j = json.load(open(outf))
                jf = [x for x in j.get("judge_failures", []) if not (isinstance(x, dict) and x.get("finding_key"))]
                if jf:
                    return "killed:%s" % p, "judge: " + str(jf[0].get("what", ""))[:90]
                if j.get("disagreements"):
                    return "killed:%s" % p, "model disagreement (no-failing-input-found)"
            return "SURVIVOR", ""
        finally:
            open(path, "w").write(orig)
            self.last = time.time() - t0


def main():
    a = sys.argv[1:]
    opt = {"--work": "/tmp/mut", "--jobs": "6", "--files": "", "--limit": "0", "--out": os.path.join(ROOT, "findings/mutation_sweep.jsonl"), "--stride": "1"}
    i = 0
    resume = False
    while i < len(a):
        if a[i] == "--resume":
            resume = True
            i += 1
            continue
        opt[a[i]] = a[i + 1]
        i += 2
    work, jobs = opt["--work"], int(opt["--jobs"])
    os.makedirs(work, exist_ok=True)
    files = [f for f in opt["--files"].split(",") if f] or sorted(FILE_PROPS)
    muts = []
    for f in files:
        muts += mutants_of(f, os.path.join("/repo/src", f))
    stride = int(opt["--stride"])
    if stride > 1:
        muts = [m for k, m in enumerate(muts) if k % stride == 0]
    if int(opt["--limit"]):
        muts = muts[: int(opt["--limit"])]
    done = set()
    if resume and os.path.exists(opt["--out"]):
        for l in open(opt["--out"]):
            try:
                j = json.loads(l)
                done.add((j["file"], j["line"], j["op"], j["new"]))
            except Exception:
                pass
    todo = [m for m in muts if (m[0], m[1] + 1, m[2], m[3].strip()) not in done]
    print("mutants: %d (to do: %d), workers: %d" % (len(muts), len(todo), jobs), flush=True)
    if "--list" in opt:
        return
    workers = [None] * jobs
    with ThreadPoolExecutor(jobs) as ex:
        ws = list(ex.map(lambda k: Worker(k, work), range(jobs)))
    import queue
    q = queue.Queue()
    for m in todo:
        q.put(m)
    outf = open(opt["--out"], "a" if resume else "w")
    counts = {}

    def loop(w):
        while True:
            try:
                m = q.get_nowait()
            except queue.Empty:
                return
            try:
                verdict, detail = w.run(m)
            except Exception as e:  # noqa
                verdict, detail = "error", repr(e)[:200]
            rec = {"file": m[0], "line": m[1] + 1, "op": m[2], "new": m[3].strip(), "verdict": verdict, "detail": detail, "secs": round(getattr(w, "last", 0), 1)}
            outf.write(json.dumps(rec) + "\n")
            outf.flush()
            k = verdict.split(":")[0] if not verdict.startswith("killed:C") else "killed:check"
            counts[verdict] = counts.get(verdict, 0) + 1
            if verdict == "SURVIVOR":
                print("SURVIVOR %s:%d %s | %s" % (m[0], m[1] + 1, m[2], m[3].strip()[:100]), flush=True)

    with ThreadPoolExecutor(jobs) as ex:
        list(ex.map(loop, ws))
    outf.close()
    print(json.dumps(counts, indent=1))
    for w in ws:
        sh(["git", "-C", "/repo", "worktree", "remove", "--force", w.repo])
    shutil.rmtree(work, ignore_errors=True)
    sh(["git", "-C", "/repo", "worktree", "prune"])


if __name__ == "__main__":
    main()
