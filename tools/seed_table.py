#!/usr/bin/env python3
"""Prints the markdown table of kept seeded changes (from seeded/*/meta.json) for DESIGN.md §11.5."""
import json, glob, os
ROOT = os.path.dirname(os.path.dirname(os.path.abspath(__file__)))
print("| seed | breaks | needs to manifest | detected by | how it went |")
print("|---|---|---|---|---|")
for f in sorted(glob.glob(os.path.join(ROOT, "seeded", "*", "meta.json"))):
    m = json.load(open(f))
    print("| %s | %s | %s | %s | %s |" % (m["seed"], m["breaks_property"], m["needs_to_manifest"].replace("|", "/"),
                                      ", ".join(m.get("caught_by", [])), m.get("ran", "").replace("|", "/")))
