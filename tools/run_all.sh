#!/bin/bash
# runs every check (claimed or not) on the current tree; prints one line each; rewrites all evidence files
cd /verif
git -C /repo status --short | grep -q . && echo "WARNING: /repo working tree is not clean"
python3 - <<'PY'
import sys; sys.path.insert(0,'tools')
from propcfg import PROPS
print(" ".join(sorted(PROPS)))
PY
for p in $(python3 -c "import sys; sys.path.insert(0,'/verif/tools'); from propcfg import PROPS; print(' '.join(sorted(PROPS)))"); do
  ./check $p --tier ${1:-quick} | grep -vE "^KNOWN" | tail -2 | tr '\n' ' '; echo
done
