#!/usr/bin/env python3
"""Self-test of detection power: for every `fixed:` entry of known_findings.txt, re-introduce the defect
(reverse-apply the fix commit to /repo's working tree), run the property's quick check, expect a
VIOLATION, and restore the tree. Prints one line per fix. Never commits anything to /repo."""
import re, subprocess, sys
rows = []
for line in open("/verif/known_findings.txt"):
    m = re.match(r"fixed: property=(\S+) (\S+) (\S+)", line)
    if m:
        rows.append((m.group(1), m.group(2), m.group(3)))
only = sys.argv[1:] 
bad = 0
for prop, commit, name in rows:
    if only and prop not in only and name not in only:
        continue
    subprocess.run(["git", "-C", "/repo", "reset", "-q", "--hard", "HEAD"], check=True)
    patch = subprocess.run(["git", "-C", "/repo", "show", commit], stdout=subprocess.PIPE, check=True).stdout
    r = subprocess.run(["git", "-C", "/repo", "apply", "-R"], input=patch, stdout=subprocess.PIPE, stderr=subprocess.STDOUT)
    if r.returncode != 0:
        # later fixes touch the same lines: try plain reverse with fuzz via patch(1)
        subprocess.run(["git", "-C", "/repo", "checkout", "--", "."], check=True)
        r = subprocess.run(["patch", "-R", "-p1", "-d", "/repo", "--no-backup-if-mismatch", "-F3"], input=patch, stdout=subprocess.PIPE, stderr=subprocess.STDOUT)
    if r.returncode != 0:
        print("%-4s %-8s %-5s cannot re-introduce (conflicts with later fixes)" % (prop, commit, name))
        subprocess.run(["git", "-C", "/repo", "checkout", "--", "."], check=True)
        subprocess.run(["git", "-C", "/repo", "clean", "-fdq", "src"], check=False)
        continue
    c = subprocess.run(["/verif/check", prop], stdout=subprocess.PIPE, stderr=subprocess.STDOUT, text=True, cwd="/verif")
    viol = [l for l in c.stdout.splitlines() if l.startswith("VIOLATION")]
    status = "DETECTED" if c.returncode == 1 and viol else "MISSED"
    if status == "MISSED":
        bad += 1
    print("%-4s %-8s %-5s %s %s" % (prop, commit, name, status, (viol[0] if viol else c.stdout.strip().splitlines()[-1] if c.stdout.strip() else "")))
    sys.stdout.flush()
    subprocess.run(["git", "-C", "/repo", "checkout", "--", "."], check=True)
    subprocess.run(["git", "-C", "/repo", "clean", "-fdq", "src"], check=False)
subprocess.run(["git", "-C", "/verif", "checkout", "-q", "--", "evidence"])  # evidence written while /repo was patched is not kept
subprocess.run(["python3", "/verif/tools/gen_consts.py"], stdout=subprocess.DEVNULL)
sys.exit(1 if bad else 0)
