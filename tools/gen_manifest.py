#!/usr/bin/env python3
"""Writes /verif/MANIFEST.json from tools/propcfg.py (claimed properties -> checks, others -> not_applicable)."""
import json, os, subprocess, sys
ROOT = os.path.dirname(os.path.dirname(os.path.abspath(__file__)))
sys.path.insert(0, os.path.join(ROOT, "tools"))
from propcfg import PROPS
from proptext import TEXT

props = [json.loads(l) for l in open(os.path.join(ROOT, "properties.jsonl"))]
log = subprocess.run(["git", "-C", "/repo", "log", "--format=%h %s"], stdout=subprocess.PIPE, text=True).stdout.splitlines()
fixes = [l.split()[0] for l in log if l.split(" ", 1)[1].startswith("fix:")]
hooks = [l.split()[0] for l in log if "verif hooks" in l]
m = {
    "version": 1,
    "setup_cmd": "cd /verif && ./setup.sh",
    "hooks": {"guard": "sstable_verif",
              "enable": "RUSTFLAGS='--cfg sstable_verif' (set in /verif/harness/.cargo/config.toml); the harness crate depends on /repo by path",
              "baseline_off_cmd": "cd /repo && cargo test --workspace --no-fail-fast --offline",
              "source_commits": hooks, "add_only": True},
    "engines": [
        {"name": "lean-model", "path": "lean/", "serves_properties": [p["id"] for p in props],
         "kind_free_text": "Lean 4 model (SstModel/Model), Spec (SstModel/Spec), lemmas and property theorems (SstModel/Lemmas, SstModel/Props); sstdriver = compiled line-protocol driver over Model + Spec judges; no Mathlib"},
        {"name": "harness", "path": "harness/", "serves_properties": [p["id"] for p in props],
         "kind_free_text": "Rust correspondence / judging harness linking the real crate (path dependency on /repo, --cfg sstable_verif), regression witnesses of all fixed defects"},
        {"name": "translator", "path": "tools/gen_consts.py", "serves_properties": [p["id"] for p in props],
         "kind_free_text": "regenerates the model's constants from /repo/src on every run"},
        {"name": "function-translator", "path": "tools/gen_funcs.py", "serves_properties": [k for k, v in PROPS.items() if v.get("funcs")],
         "kind_free_text": "parses small Rust functions of /repo/src and regenerates them as Lean definitions (lean/SstModel/Generated/Funcs.lean) on every run; lean/SstModel/Props/FuncsTie proves each equal to the hand-written model function for every input; lean/FuncsDiff.lean searches for an input when such a proof no longer checks"}],
    "checks": [], "not_applicable": [],
    "notes": "Technique family: machine-checked proof in Lean 4 + checked correspondence (hand-written model run against the real crate on every check). See DESIGN.md. fix: commits in /repo (oldest first): " + " ".join(reversed(fixes)),
}
for p in props:
    pid = p["id"]
    cfg = PROPS[pid]
    t = TEXT.get(pid, {})
    if cfg.get("claimed"):
        m["checks"].append({
            "property_id": pid,
            "quick_cmd": "./check %s --tier quick" % pid,
            "thorough_cmd": "./check %s --tier thorough" % pid,
            "evidence_file": "/verif/evidence/%s.json" % pid,
            "replay_cmd_template": "cat {path}  # holds the failing input (or the broken theorem / stream) and the exact re-run command",
            "engine": "lean-model",
            "technique": t.get("technique", "Lean 4 theorem about the model + checked correspondence of the model with the crate") + (
                "; function-level tie: %s translated from the Rust source on every run and proved equal to the model for every input" % ", ".join(cfg["funcs"]) if cfg.get("funcs") else ""),
            "level_claimed": {"category": cfg.get("level", "proof"), "text": t.get("level_text", "") + ((" PARTIAL: " + cfg["partial"]) if cfg.get("partial") else ""), "design_ref": "DESIGN.md §7 " + pid},
            "level_note": t.get("level_note", "Trusted: Lean kernel (axioms propext, Classical.choice, Quot.sound), tools/gen_consts.py, the hand-written model tied to the code by the correspondence streams of this property; see evidence.assumptions.") + (
                " Also trusted: tools/gen_funcs.py and Model/RustRt.lean (meaning of the translated Rust operations)." if cfg.get("funcs") else ""),
        })
    else:
        m["not_applicable"].append({"property_id": pid, "reason": t.get("na_reason", "theorem not finished: the correspondence + judge check exists and runs (./check %s) but the property is not claimed until its Lean theorem is proved" % pid)})
json.dump(m, open(os.path.join(ROOT, "MANIFEST.json"), "w"), indent=1)
print("checks:", [c["property_id"] for c in m["checks"]])
