#!/usr/bin/env python3
"""Fingerprints of the modelled source files (non-test code, comments and whitespace stripped).
`srchash.py --update` records the fingerprints of the tree the model was last validated against
(tools/src_baseline.json, committed); `changed()` lists the files that differ now. A changed file is NOT a
violation: ./check only uses it to widen the search (more seeds) for the properties whose cone contains it."""
import hashlib, json, os, re, sys
REPO = os.environ.get("SST_REPO", "/repo")
BASE = os.path.join(os.path.dirname(os.path.abspath(__file__)), "src_baseline.json")
FILE_PROPS = {
    "block.rs": ["C01", "C02", "C03", "C04", "C06", "C08", "C14", "C19"],
    "block_builder.rs": ["C01", "C05", "C16"],
    "blockhandle.rs": ["C01", "C05", "C08", "C19"],
    "cache.rs": ["C10", "C11", "C12", "C18"],
    "cmp.rs": ["C02", "C03", "C05", "C17", "C19"],
    "error.rs": ["C20"],
    "filter.rs": ["C02", "C05", "C09", "C18"],
    "filter_block.rs": ["C02", "C05", "C08", "C09", "C18"],
    "options.rs": ["C01", "C08", "C10"],
    "table_block.rs": ["C01", "C06", "C07", "C08", "C14"],
    "table_builder.rs": ["C01", "C05", "C13", "C15", "C16"],
    "table_reader.rs": ["C01", "C02", "C03", "C04", "C06", "C07", "C08", "C10", "C12", "C14", "C15", "C18", "C19"],
    "types.rs": ["C01", "C07", "C08", "C14"],
}


def fingerprint(path):
    try:
        s = open(path).read()
    except OSError:
        return "missing"
    i = s.find("#[cfg(test)]\nmod tests")
    if i >= 0:
        s = s[:i]
    s = re.sub(r"//[^\n]*", "", s)
    s = re.sub(r"\s+", "", s)
    return hashlib.sha1(s.encode()).hexdigest()


def current():
    return {f: fingerprint(os.path.join(REPO, "src", f)) for f in FILE_PROPS}


def changed():
    try:
        base = json.load(open(BASE))
    except Exception:
        return sorted(FILE_PROPS)
    cur = current()
    return sorted(f for f in FILE_PROPS if cur[f] != base.get(f))


def props_of(files):
    return sorted({p for f in files for p in FILE_PROPS.get(f, [])})


if __name__ == "__main__":
    if "--update" in sys.argv:
        json.dump(current(), open(BASE, "w"), indent=1, sort_keys=True)
        print("baseline updated")
    else:
        c = changed()
        print(json.dumps({"changed": c, "properties": props_of(c)}))
