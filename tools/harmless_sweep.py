#!/usr/bin/env python3
"""False-alarm regression: applies each behaviour-preserving refactoring of /verif/harmless/*.diff (written by an
independent sub-agent: renamed locals, rewritten loops, extracted helpers, reordered pure statements, rotate_*
instead of shift pairs, reordered match arms, named constants) to /repo in turn, runs the quick checks of the
properties whose cone contains the touched file, and expects NO violation; restores /repo afterwards."""
import glob, os, re, subprocess, sys
sys.path.insert(0, os.path.dirname(os.path.abspath(__file__)))
import srchash
bad = 0
for d in sorted(glob.glob("/verif/harmless/*.diff"), key=lambda p: int(re.findall(r"(\d+)\.diff", p)[0])):
    subprocess.run(["git", "-C", "/repo", "reset", "-q", "--hard", "HEAD"], check=True)
    if subprocess.run(["git", "-C", "/repo", "apply", d]).returncode != 0:
        print("%s: does not apply (the tree moved on): skipped" % os.path.basename(d))
        continue
    files = re.findall(r"^\+\+\+ b/src/(\S+)", open(d).read(), re.M)
    props = srchash.props_of(files)
    res = []
    for p in props:
        c = subprocess.run(["/verif/check", p], cwd="/verif", stdout=subprocess.PIPE, stderr=subprocess.STDOUT, text=True)
        if c.returncode != 0:
            bad += 1
            res.append(p + ":ALARM")
    print("%-8s %-18s %d checks %s" % (os.path.basename(d), ",".join(files), len(props), " ".join(res) or "no alarm"))
    sys.stdout.flush()
    subprocess.run(["git", "-C", "/repo", "reset", "-q", "--hard", "HEAD"], check=True)
subprocess.run(["git", "-C", "/verif", "checkout", "-q", "--", "evidence"])
subprocess.run(["python3", "/verif/tools/gen_consts.py"], stdout=subprocess.DEVNULL)
subprocess.run(["python3", "/verif/tools/gen_funcs.py"], stdout=subprocess.DEVNULL)
sys.exit(1 if bad else 0)
