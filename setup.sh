#!/bin/bash
# Offline setup after a fresh restore: regenerate constants, build the Lean project (model, proofs,
# driver) and the harness against /repo's working tree.
set -e
cd "$(dirname "$0")"
export CARGO_NET_OFFLINE=true
python3 tools/gen_consts.py > /dev/null
python3 tools/gen_funcs.py > /dev/null
(cd lean && lake build SstModel sstdriver $(python3 -c "
import sys; sys.path.insert(0,'tools')
from propcfg import PROPS, FUNC_TIES
print(' '.join(sorted({m for p in PROPS.values() for m in p['lean_modules']} | {m for m, _ in FUNC_TIES.values()})))"))
[ -f harness/Cargo.lock ] || cp /repo/Cargo.lock harness/Cargo.lock
(cd harness && cargo build --offline --bins)
echo setup-ok
