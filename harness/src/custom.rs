//! User-supplied trait objects used by the streams; the same definitions exist in the Lean model
//! (`SstModel/Model/Custom.lean`).
use sstable::filter::FilterPolicy;
use sstable::Cmp;
use std::cmp::Ordering;

/// reverse bytewise order; separator and successor are the identity on the first argument
pub struct ReverseCmp;
impl Cmp for ReverseCmp {
    fn cmp(&self, a: &[u8], b: &[u8]) -> Ordering {
        b.cmp(a)
    }
    fn find_shortest_sep(&self, a: &[u8], _b: &[u8]) -> Vec<u8> {
        a.to_vec()
    }
    fn find_short_succ(&self, a: &[u8]) -> Vec<u8> {
        a.to_vec()
    }
    fn id(&self) -> &'static str {
        "verif.ReverseCmp"
    }
}

/// shorter keys first, keys of equal length bytewise; separator and successor are the identity on the first argument
pub struct LenFirstCmp;
impl Cmp for LenFirstCmp {
    fn cmp(&self, a: &[u8], b: &[u8]) -> Ordering {
        a.len().cmp(&b.len()).then_with(|| a.cmp(b))
    }
    fn find_shortest_sep(&self, a: &[u8], _b: &[u8]) -> Vec<u8> {
        a.to_vec()
    }
    fn find_short_succ(&self, a: &[u8]) -> Vec<u8> {
        a.to_vec()
    }
    fn id(&self) -> &'static str {
        "verif.LenFirstCmp"
    }
}

fn split<'a>(keys: &'a [u8], offs: &[usize]) -> Vec<&'a [u8]> {
    (0..offs.len())
        .map(|i| {
            let hi = if i + 1 == offs.len() { keys.len() } else { offs[i + 1] };
            &keys[offs[i]..hi]
        })
        .collect()
}
fn mark(k: &[u8]) -> u8 {
    if k.is_empty() {
        0
    } else {
        k[0].wrapping_add(1)
    }
}

/// filter = list of (first byte + 1), 0 for the empty key
pub struct FirstBytePolicy;
impl FilterPolicy for FirstBytePolicy {
    fn name(&self) -> &'static str {
        "verif.FirstByte"
    }
    fn create_filter(&self, keys: &[u8], offs: &[usize]) -> Vec<u8> {
        split(keys, offs).iter().map(|k| mark(k)).collect()
    }
    fn key_may_match(&self, key: &[u8], f: &[u8]) -> bool {
        f.contains(&mark(key))
    }
}

/// lying policies whose names are a proper prefix / an extension of the bloom policy's name
pub struct RejectAllPrefixPolicy;
impl FilterPolicy for RejectAllPrefixPolicy {
    fn name(&self) -> &'static str {
        "leveldb.BuiltinBloomFilter"
    }
    fn create_filter(&self, _keys: &[u8], offs: &[usize]) -> Vec<u8> {
        let mut v = vec![0u8; offs.len() + 8];
        v.push(1);
        v
    }
    fn key_may_match(&self, _key: &[u8], _f: &[u8]) -> bool {
        false
    }
}
pub struct RejectAllExtPolicy;
impl FilterPolicy for RejectAllExtPolicy {
    fn name(&self) -> &'static str {
        "leveldb.BuiltinBloomFilter2x"
    }
    fn create_filter(&self, _keys: &[u8], offs: &[usize]) -> Vec<u8> {
        let mut v = vec![0u8; offs.len() + 8];
        v.push(1);
        v
    }
    fn key_may_match(&self, _key: &[u8], _f: &[u8]) -> bool {
        false
    }
}
/// a policy under a foreign name whose filters reject everything
pub struct RejectAllPolicy;
impl FilterPolicy for RejectAllPolicy {
    fn name(&self) -> &'static str {
        "verif.RejectAll"
    }
    fn create_filter(&self, _keys: &[u8], offs: &[usize]) -> Vec<u8> {
        let mut v = vec![0u8; offs.len() + 8];
        v.push(1);
        v
    }
    fn key_may_match(&self, _key: &[u8], _f: &[u8]) -> bool {
        false
    }
}
