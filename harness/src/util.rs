//! Shared helpers: PRNG, hex, JSON writing, driver client, report.
use std::collections::BTreeMap;
use std::io::{BufRead, BufReader, Write};
use std::process::{Child, ChildStdin, ChildStdout, Command, Stdio};

// ---------------------------------------------------------------- PRNG (splitmix64) -----------
#[derive(Clone)]
pub struct Rng(pub u64);
impl Rng {
    pub fn new(seed: u64) -> Rng {
        Rng(seed ^ 0x9E3779B97F4A7C15)
    }
    pub fn next(&mut self) -> u64 {
        self.0 = self.0.wrapping_add(0x9E3779B97F4A7C15);
        let mut z = self.0;
        z = (z ^ (z >> 30)).wrapping_mul(0xBF58476D1CE4E5B9);
        z = (z ^ (z >> 27)).wrapping_mul(0x94D049BB133111EB);
        z ^ (z >> 31)
    }
    /// uniform in 0..n (n > 0)
    pub fn below(&mut self, n: usize) -> usize {
        (self.next() % (n as u64)) as usize
    }
    pub fn range(&mut self, lo: usize, hi: usize) -> usize {
        lo + self.below(hi - lo + 1)
    }
    pub fn chance(&mut self, num: usize, den: usize) -> bool {
        self.below(den) < num
    }
    pub fn pick<'a, T>(&mut self, xs: &'a [T]) -> &'a T {
        &xs[self.below(xs.len())]
    }
    pub fn bytes(&mut self, len: usize, alphabet: &[u8]) -> Vec<u8> {
        (0..len).map(|_| *self.pick(alphabet)).collect()
    }
    pub fn any_bytes(&mut self, len: usize) -> Vec<u8> {
        (0..len).map(|_| self.next() as u8).collect()
    }
    pub fn fork(&mut self) -> Rng {
        Rng::new(self.next())
    }
}

pub const ADV: &[u8] = &[0x00, 0x01, b'a', b'b', 0xfe, 0xff];

// ---------------------------------------------------------------- hex -------------------------
pub fn hex(b: &[u8]) -> String {
    if b.is_empty() {
        return "-".to_string();
    }
    let mut s = String::with_capacity(b.len() * 2);
    for x in b {
        s.push_str(&format!("{:02x}", x));
    }
    s
}
pub fn unhex(s: &str) -> Option<Vec<u8>> {
    if s == "-" {
        return Some(vec![]);
    }
    if s.len() % 2 != 0 {
        return None;
    }
    (0..s.len() / 2).map(|i| u8::from_str_radix(&s[2 * i..2 * i + 2], 16).ok()).collect()
}
pub fn hexlist(l: &[Vec<u8>]) -> String {
    if l.is_empty() {
        return ".".to_string();
    }
    l.iter().map(|b| hex(b)).collect::<Vec<_>>().join(",")
}
pub fn unhexlist(s: &str) -> Option<Vec<Vec<u8>>> {
    if s == "." {
        return Some(vec![]);
    }
    s.split(',').map(unhex).collect()
}
pub fn natlist(l: &[usize]) -> String {
    if l.is_empty() {
        return ".".to_string();
    }
    l.iter().map(|b| b.to_string()).collect::<Vec<_>>().join(",")
}

// ---------------------------------------------------------------- JSON ------------------------
#[derive(Clone, Debug)]
pub enum J {
    Null,
    B(bool),
    N(i64),
    F(f64),
    S(String),
    A(Vec<J>),
    O(Vec<(String, J)>),
}
impl J {
    pub fn s(x: &str) -> J {
        J::S(x.to_string())
    }
    pub fn obj(kv: Vec<(&str, J)>) -> J {
        J::O(kv.into_iter().map(|(k, v)| (k.to_string(), v)).collect())
    }
    pub fn write(&self, out: &mut String) {
        match self {
            J::Null => out.push_str("null"),
            J::B(b) => out.push_str(if *b { "true" } else { "false" }),
            J::N(n) => out.push_str(&n.to_string()),
            J::F(f) => out.push_str(&format!("{:.6}", f)),
            J::S(s) => {
                out.push('"');
                for c in s.chars() {
                    match c {
                        '"' => out.push_str("\\\""),
                        '\\' => out.push_str("\\\\"),
                        '\n' => out.push_str("\\n"),
                        '\r' => out.push_str("\\r"),
                        '\t' => out.push_str("\\t"),
                        c if (c as u32) < 0x20 => out.push_str(&format!("\\u{:04x}", c as u32)),
                        c => out.push(c),
                    }
                }
                out.push('"');
            }
            J::A(a) => {
                out.push('[');
                for (i, x) in a.iter().enumerate() {
                    if i > 0 {
                        out.push(',');
                    }
                    x.write(out);
                }
                out.push(']');
            }
            J::O(o) => {
                out.push('{');
                for (i, (k, v)) in o.iter().enumerate() {
                    if i > 0 {
                        out.push(',');
                    }
                    J::S(k.clone()).write(out);
                    out.push(':');
                    v.write(out);
                }
                out.push('}');
            }
        }
    }
    pub fn to_string(&self) -> String {
        let mut s = String::new();
        self.write(&mut s);
        s
    }
}

// ---------------------------------------------------------------- driver client ---------------
pub struct Driver {
    child: Child,
    stdin: ChildStdin,
    stdout: BufReader<ChildStdout>,
    pub requests: u64,
}
impl Driver {
    pub fn spawn(path: &str) -> Driver {
        let mut child = Command::new(path)
            .stdin(Stdio::piped())
            .stdout(Stdio::piped())
            .spawn()
            .unwrap_or_else(|e| panic!("cannot start model driver {}: {}", path, e));
        let stdin = child.stdin.take().unwrap();
        let stdout = BufReader::new(child.stdout.take().unwrap());
        Driver { child, stdin, stdout, requests: 0 }
    }
    /// one request line -> one response line
    pub fn ask(&mut self, line: &str) -> String {
        debug_assert!(!line.contains('\n'));
        self.requests += 1;
        self.stdin.write_all(line.as_bytes()).unwrap();
        self.stdin.write_all(b"\n").unwrap();
        self.stdin.flush().unwrap();
        let mut resp = String::new();
        let n = self.stdout.read_line(&mut resp).unwrap();
        if n == 0 {
            panic!("model driver closed its output on request: {}", &line[..line.len().min(200)]);
        }
        resp.trim_end().to_string()
    }
}
impl Drop for Driver {
    fn drop(&mut self) {
        let _ = self.child.kill();
        let _ = self.child.wait();
    }
}

// ---------------------------------------------------------------- report ----------------------
/// What one harness run found. `judge_failures`: the implementation's behaviour violates the
/// property as judged by the Spec (a real violation, with a replay). `disagreements`: model and
/// implementation differ (the tie is broken; the property is no longer shown).
pub struct Report {
    pub property: String,
    pub evaluations: u64,
    pub nontrivial: std::collections::HashSet<u64>,
    pub rule: String,
    pub samples: Vec<J>,
    pub dist: BTreeMap<String, u64>,
    pub judge_failures: Vec<J>,
    pub disagreements: Vec<J>,
    pub known: Vec<String>,
    pub notes: Vec<String>,
    pub max_samples: usize,
}
impl Report {
    pub fn new(property: &str, rule: &str) -> Report {
        Report {
            property: property.to_string(),
            evaluations: 0,
            nontrivial: Default::default(),
            rule: rule.to_string(),
            samples: vec![],
            dist: BTreeMap::new(),
            judge_failures: vec![],
            disagreements: vec![],
            known: vec![],
            notes: vec![],
            max_samples: 6,
        }
    }
    pub fn count(&mut self, key: &str) {
        *self.dist.entry(key.to_string()).or_insert(0) += 1;
    }
    pub fn count_n(&mut self, key: &str, n: u64) {
        *self.dist.entry(key.to_string()).or_insert(0) += n;
    }
    /// register one evaluated case; `nontrivial` cases are counted distinct by their canonical text
    pub fn case(&mut self, canonical: &str, nontrivial: bool) {
        self.evaluations += 1;
        if nontrivial {
            self.nontrivial.insert(fnv(canonical.as_bytes()));
        }
    }
    pub fn sample(&mut self, j: J) {
        if self.samples.len() < self.max_samples {
            self.samples.push(j);
        }
    }
    pub fn judge_fail(&mut self, j: J) {
        if self.judge_failures.len() < 20 {
            self.judge_failures.push(j);
        }
        self.count("judge_failures");
    }
    pub fn disagree(&mut self, j: J) {
        if self.disagreements.len() < 20 {
            self.disagreements.push(j);
        }
        self.count("disagreements");
    }
    pub fn to_json(&self) -> J {
        J::obj(vec![
            ("property", J::s(&self.property)),
            ("evaluations", J::N(self.evaluations as i64)),
            ("distinct_nontrivial", J::N(self.nontrivial.len() as i64)),
            ("rule", J::s(&self.rule)),
            ("samples", J::A(self.samples.clone())),
            ("distribution", J::O(self.dist.iter().map(|(k, v)| (k.clone(), J::N(*v as i64))).collect())),
            ("judge_failures", J::A(self.judge_failures.clone())),
            ("disagreements", J::A(self.disagreements.clone())),
            ("known_findings", J::A(self.known.iter().map(|s| J::s(s)).collect())),
            ("notes", J::A(self.notes.iter().map(|s| J::s(s)).collect())),
        ])
    }
}
pub fn fnv(b: &[u8]) -> u64 {
    let mut h: u64 = 0xcbf29ce484222325;
    for x in b {
        h ^= *x as u64;
        h = h.wrapping_mul(0x100000001b3);
    }
    h
}

/// Runs `f` catching unwinds (the default hook is silenced once at start-up).
pub fn guarded<T, F: FnOnce() -> T>(f: F) -> Result<T, ()> {
    std::panic::catch_unwind(std::panic::AssertUnwindSafe(f)).map_err(|_| ())
}

impl Report {
    pub fn merge(&mut self, r: Report) {
        self.evaluations += r.evaluations;
        self.nontrivial.extend(r.nontrivial);
        for (k, v) in r.dist {
            *self.dist.entry(k).or_insert(0) += v;
        }
        for s in r.samples {
            if self.samples.len() < self.max_samples {
                self.samples.push(s);
            }
        }
        for j in r.judge_failures {
            if self.judge_failures.len() < 20 {
                self.judge_failures.push(j);
            }
        }
        for j in r.disagreements {
            if self.disagreements.len() < 20 {
                self.disagreements.push(j);
            }
        }
        self.known.extend(r.known);
        self.notes.extend(r.notes);
    }
}

/// run `f` on `threads` workers, each with its own model driver and PRNG stream; merge the reports
thread_local! {
    /// index of the worker thread inside `parallel` (0 outside): lets generators place their rare, expensive
    /// cases deterministically (a given worker, a given case number) instead of racing for a global budget
    pub static WORKER_IX: std::cell::Cell<usize> = std::cell::Cell::new(0);
}

pub fn parallel<F>(driver: &str, threads: usize, seed: u64, base: Report, f: F) -> Report
where
    F: Fn(usize, &mut Driver, &mut Rng, &mut Report) + Sync,
{
    let mut rep = base;
    let results: Vec<Report> = std::thread::scope(|s| {
        let hs: Vec<_> = (0..threads.max(1))
            .map(|t| {
                let f = &f;
                let prop = rep.property.clone();
                s.spawn(move || {
                    let mut d = Driver::spawn(driver);
                    let mut rng = Rng::new(seed.wrapping_mul(1000003).wrapping_add(t as u64));
                    let mut r = Report::new(&prop, "");
                    WORKER_IX.with(|w| w.set(t));
                    // a panic that escapes the per-call guards (raised inside the crate under test by a call the
                    // runner did not wrap) must not take the whole run down as a mere "harness failed": it is
                    // reported as a failure of the case in flight, together with everything recorded so far
                    if guarded(|| f(t, &mut d, &mut rng, &mut r)).is_err() {
                        r.judge_fail(J::obj(vec![("what", J::s("a panic raised while the harness was calling the crate under test escaped to the worker (no per-call guard at that site)")), ("case_in_flight", J::s(&current_case()))]));
                    }
                    r
                })
            })
            .collect();
        hs.into_iter().map(|h| h.join().expect("worker thread failed")).collect()
    });
    for r in results {
        rep.merge(r);
    }
    rep
}

// ---------------------------------------------------------------- crash trace ------------------
// Each worker records the case it is about to run on the real crate. If the process dies (abort after
// memory corruption, stack overflow, SIGSEGV), a signal handler prints the recorded cases to stderr as
// `CRASH-CASE <slot> <text>` lines; ./check turns them into the replay of a violation.
const SLOTS: usize = 64;
const SLOT_LEN: usize = 8192;
static mut CASES: [[u8; SLOT_LEN]; SLOTS] = [[0; SLOT_LEN]; SLOTS];
static mut CASE_LEN: [usize; SLOTS] = [0; SLOTS];
thread_local! { static MY_SLOT: std::cell::Cell<usize> = std::cell::Cell::new(usize::MAX); }
static NEXT_SLOT: std::sync::atomic::AtomicUsize = std::sync::atomic::AtomicUsize::new(0);

/// the case most recently recorded by this thread
pub fn current_case() -> String {
    let slot = MY_SLOT.with(|s| s.get());
    if slot == usize::MAX {
        return String::new();
    }
    unsafe {
        let n = *(std::ptr::addr_of!(CASE_LEN[slot]));
        let src = std::ptr::addr_of!(CASES[slot]) as *const u8;
        String::from_utf8_lossy(std::slice::from_raw_parts(src, n.min(4000))).to_string()
    }
}

pub fn set_case(text: &str) {
    let slot = MY_SLOT.with(|s| {
        if s.get() == usize::MAX {
            s.set(NEXT_SLOT.fetch_add(1, std::sync::atomic::Ordering::SeqCst) % SLOTS);
        }
        s.get()
    });
    let b = text.as_bytes();
    let n = b.len().min(SLOT_LEN);
    unsafe {
        let dst = std::ptr::addr_of_mut!(CASES[slot]) as *mut u8;
        std::ptr::copy_nonoverlapping(b.as_ptr(), dst, n);
        *(std::ptr::addr_of_mut!(CASE_LEN[slot])) = n;
    }
}
extern "C" fn on_crash(sig: libc::c_int) {
    unsafe {
        for slot in 0..SLOTS {
            let n = *(std::ptr::addr_of!(CASE_LEN[slot]));
            if n > 0 {
                let head = b"CRASH-CASE ";
                libc::write(2, head.as_ptr() as *const libc::c_void, head.len());
                let src = std::ptr::addr_of!(CASES[slot]) as *const u8;
                libc::write(2, src as *const libc::c_void, n);
                libc::write(2, b"\n".as_ptr() as *const libc::c_void, 1);
            }
        }
        libc::_exit(128 + sig);
    }
}
pub fn install_crash_handler() {
    unsafe {
        // an alternate stack so that a stack overflow can still be reported
        let sz = 1 << 16;
        let stack = libc::malloc(sz);
        let ss = libc::stack_t { ss_sp: stack, ss_flags: 0, ss_size: sz };
        libc::sigaltstack(&ss, std::ptr::null_mut());
        for sig in [libc::SIGABRT, libc::SIGSEGV, libc::SIGBUS, libc::SIGILL].iter() {
            let mut sa: libc::sigaction = std::mem::zeroed();
            sa.sa_sigaction = on_crash as usize;
            sa.sa_flags = libc::SA_ONSTACK;
            libc::sigaction(*sig, &sa, std::ptr::null_mut());
        }
    }
}

/// `SSIterator::current` called the way callers that recycle their buffers do: with NON-EMPTY vectors
/// (the method must overwrite them); cross-checked against the crate's `current_key_val` helper
pub fn dirty_current<I: sstable::SSIterator + ?Sized>(it: &I) -> Option<(Vec<u8>, Vec<u8>)> {
    let (mut k, mut v) = (vec![0xAAu8, 0xBB, 0xCC], vec![0xDDu8; 5]);
    if it.current(&mut k, &mut v) {
        Some((k, v))
    } else {
        None
    }
}
