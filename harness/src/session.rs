//! S10: table sessions on the real crate — several tables and iterators over shared files, one
//! cache, one fault schedule; per-op outputs in the same text format as the model driver.
use crate::gen::*;
use crate::streams::{code_name, show_kv};
use crate::util::*;
use sstable::verif::take_block_events;
use sstable::*;
use std::collections::{HashMap, VecDeque};
use std::sync::{Arc, Mutex};

#[derive(Clone, Debug, PartialEq)]
pub enum Fault {
    None,
    IoError,
    Short(usize),
}
pub fn faults_str(f: &[Fault]) -> String {
    if f.is_empty() {
        return ".".into();
    }
    f.iter()
        .map(|x| match x {
            Fault::None => "n".to_string(),
            Fault::IoError => "e".to_string(),
            Fault::Short(k) => format!("s{}", k),
        })
        .collect::<Vec<_>>()
        .join(",")
}

#[derive(Default)]
pub struct Shared {
    pub sched: VecDeque<Fault>,
    pub log: Vec<(usize, usize, usize)>,
}
pub struct FaultFile {
    pub id: usize,
    pub data: Arc<Vec<u8>>,
    pub shared: Arc<Mutex<Shared>>,
}
impl RandomAccess for FaultFile {
    fn read_at(&self, off: usize, dst: &mut [u8]) -> Result<usize> {
        let f = {
            let mut s = self.shared.lock().unwrap();
            s.log.push((self.id, off, dst.len()));
            s.sched.pop_front().unwrap_or(Fault::None)
        };
        if f == Fault::IoError {
            return Err(Status::new(StatusCode::IOError, "injected read failure"));
        }
        if f == Fault::None {
            // no fault: the crate's own in-memory source (`impl RandomAccess for Vec<u8>`) serves the read,
            // including reads at or beyond the end of the file (declared size larger than the file)
            let v: &Vec<u8> = &self.data;
            return v.read_at(off, dst);
        }
        let normal = if off > self.data.len() { 0 } else { dst.len().min(self.data.len() - off) };
        let n = match f {
            Fault::Short(k) => k.min(normal),
            _ => normal,
        };
        if n > 0 {
            dst[..n].copy_from_slice(&self.data[off..off + n]);
        }
        Ok(n)
    }
}

#[derive(Clone, Debug)]
pub enum Op {
    Open { t: usize, file: usize, size: usize, cmp: CmpKind, pol: PolKind },
    Get(usize, Vec<u8>),
    Approx(usize, Vec<u8>),
    Iter(usize, usize),
    Adv(usize),
    Next(usize),
    Prev(usize),
    Reset(usize),
    First(usize),
    Seek(usize, Vec<u8>),
    Valid(usize),
    Cur(usize),
    Key(usize),
    Drop(usize),
    Faults(Vec<Fault>),
}
impl Op {
    pub fn text(&self) -> String {
        match self {
            Op::Open { t, file, size, cmp, pol } => format!("open,{},{},{},{},{}", t, file, size, cmp.name(), pol.name()),
            Op::Get(t, k) => format!("get,{},{}", t, hex(k)),
            Op::Approx(t, k) => format!("approx,{},{}", t, hex(k)),
            Op::Iter(i, t) => format!("iter,{},{}", i, t),
            Op::Adv(i) => format!("adv,{}", i),
            Op::Next(i) => format!("next,{}", i),
            Op::Prev(i) => format!("prev,{}", i),
            Op::Reset(i) => format!("reset,{}", i),
            Op::First(i) => format!("first,{}", i),
            Op::Seek(i, k) => format!("seek,{},{}", i, hex(k)),
            Op::Valid(i) => format!("valid,{}", i),
            Op::Cur(i) => format!("cur,{}", i),
            Op::Key(i) => format!("key,{}", i),
            Op::Drop(t) => format!("drop,{}", t),
            Op::Faults(f) => format!("faults,{}", faults_str(f).replace(',', "+")),
        }
    }
}

#[derive(Clone, Debug)]
pub struct Session {
    pub cap: usize,
    pub files: Vec<Vec<u8>>,
    pub faults: Vec<Fault>,
    pub ops: Vec<Op>,
}

fn bst(s: &(usize, usize, usize, usize, Vec<u8>, usize)) -> String {
    format!("{}/{}/{}/{}/{}/{}", s.0, s.1, s.2, s.3, hex(&s.4), s.5)
}
fn itstate(it: &TableIterator) -> String {
    let (ix, cb) = it.verif_state();
    format!(
        "{}|{}",
        bst(&ix),
        match cb {
            Some((off, s)) => format!("{}|{}", off, bst(&s)),
            None => "none".into(),
        }
    )
}

impl Session {
    pub fn request(&self) -> String {
        let ops = if self.ops.is_empty() { ".".to_string() } else { self.ops.iter().map(|o| o.text()).collect::<Vec<_>>().join(";") };
        format!("session {} {} {} {}", self.cap, hexlist(&self.files), faults_str(&self.faults), ops)
    }

    /// per-op outputs of the real crate
    pub fn run_impl(&self) -> Vec<String> {
        let shared = Arc::new(Mutex::new(Shared { sched: self.faults.iter().cloned().collect(), log: vec![] }));
        let files: Vec<Arc<Vec<u8>>> = self.files.iter().map(|f| Arc::new(f.clone())).collect();
        let base = Options::default().with_cache_capacity(self.cap);
        let mut tables: HashMap<usize, Table> = HashMap::new();
        let mut iters: HashMap<usize, TableIterator> = HashMap::new();
        let mut out = vec![];
        let _ = take_block_events();
        for op in self.ops.iter() {
            let r = guarded(|| -> String {
                macro_rules! with_it {
                    ($i:expr, $it:ident, $body:expr) => {
                        match iters.get_mut($i) {
                            Some($it) => {
                                let o: String = $body;
                                format!("ok {}@{}", o, itstate($it))
                            }
                            None => "bad-op".to_string(),
                        }
                    };
                }
                match op {
                    Op::Open { t, file, size, cmp, pol } => {
                        let mut o = base.clone();
                        o.cmp = WCfg { cmp: cmp.clone(), block_size: 0, restart: 1, snappy: false, pol: pol.clone() }.options().cmp;
                        o.filter_policy = pol.boxed();
                        // reader-side options unrelated to the writer's
                        o.block_size = 7 + *t;
                        o.block_restart_interval = 5;
                        let f = FaultFile { id: *file, data: files[*file].clone(), shared: shared.clone() };
                        match Table::new(o, Box::new(f), *size) {
                            Ok(tb) => {
                                let s = format!("ok {} {}", tb.verif_cache_id(), tb.verif_has_filter());
                                tables.insert(*t, tb);
                                s
                            }
                            Err(e) => format!("err {}", code_name(&e.code)),
                        }
                    }
                    Op::Get(t, k) => match tables.get(t) {
                        Some(tb) => match tb.get(k) {
                            Ok(v) => format!("ok {}", v.map(|v| hex(&v)).unwrap_or("none".into())),
                            Err(e) => format!("err {}", code_name(&e.code)),
                        },
                        None => "bad-op".into(),
                    },
                    Op::Approx(t, k) => match tables.get(t) {
                        Some(tb) => format!("ok {}", tb.approx_offset_of(k)),
                        None => "bad-op".into(),
                    },
                    Op::Iter(i, t) => match tables.get(t) {
                        Some(tb) => {
                            let it = tb.iter();
                            let s = format!("ok @{}", itstate(&it));
                            iters.insert(*i, it);
                            s
                        }
                        None => "bad-op".into(),
                    },
                    Op::Adv(i) => with_it!(i, it, format!("{}", it.advance())),
                    Op::Next(i) => with_it!(i, it, show_kv(&it.next())),
                    Op::Prev(i) => with_it!(i, it, format!("{}", it.prev())),
                    Op::Reset(i) => with_it!(i, it, {
                        it.reset();
                        "-".to_string()
                    }),
                    Op::First(i) => with_it!(i, it, {
                        it.seek_to_first();
                        "-".to_string()
                    }),
                    Op::Seek(i, k) => with_it!(i, it, {
                        it.seek(k);
                        "-".to_string()
                    }),
                    Op::Valid(i) => with_it!(i, it, format!("{}", it.valid())),
                    Op::Cur(i) => with_it!(i, it, { let a = dirty_current(it); let b = current_key_val(it); if a == b { show_kv(&a) } else { format!("current-with-recycled-buffers:{}/helper:{}", show_kv(&a), show_kv(&b)) } }),
                    Op::Key(i) => with_it!(i, it, it.current_key().map(|k| hex(k)).unwrap_or("none".into())),
                    Op::Drop(t) => {
                        tables.remove(t);
                        "ok".into()
                    }
                    Op::Faults(f) => {
                        shared.lock().unwrap().sched = f.iter().cloned().collect();
                        "ok".into()
                    }
                }
            });
            let res = r.unwrap_or("panic".to_string());
            let reads: Vec<String> = {
                let mut s = shared.lock().unwrap();
                let l = s.log.iter().map(|(f, o, n)| format!("{}:{}:{}", f, o, n)).collect();
                s.log.clear();
                l
            };
            let evs: Vec<String> = take_block_events().iter().map(|e| format!("{}:{}:{}", e.cache_id, e.offset, if e.hit { "h" } else { "m" })).collect();
            let sh = |l: &Vec<String>| if l.is_empty() { ".".to_string() } else { l.join("/") };
            let count = match base.block_cache.read() {
                Ok(c) => c.count().to_string(),
                Err(_) => "poisoned".into(),
            };
            let stop = res.starts_with("panic");
            out.push(format!("{}~{}~{}~{}", res, sh(&reads), sh(&evs), count));
            if stop {
                break;
            }
        }
        // every table handle and iterator of the session is dropped here: nothing but `base` may still refer to
        // the block cache (a cached block that keeps the cache alive is a leak of the cache and all its entries)
        drop(iters);
        drop(tables);
        let holders = Arc::strong_count(&base.block_cache);
        if holders != 1 {
            LEAKED_CACHES.with(|c| c.set(c.get() + 1));
        }
        out
    }
}

/// random iterator / lookup ops over the given tables
pub fn gen_ops(rng: &mut Rng, ntables: usize, niters: usize, keys: &[Vec<u8>], n: usize, with_prev_cur: bool) -> Vec<Op> {
    let mut ops = vec![];
    for _ in 0..n {
        let i = rng.below(niters.max(1));
        let t = rng.below(ntables.max(1));
        let key = |rng: &mut Rng| -> Vec<u8> {
            if !keys.is_empty() && rng.chance(3, 4) {
                rng.pick(keys).clone()
            } else {
                gen_key(rng, None, 5)
            }
        };
        match rng.below(16) {
            0 | 1 | 2 => ops.push(Op::Adv(i)),
            3 | 4 => ops.push(Op::Next(i)),
            5 | 6 => {
                ops.push(Op::Prev(i));
                if with_prev_cur {
                    ops.push(Op::Cur(i));
                }
            }
            7 => ops.push(Op::Reset(i)),
            8 => ops.push(Op::First(i)),
            9 | 10 => {
                let k = key(rng);
                ops.push(Op::Seek(i, k))
            }
            11 => ops.push(Op::Valid(i)),
            12 => ops.push(Op::Cur(i)),
            13 => ops.push(Op::Key(i)),
            14 => {
                let k = key(rng);
                ops.push(Op::Get(t, k))
            }
            _ => {
                let k = key(rng);
                ops.push(Op::Approx(t, k))
            }
        }
        if rng.chance(1, 3) {
            ops.push(Op::Cur(i));
        }
    }
    ops
}

/// which parts of a per-op output `<result>~<reads>~<events>~<count>` a property's correspondence compares
#[derive(Clone, Copy, PartialEq)]
pub enum Cmp {
    /// results and iterator state fingerprints only (properties about answers)
    Results,
    /// everything: results, read_at log, block events, cache count (properties about the cache / reads)
    All,
}
fn project(out: &str, c: Cmp) -> &str {
    match c {
        Cmp::All => out,
        Cmp::Results => out.split('~').next().unwrap_or(out),
    }
}

thread_local! {
    /// sessions after which the block cache was still referenced although every handle had been dropped
    pub static LEAKED_CACHES: std::cell::Cell<u64> = std::cell::Cell::new(0);
}

/// run a session on both sides; returns (implementation's per-op outputs, model's per-op outputs)
pub fn compare_full(d: &mut Driver, rep: &mut Report, s: &Session, what: Cmp) -> (Vec<String>, Vec<String>) {
    let req = s.request();
    let model = d.ask(&req);
    set_case(&req);
    let before = LEAKED_CACHES.with(|c| c.get());
    let imp = s.run_impl();
    if LEAKED_CACHES.with(|c| c.get()) != before {
        rep.judge_fail(J::obj(vec![("what", J::s("after every table handle and iterator of the session was dropped the block cache is still referenced by something it contains: the cache and its entries are never freed")), ("request", J::s(&if req.len() > 3000 { format!("{}…", &req[..3000]) } else { req.clone() }))]));
    }
    let m: Vec<String> = model.split(';').map(|x| x.to_string()).collect();
    let same = m.len() == imp.len() && m.iter().zip(imp.iter()).all(|(a, b)| project(a, what) == project(b, what));
    if !same {
        let mut idx = 0;
        while idx < m.len() && idx < imp.len() && project(&m[idx], what) == project(&imp[idx], what) {
            idx += 1;
        }
        rep.disagree(J::obj(vec![
            ("stream", J::s("S10 table")),
            ("compared", J::s(if what == Cmp::All { "results, reads, block events, cache count" } else { "results and iterator state" })),
            ("first_differing_op", J::N(idx as i64)),
            ("op", J::s(&s.ops.get(idx).map(|o| o.text()).unwrap_or_default())),
            ("impl", J::s(imp.get(idx).map(|x| x.as_str()).unwrap_or("<missing>"))),
            ("model", J::s(m.get(idx).map(|x| x.as_str()).unwrap_or("<missing>"))),
            ("request", J::s(&if req.len() > 3000 { format!("{}…", &req[..3000]) } else { req.clone() })),
        ]));
    }
    (imp, m)
}
/// results-only comparison (answers and iterator state)
pub fn compare(d: &mut Driver, rep: &mut Report, s: &Session) -> Vec<String> {
    compare_full(d, rep, s, Cmp::Results).0
}
/// full comparison (answers, reads, block events, cache count)
pub fn compare_all(d: &mut Driver, rep: &mut Report, s: &Session) -> Vec<String> {
    compare_full(d, rep, s, Cmp::All).0
}
