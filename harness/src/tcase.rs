//! Table cases: a writer configuration, a sorted entry set and the image the real builder produced.
use crate::gen::*;
use crate::session::*;
use crate::streams::*;
use crate::util::*;

#[derive(Clone)]
pub struct TableCase {
    pub cfg: WCfg,
    pub es: Vec<(Vec<u8>, Vec<u8>)>,
    pub img: Vec<u8>,
}

/// build with the real builder (perfect sink), compare with the model (S9), judge entries()/finish()
pub fn build_case(d: &mut Driver, rep: &mut Report, cfg: &WCfg, es: &[(Vec<u8>, Vec<u8>)]) -> Option<TableCase> {
    let out = tb_build_impl(cfg, es, &[]);
    let comp = if cfg.snappy { comp_table(&out.log) } else { ".".into() };
    let req = tb_request(cfg, es, &comp, &[]);
    let imp = format!("{} {} {}", out.result, hex(&out.received), log_str(&out.log));
    expect(d, rep, "S9 tablebuilder", &req, &imp);
    rep.count(&format!("tables_bs_{}", match cfg.block_size { 0..=7 => "lt8", 8 => "8", 9..=64 => "9-64", 65..=1024 => "65-1024", _ => "gt1024" }));
    rep.count(&format!("tables_pol_{}", cfg.pol.disk_name()));
    rep.count(if cfg.snappy { "tables_snappy" } else { "tables_uncompressed" });
    rep.count(&format!("tables_cmp_{}", cfg.cmp.name()));
    if es.iter().any(|e| e.0.is_empty()) {
        rep.count("tables_with_empty_key");
    }
    match out.finish_ok {
        Some(n) => {
            if n != out.received.len() || out.entries != es.len() {
                rep.judge_fail(J::obj(vec![
                    ("what", J::s("finish() / entries() do not equal the bytes handed to the sink / the number of additions")),
                    ("cfg", J::s(&cfg.describe())),
                    ("entries", J::s(&entries_str(es))),
                    ("finish", J::N(n as i64)),
                    ("sink_bytes", J::N(out.received.len() as i64)),
                    ("entries_reported", J::N(out.entries as i64)),
                ]));
            }
            Some(TableCase { cfg: cfg.clone(), es: es.to_vec(), img: out.received })
        }
        None => {
            rep.judge_fail(J::obj(vec![("what", J::s("building a sorted entry set on a perfect sink failed")), ("cfg", J::s(&cfg.describe())), ("entries", J::s(&entries_str(es))), ("result", J::s(&out.result))]));
            None
        }
    }
}

thread_local! {
    /// number of eligible `gen_case` calls made by this worker so far
    static CASE_NO: std::cell::Cell<usize> = std::cell::Cell::new(0);
}
/// The rare, expensive shapes are placed deterministically: worker w makes its 4th eligible case (max_n >= 14)
/// special - w % 5 == 0: one data block beyond 64 KiB; 1: snappy over long runs; 2, 3, 4: a table beyond 16 KiB.
/// (every request about such a table carries the whole image, so there is exactly one per worker)
fn special_slot(max_n: usize) -> Option<usize> {
    if max_n < 14 {
        return None;
    }
    let n = CASE_NO.with(|c| {
        let v = c.get();
        c.set(v + 1);
        v
    });
    if n == 3 {
        Some(crate::util::WORKER_IX.with(|w| w.get()) % 7)
    } else {
        None
    }
}

pub fn gen_case(d: &mut Driver, rep: &mut Report, rng: &mut Rng, max_n: usize) -> Option<TableCase> {
    // one case in six: a table spanning several 2 KiB filter ranges made of many small blocks, with a
    // padded first value so that block offsets sweep every alignment relative to the range boundaries
    if max_n >= 20 && rng.chance(1, 6) {
        return gen_multi_range_case(d, rep, rng);
    }
    match special_slot(max_n) {
        // a table beyond 16 KiB: block offsets that need 3-byte varints in the handles, an index block with hundreds
        // of entries and restarts (tiny blocks) or hundreds of entries and restarts in one data block
        Some(2) | Some(3) | Some(4) => {
            let mut cfg = gen_wcfg(rng);
            cfg.block_size = *rng.pick(&[0usize, 16, 40, 30000]);
            let n = rng.range(750, 950);
            let mut es: Vec<(Vec<u8>, Vec<u8>)> = (0..n).map(|i| (format!("k{:05}", i * 3).into_bytes(), rng.any_bytes(i % 7))).collect();
            if cfg.cmp == CmpKind::Reverse {
                es.reverse();
            }
            rep.count("tables_large_over_16k");
            return build_case(d, rep, &cfg, &es);
        }
        // snappy with values that are one long run (70000 equal bytes): the block compresses by more than 21x, the
        // maximum a plausibility bound on the declared length may assume
        Some(1) => {
            let mut cfg = gen_wcfg(rng);
            cfg.snappy = true;
            cfg.block_size = 64;
            let mut es: Vec<(Vec<u8>, Vec<u8>)> = (0..8).map(|i| (format!("r{:02}", i).into_bytes(), rng.any_bytes(5))).collect();
            es[3].1 = vec![0x61; 70000];
            es[6].1 = vec![0x00; 66000];
            if cfg.cmp == CmpKind::Reverse {
                es.reverse();
            }
            rep.count("tables_with_long_run_values_snappy");
            return build_case(d, rep, &cfg, &es);
        }
        // snappy with ONE data block beyond 1 MiB (incompressible bytes, so that the model's format-level decoder only
        // copies literals): size-dependent decisions of the writer (compress or not, label, checksum) show only here
        Some(5) => {
            let mut cfg = gen_wcfg(rng);
            cfg.snappy = true;
            cfg.cmp = CmpKind::Bytewise;
            cfg.block_size = 4096;
            let es: Vec<(Vec<u8>, Vec<u8>)> = vec![(b"s0".to_vec(), rng.any_bytes(9)), (b"s1".to_vec(), rng.any_bytes(1_200_000)), (b"s2".to_vec(), rng.any_bytes(3))];
            rep.count("tables_with_a_snappy_block_over_1mib");
            return build_case(d, rep, &cfg, &es);
        }
        // block sizes of 8 KiB / 16 KiB with several such blocks (anything derived from the block size, e.g. a filter
        // base, must still agree with what the file records)
        Some(6) => {
            let mut cfg = gen_wcfg(rng);
            cfg.snappy = false;
            cfg.block_size = 8192;
            cfg.pol = PolKind::Bloom(10);
            let mut es: Vec<(Vec<u8>, Vec<u8>)> = (0..70).map(|i| (format!("w{:04}", i * 2).into_bytes(), rng.any_bytes(600 + (i * 37) % 300))).collect();
            if cfg.cmp == CmpKind::Reverse {
                es.reverse();
            }
            rep.count("tables_with_8k_16k_blocks");
            return build_case(d, rep, &cfg, &es);
        }
        // ONE data block beyond 64 KiB: restart offsets that do not fit 16 bits
        Some(0) => {
            let mut cfg = gen_wcfg(rng);
            cfg.snappy = false;
            cfg.block_size = 200000;
            cfg.restart = *rng.pick(&[4usize, 16]);
            let mut es: Vec<(Vec<u8>, Vec<u8>)> = (0..900).map(|i| (format!("b{:05}", i * 2).into_bytes(), vec![0xf7; 70 + i % 5])).collect();
            if cfg.cmp == CmpKind::Reverse {
                es.reverse();
            }
            rep.count("tables_with_a_block_over_64k");
            return build_case(d, rep, &cfg, &es);
        }
        _ => {}
    }
    let cfg = gen_wcfg(rng);
    let es = gen_entries(rng, &cfg.cmp, max_n, 80);
    build_case(d, rep, &cfg, &es)
}

/// many one- or few-entry blocks over > 2 KiB; `pad` shifts every later block offset
pub fn gen_multi_range_case(d: &mut Driver, rep: &mut Report, rng: &mut Rng) -> Option<TableCase> {
    let mut cfg = gen_wcfg(rng);
    cfg.block_size = *rng.pick(&[0usize, 1, 8, 24, 48]);
    cfg.snappy = false;
    if !matches!(cfg.pol, PolKind::Bloom(_)) && rng.chance(2, 3) {
        cfg.pol = PolKind::Bloom(10);
    }
    let n = rng.range(90, 260);
    let vlen = rng.range(0, 12);
    let mut es: Vec<(Vec<u8>, Vec<u8>)> = (0..n).map(|i| (format!("k{:04}", i).into_bytes(), rng.any_bytes(vlen))).collect();
    if cfg.cmp == CmpKind::Reverse {
        es.reverse();
    }
    let pad = rng.below(48);
    es[0].1 = vec![0x70; pad];
    rep.count("multi_range_tables");
    build_case(d, rep, &cfg, &es)
}

/// a reader policy compatible with the writer's in the sense of C02 (`FilterCompat`):
/// same policy, bloom with other bits, or a policy with a different name
pub fn reader_policy(rng: &mut Rng, w: &PolKind) -> PolKind {
    match rng.below(4) {
        0 => match w {
            PolKind::Bloom(_) => PolKind::Bloom(rng.below(40) as u32),
            p => p.clone(),
        },
        1 => {
            // a different name: must be ignored, never consulted
            let cands = [PolKind::NoFilter, PolKind::FirstByte, PolKind::RejectAll, PolKind::RejectAllPrefix, PolKind::RejectAllExt, PolKind::RejectAllPrefix, PolKind::Bloom(10)];
            let c: Vec<&PolKind> = cands.iter().filter(|c| c.disk_name() != w.disk_name()).collect();
            (*rng.pick(&c)).clone()
        }
        _ => w.clone(),
    }
}

pub fn open_op(rng: &mut Rng, t: usize, file: usize, c: &TableCase) -> Op {
    Op::Open { t, file, size: c.img.len(), cmp: c.cfg.cmp.clone(), pol: reader_policy(rng, &c.cfg.pol) }
}

/// result part of a per-op output (`<result>~reads~events~count`)
pub fn res_of(out: &str) -> &str {
    out.split('~').next().unwrap_or("")
}
/// for iterator ops: `ok <out>@<state>` -> `<out>`
pub fn it_out(out: &str) -> String {
    let r = res_of(out);
    let r = r.strip_prefix("ok ").unwrap_or(r);
    r.split('@').next().unwrap_or("").to_string()
}

/// expected lookup / lower-bound answers from the Lean Spec
pub fn spec_probe(d: &mut Driver, c: &TableCase, probes: &[Vec<u8>]) -> Vec<(String, String)> {
    let r = d.ask(&format!("spec_probe {} {} {}", c.cfg.cmp.name(), entries_str(&c.es), hexlist(probes)));
    if r == "." {
        return vec![];
    }
    r.split(',')
        .map(|x| {
            let mut p = x.split('/');
            (p.next().unwrap_or("").to_string(), p.next().unwrap_or("").to_string())
        })
        .collect()
}
