//! C17 / stream S1: DefaultCmp::{cmp, find_shortest_sep, find_short_succ} vs model, judged by Spec.
use crate::util::*;
use crate::Ctx;
use sstable::{Cmp, DefaultCmp};
use std::cmp::Ordering;

fn ord(o: Ordering) -> &'static str {
    match o {
        Ordering::Less => "lt",
        Ordering::Equal => "eq",
        Ordering::Greater => "gt",
    }
}

fn all_strings(alpha: &[u8], maxlen: usize) -> Vec<Vec<u8>> {
    let mut out = vec![vec![]];
    let mut last = vec![vec![]];
    for _ in 0..maxlen {
        let mut next = vec![];
        for s in last.iter() {
            for a in alpha {
                let mut t: Vec<u8> = s.clone();
                t.push(*a);
                next.push(t);
            }
        }
        out.extend(next.iter().cloned());
        last = next;
    }
    out
}

pub fn check_pair(d: &mut Driver, rep: &mut Report, a: &[u8], b: &[u8], sample: bool) {
    let c = DefaultCmp.cmp(a, b);
    let (a2, b2) = (a.to_vec(), b.to_vec());
    let sep = guarded(move || DefaultCmp.find_shortest_sep(&a2, &b2));
    let a3 = a.to_vec();
    let succ = guarded(move || DefaultCmp.find_short_succ(&a3));
    let sep_s = match &sep {
        Ok(s) => hex(s),
        Err(_) => "panic".to_string(),
    };
    let succ_s = match &succ {
        Ok(s) => hex(s),
        Err(_) => "panic".to_string(),
    };
    let req = format!("c17 {} {} {} {}", hex(a), hex(b), sep_s, succ_s);
    let resp = d.ask(&req);
    // response: <ord> <model sep> <model succ> <model sep < b> <judge>
    let f: Vec<&str> = resp.split(' ').collect();
    let case = format!("{} {}", hex(a), hex(b));
    let rel = ord(c);
    rep.case(&case, true);
    rep.count(&format!("relation_{}", rel));
    if a.len() < b.len() && b.starts_with(a) {
        rep.count("a_prefix_of_b");
        if b.len() == a.len() + 1 && b[a.len()] == 0 {
            rep.count("b_is_a_plus_00");
        }
    }
    if a.contains(&0xff) {
        rep.count("a_contains_ff");
    }
    if f.len() != 5 {
        rep.disagree(J::obj(vec![("stream", J::s("S1 cmp")), ("request", J::s(&req)), ("model", J::s(&resp))]));
        return;
    }
    let mk = |what: &str| {
        J::obj(vec![
            ("stream", J::s("S1 cmp")),
            ("what", J::s(what)),
            ("a", J::s(&hex(a))),
            ("b", J::s(&hex(b))),
            ("impl_cmp", J::s(rel)),
            ("impl_sep", J::s(&sep_s)),
            ("impl_succ", J::s(&succ_s)),
            ("model", J::s(&resp)),
        ])
    };
    if f[4] != "ok" {
        rep.judge_fail(mk("separator/successor bracket law violated by the implementation"));
    }
    if f[0] != rel {
        rep.disagree(mk("cmp differs"));
    }
    if sep_s == "panic" {
        // the only panic the model predicts: the internal assert sep < b, which can fire only for a > b
        if !(c == Ordering::Greater && f[3] == "false") {
            rep.disagree(mk("implementation panics in find_shortest_sep"));
        } else {
            rep.count("sep_assert_on_a_gt_b");
        }
    } else if f[1] != sep_s {
        rep.disagree(mk("find_shortest_sep differs"));
    }
    if f[2] != succ_s {
        rep.disagree(mk("find_short_succ differs"));
    }
    if sample {
        rep.sample(J::obj(vec![("a", J::s(&hex(a))), ("b", J::s(&hex(b))), ("cmp", J::s(rel)), ("sep", J::s(&sep_s)), ("succ_a", J::s(&succ_s))]));
    }
}

pub fn run(ctx: &Ctx) -> Report {
    let maxlen = if ctx.thorough() { 4 } else { 3 };
    let mut rep = Report::new(
        "C17",
        &format!(
            "exhaustive ordered and unordered pairs (a,b) over {{00,01,02,7f,fe,ff}}^<={} plus seeded random pairs of length 0..40 over all bytes and near-pairs (shared prefix, prefix+00, adjacent byte); every pair is distinct and exercises cmp, find_shortest_sep and find_short_succ; distinct = distinct (a,b)",
            maxlen
        ),
    );
    let strings = all_strings(&[0x00, 0x01, 0x02, 0x7f, 0xfe, 0xff], maxlen);
    let nthreads = ctx.threads.max(1);
    let chunks: Vec<Vec<Vec<u8>>> = (0..nthreads).map(|t| strings.iter().skip(t).step_by(nthreads).cloned().collect()).collect();
    let mut reports: Vec<Report> = vec![];
    std::thread::scope(|s| {
        let mut hs = vec![];
        for (t, chunk) in chunks.iter().enumerate() {
            let strings = &strings;
            let driver = ctx.driver.clone();
            hs.push(s.spawn(move || {
                let mut d = Driver::spawn(&driver);
                let mut r = Report::new("C17", "");
                for (i, a) in chunk.iter().enumerate() {
                    for (j, b) in strings.iter().enumerate() {
                        check_pair(&mut d, &mut r, a, b, t == 0 && i == 40 && j % 97 == 5);
                    }
                }
                r
            }));
        }
        for h in hs {
            reports.push(h.join().unwrap());
        }
    });
    for r in reports {
        rep.evaluations += r.evaluations;
        rep.nontrivial.extend(r.nontrivial);
        for (k, v) in r.dist {
            rep.count_n(&k, v);
        }
        rep.samples.extend(r.samples);
        rep.judge_failures.extend(r.judge_failures);
        rep.disagreements.extend(r.disagreements);
    }
    rep.samples.truncate(4);
    // random pairs
    let mut rng = Rng::new(ctx.seed);
    let mut d = ctx.new_driver();
    let n = if ctx.thorough() { 200_000 } else { 20_000 };
    for i in 0..n {
        // one pair in ten is LONG: 200..600 bytes, first difference (if any) deep inside, runs of 0xff
        let la = if i % 10 == 9 { rng.range(200, 600) } else { rng.below(41) };
        let a = if i % 10 == 9 {
            let mut a = rng.bytes(la, &[0x61, 0x62, 0x00, 0xfe, 0xff, 0xff]);
            if rng.chance(1, 2) {
                let run = rng.range(1, 20);
                let at = rng.below(la - run.min(la - 1));
                for x in a[at..at + run.min(la - at)].iter_mut() {
                    *x = 0xff;
                }
            }
            a
        } else {
            rng.any_bytes(la)
        };
        let b = match rng.below(6) {
            0 => {
                let lb = rng.below(41);
                rng.any_bytes(lb)
            }
            1 => {
                let mut b = a.clone();
                b.push(0);
                b
            }
            2 => {
                let mut b = a.clone();
                let ext = rng.below(3) + 1;
                b.extend(rng.any_bytes(ext));
                b
            }
            3 => {
                // change one byte to an adjacent / random value
                let mut b = a.clone();
                if !b.is_empty() {
                    let p = rng.below(b.len());
                    b[p] = match rng.below(3) {
                        0 => b[p].wrapping_add(1),
                        1 => b[p].wrapping_add(2),
                        _ => rng.next() as u8,
                    };
                }
                b
            }
            4 => {
                let keep = rng.below(a.len() + 1);
                let mut b = a[..keep].to_vec();
                let ext = rng.below(4);
                b.extend(rng.bytes(ext, &[0x00, 0xff, 0xfe, 0x01]));
                b
            }
            _ => {
                let mut b: Vec<u8> = a.iter().map(|x| if rng.chance(1, 4) { 0xff } else { *x }).collect();
                if rng.chance(1, 2) {
                    b.push(rng.next() as u8);
                }
                b
            }
        };
        check_pair(&mut d, &mut rep, &a, &b, i < 2);
    }
    // pairs handed over by the search that runs when the function-level tie is broken (./check: the Lean-side
    // differential FuncsDiff.lean found them on the TRANSLATED code): replayed on the real crate and judged
    if let Ok(path) = std::env::var("VERIF_EXTRA_PAIRS") {
        if let Ok(text) = std::fs::read_to_string(&path) {
            for line in text.lines() {
                let f: Vec<&str> = line.split_whitespace().collect();
                if f.len() == 2 {
                    if let (Some(a), Some(b)) = (unhex(f[0]), unhex(f[1])) {
                        rep.count("extra_pairs_from_tie_search");
                        check_pair(&mut d, &mut rep, &a, &b, false);
                    }
                }
            }
        }
    }
    rep
}
