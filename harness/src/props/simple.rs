//! C09, C11, C13, C15, C16, C20.
use crate::gen::*;
use crate::session::*;
use crate::streams::*;
use crate::tcase::*;
use crate::util::*;
use crate::Ctx;
use sstable::{Status, StatusCode};

fn per_thread(ctx: &Ctx, quick: usize, thorough: usize) -> usize {
    (if ctx.thorough() { thorough } else { quick }) / ctx.threads.max(1) + 1
}

// ------------------------------------------------------------------------------------------- C09
pub fn c09(ctx: &Ctx) -> Report {
    let base = Report::new("C09", "S5: key sets (0..100 keys quick / ..2000 thorough, lengths 0..20, empty key, duplicates) x bits_per_key 0..64, reader created with another bits_per_key; S6: the table builder's call pattern (keys of a block, then start_block(next offset)) over random offset sequences with several blocks per 2 KiB range, skipped ranges and exact multiples of 2048, for bloom / no-filter / custom policies; every added key is probed at its block's offset on the real reader (judge: may-match) and compared with the model; thorough adds every offset pattern of <= 4 blocks over a grid of 6 range positions; non-trivial = every case (each has >= 1 key or block); distinct by request text");
    let n = per_thread(ctx, 6000, 100000);
    let mut rep = parallel(&ctx.driver, ctx.threads, ctx.seed, base, |t, d, rng, rep| {
        if t == 0 {
            s2_codec(d, rep, rng, 100);
        }
        s5_bloom(d, rep, rng, n / 4, ctx.thorough() && t < 4);
        s6_filterblock(d, rep, rng, n / 6);
    });
    if ctx.thorough() {
        // exhaustive offset patterns: sizes from a grid, up to 4 blocks
        let grid = [10usize, 1000, 2038, 2048, 2058, 5000];
        let ex = parallel(&ctx.driver, ctx.threads, ctx.seed, Report::new("C09", ""), |t, d, _rng, rep| {
            let mut idx = 0usize;
            for nb in 1..=4usize {
                for code in 0..grid.len().pow(nb as u32) {
                    idx += 1;
                    if idx % ctx.threads.max(1) != t {
                        continue;
                    }
                    let mut x = code;
                    let mut off = 0;
                    let mut evs = vec![];
                    let mut blocks = vec![];
                    for b in 0..nb {
                        let keys = vec![vec![b as u8], vec![b as u8, 0xff], vec![]];
                        for k in keys.iter() {
                            evs.push(FbEv::Key(k.clone()));
                        }
                        blocks.push((off, keys));
                        off += grid[x % grid.len()];
                        x /= grid.len();
                        evs.push(FbEv::Start(off));
                    }
                    let pol = PolKind::Bloom(10);
                    let req = format!("fb_build {} {}", pol.name(), fb_events_str(&evs));
                    rep.case(&req, true);
                    rep.count("exhaustive_offset_patterns");
                    let imp = fb_build_impl(&pol, &evs);
                    let imp_s = match &imp {
                        Ok(b) => format!("ok {}", hex(b)),
                        Err(_) => "panic".into(),
                    };
                    expect(d, rep, "S6 filterblock", &req, &imp_s);
                    if let Ok(blk) = imp {
                        for (o, keys) in blocks.iter() {
                            for k in keys {
                                let m = fb_match_impl(&pol, &blk, *o, k);
                                if m != "ok true" {
                                    rep.judge_fail(J::obj(vec![("what", J::s("filter block denies a key added to the block at this offset")), ("events", J::s(&fb_events_str(&evs))), ("offset", J::N(*o as i64)), ("key", J::s(&hex(k))), ("impl", J::s(&m))]));
                                }
                            }
                        }
                    } else {
                        rep.judge_fail(J::obj(vec![("what", J::s("filter block builder panics on increasing offsets")), ("events", J::s(&fb_events_str(&evs)))]));
                    }
                }
            }
        });
        rep.merge(ex);
    }
    rep.sample(J::obj(vec![("stream", J::s("S6")), ("request", J::s("fb_build bloom:10 k:61,k:-,s:2048,k:62,s:2100,s:9000")), ("meaning", J::s("keys 'a','' in the block at 0; 'b' in the block at 2048; next block at 2100 (same range); then a jump over ranges"))]));
    rep
}

// ------------------------------------------------------------------------------------------- C11
fn lru_judge(d: &mut Driver, rep: &mut Report, cap: usize, ops: &[(char, usize, usize)], imp: &str) {
    let spec = d.ask(&format!("spec_lru {} {}", cap, cache_ops_str(ops)));
    // impl per op: out@count@fwd@bwd@keys ; spec per op: out@count@order
    let si: Vec<&str> = spec.split(';').collect();
    let ii: Vec<&str> = imp.split(';').collect();
    let mut bad = None;
    if ii.len() != si.len() {
        bad = Some((ii.len().min(si.len()), "operation sequence ends in a panic".to_string()));
    } else {
        for k in 1..si.len() {
            let s: Vec<&str> = si[k].split('@').collect();
            let i: Vec<&str> = ii[k].split('@').collect();
            if i.len() != 5 {
                bad = Some((k, format!("malformed implementation output {}", ii[k])));
                break;
            }
            let mut rev: Vec<&str> = if s[2] == "." { vec![] } else { s[2].split('/').collect() };
            let fwd_ok = i[2] == s[2];
            rev.reverse();
            let bwd = if rev.is_empty() { ".".to_string() } else { rev.join("/") };
            let mut keys: Vec<usize> = if s[2] == "." { vec![] } else { s[2].split('/').map(|x| x.parse().unwrap()).collect() };
            keys.sort();
            let keys_s = if keys.is_empty() { ".".to_string() } else { keys.iter().map(|x| x.to_string()).collect::<Vec<_>>().join(",") };
            if i[0] != s[0] {
                bad = Some((k, format!("returned {} but an LRU map returns {}", i[0], s[0])));
            } else if i[1] != s[1] {
                bad = Some((k, format!("count {} but {} live keys", i[1], s[1])));
            } else if !fwd_ok {
                bad = Some((k, format!("recency order {} but LRU order {}", i[2], s[2])));
            } else if i[3] != bwd {
                bad = Some((k, format!("backward links give {} instead of {}", i[3], bwd)));
            } else if i[4] != keys_s {
                bad = Some((k, format!("map keys {} instead of {}", i[4], keys_s)));
            } else if s[1].parse::<usize>().unwrap_or(0) > cap {
                bad = Some((k, "capacity exceeded".into()));
            }
            if bad.is_some() {
                break;
            }
        }
    }
    if let Some((k, why)) = bad {
        rep.judge_fail(J::obj(vec![("what", J::s("cache is not a capacity-bounded LRU map with consistent links")), ("capacity", J::N(cap as i64)), ("ops", J::s(&cache_ops_str(ops))), ("failing_op_index", J::N(k as i64 - 1)), ("why", J::s(&why)), ("impl", J::s(imp)), ("spec", J::s(&spec))]));
    }
}
pub fn c11(ctx: &Ctx) -> Report {
    let base = Report::new("C11", "S11: random histories of insert / get / remove over 2..5 keys with capacity 1..4 (length up to 40 quick / 200 thorough) on the real Cache (boxed, never moved), after every operation: return value, count, forward list order, backward link order and map keys from the verif_dump hook, compared with the heap model and judged against the Spec LRU; plus every history of length <= 6 (quick) / <= 7 (thorough) over 3 keys x {insert,get,remove} with capacities 1..3 (exhaustive); non-trivial = history with >= 2 operations; distinct by history");
    let n = per_thread(ctx, 8000, 200000);
    let maxlen = if ctx.thorough() { 200 } else { 40 };
    let depth = if ctx.thorough() { 7 } else { 6 };
    let mut rep = parallel(&ctx.driver, ctx.threads, ctx.seed, base, |t, d, rng, rep| {
        for i in 0..n {
            let cap = rng.range(1, 4);
            let nk = rng.range(2, 5);
            let len = if rng.chance(1, 5) { rng.range(1, maxlen) } else { rng.range(1, 12) };
            let ops: Vec<(char, usize, usize)> = (0..len).map(|j| (*rng.pick(&['i', 'i', 'i', 'g', 'g', 'r']), rng.below(nk), 100 + j)).collect();
            let req = format!("cache_ops {} {}", cap, cache_ops_str(&ops));
            rep.case(&req, ops.len() >= 2);
            rep.count_n("cache_operations", ops.len() as u64);
            for (o, k, _) in ops.iter() {
                let _ = k;
                rep.count(match o {
                    'i' => "op_insert",
                    'g' => "op_get",
                    _ => "op_remove",
                });
            }
            set_case(&req);
            let imp = cache_ops_impl(cap, &ops);
            expect(d, rep, "S11 cache", &req, &imp);
            lru_judge(d, rep, cap, &ops, &imp);
            if i < 2 && t == 0 {
                rep.sample(J::obj(vec![("capacity", J::N(cap as i64)), ("ops", J::s(&cache_ops_str(&ops))), ("impl_trace", J::s(&imp))]));
            }
        }
    });
    // exhaustive: all histories up to `depth` over 3 keys
    let alphabet: Vec<(char, usize)> = vec![('i', 0), ('i', 1), ('i', 2), ('g', 0), ('g', 1), ('g', 2), ('r', 0), ('r', 1), ('r', 2)];
    let ex = parallel(&ctx.driver, ctx.threads, ctx.seed, Report::new("C11", ""), |t, d, _rng, rep| {
        let a = alphabet.len();
        for cap in 1..=3usize {
            for code in 0..a.pow(depth as u32) {
                if code % ctx.threads.max(1) != t {
                    continue;
                }
                let mut x = code;
                let ops: Vec<(char, usize, usize)> = (0..depth)
                    .map(|j| {
                        let (o, k) = alphabet[x % a];
                        x /= a;
                        (o, k, 10 + j)
                    })
                    .collect();
                let req = format!("cache_ops {} {}", cap, cache_ops_str(&ops));
                rep.case(&req, true);
                rep.count("exhaustive_histories");
                set_case(&req);
                let imp = cache_ops_impl(cap, &ops);
                // judged by the Spec on every history, compared with the heap model on a sample
                if code % 16 == 0 {
                    expect(d, rep, "S11 cache", &req, &imp);
                }
                lru_judge(d, rep, cap, &ops, &imp);
            }
        }
    });
    rep.merge(ex);
    rep
}

// ------------------------------------------------------------------------------------------- C13
pub fn gen_sched(rng: &mut Rng, calls: usize, kind: usize) -> Vec<SinkResp> {
    match kind {
        // fixed chunk size
        0 => {
            let k = rng.range(1, 9);
            (0..calls * 40).map(|_| SinkResp::Accept(k)).collect()
        }
        // random prefixes, some zero-length acceptance
        1 => (0..calls * 6).map(|_| SinkResp::Accept(if rng.chance(1, 25) { 0 } else { rng.range(1, 60) })).collect(),
        // Interrupted at one call
        2 => {
            let at = rng.below(calls + 1);
            (0..=at).map(|i| if i == at { SinkResp::Interrupted } else { SinkResp::Accept(usize::MAX >> 1) }).collect()
        }
        // hard error at one call
        3 => {
            let at = rng.below(calls + 1);
            (0..=at).map(|i| if i == at { SinkResp::Error } else { SinkResp::Accept(usize::MAX >> 1) }).collect()
        }
        // interruption storm at one place: whole buffers up to a call, then a few bytes accepted, then a RUN of
        // 1..12 consecutive Interrupted, then small chunks (a retry loop with a bounded number of attempts, or one
        // that restarts a buffer from its beginning, shows only after several interruptions in a row)
        5 => {
            let at = rng.below(calls + 1);
            let mut s: Vec<SinkResp> = (0..at).map(|_| SinkResp::Accept(usize::MAX >> 1)).collect();
            for _ in 0..rng.below(3) {
                s.push(SinkResp::Accept(rng.range(1, 47)));
            }
            for _ in 0..rng.range(1, 12) {
                s.push(SinkResp::Interrupted);
            }
            let k = rng.range(1, 50);
            s.extend((0..calls * 60).map(|_| SinkResp::Accept(k)));
            s
        }
        // small chunks with interruption runs everywhere
        6 => {
            let k = rng.range(1, 30);
            let mut s = vec![];
            while s.len() < calls * 80 {
                s.push(SinkResp::Accept(rng.range(1, k)));
                if rng.chance(1, 5) {
                    for _ in 0..rng.range(1, 9) {
                        s.push(SinkResp::Interrupted);
                    }
                }
            }
            s
        }
        // a sink that stalls: whole buffers up to a call, a few bytes, then a RUN of 1..14 zero-length acceptances
        // (write_all must fail with WriteZero at the first one; a hand-written retry loop that gives up silently
        // after n stalls shows only with n in a row), then it accepts again
        7 => {
            let at = rng.below(calls + 1);
            let mut s: Vec<SinkResp> = (0..at).map(|_| SinkResp::Accept(usize::MAX >> 1)).collect();
            for _ in 0..rng.below(3) {
                s.push(SinkResp::Accept(rng.range(1, 47)));
            }
            for _ in 0..rng.range(1, 14) {
                s.push(SinkResp::Accept(0));
            }
            let k = rng.range(1, 200);
            s.extend((0..calls * 60).map(|_| SinkResp::Accept(k)));
            s
        }
        // mixture
        _ => (0..calls * 3)
            .map(|_| match rng.below(12) {
                0 => SinkResp::Interrupted,
                1 if rng.chance(1, 4) => SinkResp::Error,
                2 => SinkResp::Accept(rng.range(1, 3)),
                _ => SinkResp::Accept(rng.range(1, 100)),
            })
            .collect(),
    }
}
pub fn c13_case(d: &mut Driver, rep: &mut Report, cfg: &WCfg, es: &[(Vec<u8>, Vec<u8>)], perfect: &BuildOut, sched: &[SinkResp]) {
    let out = tb_build_impl(cfg, es, sched);
    // the compressor table must cover blocks of this run too (same blocks as the perfect run)
    let comp = if cfg.snappy { comp_table(&perfect.log) } else { ".".into() };
    let req = tb_request(cfg, es, &comp, sched);
    let imp = format!("{} {} {}", out.result, hex(&out.received), log_str(&out.log));
    rep.case(&req, true);
    expect(d, rep, "S9 tablebuilder", &req, &imp);
    let consumed = out.log.len().min(sched.len());
    let hard = sched[..consumed].iter().any(|r| *r == SinkResp::Error);
    let zero = sched[..consumed].iter().zip(out.log.iter()).any(|(r, l)| *r == SinkResp::Accept(0) && l.as_ref().map(|b| !b.is_empty()).unwrap_or(false));
    rep.count(if out.finish_ok.is_some() { "finish_ok" } else { "finish_not_ok" });
    if hard {
        rep.count("hard_error_delivered");
    }
    let mk = |what: &str| J::obj(vec![("what", J::s(what)), ("cfg", J::s(&cfg.describe())), ("entries", J::s(&entries_str(es))), ("sink_schedule", J::s(&sched_str(sched))), ("result", J::s(&out.result)), ("sink_bytes", J::N(out.received.len() as i64)), ("perfect_bytes", J::N(perfect.received.len() as i64))]);
    if let Some(n) = out.finish_ok {
        if out.received != perfect.received || n != perfect.received.len() {
            rep.judge_fail(mk("finish reported success but the sink did not receive exactly the bytes a perfect sink receives"));
        }
        if hard {
            rep.judge_fail(mk("the sink failed hard but finish reported success"));
        }
    } else if !hard && !zero {
        // not demanded by the property (an Interrupted flush is reported as an error): counted only
        rep.count("failed_without_hard_error");
    }
}
pub fn c13(ctx: &Ctx) -> Report {
    let base = Report::new("C13", "tables with one and many blocks (configurations as in C01) x sink schedules: fixed chunk sizes 1..9, per-call random prefixes with zero-length acceptance, runs of 1..12 consecutive Interrupted after partially accepted buffers (at one place / everywhere), Interrupted at call i and hard error at call i for every i (exhaustively over all write/flush calls for the first cases of each worker, random i beyond), random mixtures; every sink call with its buffer is compared with the model writer; judge: finish Ok(n) => sink bytes == perfect image and n == its length; hard error => no success; non-trivial = every scheduled case; distinct by (configuration, entries, schedule)");
    let n = per_thread(ctx, 1500, 20000);
    parallel(&ctx.driver, ctx.threads, ctx.seed, base, |t, d, rng, rep| {
        for i in 0..n {
            let cfg = gen_wcfg(rng);
            let es = gen_entries(rng, &cfg.cmp, 16, 50);
            let perfect = tb_build_impl(&cfg, &es, &[]);
            if perfect.finish_ok.is_none() {
                continue;
            }
            let calls = perfect.log.len();
            rep.count_n("sink_calls_in_perfect_run", calls as u64);
            if i < 3 {
                // every call index: Interrupted at i, hard error at i
                for at in 0..calls {
                    let mut s: Vec<SinkResp> = (0..at).map(|_| SinkResp::Accept(usize::MAX >> 1)).collect();
                    s.push(SinkResp::Interrupted);
                    c13_case(d, rep, &cfg, &es, &perfect, &s);
                    s.pop();
                    s.push(SinkResp::Error);
                    c13_case(d, rep, &cfg, &es, &perfect, &s);
                    rep.count_n("exhaustive_fault_positions", 2);
                }
            }
            for kind in 0..9 {
                let s = gen_sched(rng, calls, kind);
                rep.count(&format!("schedule_kind_{}", kind));
                c13_case(d, rep, &cfg, &es, &perfect, &s);
            }
            if i == 0 && t == 0 {
                rep.sample(J::obj(vec![("cfg", J::s(&cfg.describe())), ("entries", J::s(&entries_str(&es))), ("schedule", J::s("accept 3 bytes per call")), ("perfect_image_bytes", J::N(perfect.received.len() as i64))]));
            }
        }
    })
}

// ------------------------------------------------------------------------------------------- C15
pub fn c15(ctx: &Ctx) -> Report {
    let base = Report::new("C15", "every strict prefix (length 0..len-1, size = prefix length) of each table of a family (single/multi block, compressed, with/without filter; random configurations as in C01), which includes every sink-call boundary of the writer; the prefix is opened through the real reader and the model; judge: open fails with an error (no success, no panic); the full image must open and scan to the entries added; one table in three stores footer-shaped bytes (boundary-valued / random handles, padding, magic number) as a value, so that a prefix ends in the magic number and reaches handle validation; a prefix that is itself a complete table (F1) is the only excluded shape and is counted; non-trivial = prefix of length >= 48; distinct by (image, length)");
    let n = per_thread(ctx, 160, 3000);
    parallel(&ctx.driver, ctx.threads, ctx.seed, base, |t, d, rng, rep| {
        for i in 0..n {
            // one case in three stores FOOTER-SHAPED bytes (two handles, padding, the magic number) as a value,
            // so that one prefix ends in the magic number and reaches the handle validation; the handles are
            // boundary values or random, never a valid layout (that would be finding F1)
            let c = if i % 3 == 2 {
                let cfg = {
                    let mut c = gen_wcfg(rng);
                    c.snappy = false;
                    c
                };
                let mut es = gen_entries(rng, &cfg.cmp, 8, 20);
                if es.is_empty() {
                    continue;
                }
                let pick = |rng: &mut Rng| -> usize {
                    match rng.below(7) {
                        0 => 0,
                        1 => usize::MAX - rng.below(8),
                        2 => (usize::MAX >> 1) + rng.below(3),
                        3 => (1usize << 32) - 3 + rng.below(6),
                        4 => rng.below(300),
                        5 => 1usize << rng.range(33, 63),
                        _ => rng.next() as usize,
                    }
                };
                let mut f = vec![];
                for h in 0..2 {
                    if rng.chance(1, 3) {
                        // offset + size within a few units of usize::MAX
                        let off = rng.below(40);
                        crate::refenc::varint(off, &mut f);
                        crate::refenc::varint(usize::MAX - off - rng.below(7), &mut f);
                    } else if h == 1 && rng.chance(1, 2) {
                        crate::refenc::varint(0, &mut f);
                        crate::refenc::varint(0, &mut f);
                    } else {
                        crate::refenc::varint(pick(rng), &mut f);
                        crate::refenc::varint(pick(rng), &mut f);
                    }
                }
                f.truncate(40);
                f.resize(40, 0);
                f.extend_from_slice(&[0x57, 0xfb, 0x80, 0x8b, 0x24, 0x75, 0x47, 0xdb]);
                let at = rng.below(es.len());
                es[at].1 = f;
                rep.count("tables_with_footer_shaped_value");
                match build_case(d, rep, &cfg, &es) {
                    Some(c) => c,
                    None => continue,
                }
            } else {
                match gen_case(d, rep, rng, 12) {
                    Some(c) => c,
                    None => continue,
                }
            };
            rep.count_n("image_bytes", c.img.len() as u64);
            for len in 0..c.img.len() {
                let s = Session { cap: 2, files: vec![c.img[..len].to_vec()], faults: vec![], ops: vec![Op::Open { t: 0, file: 0, size: len, cmp: c.cfg.cmp.clone(), pol: c.cfg.pol.clone() }] };
                rep.case(&format!("{} {}", hex(&c.img), len), len >= 48);
                let out = compare(d, rep, &s);
                let r = out.get(0).map(|o| res_of(o).to_string()).unwrap_or("panic".into());
                if !r.starts_with("err") {
                    // F1: is the prefix itself a complete well-formed table?
                    let dec = d.ask(&format!("spec_decode {}", hex(&c.img[..len])));
                    if r.starts_with("ok") && dec.starts_with("ok") {
                        rep.count("known_F1_prefix_is_a_table");
                        rep.known.push("C15/embedded-table".into());
                    } else {
                        rep.judge_fail(J::obj(vec![("what", J::s("a strict prefix of a table image is not rejected with an error")), ("cfg", J::s(&c.cfg.describe())), ("entries", J::s(&entries_str(&c.es))), ("image", J::s(&hex(&c.img))), ("prefix_length", J::N(len as i64)), ("open_result", J::s(&r))]));
                    }
                }
            }
            // the complete image opens with the full contents
            let mut ops = vec![Op::Open { t: 0, file: 0, size: c.img.len(), cmp: c.cfg.cmp.clone(), pol: c.cfg.pol.clone() }, Op::Iter(0, 0)];
            for _ in 0..c.es.len() + 1 {
                ops.push(Op::Next(0));
            }
            let s = Session { cap: 2, files: vec![c.img.clone()], faults: vec![], ops };
            let out = compare(d, rep, &s);
            let got: Vec<String> = out.iter().skip(2).map(|o| it_out(o)).collect();
            let mut want: Vec<String> = c.es.iter().map(|e| show_kv(&Some(e.clone()))).collect();
            want.push("none".into());
            if got != want {
                rep.judge_fail(J::obj(vec![("what", J::s("the complete image does not open with the full contents")), ("cfg", J::s(&c.cfg.describe())), ("entries", J::s(&entries_str(&c.es))), ("image", J::s(&hex(&c.img)))]));
            }
            if i == 0 && t == 0 {
                rep.sample(J::obj(vec![("cfg", J::s(&c.cfg.describe())), ("entries", J::s(&entries_str(&c.es))), ("prefix_lengths", J::s(&format!("0..{}", c.img.len())))]));
            }
        }
    })
}

// ------------------------------------------------------------------------------------------- C16
pub fn c16(ctx: &Ctx) -> Report {
    let base = Report::new("C16", "sorted key sequences over a small universe (adversarial alphabet, empty key included) with exactly one order violation (equal key, or a smaller key, or a key smaller than one added two steps before) at every position x block sizes 0,1,8,9,20,64,4096 (placing a block boundary before, at and after the violation) x restart intervals 1,2,16 x both comparators; built by the real TableBuilder and the model; judge: the offending add is refused (panic or error) at exactly that call and every earlier add succeeds; sorted sequences must be accepted; non-trivial = every case; distinct by (configuration, sequence)");
    let n = per_thread(ctx, 1000, 12000);
    parallel(&ctx.driver, ctx.threads, ctx.seed, base, |t, d, rng, rep| {
        for i in 0..n {
            let cmp = if rng.chance(1, 4) { CmpKind::Reverse } else { CmpKind::Bytewise };
            let es = gen_entries(rng, &cmp, 9, 6);
            if es.len() < 2 {
                continue;
            }
            for bs in [0usize, 1, 8, 9, 20, 64, 4096].iter() {
                let cfg = WCfg { cmp: cmp.clone(), block_size: *bs, restart: *rng.pick(&[1usize, 2, 16]), snappy: false, pol: if rng.chance(1, 2) { PolKind::Bloom(10) } else { PolKind::NoFilter } };
                for pos in 1..es.len() {
                    for kind in 0..3 {
                        let mut seq = es.clone();
                        match kind {
                            0 => seq[pos].0 = seq[pos - 1].0.clone(),
                            1 => seq.swap(pos - 1, pos),
                            _ => {
                                if pos < 2 {
                                    continue;
                                }
                                // smaller than the key two steps back but not adjacent-equal
                                seq[pos].0 = seq[pos - 2].0.clone();
                            }
                        }
                        // position of the first violation
                        let viol = (1..seq.len()).find(|j| !cmp.less(&seq[j - 1].0, &seq[*j].0));
                        let viol = match viol {
                            Some(v) => v,
                            None => continue,
                        };
                        let out = tb_build_impl(&cfg, &seq, &[]);
                        let req = tb_request(&cfg, &seq, ".", &[]);
                        rep.case(&req, true);
                        rep.count(&format!("violation_kind_{}", kind));
                        let imp = format!("{} {} {}", out.result, hex(&out.received), log_str(&out.log));
                        expect(d, rep, "S9 tablebuilder", &req, &imp);
                        let ok = out.result == format!("add-panic {}", viol) || out.result.starts_with(&format!("add-err {} ", viol));
                        if !ok {
                            rep.judge_fail(J::obj(vec![("what", J::s("an out-of-order key is not refused at the call that offers it")), ("cfg", J::s(&cfg.describe())), ("sequence", J::s(&entries_str(&seq))), ("violation_at_add", J::N(viol as i64)), ("result", J::s(&out.result))]));
                        }
                    }
                }
                // the sorted sequence itself is accepted
                let out = tb_build_impl(&cfg, &es, &[]);
                if out.finish_ok.is_none() {
                    rep.judge_fail(J::obj(vec![("what", J::s("a strictly increasing sequence is refused")), ("cfg", J::s(&cfg.describe())), ("sequence", J::s(&entries_str(&es))), ("result", J::s(&out.result))]));
                }
            }
            if i == 0 && t == 0 {
                rep.sample(J::obj(vec![("sorted_base_sequence", J::s(&entries_str(&es))), ("violations", J::s("equal / swapped / two-back at every position x 7 block sizes"))]));
            }
        }
    })
}

// ------------------------------------------------------------------------------------------- C20
pub fn c20(ctx: &Ctx) -> Report {
    let mut rep = Report::new("C20", "all 12 StatusCode variants x messages {empty, ASCII, non-ASCII, 4 KiB, NUL / control characters, a code name inside the message, lossy-UTF-8 replacement characters, 256 bytes, 70000 bytes} formatted through Display / to_string / dyn Error (and with every precision 0..len+1, widths and alignments: must not panic) in a child process with a 256 KiB main-thread stack (so unbounded recursion aborts instead of eating memory), compared with the model's Status.new/display; all io::ErrorKind values the conversion distinguishes plus 16 others mapped through From<io::Error>; From<snap::Error>, From<PoisonError>; judge: the text contains the code name and the message; non-trivial = every case; distinct by (code, message)");
    let mut d = ctx.new_driver();
    // the child prints hex(display) per case
    let exe = std::env::current_exe().unwrap();
    let out = std::process::Command::new(&exe).arg("C20-child").env("RUST_MIN_STACK", "262144").output();
    let text = match out {
        Ok(o) if o.status.success() => String::from_utf8_lossy(&o.stdout).to_string(),
        Ok(o) => {
            rep.judge_fail(J::obj(vec![("what", J::s("formatting a Status for display crashed the process")), ("status", J::s(&format!("{:?}", o.status))), ("stdout_tail", J::s(&String::from_utf8_lossy(&o.stdout).chars().rev().take(300).collect::<String>().chars().rev().collect::<String>()))]));
            rep.case("child", true);
            rep.case("child2", true);
            return rep;
        }
        Err(e) => {
            rep.notes.push(format!("cannot start child: {}", e));
            return rep;
        }
    };
    for line in text.lines() {
        let f: Vec<&str> = line.split(' ').collect();
        match f[0] {
            "new" => {
                // new <code> <hexmsg> <hexdisplay> <hex to_string> <hex dyn Error display>
                let (code, msg, disp) = (f[1], f[2], f[3]);
                rep.case(line, true);
                rep.count("status_new_cases");
                expect(&mut d, &mut rep, "S12 status", &format!("status_new {} {}", code, msg), disp);
                let dtext = String::from_utf8_lossy(&unhex(disp).unwrap_or_default()).to_string();
                let mtext = String::from_utf8_lossy(&unhex(msg).unwrap_or_default()).to_string();
                if !dtext.contains(code) || !dtext.contains(&mtext) || f[4] != disp || f[5] != disp {
                    rep.judge_fail(J::obj(vec![("what", J::s("displayed text lacks the code name or the message, or to_string / dyn Error disagree with Display")), ("code", J::s(code)), ("message_hex", J::s(msg)), ("display_hex", J::s(disp))]));
                }
                if rep.samples.len() < 3 {
                    rep.sample(J::obj(vec![("code", J::s(code)), ("message", J::s(&mtext.chars().take(40).collect::<String>())), ("display", J::s(&dtext.chars().take(80).collect::<String>()))]));
                }
            }
            "io" => {
                // io <kind> <code> <hexdisplay>
                rep.case(line, true);
                rep.count("io_kind_cases");
                expect(&mut d, &mut rep, "S12 status", &format!("status_io {}", f[1]), f[2]);
                let want = match f[1] {
                    "NotFound" => "NotFound",
                    "InvalidData" => "Corruption",
                    "InvalidInput" => "InvalidArgument",
                    "PermissionDenied" => "PermissionDenied",
                    _ => "IOError",
                };
                let dtext = String::from_utf8_lossy(&unhex(f[3]).unwrap_or_default()).to_string();
                if f[2] != want || !dtext.contains(want) {
                    rep.judge_fail(J::obj(vec![("what", J::s("io::ErrorKind is not mapped to the documented status code")), ("kind", J::s(f[1])), ("code", J::s(f[2])), ("documented", J::s(want))]));
                }
            }
            "fmt" => {
                // fmt <code> <hexmsg> ok | <formatting parameters under which Display panicked>
                rep.case(line, true);
                rep.count("formatting_parameter_cases");
                if f[3] != "ok" {
                    rep.judge_fail(J::obj(vec![("what", J::s("formatting the Status with caller-chosen formatting parameters panics: the value cannot be displayed")), ("code", J::s(f[1])), ("message_hex", J::s(f[2])), ("panics_with", J::s(f[3]))]));
                }
            }
            "conv" => {
                // conv <name> <code> <hexdisplay>
                rep.case(line, true);
                let dtext = String::from_utf8_lossy(&unhex(f[3]).unwrap_or_default()).to_string();
                if !dtext.contains(f[2]) {
                    rep.judge_fail(J::obj(vec![("what", J::s("converted error does not display its code name")), ("conversion", J::s(f[1])), ("display", J::s(&dtext))]));
                }
            }
            _ => {}
        }
    }
    rep
}

pub fn c20_child() {
    use std::error::Error;
    let msgs: Vec<String> = vec![
        "".into(),
        "plain ascii message".into(),
        "nicht-ASCII: äöü € 字".into(),
        "x".repeat(4096),
        // unusual messages: a NUL byte, control characters, a code name inside the message, a replacement
        // character from lossy UTF-8, lengths beyond one and two bytes
        "nul\0inside\ttab\nnewline".into(),
        "Corruption: NotFound IOError".into(),
        String::from_utf8_lossy(&[0x66, 0xff, 0xfe, 0x6f]).to_string(),
        "y".repeat(256),
        "z".repeat(70000),
    ];
    for c in all_codes() {
        // messages that begin with the code's OWN name: glued to text, followed by a blank, with a doubled separator
        let own = format!("{:?}", c);
        let mut ms: Vec<String> = msgs.clone();
        ms.push(format!("{}s are reported here", own));
        ms.push(format!("{} while reading", own));
        ms.push(format!("{}: : doubled", own));
        ms.push(own.clone());
        for m in ms.iter() {
            let s = Status::new(c.clone(), m);
            let d1 = format!("{}", s);
            let d2 = s.to_string();
            let e: Box<dyn Error> = Box::new(s.clone());
            let d3 = format!("{}", e);
            println!("new {:?} {} {} {} {}", c, hex(m.as_bytes()), hex(d1.as_bytes()), hex(d2.as_bytes()), hex(d3.as_bytes()));
            // formatting parameters chosen by the caller (width, precision, alignment) must not make the value
            // undisplayable: every precision up to past the end, a width, both (the content is not judged here)
            if m.len() <= 300 {
                let mut bad: Vec<String> = vec![];
                for n in 0..=(d1.len() + 1).min(120) {
                    let s2 = s.clone();
                    if std::panic::catch_unwind(move || format!("{:.*}", n, s2)).is_err() {
                        bad.push(format!("precision={}", n));
                    }
                }
                let s2 = s.clone();
                if std::panic::catch_unwind(move || format!("{:>40}|{:<3}|{:^9.4}", s2, s2, s2)).is_err() {
                    bad.push("width/alignment".into());
                }
                println!("fmt {:?} {} {}", c, hex(m.as_bytes()), if bad.is_empty() { "ok".to_string() } else { bad.join(",") });
            }
        }
    }
    for (name, kind) in io_kinds() {
        let s: Status = std::io::Error::new(kind, "io message").into();
        println!("io {} {:?} {}", name, s.code, hex(format!("{}", s).as_bytes()));
    }
    let e = snap::raw::Decoder::new().decompress_vec(&[0xff, 0xff, 0xff, 0xff, 0xff, 0xff]).unwrap_err();
    let s: Status = e.into();
    println!("conv snap {:?} {}", s.code, hex(format!("{}", s).as_bytes()));
    let m = std::sync::Mutex::new(0);
    let _ = std::panic::catch_unwind(|| {
        let _g = m.lock().unwrap();
        panic!("poison");
    });
    if let Err(p) = m.lock() {
        let s: Status = p.into();
        println!("conv poison {:?} {}", s.code, hex(format!("{}", s).as_bytes()));
    }
    let _ = StatusCode::OK;
}
