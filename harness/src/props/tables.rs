//! C01, C02, C03, C04, C05, C19: properties of built tables read back through the real reader.
use crate::gen::*;
use crate::session::*;
use crate::streams::*;
use crate::tcase::*;
use crate::util::*;
use crate::Ctx;

fn case_json(c: &TableCase) -> Vec<(&'static str, J)> {
    vec![("cfg", J::s(&c.cfg.describe())), ("entries", J::s(&entries_str(&c.es))), ("image", J::s(&hex(&c.img)))]
}
fn fail(rep: &mut Report, c: &TableCase, what: &str, extra: Vec<(&'static str, J)>) {
    let mut v = vec![("what", J::s(what))];
    v.extend(case_json(c));
    v.extend(extra);
    rep.judge_fail(J::obj(v));
}
fn ncases(ctx: &Ctx, quick: usize, thorough: usize) -> usize {
    (if ctx.thorough() { thorough } else { quick }) / ctx.threads.max(1) + 1
}

/// the block-level cone (S2, S3, S4, S7, S8) every table property depends on
fn block_cone(d: &mut Driver, rep: &mut Report, rng: &mut Rng, n: usize) {
    s2_codec(d, rep, rng, n);
    s3_crc(d, rep, rng, n);
    s4_snappy(d, rep, rng, n);
    let blocks = s7_blockbuilder(d, rep, rng, n);
    s8_blockiter(d, rep, rng, &blocks, 20);
}

// ------------------------------------------------------------------------------------------- C01
pub fn c01(ctx: &Ctx) -> Report {
    let base = Report::new("C01", "random writer configurations (block_size 0,1,7,8,9..,4096,>file; restart 1..20; none/snappy; bloom(0..40)/none/custom policy; bytewise/reverse comparator) x sorted entry sets over adversarial alphabets (empty key, shared prefixes, values up to beyond a block) built by the real TableBuilder, opened with unrelated reader options and any cache capacity, scanned to the end and once more after the end; a case is non-trivial when the table has >= 2 entries; distinct = distinct (configuration, entry set)");
    let n = ncases(ctx, 6000, 60000);
    parallel(&ctx.driver, ctx.threads, ctx.seed, base, |t, d, rng, rep| {
        if t == 0 {
            block_cone(d, rep, rng, 100);
        }
        for i in 0..n {
            let c = match gen_case(d, rep, rng, if i % 10 == 0 { 120 } else { 25 }) {
                Some(c) => c,
                None => continue,
            };
            rep.case(&format!("{} {}", c.cfg.describe(), entries_str(&c.es)), c.es.len() >= 2);
            let mut ops = vec![open_op(rng, 0, 0, &c), Op::Iter(0, 0)];
            for _ in 0..c.es.len() + 2 {
                ops.push(Op::Next(0));
            }
            let s = Session { cap: rng.range(1, 5), files: vec![c.img.clone()], faults: vec![], ops };
            let out = compare(d, rep, &s);
            if out.len() != s.ops.len() || !res_of(&out[0]).starts_with("ok") {
                fail(rep, &c, "a built table does not open / scan without error", vec![("outputs", J::s(&out.join(";")))]);
                continue;
            }
            let mut got: Vec<String> = out[2..].iter().map(|o| it_out(o)).collect();
            // n entries, then none; the call after the end restarts at the first entry
            let mut want: Vec<String> = c.es.iter().map(|e| show_kv(&Some(e.clone()))).collect();
            want.push("none".into());
            want.push(c.es.first().map(|e| show_kv(&Some(e.clone()))).unwrap_or("none".into()));
            got.truncate(want.len());
            if got != want {
                fail(rep, &c, "forward scan differs from the entries added", vec![("scan", J::s(&got.join(",")))]);
            }
            if i < 2 && t == 0 {
                rep.sample(J::obj(vec![("cfg", J::s(&c.cfg.describe())), ("entries", J::s(&entries_str(&c.es))), ("image_bytes", J::N(c.img.len() as i64))]));
            }
            // other sinks / sources of the quantifier: File and BufWriter<File> sinks, Table::new_from_file
            if i % 25 == 0 {
                use std::io::Write;
                let dir = std::path::Path::new("/verif/.cache/tmp");
                let _ = std::fs::create_dir_all(dir);
                let path = dir.join(format!("c01-{}-{}-{}.sst", std::process::id(), t, i));
                let built = guarded(|| -> std::result::Result<usize, String> {
                    let f = std::fs::File::create(&path).map_err(|e| e.to_string())?;
                    let n = if i % 50 == 0 {
                        let mut b = sstable::TableBuilder::new(c.cfg.options(), std::io::BufWriter::new(f));
                        for (k, v) in c.es.iter() {
                            b.add(k, v).map_err(|e| e.err)?;
                        }
                        b.finish().map_err(|e| e.err)?
                    } else {
                        let mut f = f;
                        let n = {
                            let mut b = sstable::TableBuilder::new(c.cfg.options(), &mut f);
                            for (k, v) in c.es.iter() {
                                b.add(k, v).map_err(|e| e.err)?;
                            }
                            b.finish().map_err(|e| e.err)?
                        };
                        f.flush().map_err(|e| e.to_string())?;
                        n
                    };
                    Ok(n)
                });
                rep.count(if i % 50 == 0 { "sink_bufwriter_file" } else { "sink_file" });
                let on_disk = std::fs::read(&path).unwrap_or_default();
                let mut ok = matches!(built, Ok(Ok(n)) if n == on_disk.len()) && on_disk == c.img;
                if ok {
                    let mut ro = c.cfg.options();
                    ro.block_size = 77;
                    match sstable::Table::new_from_file(ro, &path) {
                        Ok(tb) => {
                            use sstable::SSIterator;
                            let mut it = tb.iter();
                            let mut got = vec![];
                            while let Some(e) = it.next() {
                                got.push(e);
                                if got.len() > c.es.len() + 1 {
                                    break;
                                }
                            }
                            ok = got == c.es;
                        }
                        Err(_) => ok = false,
                    }
                }
                let _ = std::fs::remove_file(&path);
                if !ok {
                    fail(rep, &c, "table written to a File / BufWriter sink and read with Table::new_from_file differs from the Vec run", vec![]);
                }
            }
        }
    })
}

// ------------------------------------------------------------------------------------------- C02 / C03 / C19
fn probe_props(ctx: &Ctx, prop: &str, rule: &str) -> Report {
    let base = Report::new(prop, rule);
    let n = ncases(ctx, 4000, 50000);
    let prop = prop.to_string();
    parallel(&ctx.driver, ctx.threads, ctx.seed, base, |t, d, rng, rep| {
        if t == 0 {
            block_cone(d, rep, rng, 80);
            if prop == "C02" {
                s5_bloom(d, rep, rng, 100, false);
                s6_filterblock(d, rep, rng, 60);
            }
        }
        for i in 0..n {
            let c = match gen_case(d, rep, rng, if i % 10 == 0 { 100 } else { 20 }) {
                Some(c) => c,
                None => continue,
            };
            // index separators are interesting probes: take them from the independent decoder
            let dec = d.ask(&format!("spec_decode {}", hex(&c.img)));
            let mut seps: Vec<Vec<u8>> = vec![];
            let mut starts: Vec<(usize, usize, Vec<Vec<u8>>)> = vec![]; // (offset, size, keys)
            let mut meta_off = 0usize;
            if let Some(rest) = dec.strip_prefix("ok ") {
                let f: Vec<&str> = rest.split(' ').collect();
                meta_off = f[0].split(':').next().unwrap().parse().unwrap_or(0);
                if f[2] != "." {
                    for b in f[2].split(',') {
                        let p: Vec<&str> = b.split(':').collect();
                        if let Some(s) = unhex(p[2]) {
                            seps.push(s);
                        }
                        let keys: Vec<Vec<u8>> = if p[3] == "." { vec![] } else { p[3].split('+').filter_map(|kv| unhex(kv.split('=').next().unwrap())).collect() };
                        starts.push((p[0].parse().unwrap_or(0), p[1].parse().unwrap_or(0), keys));
                    }
                }
            } else {
                fail(rep, &c, "independent decoder rejects a built table", vec![]);
                continue;
            }
            let probes = probes(rng, &c.es, &seps);
            rep.case(&format!("{} {}", c.cfg.describe(), entries_str(&c.es)), c.es.len() >= 2);
            rep.count_n("probes", probes.len() as u64);
            rep.count_n("separator_probes", seps.len() as u64);
            if starts.len() > 1 {
                rep.count("multi_block_tables");
            }
            let spec = spec_probe(d, &c, &probes);
            let mut ops = vec![open_op(rng, 0, 0, &c), Op::Iter(0, 0)];
            // random prior iterator state for C03
            if prop == "C03" {
                ops.extend(gen_ops(rng, 1, 1, &probes, 3, true));
            }
            let first_probe_op = ops.len();
            for p in probes.iter() {
                match prop.as_str() {
                    "C02" => ops.push(Op::Get(0, p.clone())),
                    "C03" => {
                        ops.push(Op::Seek(0, p.clone()));
                        ops.push(Op::Cur(0));
                    }
                    _ => ops.push(Op::Approx(0, p.clone())),
                }
            }
            let s = Session { cap: rng.range(1, 5), files: vec![c.img.clone()], faults: vec![], ops };
            let out = compare(d, rep, &s);
            if out.len() != s.ops.len() {
                fail(rep, &c, "reader stopped (panic) during probes", vec![("outputs", J::s(&out.join(";")))]);
                continue;
            }
            let mut prev_off: Option<usize> = None;
            for (pi, p) in probes.iter().enumerate() {
                match prop.as_str() {
                    "C02" => {
                        let got = res_of(&out[first_probe_op + pi]).to_string();
                        let want = format!("ok {}", spec[pi].0);
                        if got != want {
                            fail(rep, &c, "point lookup differs from the sorted-map lookup", vec![("key", J::s(&hex(p))), ("got", J::s(&got)), ("want", J::s(&want)), ("reader", J::s(&s.ops[0].text()))]);
                        }
                    }
                    "C03" => {
                        let got = it_out(&out[first_probe_op + 2 * pi + 1]);
                        let want = match spec[pi].1.parse::<usize>() {
                            Ok(ix) => show_kv(&Some(c.es[ix].clone())),
                            Err(_) => "none".to_string(),
                        };
                        if got != want {
                            fail(rep, &c, "seek does not land on the least entry not below the target", vec![("target", J::s(&hex(p))), ("got", J::s(&got)), ("want", J::s(&want)), ("prior_ops", J::s(&s.ops[2..first_probe_op].iter().map(|o| o.text()).collect::<Vec<_>>().join(";")))]);
                        }
                    }
                    _ => {
                        // C19: monotone (probes are sorted bytewise; for the reverse comparator walk backwards),
                        // in range, start of the containing block for stored keys, >= end of the last data
                        // block for keys above every stored key
                        let got: usize = res_of(&out[first_probe_op + pi]).strip_prefix("ok ").and_then(|x| x.parse().ok()).unwrap_or(usize::MAX);
                        if got > c.img.len() {
                            fail(rep, &c, "approximate offset outside of the file", vec![("key", J::s(&hex(p))), ("got", J::N(got as i64))]);
                        }
                        if c.cfg.cmp == CmpKind::Bytewise {
                            if let Some(po) = prev_off {
                                if got < po {
                                    fail(rep, &c, "approximate offset decreases as the key increases", vec![("key", J::s(&hex(p))), ("got", J::N(got as i64)), ("previous", J::N(po as i64))]);
                                }
                            }
                            prev_off = Some(got);
                        }
                        for (off, _, keys) in starts.iter() {
                            if keys.contains(p) && got != *off {
                                fail(rep, &c, "approximate offset of a stored key is not the start of its block", vec![("key", J::s(&hex(p))), ("got", J::N(got as i64)), ("block_start", J::N(*off as i64))]);
                            }
                        }
                        if let Some((last_k, _)) = c.es.last() {
                            if c.cfg.cmp.less(last_k, p) {
                                let (lo, ls, _) = starts.last().cloned().unwrap_or((0, 0, vec![]));
                                let end_last = lo + ls + 5;
                                if got < end_last {
                                    // F4: the single key equal to the last index separator
                                    let is_f4 = seps.last().map(|s| s == p).unwrap_or(false);
                                    if is_f4 {
                                        rep.count("known_F4_last_separator_probe");
                                        rep.known.push("C19/last-separator".into());
                                    } else {
                                        fail(rep, &c, "approximate offset of a key above every stored key is below the end of the last data block", vec![("key", J::s(&hex(p))), ("got", J::N(got as i64)), ("end_of_last_block", J::N(end_last as i64))]);
                                    }
                                }
                                let _ = meta_off;
                            }
                        }
                    }
                }
            }
            if i < 2 && t == 0 {
                rep.sample(J::obj(vec![("cfg", J::s(&c.cfg.describe())), ("entries", J::s(&entries_str(&c.es))), ("probes", J::s(&hexlist(&probes))), ("reader", J::s(&s.ops[0].text()))]));
            }
        }
    })
}
pub fn c02(ctx: &Ctx) -> Report {
    probe_props(ctx, "C02", "tables as in C01 (one entry per block, many blocks, many 2 KiB filter ranges) opened with a reader policy equal to the writer's, bloom with other bits_per_key, or a differently named policy; probes: every stored key, its bytewise predecessor/successor, proper prefix, extensions by 00 and ff, every index separator (taken from the independent decoder), below-first, above-last, random; non-trivial = table with >= 2 entries; distinct = distinct (configuration, entry set)")
}
pub fn c03(ctx: &Ctx) -> Report {
    probe_props(ctx, "C03", "tables and targets as in C02 (targets between a block's last key and its separator, equal to separators, inside restart runs), each seek issued after a random prior iterator history; judged against Spec.lowerBound; non-trivial = table with >= 2 entries")
}
pub fn c19(ctx: &Ctx) -> Report {
    probe_props(ctx, "C19", "tables and probe keys as in C02; block starts and sizes from the independent decoder; monotonicity checked along the sorted probe list (bytewise comparator); non-trivial = table with >= 2 entries")
}

// ------------------------------------------------------------------------------------------- C04
fn obs_text(ops: &[Op], out: &[String]) -> String {
    let mut v = vec![];
    for (o, r) in ops.iter().zip(out.iter()) {
        let (name, arg) = match o {
            Op::Adv(_) => ("adv", vec![]),
            Op::Next(_) => ("next", vec![]),
            Op::Prev(_) => ("prev", vec![]),
            Op::Reset(_) => ("reset", vec![]),
            Op::First(_) => ("first", vec![]),
            Op::Seek(_, k) => ("seek", k.clone()),
            Op::Valid(_) => ("valid", vec![]),
            Op::Cur(_) => ("cur", vec![]),
            Op::Key(_) => ("key", vec![]),
            _ => continue,
        };
        v.push(format!("{},{},{}", name, hex(&arg), it_out(r)));
    }
    if v.is_empty() {
        ".".into()
    } else {
        v.join(";")
    }
}
pub fn judge_history(d: &mut Driver, rep: &mut Report, c: &TableCase, s: &Session, out: &[String]) {
    if out.len() != s.ops.len() {
        fail(rep, c, "iterator call sequence ends in a panic", vec![("ops", J::s(&s.ops.iter().map(|o| o.text()).collect::<Vec<_>>().join(";"))), ("outputs", J::s(&out.join(";")))]);
        return;
    }
    let obs = obs_text(&s.ops[2..], &out[2..]);
    let v = d.ask(&format!("judge_c04 {} {} {}", c.cfg.cmp.name(), entries_str(&c.es), obs));
    if v != "ok" {
        fail(rep, c, "iterator is not equivalent to a cursor over the sorted entry list", vec![("verdict", J::s(&v)), ("ops", J::s(&s.ops.iter().map(|o| o.text()).collect::<Vec<_>>().join(";"))), ("observed", J::s(&obs))]);
    }
}
/// the crate's iterator glue: the same history through `Box<dyn SSIterator>` (`impl SSIterator for Box<dyn
/// SSIterator>`) and through `Iterator for dyn SSIterator` must behave exactly like the iterator it wraps
/// (which is the one compared with the model and judged above)
fn boxed_glue(rep: &mut Report, c: &TableCase, ops: &[Op]) {
    use sstable::{SSIterator, Table};
    let open = |img: &Vec<u8>| -> Option<Table> {
        let mut o = c.cfg.options();
        o.filter_policy = c.cfg.pol.boxed();
        Table::new(o, Box::new(img.clone()), img.len()).ok()
    };
    let (ta, tb) = match (open(&c.img), open(&c.img)) {
        (Some(a), Some(b)) => (a, b),
        _ => return,
    };
    let mut plain = ta.iter();
    let mut boxed: Box<dyn SSIterator> = Box::new(tb.iter());
    rep.count("boxed_glue_histories");
    for (j, op) in ops.iter().enumerate() {
        let (a, b): (String, String) = match op {
            Op::Adv(_) => (format!("{}", plain.advance()), format!("{}", boxed.advance())),
            Op::Next(_) => {
                // alternate between the trait's default `next` on the Box and `Iterator::next` on the dyn object
                let x = show_kv(&SSIterator::next(&mut plain));
                let y = if j % 2 == 0 { show_kv(&SSIterator::next(&mut boxed)) } else { show_kv(&Iterator::next(&mut *boxed)) };
                (x, y)
            }
            Op::Prev(_) => (format!("{}", plain.prev()), format!("{}", boxed.prev())),
            Op::Reset(_) => {
                plain.reset();
                boxed.reset();
                continue;
            }
            Op::First(_) => {
                plain.seek_to_first();
                boxed.seek_to_first();
                continue;
            }
            Op::Seek(_, k) => {
                plain.seek(k);
                boxed.seek(k);
                continue;
            }
            Op::Valid(_) => (format!("{}", plain.valid()), format!("{}", boxed.valid())),
            Op::Cur(_) => (show_kv(&dirty_current(&plain)), show_kv(&dirty_current(&boxed))),
            Op::Key(_) => (plain.current_key().map(hex).unwrap_or("none".into()), boxed.current_key().map(hex).unwrap_or("none".into())),
            _ => continue,
        };
        if a != b {
            rep.judge_fail(J::obj(vec![("what", J::s("Box<dyn SSIterator> / Iterator for dyn SSIterator behaves differently from the iterator it wraps")), ("cfg", J::s(&c.cfg.describe())), ("entries", J::s(&entries_str(&c.es))), ("ops", J::s(&ops.iter().map(|o| o.text()).collect::<Vec<_>>().join(";"))), ("op_index", J::N(j as i64)), ("plain", J::s(&a)), ("boxed", J::s(&b))]));
            return;
        }
    }
}
pub fn c04(ctx: &Ctx) -> Report {
    let base = Report::new("C04", "tables as in C01 x random call histories (advance, next, prev [always followed by a current query, which resolves the unspecified prev-from-invalid], reset, seek_to_first, seek(t) for t in the C02 target set, valid/current/current_key) of length 40 (quick) / 120 (thorough), plus (thorough) every history of length <= 5 over {advance, prev, reset, seek(t)} on every table over subsets of a 4-key universe with 3 layouts; judged by replaying the observations on the Spec cursor; iterator state fingerprints are compared with the model after every call; non-trivial = history containing prev or seek on a table with >= 2 entries");
    let n = ncases(ctx, 5000, 40000);
    let hist_len = if ctx.thorough() { 120 } else { 40 };
    let mut rep = parallel(&ctx.driver, ctx.threads, ctx.seed, base, |t, d, rng, rep| {
        if t == 0 {
            block_cone(d, rep, rng, 80);
        }
        for i in 0..n {
            let c = match gen_case(d, rep, rng, if i % 10 == 0 { 60 } else { 14 }) {
                Some(c) => c,
                None => continue,
            };
            // one case in seven: the same entries under a comparator that is neither bytewise nor its reverse (shorter
            // keys first): code that compares keys with `<` on the bytes instead of asking the comparator shows only here
            let c = if i % 7 == 3 {
                let mut cfg2 = c.cfg.clone();
                cfg2.cmp = CmpKind::LenFirst;
                let mut es2 = c.es.clone();
                es2.sort_by(|a, b| (a.0.len(), &a.0).cmp(&(b.0.len(), &b.0)));
                rep.count("tables_with_length_first_comparator");
                match build_case(d, rep, &cfg2, &es2) {
                    Some(c2) => c2,
                    None => continue,
                }
            } else {
                c
            };
            let probes = probes(rng, &c.es, &[]);
            let mut ops = vec![open_op(rng, 0, 0, &c), Op::Iter(0, 0)];
            ops.extend(gen_ops(rng, 1, 1, &probes, hist_len, true).into_iter().filter(|o| !matches!(o, Op::Get(..) | Op::Approx(..))));
            let nt = c.es.len() >= 2 && ops.iter().any(|o| matches!(o, Op::Prev(_) | Op::Seek(..)));
            let s = Session { cap: rng.range(1, 4), files: vec![c.img.clone()], faults: vec![], ops };
            rep.case(&s.request(), nt);
            rep.count_n("iterator_calls", s.ops.len() as u64 - 2);
            let out = compare(d, rep, &s);
            judge_history(d, rep, &c, &s, &out);
            // tables with long keys (index keys beyond any small inline buffer): histories that visit a late block, walk
            // or seek BACKWARDS across block boundaries, then seek forward again (state remembered about "the current
            // block" must be the current block's)
            if c.es.len() >= 3 && c.es.iter().any(|e| e.0.len() > 33) {
                for _ in 0..4 {
                    let keys: Vec<Vec<u8>> = c.es.iter().map(|e| e.0.clone()).collect();
                    let mut ops = vec![open_op(rng, 0, 0, &c), Op::Iter(0, 0)];
                    for _ in 0..6 {
                        let late = rng.range(keys.len() / 2, keys.len() - 1);
                        ops.push(Op::Seek(0, keys[late].clone()));
                        ops.push(Op::Cur(0));
                        if rng.chance(1, 2) {
                            for _ in 0..rng.range(1, 3) {
                                ops.push(Op::Prev(0));
                                ops.push(Op::Cur(0));
                            }
                        } else {
                            ops.push(Op::Seek(0, keys[rng.below(late.max(1))].clone()));
                            ops.push(Op::Cur(0));
                        }
                        let mut fwd = keys[rng.range(1, keys.len() - 1)].clone();
                        if rng.chance(1, 2) {
                            fwd.push(0);
                        }
                        ops.push(Op::Seek(0, fwd));
                        ops.push(Op::Cur(0));
                        ops.push(Op::Next(0));
                    }
                    let s2 = Session { cap: rng.range(1, 4), files: vec![c.img.clone()], faults: vec![], ops };
                    rep.case(&s2.request(), true);
                    rep.count("back_and_forth_histories_on_long_key_tables");
                    let out2 = compare(d, rep, &s2);
                    judge_history(d, rep, &c, &s2, &out2);
                }
            }
            if i % 8 == 0 {
                // a panic inside the crate is the business of the judged run above, not of this glue comparison
                let mut glue = Report::new("C04", "");
                if guarded(|| boxed_glue(&mut glue, &c, &s.ops)).is_ok() {
                    rep.merge(glue);
                }
            }
            if i < 2 && t == 0 {
                rep.sample(J::obj(vec![("cfg", J::s(&c.cfg.describe())), ("entries", J::s(&entries_str(&c.es))), ("ops", J::s(&s.ops.iter().map(|o| o.text()).collect::<Vec<_>>().join(";")))]));
            }
        }
    });
    if ctx.thorough() {
        // exhaustive small scope
        let universe: Vec<Vec<u8>> = vec![vec![], vec![b'a'], vec![b'a', 0], vec![b'b']];
        let targets: Vec<Vec<u8>> = vec![vec![], vec![b'a'], vec![b'a', 0], vec![b'a', 1], vec![b'b'], vec![b'c']];
        let mut alphabet: Vec<Op> = vec![Op::Adv(0), Op::Prev(0), Op::Reset(0)];
        for t in targets.iter() {
            alphabet.push(Op::Seek(0, t.clone()));
        }
        let layouts = [(0usize, 1usize), (8, 2), (4096, 16)];
        let ex = parallel(&ctx.driver, ctx.threads, ctx.seed, Report::new("C04", ""), |t, d, _rng, rep| {
            let mut idx = 0;
            for mask in 0..(1u32 << universe.len()) {
                let es: Vec<(Vec<u8>, Vec<u8>)> = universe.iter().enumerate().filter(|(i, _)| mask & (1 << i) != 0).map(|(i, k)| (k.clone(), vec![i as u8])).collect();
                for (bs, ri) in layouts.iter() {
                    idx += 1;
                    if idx % ctx.threads.max(1) != t {
                        continue;
                    }
                    let cfg = WCfg { cmp: CmpKind::Bytewise, block_size: *bs, restart: *ri, snappy: false, pol: PolKind::Bloom(10) };
                    let c = match build_case(d, rep, &cfg, &es) {
                        Some(c) => c,
                        None => continue,
                    };
                    // all histories of length 5
                    let a = alphabet.len();
                    for code in 0..a.pow(5) {
                        let mut ops = vec![Op::Open { t: 0, file: 0, size: c.img.len(), cmp: CmpKind::Bytewise, pol: PolKind::Bloom(10) }, Op::Iter(0, 0)];
                        let mut x = code;
                        for _ in 0..5 {
                            let o = alphabet[x % a].clone();
                            x /= a;
                            let is_prev = matches!(o, Op::Prev(_));
                            ops.push(o);
                            if is_prev {
                                ops.push(Op::Cur(0));
                            } else {
                                ops.push(Op::Cur(0));
                            }
                        }
                        let s = Session { cap: 2, files: vec![c.img.clone()], faults: vec![], ops };
                        rep.case(&s.request(), true);
                        rep.count("exhaustive_histories");
                        let out = compare(d, rep, &s);
                        judge_history(d, rep, &c, &s, &out);
                    }
                }
            }
        });
        rep.merge(ex);
    }
    rep
}

// ------------------------------------------------------------------------------------------- C05
pub fn c05(ctx: &Ctx) -> Report {
    let base = Report::new("C05", "every file produced by the real TableBuilder for random configurations and entry sets (as in C01) is one program for translation validation: the independent Lean decoder must accept it, decode exactly the entries added, find non-empty blocks, bracketing index keys, the filter's metaindex entry, and every key must pass the independently computed bloom filter of its block; the produced bytes are also compared with the model writer's bytes (S9); non-trivial = >= 2 entries");
    let n = ncases(ctx, 8000, 80000);
    parallel(&ctx.driver, ctx.threads, ctx.seed, base, |t, d, rng, rep| {
        if t == 0 {
            block_cone(d, rep, rng, 80);
            s5_bloom(d, rep, rng, 100, false);
            s6_filterblock(d, rep, rng, 60);
        }
        for i in 0..n {
            // worker 5, first case: a file beyond 2 MiB (26 values of 100 KB, one block each): handle offsets that
            // need 4-byte varints in the index block and the footer
            let huge = t == 5 % ctx.threads.max(1) && i == 0;
            let c = if huge {
                let cfg = WCfg { cmp: CmpKind::Bytewise, block_size: 4096, restart: 16, snappy: false, pol: PolKind::Bloom(10) };
                let es: Vec<(Vec<u8>, Vec<u8>)> = (0..26).map(|j| (format!("h{:02}", j).into_bytes(), { let mut v = rng.any_bytes(64); v.resize(100_000, j as u8); v })).collect();
                rep.count("tables_over_2mib");
                match build_case(d, rep, &cfg, &es) {
                    Some(c) => c,
                    None => continue,
                }
            } else {
                match gen_case(d, rep, rng, if i % 8 == 0 { 150 } else { 25 }) {
                    Some(c) => c,
                    None => continue,
                }
            };
            rep.case(&format!("{} {}", c.cfg.describe(), if huge { "26 entries of 100 KB".to_string() } else { entries_str(&c.es) }), c.es.len() >= 2);
            let is_bloom = matches!(c.cfg.pol, PolKind::Bloom(_));
            let v = d.ask(&format!("judge_c05 {} {} {} {} {}", c.cfg.cmp.name(), hex(&c.img), entries_str(&c.es), hex(c.cfg.pol.disk_name().as_bytes()), is_bloom));
            rep.count("programs");
            if v != "ok" {
                fail(rep, &c, "produced file does not conform to the table format", vec![("verdict", J::s(&v))]);
            }
            if i < 2 && t == 0 {
                rep.sample(J::obj(vec![("cfg", J::s(&c.cfg.describe())), ("entries", J::s(&entries_str(&c.es))), ("image", J::s(&hex(&c.img)))]));
            }
        }
    })
}
