//! C06, C07, C08, C10, C12, C14, C18.
use crate::gen::*;
use crate::refenc::*;
use crate::session::*;
use crate::streams::*;
use crate::tcase::*;
use crate::util::*;
use crate::Ctx;
use sstable::{Options, RandomAccess, SSIterator, Table};
use std::sync::Arc;

fn per_thread(ctx: &Ctx, quick: usize, thorough: usize) -> usize {
    (if ctx.thorough() { thorough } else { quick }) / ctx.threads.max(1) + 1
}
fn ops_text(ops: &[Op]) -> String {
    ops.iter().map(|o| o.text()).collect::<Vec<_>>().join(";")
}

/// blocks of a (possibly damaged) image as the independent decoder sees them:
/// None if the footer / index block is unusable; per index entry Some(entries) or None (unreadable)
pub fn spec_damaged(d: &mut Driver, img: &[u8]) -> Option<Vec<Option<Vec<(Vec<u8>, Vec<u8>)>>>> {
    let r = d.ask(&format!("spec_damaged {}", hex(img)));
    let rest = r.strip_prefix("ok ")?;
    if rest == "." {
        return Some(vec![]);
    }
    Some(
        rest.split(',')
            .map(|b| {
                let p: Vec<&str> = b.split(':').collect();
                if p.len() == 2 {
                    None
                } else if p[2] == "." {
                    Some(vec![])
                } else {
                    Some(p[2].split('+').map(|kv| {
                        let mut x = kv.split('=');
                        (unhex(x.next().unwrap()).unwrap_or_default(), unhex(x.next().unwrap_or("-")).unwrap_or_default())
                    }).collect())
                }
            })
            .collect(),
    )
}

// ------------------------------------------------------------------------------------------- C06
pub fn c06(ctx: &Ctx) -> Report {
    let base = Report::new("C06", "files written by the harness's reference encoder with free layout choices (random restart subsets containing 0, shared-prefix lengths 0..maximal, separators anywhere in [last key, next first key) incl. the last key itself, per-block none/snappy with literal-only or copy elements, gaps between blocks, filter base 2^8..2^14, no / foreign-named filter, extra metaindex keys, both comparators); each file is used only after the independent Lean decoder accepted it and decoded exactly the intended entries (so it is well-formed by the Spec); then opened, scanned, probed with get and seek (C02 probe set) through the real reader and the model; non-trivial = >= 2 entries; distinct by image");
    let n = per_thread(ctx, 5000, 60000);
    parallel(&ctx.driver, ctx.threads, ctx.seed, base, |t, d, rng, rep| {
        if t == 0 {
            s2_codec(d, rep, rng, 60);
            s4_snappy(d, rep, rng, 100);
        }
        for i in 0..n {
            let cmp = if rng.chance(1, 5) { CmpKind::Reverse } else { CmpKind::Bytewise };
            let es = gen_entries(rng, &cmp, if i % 8 == 0 { 80 } else { 20 }, 60);
            let rt = encode_table(rng, &cmp, &es, false);
            let c = TableCase { cfg: WCfg { cmp: cmp.clone(), block_size: 0, restart: 1, snappy: false, pol: PolKind::Bloom(10) }, es: es.clone(), img: rt.img.clone() };
            // in scope? the independent decoder must accept and decode to es
            let dec = d.ask(&format!("spec_decode {}", hex(&rt.img)));
            let decoded_ok = match dec.strip_prefix("ok ") {
                Some(rest) => {
                    let f: Vec<&str> = rest.split(' ').collect();
                    let mut got = vec![];
                    if f[2] != "." {
                        for b in f[2].split(',') {
                            let p: Vec<&str> = b.split(':').collect();
                            if p[3] != "." {
                                for kv in p[3].split('+') {
                                    got.push(kv.to_string());
                                }
                            }
                        }
                    }
                    got == es.iter().map(|(k, v)| format!("{}={}", hex(k), hex(v))).collect::<Vec<_>>()
                }
                None => false,
            };
            if !decoded_ok {
                rep.count("reference_encoder_output_rejected_by_spec");
                rep.notes.push(format!("reference encoder produced a file the Spec decoder does not decode to the entries: {}", rt.description));
                continue;
            }
            rep.case(&hex(&rt.img), es.len() >= 2);
            rep.count(&format!("layout_{}", rt.description.replace(' ', "_").replace(|c: char| c.is_ascii_digit(), "")));
            let seps: Vec<Vec<u8>> = vec![];
            let probes = probes(rng, &es, &seps);
            let spec = spec_probe(d, &c, &probes);
            let rpol = rng.pick(&[PolKind::Bloom(10), PolKind::Bloom(3), PolKind::NoFilter, PolKind::FirstByte]).clone();
            let mut ops = vec![Op::Open { t: 0, file: 0, size: rt.img.len(), cmp: cmp.clone(), pol: rpol.clone() }, Op::Iter(0, 0)];
            for _ in 0..es.len() + 1 {
                ops.push(Op::Next(0));
            }
            let first_probe = ops.len();
            for p in probes.iter() {
                ops.push(Op::Get(0, p.clone()));
                ops.push(Op::Seek(0, p.clone()));
                ops.push(Op::Cur(0));
            }
            let s = Session { cap: rng.range(1, 4), files: vec![rt.img.clone()], faults: vec![], ops };
            let out = compare(d, rep, &s);
            let mk = |what: &str, extra: Vec<(&'static str, J)>| {
                let mut v = vec![("what", J::s(what)), ("layout", J::s(&rt.description)), ("cmp", J::s(cmp.name())), ("reader_policy", J::s(&rpol.name())), ("entries", J::s(&entries_str(&es))), ("image", J::s(&hex(&rt.img)))];
                v.extend(extra);
                J::obj(v)
            };
            if out.len() != s.ops.len() || !res_of(&out[0]).starts_with("ok") {
                rep.judge_fail(mk("a well-formed table does not open / is not read without error", vec![("outputs", J::s(&out.join(";")))]));
                continue;
            }
            let got: Vec<String> = out[2..first_probe].iter().map(|o| it_out(o)).collect();
            let mut want: Vec<String> = es.iter().map(|e| show_kv(&Some(e.clone()))).collect();
            want.push("none".into());
            if got != want {
                rep.judge_fail(mk("scan of a well-formed table differs from its entries", vec![("scan", J::s(&got.join(",")))]));
            }
            for (pi, p) in probes.iter().enumerate() {
                let g = res_of(&out[first_probe + 3 * pi]).to_string();
                if g != format!("ok {}", spec[pi].0) {
                    rep.judge_fail(mk("lookup on a well-formed table is wrong", vec![("key", J::s(&hex(p))), ("got", J::s(&g)), ("want", J::s(&spec[pi].0))]));
                }
                let sk = it_out(&out[first_probe + 3 * pi + 2]);
                let wantk = match spec[pi].1.parse::<usize>() {
                    Ok(ix) => show_kv(&Some(es[ix].clone())),
                    Err(_) => "none".into(),
                };
                if sk != wantk {
                    rep.judge_fail(mk("seek on a well-formed table is wrong", vec![("target", J::s(&hex(p))), ("got", J::s(&sk)), ("want", J::s(&wantk))]));
                }
            }
            if i < 2 && t == 0 {
                rep.sample(J::obj(vec![("layout", J::s(&rt.description)), ("entries", J::s(&entries_str(&es))), ("image", J::s(&hex(&rt.img)))]));
            }
        }
    })
}

// ------------------------------------------------------------------------------------------- C07
/// judge one altered image: right-or-error
fn c07_judge(d: &mut Driver, rep: &mut Report, c: &TableCase, altered: &[u8], what_alt: &str, data_end: usize, touched_lo: usize, touched_hi: usize) {
    let keys: Vec<Vec<u8>> = c.es.iter().map(|e| e.0.clone()).collect();
    let mut ops = vec![Op::Open { t: 0, file: 0, size: altered.len(), cmp: c.cfg.cmp.clone(), pol: c.cfg.pol.clone() }, Op::Iter(0, 0)];
    for _ in 0..c.es.len() + 1 {
        ops.push(Op::Next(0));
    }
    let first_get = ops.len();
    let mut absent: Vec<Vec<u8>> = vec![];
    for k in keys.iter() {
        ops.push(Op::Get(0, k.clone()));
        let mut a = k.clone();
        a.push(0x55);
        if !keys.contains(&a) {
            absent.push(a);
        }
    }
    let first_absent = ops.len();
    for a in absent.iter() {
        ops.push(Op::Get(0, a.clone()));
    }
    let s = Session { cap: 3, files: vec![altered.to_vec()], faults: vec![], ops };
    let out = compare(d, rep, &s);
    let mk = |what: &str, extra: Vec<(&'static str, J)>| {
        let mut v = vec![("what", J::s(what)), ("alteration", J::s(what_alt)), ("cfg", J::s(&c.cfg.describe())), ("entries", J::s(&entries_str(&c.es))), ("original_image", J::s(&hex(&c.img)))];
        v.extend(extra);
        J::obj(v)
    };
    let open = out.get(0).map(|o| res_of(o).to_string()).unwrap_or("panic".into());
    if open.starts_with("panic") {
        rep.judge_fail(mk("opening the altered file panics", vec![]));
        return;
    }
    if open.starts_with("err") {
        rep.count("open_fails");
        if touched_hi <= data_end {
            rep.judge_fail(mk("only data blocks were touched but opening fails", vec![("open", J::s(&open))]));
        }
        return;
    }
    if out.len() != s.ops.len() {
        rep.judge_fail(mk("reading the altered file panics", vec![("outputs", J::s(&out.join(";")))]));
        return;
    }
    // the table opened although bytes of a checksummed METADATA block (filter / metaindex / index block, its type byte
    // or its checksum: everything between the data blocks and the footer of a table this writer produced) were
    // altered: those blocks are read and verified at open (the filter block when the reader's policy is the
    // writer's, which is how this session opens), so the damage must have been noticed (C07_*_damage_detected)
    if touched_lo >= data_end && touched_hi <= c.img.len() - 48 && altered[touched_lo..touched_hi] != c.img[touched_lo..touched_hi] {
        rep.judge_fail(mk("bytes of a checksummed metadata block (filter / metaindex / index) were altered and the table still opens", vec![("open", J::s(&open))]));
        return;
    }
    // F3 (known finding C07/footer-unprotected): the 48-byte footer carries no checksum. If the alteration
    // lies in the footer's handle area, the table still opens, and the decoded handles differ from the
    // original ones, then the reader was pointed at other checksum-valid blocks (type confusion) - no reader
    // of this format can notice. Classified, counted and not reported as a new violation.
    let n = c.img.len();
    if touched_lo >= n - 48 && touched_hi <= n - 8 {
        let handles = |im: &[u8]| -> Vec<u64> {
            let f = &im[n - 48..n - 8];
            let mut out = vec![];
            let mut pos = 0;
            for _ in 0..4 {
                let (mut v, mut sh) = (0u64, 0);
                while pos < f.len() {
                    let b = f[pos];
                    pos += 1;
                    v |= ((b & 0x7f) as u64).checked_shl(sh).unwrap_or(0);
                    sh += 7;
                    if b & 0x80 == 0 {
                        break;
                    }
                }
                out.push(v);
            }
            out
        };
        if handles(&c.img) != handles(altered) {
            rep.count("known_F3_footer_handles_redirected_and_still_open");
            rep.known.push("C07/footer-unprotected".into());
            return;
        }
    }
    // which blocks of the altered file are still intact, by the independent decoder
    let blocks = spec_damaged(d, altered);
    let scan: Vec<String> = out[2..first_get].iter().map(|o| it_out(o)).take_while(|x| x != "none").collect();
    let orig: Vec<String> = c.es.iter().map(|e| show_kv(&Some(e.clone()))).collect();
    // scan must be an in-order sub-sequence of the original entries
    let mut j = 0;
    let mut sub = true;
    for e in scan.iter() {
        while j < orig.len() && orig[j] != *e {
            j += 1;
        }
        if j == orig.len() {
            sub = false;
            break;
        }
        j += 1;
    }
    if !sub {
        rep.judge_fail(mk("scan of the altered file yields something that is not an in-order selection of the original entries", vec![("scan", J::s(&scan.join(",")))]));
    }
    if let Some(bl) = blocks {
        for b in bl.iter().flatten() {
            for e in b {
                let es = show_kv(&Some(e.clone()));
                if orig.contains(&es) && !scan.contains(&es) {
                    rep.judge_fail(mk("scan omits an entry of a data block that still passes its checksum", vec![("entry", J::s(&es)), ("scan", J::s(&scan.join(",")))]));
                    break;
                }
            }
        }
    } else {
        // checksummed metadata (index) damaged yet open succeeded and the decoder cannot read it
        rep.count("open_ok_but_spec_cannot_decode_index");
    }
    for (i, (k, v)) in c.es.iter().enumerate() {
        let g = res_of(&out[first_get + i]);
        if !(g.starts_with("err") || g == format!("ok {}", hex(v))) {
            rep.judge_fail(mk("lookup of a stored key returns absence or a wrong value on the altered file", vec![("key", J::s(&hex(k))), ("got", J::s(g))]));
        }
    }
    for (i, a) in absent.iter().enumerate() {
        let g = res_of(&out[first_absent + i]);
        if !(g.starts_with("err") || g == "ok none") {
            rep.judge_fail(mk("lookup of an absent key returns a value on the altered file", vec![("key", J::s(&hex(a))), ("got", J::s(g))]));
        }
    }
}
pub fn data_end_of(d: &mut Driver, img: &[u8]) -> usize {
    let dec = d.ask(&format!("spec_decode {}", hex(img)));
    let mut end = 0;
    if let Some(rest) = dec.strip_prefix("ok ") {
        let f: Vec<&str> = rest.split(' ').collect();
        if f[2] != "." {
            for b in f[2].split(',') {
                let p: Vec<&str> = b.split(':').collect();
                let (o, s): (usize, usize) = (p[0].parse().unwrap_or(0), p[1].parse().unwrap_or(0));
                end = end.max(o + s + 5);
            }
        }
    }
    end
}
/// one table with several hundred one-entry data blocks; one byte damaged in each block of a LONG run of adjacent
/// blocks (257..330 of them), the blocks before and behind the run intact: only the damaged blocks may be lost
fn long_damage_run(d: &mut Driver, rep: &mut Report, rng: &mut Rng) {
    let cfg = WCfg { cmp: CmpKind::Bytewise, block_size: 8, restart: 1, snappy: false, pol: PolKind::Bloom(10) };
    let n = 400 + rng.below(40);
    let es: Vec<(Vec<u8>, Vec<u8>)> = (0..n).map(|i| (format!("k{:04}", i).into_bytes(), vec![b'v'])).collect();
    let c = match build_case(d, rep, &cfg, &es) {
        Some(c) => c,
        None => return,
    };
    let data_end = data_end_of(d, &c.img);
    if data_end == 0 || data_end % n != 0 {
        rep.count("long_run_case_skipped_layout");
        return;
    }
    let stride = data_end / n;
    let run = rng.range(257, 330);
    let lo = rng.below(n - run - 5) + 1;
    let mut im = c.img.clone();
    for j in lo..lo + run {
        im[j * stride + 4] ^= 0x20;
    }
    let what = format!("one byte damaged in each of the {} adjacent data blocks {}..{} of {}", run, lo, lo + run, n);
    rep.case(&format!("long-damage-run {} {} {}", n, lo, run), true);
    rep.count("long_runs_of_damaged_blocks");
    c07_judge(d, rep, &c, &im, &what, data_end, lo * stride, (lo + run) * stride);
}
pub fn c07(ctx: &Ctx) -> Report {
    let base = Report::new("C07", "for each table of a family (compressed and not, one and many blocks / filters, random configurations): every byte offset of the file x XOR masks {01,10,80,ff} and zero / ff fill (quick: every offset of small tables, sampled offsets beyond 400 bytes), plus zeroed / randomised aligned ranges of 4..64 bytes; the altered file is opened, scanned, every stored key and one absent key per stored key looked up through the real reader and the model; judge (against the independent decoder's view of which blocks of the altered file still verify): open fails only if something other than data blocks was touched; scan = in-order selection of original entries containing every entry of every intact block; stored key -> original value or error; absent key -> never a value; non-trivial = alteration that changes the file; distinct by (image, alteration)");
    let n = per_thread(ctx, 64, 800);
    parallel(&ctx.driver, ctx.threads, ctx.seed, base, |t, d, rng, rep| {
        if t == 0 {
            s3_crc(d, rep, rng, 100);
            s2_codec(d, rep, rng, 50);
        }
        if t == 1 || (ctx.thorough() && t < 4) {
            long_damage_run(d, rep, rng);
        }
        for i in 0..n {
            let c = match gen_case(d, rep, rng, 10) {
                Some(c) => c,
                None => continue,
            };
            if c.es.is_empty() {
                continue;
            }
            let data_end = data_end_of(d, &c.img);
            let len = c.img.len();
            let offsets: Vec<usize> = if len <= 400 || ctx.thorough() { (0..len).collect() } else { (0..400).map(|_| rng.below(len)).collect() };
            for off in offsets {
                let variants: Vec<(String, u8)> = vec![
                    ("xor01".into(), c.img[off] ^ 0x01),
                    ("xor10".into(), c.img[off] ^ 0x10),
                    ("xor80".into(), c.img[off] ^ 0x80),
                    ("xorff".into(), c.img[off] ^ 0xff),
                    ("zero".into(), 0),
                    ("ones".into(), 0xff),
                ];
                // quick tier: two of the six alterations per offset
                let pick: Vec<usize> = if ctx.thorough() { (0..6).collect() } else { vec![rng.below(4), 4 + rng.below(2)] };
                for vi in pick {
                    let (name, b) = &variants[vi];
                    if *b == c.img[off] {
                        continue;
                    }
                    let mut im = c.img.clone();
                    im[off] = *b;
                    let what = format!("byte {} {} ({:02x} -> {:02x})", off, name, c.img[off], b);
                    rep.case(&format!("{} {}", hex(&c.img), what), true);
                    rep.count(if off < data_end { "alteration_in_data_blocks" } else if off >= len - 48 { "alteration_in_footer" } else { "alteration_in_metadata_blocks" });
                    c07_judge(d, rep, &c, &im, &what, data_end, off, off + 1);
                }
            }
            // aligned ranges
            for _ in 0..(if ctx.thorough() { 60 } else { 12 }) {
                let w = *rng.pick(&[4usize, 8, 16, 32, 64]);
                let lo = (rng.below(len) / w) * w;
                let hi = (lo + w).min(len);
                let mut im = c.img.clone();
                let zero = rng.chance(1, 2);
                for b in im[lo..hi].iter_mut() {
                    *b = if zero { 0 } else { rng.next() as u8 };
                }
                if im == c.img {
                    continue;
                }
                let what = format!("range {}..{} {}", lo, hi, if zero { "zeroed" } else { "randomised" });
                rep.case(&format!("{} {} {}", hex(&c.img), what, hex(&im[lo..hi])), true);
                rep.count("range_alterations");
                c07_judge(d, rep, &c, &im, &what, data_end, lo, hi);
            }
            if i == 0 && t == 0 {
                rep.sample(J::obj(vec![("cfg", J::s(&c.cfg.describe())), ("entries", J::s(&entries_str(&c.es))), ("image_bytes", J::N(len as i64)), ("alterations", J::s("every offset x {xor 01,10,80,ff, zero, ff} + aligned ranges"))]));
            }
        }
    })
}

// ------------------------------------------------------------------------------------------- C08
fn c08_session(d: &mut Driver, rep: &mut Report, rng: &mut Rng, img: &[u8], size: usize, cmp: &CmpKind, keys: &[Vec<u8>], family: &str, progress: &str) {
    let pol = rng.pick(&[PolKind::Bloom(10), PolKind::Bloom(10), PolKind::NoFilter, PolKind::FirstByte]).clone();
    let mut ops = vec![Op::Open { t: 0, file: 0, size, cmp: cmp.clone(), pol }, Op::Iter(0, 0)];
    for _ in 0..6 {
        ops.push(Op::Next(0));
    }
    ops.extend(gen_ops(rng, 1, 1, keys, 14, true));
    let s = Session { cap: 2, files: vec![img.to_vec()], faults: vec![], ops };
    let req = s.request();
    // leave a trace in case the process dies (abort, stack overflow, runaway allocation)
    let _ = progress;
    set_case(&req);
    rep.case(&req, true);
    rep.count(&format!("family_{}", family));
    let model = d.ask(&req);
    if model.contains("diverge") {
        rep.judge_fail(J::obj(vec![("what", J::s("the model of the reader does not terminate within its step bound on this input (hang)")), ("family", J::s(family)), ("request", J::s(&req))]));
        return;
    }
    let imp = s.run_impl();
    let imp_s = imp.join(";");
    if imp.iter().any(|o| o.starts_with("panic")) {
        rep.judge_fail(J::obj(vec![("what", J::s("the reader panics on a damaged or foreign file")), ("family", J::s(family)), ("image", J::s(&hex(img))), ("declared_size", J::N(size as i64)), ("ops", J::s(&ops_text(&s.ops))), ("outputs", J::s(&imp_s))]));
    }
    if imp_s != model {
        let m: Vec<&str> = model.split(';').collect();
        let mut idx = 0;
        while idx < m.len() && idx < imp.len() && m[idx] == imp[idx] {
            idx += 1;
        }
        rep.disagree(J::obj(vec![("stream", J::s("S10 table (malformed input)")), ("family", J::s(family)), ("first_differing_op", J::N(idx as i64)), ("impl", J::s(imp.get(idx).map(|x| x.as_str()).unwrap_or("<missing>"))), ("model", J::s(m.get(idx).cloned().unwrap_or("<missing>"))), ("request", J::s(&if req.len() > 3000 { format!("{}…", &req[..3000]) } else { req.clone() }))]));
    }
    if imp[0].starts_with("ok") {
        rep.count("opened");
    } else {
        rep.count("open_rejected");
    }
}
pub fn c08(ctx: &Ctx) -> Report {
    let base = Report::new("C08", "byte strings presented as tables: every prefix length of valid tables; every single-byte alteration at sampled offsets (all 255 alternatives inside the 48 footer bytes in the thorough tier, 24 per footer byte quick); zero / garbage range fills; appended garbage; wrong declared size (smaller, larger); short arbitrary strings (0..64 bytes over small alphabets, random beyond); and files from the reference encoder whose block / filter / index-value contents were damaged BEFORE checksumming (valid checksums over malformed contents); each is opened and driven through scan, seek, prev, get, approx_offset_of on the real reader (in-process, unwinds caught; an abort kills the run and is reported with the last case) and on the model (whose fuel exhaustion = hang); judge: no panic, no hang; non-trivial = every case; distinct by (image, size, ops)");
    let n = per_thread(ctx, 800, 12000);
    parallel(&ctx.driver, ctx.threads, ctx.seed, base, |t, d, rng, rep| {
        let progress = format!("/verif/.cache/c08-progress-{}.txt", t);
        if t == 0 {
            s2_codec(d, rep, rng, 80);
            let blocks = s7_blockbuilder(d, rep, rng, 120);
            s8_blockiter(d, rep, rng, &blocks, 20);
            s6_filterblock(d, rep, rng, 60);
        }
        for i in 0..n {
            let c = match gen_case(d, rep, rng, 10) {
                Some(c) => c,
                None => continue,
            };
            let keys = probes(rng, &c.es, &[]);
            let len = c.img.len();
            // prefixes
            for _ in 0..4 {
                let l = rng.below(len);
                c08_session(d, rep, rng, &c.img[..l], l, &c.cfg.cmp, &keys, "prefix", &progress);
            }
            // single byte alterations (footer: many alternatives)
            for _ in 0..6 {
                let off = if rng.chance(1, 2) { len - 48 + rng.below(48) } else { rng.below(len) };
                let mut im = c.img.clone();
                im[off] = im[off].wrapping_add(rng.range(1, 255) as u8);
                c08_session(d, rep, rng, &im, len, &c.cfg.cmp, &keys, if off >= len - 48 { "footer_byte" } else { "single_byte" }, &progress);
            }
            if ctx.thorough() && i % 20 == 0 {
                for off in len - 48..len {
                    for delta in 1..=255u8 {
                        let mut im = c.img.clone();
                        im[off] = im[off].wrapping_add(delta);
                        c08_session(d, rep, rng, &im, len, &c.cfg.cmp, &keys, "footer_byte_exhaustive", &progress);
                    }
                }
            }
            // range fills
            for _ in 0..2 {
                let lo = rng.below(len);
                let hi = (lo + rng.range(1, 40)).min(len);
                let mut im = c.img.clone();
                let zero = rng.chance(1, 2);
                for b in im[lo..hi].iter_mut() {
                    *b = if zero { 0 } else { rng.next() as u8 };
                }
                c08_session(d, rep, rng, &im, len, &c.cfg.cmp, &keys, "range_fill", &progress);
            }
            // appended garbage, wrong declared size
            let mut im = c.img.clone();
            let g = rng.range(1, 60);
            im.extend(rng.any_bytes(g));
            c08_session(d, rep, rng, &im, im.len(), &c.cfg.cmp, &keys, "appended_garbage", &progress);
            let big = len + rng.range(1, 100);
            c08_session(d, rep, rng, &c.img, big, &c.cfg.cmp, &keys, "declared_size_too_large", &progress);
            let small = rng.below(len);
            c08_session(d, rep, rng, &c.img, small, &c.cfg.cmp, &keys, "declared_size_too_small", &progress);
            // short arbitrary strings
            for _ in 0..3 {
                let l = rng.below(65);
                let s = if rng.chance(1, 2) { rng.bytes(l, &[0, 1, 0xff, 0x57, 0xdb]) } else { rng.any_bytes(l) };
                c08_session(d, rep, rng, &s, l, &c.cfg.cmp, &keys, "short_string", &progress);
            }
            // footers whose handles carry boundary values (u32 / u63 / u64 edges)
            for _ in 0..4 {
                let edge = |rng: &mut Rng| -> u64 {
                    match rng.below(8) {
                        0 => 0,
                        1 => rng.below(len + 1) as u64,
                        2 => (1u64 << 32) - rng.below(3) as u64,
                        3 => (1u64 << 63) - rng.below(3) as u64,
                        4 | 5 => u64::MAX - rng.below(8) as u64,
                        6 => u64::MAX / 2 + rng.below(3) as u64,
                        _ => rng.next(),
                    }
                };
                let mut foot: Vec<u8> = vec![];
                let pick_pair = |rng: &mut Rng| -> (u64, u64) {
                    let a = edge(rng);
                    match rng.below(4) {
                        0 => (a, edge(rng)),
                        // offset + size within 8 of u64::MAX without overflowing
                        1 => (a, (u64::MAX - rng.below(8) as u64).wrapping_sub(a)),
                        2 => (edge(rng), 0),
                        _ => (0, a),
                    }
                };
                for _ in 0..2 {
                    let (o, sz) = pick_pair(rng);
                    crate::refenc::varint(o as usize, &mut foot);
                    crate::refenc::varint(sz as usize, &mut foot);
                }
                foot.truncate(40);
                foot.resize(40, 0);
                foot.extend_from_slice(&[0x57, 0xfb, 0x80, 0x8b, 0x24, 0x75, 0x47, 0xdb]);
                let mut im = c.img.clone();
                // keep one of the two handles intact half of the time so that the first block still loads
                if rng.chance(1, 2) {
                    let orig = &c.img[len - 48..len - 8];
                    // first handle of the original footer
                    let mut k = 0;
                    let mut seen = 0;
                    while k < orig.len() && seen < 2 {
                        if orig[k] & 0x80 == 0 {
                            seen += 1;
                        }
                        k += 1;
                    }
                    let mut f2 = orig[..k].to_vec();
                    let mut second = vec![];
                    let (o, sz) = pick_pair(rng);
                    crate::refenc::varint(o as usize, &mut second);
                    crate::refenc::varint(sz as usize, &mut second);
                    f2.extend(second);
                    f2.truncate(40);
                    f2.resize(40, 0);
                    foot[..40].copy_from_slice(&f2);
                }
                im[len - 48..].copy_from_slice(&foot);
                c08_session(d, rep, rng, &im, len, &c.cfg.cmp, &keys, "footer_handle_extreme", &progress);
            }
            // EMPTY blocks under a valid checksum, with every type byte: a 53-byte file whose footer points at a block of
            // size 0, and the base table with its index handle redirected to such a block appended behind the data
            if i < 3 {
                for ctype in [0u8, 1, 2, 0xff] {
                    let mut im = crate::refenc::physical(&[], ctype);
                    let mut foot = crate::refenc::handle(0, 0);
                    foot.extend(crate::refenc::handle(0, 0));
                    foot.resize(40, 0);
                    foot.extend_from_slice(&[0x57, 0xfb, 0x80, 0x8b, 0x24, 0x75, 0x47, 0xdb]);
                    im.extend(foot);
                    let l = im.len();
                    c08_session(d, rep, rng, &im, l, &c.cfg.cmp, &keys, "empty_block_with_type_byte", &progress);
                    // the same empty block appended to the base image, the footer's index handle pointing at it
                    let mut im2 = c.img[..len - 48].to_vec();
                    let at = im2.len();
                    im2.extend(crate::refenc::physical(&[], ctype));
                    let mut f2 = crate::refenc::handle(at, 0);
                    f2.extend(crate::refenc::handle(at, 0));
                    f2.resize(40, 0);
                    f2.extend_from_slice(&[0x57, 0xfb, 0x80, 0x8b, 0x24, 0x75, 0x47, 0xdb]);
                    im2.extend(f2);
                    let l2 = im2.len();
                    c08_session(d, rep, rng, &im2, l2, &c.cfg.cmp, &keys, "empty_block_with_type_byte", &progress);
                }
            }
            // valid checksums over damaged contents
            for _ in 0..6 {
                let cmp = c.cfg.cmp.clone();
                let rt = encode_table(rng, &cmp, &c.es, true);
                c08_session(d, rep, rng, &rt.img, rt.img.len(), &cmp, &keys, "checksummed_malformed_contents", &progress);
            }
            if i == 0 && t == 0 {
                rep.sample(J::obj(vec![("family", J::s("prefix / single_byte / footer_byte / range_fill / appended_garbage / declared_size / short_string / checksummed_malformed_contents")), ("base_image", J::s(&hex(&c.img)))]));
            }
        }
        let _ = std::fs::remove_file(&progress);
    })
}

// ------------------------------------------------------------------------------------------- C10
fn results_only(out: &[String]) -> Vec<String> {
    // result without state fingerprint's cache-dependent parts: result text before '~', and for iterator
    // ops keep "<out>@<state>" (the state is cache independent)
    out.iter().map(|o| res_of(o).to_string()).collect()
}
/// more than 256 table handles opened on ONE cache (cache ids beyond one byte): two tables with the same keys and
/// layout but different values; the first and the last handle (ids 1 and 258, equal modulo 256 ... and every other
/// pair) must each see their own data while the other's blocks are cached
fn many_tables_one_cache(d: &mut Driver, rep: &mut Report, rng: &mut Rng) {
    let cfg = WCfg { cmp: CmpKind::Bytewise, block_size: 24, restart: 2, snappy: false, pol: PolKind::Bloom(10) };
    let keys: Vec<Vec<u8>> = (0..6).map(|i| format!("m{:02}", i).into_bytes()).collect();
    let mk = |tag: u8| -> Vec<(Vec<u8>, Vec<u8>)> { keys.iter().map(|k| (k.clone(), vec![tag; 7])).collect() };
    let (ea, eb) = (mk(b'a'), mk(b'b'));
    let (ca, cb) = match (build_case(d, rep, &cfg, &ea), build_case(d, rep, &cfg, &eb)) {
        (Some(a), Some(b)) => (a, b),
        _ => return,
    };
    if ca.img.len() != cb.img.len() {
        return;
    }
    let nopen = 258 + rng.below(3);
    let mut ops = vec![];
    for t in 0..nopen {
        // handle 0 reads file A, every other handle file B
        ops.push(Op::Open { t, file: if t == 0 { 0 } else { 1 }, size: ca.img.len(), cmp: CmpKind::Bytewise, pol: cfg.pol.clone() });
    }
    // the same key through handle 0 (file A) and then through handles whose ids agree with handle 0's in the low
    // byte / differ by one / are the last ones - and back
    let mut probe: Vec<(usize, usize)> = vec![];
    for (j, other) in [256usize, 255, 257, nopen - 1, 1, 256].iter().enumerate() {
        let k = j % keys.len();
        probe.push((0, k));
        probe.push((*other, k));
        probe.push((0, k));
    }
    for (t, k) in probe.iter() {
        ops.push(Op::Get(*t, keys[*k].clone()));
    }
    let s = Session { cap: 64, files: vec![ca.img.clone(), cb.img.clone()], faults: vec![], ops: ops.clone() };
    rep.case(&s.request(), true);
    rep.count("sessions_with_more_than_256_handles_on_one_cache");
    let (out, _) = compare_full(d, rep, &s, Cmp::All);
    for (j, (t, k)) in probe.iter().enumerate() {
        let want = if *t == 0 { &ea } else { &eb };
        let expect = format!("ok {}", hex(&want[*k].1));
        let got = out.get(nopen + j).map(|o| res_of(o).to_string()).unwrap_or_default();
        if got != expect {
            rep.judge_fail(J::obj(vec![("what", J::s("with more than 256 tables open on one cache a lookup returns another table's data")), ("handles_opened", J::N(nopen as i64)), ("handle", J::N(*t as i64)), ("key", J::s(&hex(&keys[*k]))), ("got", J::s(&got)), ("expected", J::s(&expect))]));
        }
    }
}
/// a file of more than 4 GiB that exists only as two islands of bytes (everything else reads as zero)
struct SparseFile {
    islands: Vec<(usize, Vec<u8>)>,
    size: usize,
}
impl RandomAccess for SparseFile {
    fn read_at(&self, off: usize, dst: &mut [u8]) -> sstable::Result<usize> {
        if off >= self.size {
            return Ok(0);
        }
        let n = dst.len().min(self.size - off);
        for b in dst[..n].iter_mut() {
            *b = 0;
        }
        for (start, bytes) in self.islands.iter() {
            let lo = off.max(*start);
            let hi = (off + n).min(start + bytes.len());
            if lo < hi {
                dst[lo - off..hi - off].copy_from_slice(&bytes[lo - start..hi - start]);
            }
        }
        Ok(n)
    }
}
/// Block offsets beyond 4 GiB (judged on the real crate only: the image cannot be handed to the model). A hand-encoded
/// table with one data block at offset 0 and one at 2^32 + X shares a cache with ordinary small tables that have a
/// block at offset X (and at 0); handles are opened in several orders so that cache ids line up in every way; every
/// answer must equal the answer of the same handle on a private cache.
fn tables_beyond_4gib(rep: &mut Report, rng: &mut Rng) {
    use crate::refenc::{block_contents, handle, physical};
    // the small table: two data blocks; X = offset of its second block
    let cfg = WCfg { cmp: CmpKind::Bytewise, block_size: 30, restart: 2, snappy: false, pol: PolKind::NoFilter };
    let small_es: Vec<(Vec<u8>, Vec<u8>)> = (0..6).map(|i| (format!("k{:02}", i).into_bytes(), format!("small-{}", i).into_bytes())).collect();
    let small = tb_build_impl(&cfg, &small_es, &[]);
    if small.finish_ok.is_none() {
        return;
    }
    let small_img = small.received.clone();
    // X: start of the second data block of the small table = length of its first physical block
    let first_len = {
        let o = Options::default();
        match Table::new(o, Box::new(small_img.clone()), small_img.len()) {
            Ok(t) => t.approx_offset_of(&small_es.last().unwrap().0.clone()),
            Err(_) => return,
        }
    };
    for x in [0usize, first_len] {
        let base = (1usize << 32) + x;
        let b0_es = vec![(b"a0".to_vec(), b"big-a0".to_vec()), (b"a1".to_vec(), b"big-a1".to_vec())];
        let b1_es = vec![(b"m0".to_vec(), b"big-m0".to_vec()), (b"m1".to_vec(), b"big-m1".to_vec())];
        let p0 = physical(&block_contents(rng, &b0_es, false), 0);
        let c1 = block_contents(rng, &b1_es, false);
        let mut island_b = physical(&c1, 0);
        let meta_c = block_contents(rng, &[], false);
        let meta_off = base + island_b.len();
        island_b.extend(physical(&meta_c, 0));
        let index_es = vec![(b"a1".to_vec(), handle(0, p0.len() - 5)), (b"m1".to_vec(), handle(base, c1.len()))];
        let index_c = block_contents(rng, &index_es, false);
        let index_off = base + island_b.len();
        island_b.extend(physical(&index_c, 0));
        let mut foot = handle(meta_off, meta_c.len());
        foot.extend(handle(index_off, index_c.len()));
        foot.resize(40, 0);
        foot.extend_from_slice(&[0x57, 0xfb, 0x80, 0x8b, 0x24, 0x75, 0x47, 0xdb]);
        island_b.extend(foot);
        let size = base + island_b.len();
        let mk_big = |o: Options| Table::new(o, Box::new(SparseFile { islands: vec![(0, p0.clone()), (base, island_b.clone())], size }), size);
        let mk_small = |o: Options| Table::new(o, Box::new(small_img.clone()), small_img.len());
        let probes: Vec<Vec<u8>> = vec![b"a0".to_vec(), b"m1".to_vec(), b"k00".to_vec(), b"k05".to_vec(), b"m0".to_vec(), b"k03".to_vec(), b"a1".to_vec()];
        // opening orders: the big table 1st..4th among small ones
        for pos in 0..4usize {
            let shared = Options::default().with_cache_capacity(16);
            let mut handles: Vec<(bool, Table)> = vec![];
            let mut ok = true;
            for k in 0..4usize {
                let t = if k == pos { mk_big(shared.clone()) } else { mk_small(shared.clone()) };
                match t {
                    Ok(t) => handles.push((k == pos, t)),
                    Err(e) => {
                        rep.judge_fail(J::obj(vec![("what", J::s("a hand-encoded table beyond 4 GiB (or a small table next to it) does not open")), ("error", J::s(&format!("{:?}", e.code)))]));
                        ok = false;
                        break;
                    }
                }
            }
            if !ok {
                return;
            }
            rep.case(&format!("beyond-4gib x={} pos={}", x, pos), true);
            rep.count("sessions_with_block_offsets_beyond_4gib");
            for round in 0..2 {
                for (hi, (is_big, t)) in handles.iter().enumerate() {
                    for p in probes.iter() {
                        let private = if *is_big { mk_big(Options::default()) } else { mk_small(Options::default()) };
                        let want = match private {
                            Ok(pt) => pt.get(p).ok().flatten(),
                            Err(_) => None,
                        };
                        let got = t.get(p).ok().flatten();
                        if got != want {
                            rep.judge_fail(J::obj(vec![("what", J::s("with a block offset beyond 4 GiB on a shared cache a lookup differs from the same table on a private cache (another table's block is served)")), ("x", J::N(x as i64)), ("big_table_opened_as", J::N(pos as i64)), ("handle", J::N(hi as i64)), ("round", J::N(round)), ("key", J::s(&hex(p))), ("got", J::s(&got.map(|v| hex(&v)).unwrap_or("none".into()))), ("want", J::s(&want.map(|v| hex(&v)).unwrap_or("none".into())))]));
                            return;
                        }
                    }
                }
            }
        }
    }
}

pub fn c10(ctx: &Ctx) -> Report {
    let base = Report::new("C10", "1..3 tables (random configurations; byte-identical images and two handles on one image included) sharing one block cache of capacity 1..#blocks+1, 1..4 clients (iterators and lookups) whose steps (next, prev, seek, get, approx) are interleaved at random, table handles dropped while their iterators continue; compared op by op with the model (results, read_at log, hit/miss events, cache count); judge: every op result equals the same session with capacity 10000 (private unbounded cache); count <= capacity after every op; cache ids of distinct opens differ; hit/miss events equal those of the Spec LRU fed with the access sequence, a miss reads the block exactly once, a hit reads nothing; thorough adds all interleavings of two 4-step clients; non-trivial = session with >= 2 clients or capacity < #blocks; distinct by request");
    let n = per_thread(ctx, 3000, 40000);
    parallel(&ctx.driver, ctx.threads, ctx.seed, base, |t, d, rng, rep| {
        if t == 0 {
            many_tables_one_cache(d, rep, rng);
        }
        if t == 2 % ctx.threads.max(1) {
            tables_beyond_4gib(rep, rng);
        }
        for i in 0..n {
            // tables
            let nt = rng.range(1, 3);
            let mut cases: Vec<TableCase> = vec![];
            for k in 0..nt {
                if k > 0 && rng.chance(1, 3) {
                    let c0 = cases[0].clone();
                    cases.push(c0);
                    continue;
                }
                if k == 0 && i == 0 && t % 4 == 1 {
                    // data blocks beyond 64 KiB next to small ones (a size-dependent caching decision shows only here)
                    let cfg = WCfg { cmp: CmpKind::Bytewise, block_size: 4096, restart: 16, snappy: false, pol: PolKind::Bloom(10) };
                    let es = vec![(b"a".to_vec(), vec![0x61u8; 70_000]), (b"b".to_vec(), b"x".to_vec()), (b"c".to_vec(), vec![0x63u8; 66_000]), (b"d".to_vec(), b"y".to_vec())];
                    if let Some(c) = build_case(d, rep, &cfg, &es) {
                        rep.count("tables_with_blocks_beyond_64KiB");
                        cases.push(c);
                    }
                    continue;
                }
                let mut cfg = gen_wcfg(rng);
                cfg.cmp = CmpKind::Bytewise;
                cfg.block_size = *rng.pick(&[8usize, 8, 20, 40]);
                let es = gen_entries(rng, &cfg.cmp, 14, 10);
                if let Some(c) = build_case(d, rep, &cfg, &es) {
                    cases.push(c);
                }
            }
            if cases.is_empty() {
                continue;
            }
            let files: Vec<Vec<u8>> = cases.iter().map(|c| c.img.clone()).collect();
            let nblocks: usize = cases.iter().map(|c| c.es.len().min(20)).sum::<usize>().max(1);
            let cap = if rng.chance(1, 3) { 1 } else { rng.range(1, nblocks + 1) };
            let mut ops = vec![];
            // handles: one per table, sometimes a second handle on table 0's file
            let mut handles = vec![];
            for (k, c) in cases.iter().enumerate() {
                ops.push(Op::Open { t: k, file: k, size: c.img.len(), cmp: CmpKind::Bytewise, pol: c.cfg.pol.clone() });
                handles.push(k);
            }
            if rng.chance(1, 3) {
                ops.push(Op::Open { t: 9, file: 0, size: cases[0].img.len(), cmp: CmpKind::Bytewise, pol: cases[0].cfg.pol.clone() });
                handles.push(9);
            }
            let nclients = rng.range(1, 4);
            let mut client_table = vec![];
            for cl in 0..nclients {
                let h = *rng.pick(&handles);
                ops.push(Op::Iter(cl, h));
                client_table.push(h);
            }
            let mut dropped: Vec<usize> = vec![];
            let steps = rng.range(5, 60);
            for _ in 0..steps {
                let cl = rng.below(nclients);
                let h = client_table[cl];
                let file = if h == 9 { 0 } else { h };
                let keys: Vec<Vec<u8>> = cases[file].es.iter().map(|e| e.0.clone()).collect();
                let key = if !keys.is_empty() && rng.chance(3, 4) { rng.pick(&keys).clone() } else { gen_key(rng, None, 4) };
                match rng.below(10) {
                    0..=3 => ops.push(Op::Next(cl)),
                    4 => {
                        ops.push(Op::Prev(cl));
                        ops.push(Op::Cur(cl));
                    }
                    5 | 6 => {
                        ops.push(Op::Seek(cl, key));
                        ops.push(Op::Cur(cl));
                    }
                    7 | 8 => {
                        let live: Vec<usize> = handles.iter().cloned().filter(|x| !dropped.contains(x)).collect();
                        if !live.is_empty() {
                            ops.push(Op::Get(*rng.pick(&live), key));
                        }
                    }
                    _ => {
                        let live: Vec<usize> = handles.iter().cloned().filter(|x| !dropped.contains(x)).collect();
                        if live.len() > 1 && rng.chance(1, 3) {
                            let h = *rng.pick(&live);
                            dropped.push(h);
                            ops.push(Op::Drop(h));
                        } else {
                            ops.push(Op::Valid(cl));
                        }
                    }
                }
            }
            let s = Session { cap, files: files.clone(), faults: vec![], ops: ops.clone() };
            rep.case(&s.request(), nclients >= 2 || cap < nblocks);
            rep.count(&format!("clients_{}", nclients));
            rep.count(&format!("tables_{}", cases.len()));
            rep.count(if cap == 1 { "capacity_1" } else { "capacity_gt1" });
            let (out, model_out) = compare_full(d, rep, &s, Cmp::All);
            let solo = Session { cap: 10000, files, faults: vec![], ops: ops.clone() }.run_impl();
            let mk = |what: &str, extra: Vec<(&'static str, J)>| {
                let mut v = vec![("what", J::s(what)), ("capacity", J::N(cap as i64)), ("ops", J::s(&ops_text(&ops))), ("images", J::s(&hexlist(&s.files)))];
                v.extend(extra);
                J::obj(v)
            };
            if results_only(&out) != results_only(&solo) {
                let a = results_only(&out);
                let b = results_only(&solo);
                let idx = a.iter().zip(b.iter()).position(|(x, y)| x != y).unwrap_or(a.len().min(b.len()));
                rep.judge_fail(mk("an operation returns something else than with a private unbounded cache", vec![("op_index", J::N(idx as i64)), ("shared", J::s(a.get(idx).map(|x| x.as_str()).unwrap_or(""))), ("unbounded", J::s(b.get(idx).map(|x| x.as_str()).unwrap_or("")))]));
            }
            // counts, ids, LRU discipline
            let mut ids = vec![];
            let mut accesses: Vec<(String, bool, usize)> = vec![]; // (key, hit, op index)
            for (k, o) in out.iter().enumerate() {
                let f: Vec<&str> = o.split('~').collect();
                if f.len() != 4 {
                    continue;
                }
                if let Ok(cnt) = f[3].parse::<usize>() {
                    if cnt > cap {
                        rep.judge_fail(mk("the number of cached blocks exceeds the capacity", vec![("op_index", J::N(k as i64)), ("count", J::N(cnt as i64))]));
                    }
                }
                if let Op::Open { .. } = s.ops[k] {
                    if let Some(r) = f[0].strip_prefix("ok ") {
                        ids.push(r.split(' ').next().unwrap_or("").to_string());
                    }
                }
                let reads: Vec<&str> = if f[1] == "." { vec![] } else { f[1].split('/').collect() };
                // the block accesses an operation NEEDS are those of the model (whose theorem says they are
                // what the two-level search requires); the implementation's own event log is compared with
                // them separately (correspondence)
                let mf: Vec<&str> = model_out.get(k).map(|x| x.split('~').collect()).unwrap_or_default();
                let evs: Vec<&str> = if mf.len() != 4 || mf[2] == "." { vec![] } else { mf[2].split('/').collect() };
                let mut nmiss = 0;
                for e in evs.iter() {
                    let p: Vec<&str> = e.split(':').collect();
                    let hit = p[2] == "h";
                    if !hit {
                        nmiss += 1;
                    }
                    accesses.push((format!("{}:{}", p[0], p[1]), hit, k));
                }
                let _ = (&reads, nmiss);
            }
            let mut u = ids.clone();
            u.sort();
            u.dedup();
            if u.len() != ids.len() {
                rep.judge_fail(mk("two opens on one cache received the same cache id", vec![("ids", J::s(&ids.join(",")))]));
            }
            // Spec LRU over the access sequence (keys numbered in order of first appearance)
            let mut names: Vec<String> = vec![];
            let mut lru_ops = vec![];
            for (k, _, _) in accesses.iter() {
                let id = match names.iter().position(|n| n == k) {
                    Some(p) => p,
                    None => {
                        names.push(k.clone());
                        names.len() - 1
                    }
                };
                lru_ops.push(id);
            }
            // simulate with the Lean Spec: get k; on none insert k
            let mut predicted: Vec<bool> = vec![];
            {
                // the Spec LRU is driven one access at a time: "g:k" then (if miss) "i:k:0"; a successful
                // load is assumed (sessions here have no faults)
                let mut seq: Vec<(char, usize, usize)> = vec![];
                let mut marks = vec![];
                let mut live: Vec<usize> = vec![]; // local mirror only to know whether to add the insert
                for id in lru_ops.iter() {
                    let hit = live.contains(id);
                    marks.push(seq.len());
                    seq.push(('g', *id, 0));
                    if hit {
                        live.retain(|x| x != id);
                        live.insert(0, *id);
                    } else {
                        seq.push(('i', *id, 0));
                        live.insert(0, *id);
                        if live.len() > cap {
                            live.pop();
                        }
                    }
                }
                if !seq.is_empty() {
                    let spec = d.ask(&format!("spec_lru {} {}", cap, cache_ops_str(&seq)));
                    let parts: Vec<&str> = spec.split(';').collect();
                    for m in marks {
                        let p = parts.get(m + 1).cloned().unwrap_or("");
                        predicted.push(!p.starts_with("none"));
                    }
                }
            }
            // reads the implementation performed per op vs. misses an LRU cache of this capacity has on the
            // specified access sequence
            let mut want_reads: std::collections::BTreeMap<usize, usize> = Default::default();
            for (j, (_key, _hit, k)) in accesses.iter().enumerate() {
                if predicted.get(j).cloned() == Some(false) {
                    *want_reads.entry(*k).or_insert(0) += 1;
                }
            }
            for (k, o) in out.iter().enumerate() {
                if matches!(s.ops[k], Op::Open { .. }) {
                    continue;
                }
                let f: Vec<&str> = o.split('~').collect();
                if f.len() != 4 {
                    continue;
                }
                let got = if f[1] == "." { 0 } else { f[1].split('/').count() };
                let want = want_reads.get(&k).cloned().unwrap_or(0);
                if got != want {
                    rep.judge_fail(mk("the file is read for a block that a least-recently-used cache of this capacity holds (or a needed block is not read)", vec![("op_index", J::N(k as i64)), ("op", J::s(&s.ops[k].text())), ("reads", J::s(f[1])), ("lru_misses_expected", J::N(want as i64))]));
                    break;
                }
            }
            if i < 1 && t == 0 {
                rep.sample(J::obj(vec![("capacity", J::N(cap as i64)), ("tables", J::N(cases.len() as i64)), ("clients", J::N(nclients as i64)), ("ops", J::s(&ops_text(&ops)))]));
            }
        }
    })
}

// ------------------------------------------------------------------------------------------- C14
/// a source whose k-th read (counted from `arm`) fails with an error of a chosen STATUS CODE
use sstable::{Status, StatusCode};
struct CodedFaultFile {
    data: Vec<u8>,
    countdown: Arc<std::sync::atomic::AtomicIsize>,
    code: StatusCode,
}
impl RandomAccess for CodedFaultFile {
    fn read_at(&self, off: usize, dst: &mut [u8]) -> sstable::Result<usize> {
        let c = self.countdown.fetch_sub(1, std::sync::atomic::Ordering::SeqCst);
        if c == 0 {
            return Err(Status::new(self.code.clone(), "injected failure"));
        }
        self.data.read_at(off, dst)
    }
}
/// Read failures whose error value carries OTHER status codes than IOError (a source may report NotFound, Corruption,
/// PermissionDenied, ...): judged on the real crate only. A lookup of a stored key under such a failure returns the value
/// or an error - never "absent" (a code that also means "no such key" must not be confused with it); a scan never
/// returns foreign data; afterwards everything is correct again.
fn c14_error_codes(d: &mut Driver, rep: &mut Report, rng: &mut Rng) {
    let codes = [StatusCode::NotFound, StatusCode::Corruption, StatusCode::PermissionDenied, StatusCode::InvalidArgument, StatusCode::AlreadyExists, StatusCode::InvalidData, StatusCode::NotSupported];
    for _ in 0..4 {
        let mut cfg = gen_wcfg(rng);
        cfg.block_size = *rng.pick(&[8usize, 20, 60]);
        let es = gen_entries(rng, &cfg.cmp, 8, 10);
        let c = match build_case(d, rep, &cfg, &es) {
            Some(c) => c,
            None => continue,
        };
        for code in codes.iter() {
            for pol in [c.cfg.pol.clone(), PolKind::NoFilter] {
                for (k, v) in c.es.iter() {
                    for fail_at in 0..2isize {
                        let countdown = Arc::new(std::sync::atomic::AtomicIsize::new(isize::MAX));
                        let mut o = WCfg { cmp: c.cfg.cmp.clone(), block_size: 0, restart: 1, snappy: false, pol: pol.clone() }.options();
                        o = { let mut x = Options::default().with_cache_capacity(2); x.cmp = o.cmp; x.filter_policy = o.filter_policy; x };
                        let f = CodedFaultFile { data: c.img.clone(), countdown: countdown.clone(), code: code.clone() };
                        let tb = match Table::new(o, Box::new(f), c.img.len()) {
                            Ok(t) => t,
                            Err(_) => continue,
                        };
                        countdown.store(fail_at, std::sync::atomic::Ordering::SeqCst);
                        let got = tb.get(k);
                        rep.case(&format!("coded-fault {:?} {} {}", code, hex(k), fail_at), true);
                        rep.count("lookups_under_failures_with_other_status_codes");
                        let bad = match &got {
                            Ok(Some(x)) => x != v,
                            Ok(None) => true,
                            Err(_) => false,
                        };
                        if bad {
                            rep.judge_fail(J::obj(vec![("what", J::s("a lookup of a stored key under a read failure returns a wrong answer (absent / another value) instead of the value or an error")), ("status_code_of_the_injected_error", J::s(&format!("{:?}", code))), ("failing_read", J::N(fail_at as i64)), ("key", J::s(&hex(k))), ("got", J::s(&format!("{:?}", got.map(|x| x.map(|y| hex(&y))).map_err(|e| e.code)))), ("cfg", J::s(&c.cfg.describe())), ("entries", J::s(&entries_str(&c.es)))]));
                            return;
                        }
                        countdown.store(isize::MAX, std::sync::atomic::Ordering::SeqCst);
                        if !matches!(tb.get(k), Ok(Some(ref x)) if x == v) {
                            rep.judge_fail(J::obj(vec![("what", J::s("after a coded read failure a lookup is not correct")), ("key", J::s(&hex(k)))]));
                            return;
                        }
                    }
                }
            }
        }
    }
}

pub fn c14(ctx: &Ctx) -> Report {
    let base = Report::new("C14", "scenario per table: open; full scan; lookups of all keys; seeks; then the fault schedule is cleared and scan + lookups are repeated; a second, cursor scenario (capacity 1): seek to the first entry of a later block, prev across the block boundary, next, next, each followed by current, with a fault at every data-block read, judged by position tracking (under faults: invalid or the exact position, forward steps may skip whole blocks; afterwards exact). A fault (IOError / short by 1 / short to half / short to 0) is injected at the i-th read_at call for every i of the fault-free run (quick: every i for small scenarios, sampled i beyond 40 calls), at pairs (i,j), on every call within a window, and permanently from call i on; compared op by op with the model (results, read log, events, cache count); judge: open and lookups give the correct answer or an error; a scan yields in order only original entries and omits only whole blocks (block partition from the independent decoder); after the faults stop every operation returns the fully correct result (nothing read during a failure was cached); the deep-recursion clause is covered by witness D15 (150000 consecutive failing blocks in a child process); non-trivial = every faulted run; distinct by request");
    let n = per_thread(ctx, 120, 1600);
    parallel(&ctx.driver, ctx.threads, ctx.seed, base, |t, d, rng, rep| {
        if t == 2 % ctx.threads.max(1) {
            c14_error_codes(d, rep, rng);
        }
        for i in 0..n {
            let mut cfg = gen_wcfg(rng);
            cfg.block_size = *rng.pick(&[8usize, 20, 60, 4096]);
            let mut es = gen_entries(rng, &cfg.cmp, 10, 12);
            // one case per run with several hundred one-entry blocks: a window of more than 256 consecutive failing reads
            let long_case = i == 0 && t == 1;
            if long_case {
                cfg = WCfg { cmp: CmpKind::Bytewise, block_size: 8, restart: 1, snappy: false, pol: PolKind::Bloom(10) };
                es = (0..380).map(|i| (format!("k{:04}", i).into_bytes(), vec![b'v'])).collect();
            }
            let c = match build_case(d, rep, &cfg, &es) {
                Some(c) => c,
                None => continue,
            };
            // block partition
            let blocks: Vec<Vec<String>> = match spec_damaged(d, &c.img) {
                Some(b) => b.into_iter().map(|x| x.unwrap_or_default().into_iter().map(|e| show_kv(&Some(e))).collect()).collect(),
                None => continue,
            };
            // the theorem's hypothesis NoShortCollision(Meta), evaluated by the proved checker on small images
            if c.img.len() <= 2500 && i % 4 == 0 {
                let r = d.ask(&format!("no_short_collision {} {}", c.cfg.pol.name(), hex(&c.img)));
                rep.count(&format!("no_short_collision_{}", r.replace(' ', "_")));
            }
            let keys: Vec<Vec<u8>> = c.es.iter().map(|e| e.0.clone()).collect();
            let scenario = |with_open: bool| -> Vec<Op> {
                let mut ops = vec![];
                if with_open {
                    ops.push(Op::Open { t: 0, file: 0, size: c.img.len(), cmp: c.cfg.cmp.clone(), pol: c.cfg.pol.clone() });
                }
                ops.push(Op::Iter(0, 0));
                for _ in 0..c.es.len() + 1 {
                    ops.push(Op::Next(0));
                }
                for k in keys.iter() {
                    ops.push(Op::Get(0, k.clone()));
                }
                for k in keys.iter().take(4) {
                    ops.push(Op::Seek(0, k.clone()));
                    ops.push(Op::Cur(0));
                }
                ops
            };
            let mut ops = scenario(true);
            let faulted_len = ops.len();
            ops.push(Op::Faults(vec![]));
            ops.extend(scenario(false));
            // fault-free run: read sizes
            let clean = Session { cap: 2, files: vec![c.img.clone()], faults: vec![], ops: ops.clone() };
            let clean_out = clean.run_impl();
            let mut read_lens: Vec<usize> = vec![];
            for o in clean_out.iter().take(faulted_len) {
                let f: Vec<&str> = o.split('~').collect();
                if f.len() == 4 && f[1] != "." {
                    for r in f[1].split('/') {
                        read_lens.push(r.split(':').nth(2).and_then(|x| x.parse().ok()).unwrap_or(0));
                    }
                }
            }
            let nreads = read_lens.len();
            rep.count_n("read_calls_in_fault_free_run", nreads as u64);
            let kinds = |l: usize, rng: &mut Rng| -> Fault {
                match rng.below(4) {
                    0 => Fault::IoError,
                    1 => Fault::Short(l.saturating_sub(1)),
                    2 => Fault::Short(l / 2),
                    _ => Fault::Short(0),
                }
            };
            let mut schedules: Vec<(String, Vec<Fault>)> = vec![];
            let idxs: Vec<usize> = if nreads <= 40 || ctx.thorough() { (0..nreads).collect() } else { (0..40).map(|_| rng.below(nreads)).collect() };
            for &ix in idxs.iter() {
                for kind in 0..4 {
                    if !ctx.thorough() && kind != rng.below(4) && kind != 0 {
                        continue;
                    }
                    let f = match kind {
                        0 => Fault::IoError,
                        1 => Fault::Short(read_lens[ix].saturating_sub(1)),
                        2 => Fault::Short(read_lens[ix] / 2),
                        _ => Fault::Short(0),
                    };
                    let mut s: Vec<Fault> = vec![Fault::None; ix];
                    s.push(f);
                    schedules.push((format!("single fault at read {}", ix), s));
                }
            }
            for _ in 0..(if ctx.thorough() { 40 } else { 6 }) {
                if nreads < 2 {
                    break;
                }
                let a = rng.below(nreads);
                let b = rng.below(nreads);
                let mut s = vec![Fault::None; a.max(b) + 1];
                s[a] = kinds(read_lens[a], rng);
                s[b] = kinds(read_lens[b], rng);
                schedules.push((format!("faults at reads {} and {}", a, b), s));
                let lo = rng.below(nreads);
                let w = rng.range(1, 6);
                let mut s = vec![Fault::None; lo];
                for k in lo..(lo + w).min(nreads) {
                    s.push(kinds(read_lens[k], rng));
                }
                schedules.push((format!("window of {} faults from read {}", w, lo), s));
                let from = rng.below(nreads);
                let mut s = vec![Fault::None; from];
                for _ in 0..400 {
                    s.push(if rng.chance(1, 2) { Fault::IoError } else { Fault::Short(0) });
                }
                schedules.push((format!("permanent failure from read {}", from), s));
            }
            if long_case && nreads > 350 {
                schedules.truncate(12);
                let lo = 10 + rng.below(20);
                let w = rng.range(257, 320);
                let mut s = vec![Fault::None; lo];
                for _ in 0..w {
                    s.push(if rng.chance(1, 2) { Fault::IoError } else { Fault::Short(3) });
                }
                schedules.push((format!("window of {} consecutive faults from read {}", w, lo), s));
                rep.count("long_windows_of_failing_reads");
            }
            let orig: Vec<String> = c.es.iter().map(|e| show_kv(&Some(e.clone()))).collect();
            for (desc, sched) in schedules {
                let s = Session { cap: 2, files: vec![c.img.clone()], faults: sched.clone(), ops: ops.clone() };
                rep.case(&s.request(), true);
                rep.count("fault_schedules");
                let out = compare_all(d, rep, &s);
                let mk = |what: &str, extra: Vec<(&'static str, J)>| {
                    let mut v = vec![("what", J::s(what)), ("faults", J::s(&desc)), ("schedule", J::s(&faults_str(&sched))), ("cfg", J::s(&c.cfg.describe())), ("entries", J::s(&entries_str(&c.es))), ("image", J::s(&hex(&c.img)))];
                    v.extend(extra);
                    J::obj(v)
                };
                if out.len() != ops.len() {
                    let open_failed = out.get(0).map(|o| res_of(o).starts_with("err")).unwrap_or(false);
                    if !open_failed && out.iter().any(|o| o.starts_with("panic")) {
                        rep.judge_fail(mk("a read failure makes the reader panic", vec![("outputs", J::s(&out.join(";")))]));
                    }
                }
                let open = out.get(0).map(|o| res_of(o).to_string()).unwrap_or_default();
                if open.starts_with("err") {
                    rep.count("open_failed_under_fault");
                    // retry after the faults: a fresh open must work (nothing sticks) — run a clean session
                    continue;
                }
                if out.len() != ops.len() {
                    continue;
                }
                // phase 1: right or error
                let check_phase = |rep: &mut Report, base: usize, strict: bool| {
                    let scan: Vec<String> = out[base + 1..base + 2 + c.es.len()].iter().map(|o| it_out(o)).take_while(|x| x != "none").collect();
                    // concatenation of a selection of whole blocks, in order
                    let mut pos = 0;
                    let mut ok = true;
                    let mut kept = 0usize;
                    for b in blocks.iter() {
                        if scan.len() >= pos + b.len() && scan[pos..pos + b.len()] == b[..] && !b.is_empty() {
                            pos += b.len();
                            kept += 1;
                        }
                    }
                    if pos != scan.len() {
                        ok = false;
                    }
                    if !strict && ok {
                        // "omits only whole blocks whose read failed": every omitted block needs at least one failed
                        // read DURING the scan (nothing is cached yet: the scan is the first thing after open)
                        let nreads_of = |o: &String| -> usize { o.split('~').nth(1).map(|r| if r == "." { 0 } else { r.split('/').count() }).unwrap_or(0) };
                        let before: usize = out[..base + 1].iter().map(nreads_of).sum();
                        let during: usize = out[base + 1..base + 2 + c.es.len()].iter().map(nreads_of).sum();
                        let failed = sched.iter().skip(before).take(during).filter(|f| **f != Fault::None).count();
                        let omitted = blocks.iter().filter(|b| !b.is_empty()).count() - kept;
                        if omitted > failed {
                            rep.judge_fail(mk("a scan under read failures omits more blocks than reads failed (an intact, readable block is lost)", vec![("blocks_omitted", J::N(omitted as i64)), ("reads_failed_during_scan", J::N(failed as i64)), ("scan_entries", J::N(scan.len() as i64))]));
                        }
                    }
                    if strict && scan != orig {
                        ok = false;
                    }
                    if !ok {
                        rep.judge_fail(mk(if strict { "after the source works again the scan is not the full table" } else { "a scan under read failures yields something other than whole original blocks in order" }, vec![("scan", J::s(&scan.join(",")))]));
                    }
                    let g0 = base + 2 + c.es.len();
                    for (k, (key, v)) in c.es.iter().enumerate() {
                        let g = res_of(&out[g0 + k]);
                        let right = g == format!("ok {}", hex(v));
                        if !(right || (!strict && g.starts_with("err"))) {
                            rep.judge_fail(mk(if strict { "after the source works again a lookup is not correct" } else { "a lookup under read failures returns a wrong answer instead of the value or an error" }, vec![("key", J::s(&hex(key))), ("got", J::s(g))]));
                        }
                    }
                    let s0 = g0 + c.es.len();
                    for (k, key) in keys.iter().take(4).enumerate() {
                        let cur = it_out(&out[s0 + 2 * k + 1]);
                        // seek: least entry >= key, or (under faults) invalid / an entry of a later block
                        let want = show_kv(&Some(c.es[k].clone()));
                        if strict && cur != want {
                            rep.judge_fail(mk("after the source works again a seek is not correct", vec![("key", J::s(&hex(key))), ("got", J::s(&cur))]));
                        }
                        // the target is a stored key: under a failure the iterator must be invalid or exactly on it
                        if !strict && cur != "none" && cur != want {
                            rep.judge_fail(mk("a seek to a stored key under read failures lands on a different entry (neither invalid nor the entry sought)", vec![("key", J::s(&hex(key))), ("got", J::s(&cur)), ("want", J::s(&want))]));
                        }
                    }
                };
                check_phase(rep, 1, false);
                check_phase(rep, faulted_len + 1, true);
            }
            // ---- cursor scenario: positions reached by seek, then prev (across block boundaries: the previous block
            // is not cached with capacity 1), then next; every step followed by `current`. Judged by position
            // tracking: under faults a step ends invalid or where the fault-free cursor would be (a forward step may
            // also land on the first entry of a later block: whole blocks skipped); afterwards every step is exact.
            if !c.es.is_empty() {
                let n_es = c.es.len();
                let block_first: Vec<usize> = {
                    let mut v = vec![];
                    let mut at = 0;
                    for b in blocks.iter() {
                        if !b.is_empty() {
                            v.push(at);
                            at += b.len();
                        }
                    }
                    v
                };
                let mut targets: Vec<usize> = block_first.iter().cloned().filter(|&x| x > 0).collect();
                if targets.len() > 4 {
                    let keep = rng.below(targets.len() - 3);
                    targets = targets[keep..keep + 4].to_vec();
                }
                if targets.is_empty() {
                    targets.push(rng.below(n_es));
                }
                let pattern = |ops: &mut Vec<Op>| {
                    for &ti in targets.iter() {
                        ops.push(Op::Seek(0, c.es[ti].0.clone()));
                        ops.push(Op::Cur(0));
                        ops.push(Op::Prev(0));
                        ops.push(Op::Cur(0));
                        ops.push(Op::Next(0));
                        ops.push(Op::Cur(0));
                        ops.push(Op::Next(0));
                        ops.push(Op::Cur(0));
                    }
                };
                let mut cops = vec![Op::Open { t: 0, file: 0, size: c.img.len(), cmp: c.cfg.cmp.clone(), pol: c.cfg.pol.clone() }, Op::Iter(0, 0)];
                pattern(&mut cops);
                let cfl = cops.len();
                cops.push(Op::Faults(vec![]));
                cops.push(Op::Next(0));
                cops.push(Op::Cur(0));
                cops.push(Op::Next(0));
                cops.push(Op::Cur(0));
                cops.push(Op::Prev(0));
                cops.push(Op::Cur(0));
                pattern(&mut cops);
                let clean = Session { cap: 1, files: vec![c.img.clone()], faults: vec![], ops: cops.clone() };
                let clean_out = clean.run_impl();
                let mut rl: Vec<usize> = vec![];
                for o in clean_out.iter().take(cfl) {
                    let f: Vec<&str> = o.split('~').collect();
                    if f.len() == 4 && f[1] != "." {
                        for r in f[1].split('/') {
                            rl.push(r.split(':').nth(2).and_then(|x| x.parse().ok()).unwrap_or(0));
                        }
                    }
                }
                // reads of the open (footer, index, metaindex, filter) come first: faults there are covered above
                let open_reads = clean_out.get(0).map(|o| o.split('~').nth(1).map(|r| if r == "." { 0 } else { r.split('/').count() }).unwrap_or(0)).unwrap_or(0);
                let orig: Vec<String> = c.es.iter().map(|e| show_kv(&Some(e.clone()))).collect();
                let pos_of = |cur: &str| -> Option<Option<usize>> {
                    if cur == "none" {
                        Some(None)
                    } else {
                        orig.iter().position(|x| x == cur).map(Some)
                    }
                };
                for ix in open_reads..rl.len() {
                    let f = match rng.below(3) {
                        0 => Fault::IoError,
                        1 => Fault::Short(rl[ix].saturating_sub(1)),
                        _ => Fault::Short(rl[ix] / 2),
                    };
                    let mut sched: Vec<Fault> = vec![Fault::None; ix];
                    sched.push(f);
                    if rng.chance(1, 3) {
                        sched.push(Fault::IoError);
                    }
                    let s = Session { cap: 1, files: vec![c.img.clone()], faults: sched.clone(), ops: cops.clone() };
                    rep.case(&s.request(), true);
                    rep.count("cursor_fault_schedules");
                    let out = compare_all(d, rep, &s);
                    let mk = |what: &str, extra: Vec<(&'static str, J)>| {
                        let mut v = vec![("what", J::s(what)), ("schedule", J::s(&faults_str(&sched))), ("cfg", J::s(&c.cfg.describe())), ("entries", J::s(&entries_str(&c.es))), ("ops", J::s(&ops_text(&cops))), ("image", J::s(&hex(&c.img)))];
                        v.extend(extra);
                        J::obj(v)
                    };
                    if out.len() != cops.len() {
                        if out.iter().any(|o| o.starts_with("panic")) {
                            rep.judge_fail(mk("a read failure makes the iterator panic", vec![("outputs", J::s(&out.join(";")))]));
                        }
                        continue;
                    }
                    let mut pos: Option<usize> = None; // spec position: None = invalid / before the first
                    let known = true; // every step is followed by `current`, so the position is always observed
                    let mut k = 2;
                    while k + 1 < cops.len() {
                        if let Op::Faults(_) = cops[k] {
                            k += 1;
                            continue;
                        }
                        let strict = k > cfl;
                        let cur = it_out(&out[k + 1]);
                        let q = match pos_of(&cur) {
                            Some(q) => q,
                            None => {
                                rep.judge_fail(mk("the iterator exposes something that is not a stored entry", vec![("op_index", J::N(k as i64)), ("current", J::s(&cur))]));
                                break;
                            }
                        };
                        let mut bad: Option<String> = None;
                        match &cops[k] {
                            Op::Seek(_, key) => {
                                let want = c.es.iter().position(|e| &e.0 == key);
                                if !(q == want || (!strict && q.is_none())) {
                                    bad = Some(format!("seek to a stored key ends at {:?}, the entry is at {:?}", q, want));
                                }
                            }
                            Op::Prev(_) => {
                                if known {
                                    if let Some(pi) = pos {
                                        let want = if pi == 0 { None } else { Some(pi - 1) };
                                        if !(q == want || (!strict && q.is_none())) {
                                            bad = Some(format!("prev from entry {} ends at {:?}", pi, q));
                                        }
                                    }
                                }
                            }
                            Op::Next(_) => {
                                let ret = it_out(&out[k]);
                                if ret != cur && !(ret == "none" && cur == "none") {
                                    bad = Some(format!("next returned {} but the iterator is at {}", ret, cur));
                                } else if known {
                                    let exact = match pos {
                                        Some(pi) => if pi + 1 < n_es { Some(pi + 1) } else { None },
                                        None => Some(0),
                                    };
                                    let fwd_ok = match (pos, q) {
                                        (_, None) => true,
                                        (Some(pi), Some(qi)) => qi > pi && (qi == pi + 1 || block_first.contains(&qi)),
                                        (None, Some(qi)) => block_first.contains(&qi),
                                    };
                                    // after an invalid position reached through a FAILED step the restart point is not
                                    // prescribed beyond "the first entry of a block"; from a valid position the step is exact
                                    let ok = if strict { q == exact || (pos.is_none() && q.map(|qi| block_first.contains(&qi)).unwrap_or(false)) } else { fwd_ok };
                                    if !ok {
                                        bad = Some(format!("next from {:?} ends at {:?}", pos, q));
                                    }
                                }
                            }
                            _ => {}
                        }
                        if let Some(b) = bad {
                            rep.judge_fail(mk(if strict { "after the source works again an iterator step is not correct" } else { "an iterator step under read failures ends neither invalid nor where the cursor over the original entries would be" }, vec![("op_index", J::N(k as i64)), ("detail", J::s(&b))]));
                            break;
                        }
                        pos = q;
                        k += 2;
                    }
                }
            }
            if i == 0 && t == 0 {
                rep.sample(J::obj(vec![("cfg", J::s(&c.cfg.describe())), ("entries", J::s(&entries_str(&c.es))), ("read_calls", J::N(nreads as i64)), ("ops", J::s(&ops_text(&ops)))]));
            }
        }
    })
}

// ------------------------------------------------------------------------------------------- C18
struct CountingFile {
    data: Vec<u8>,
    reads: Arc<std::sync::atomic::AtomicUsize>,
}
impl RandomAccess for CountingFile {
    fn read_at(&self, off: usize, dst: &mut [u8]) -> sstable::Result<usize> {
        self.reads.fetch_add(1, std::sync::atomic::Ordering::SeqCst);
        self.data.read_at(off, dst)
    }
}
pub fn c18(ctx: &Ctx) -> Report {
    let base = Report::new("C18", "statistical measurement (not a theorem): tables of 50..20000 keys (random 8..16 byte / sequential / shared-prefix keys) x block sizes 8..16384 x bits_per_key {4,10,16}; >= 20000 lookups per table of keys drawn independently of the stored ones (absent by construction); the lookup path is observed through the block-access hook and a counting RandomAccess: a lookup 'touches a data block' iff it logs a block event; judge: fraction < 3% at >= 10 bits, < 50% at 4 bits; structure (S10, small tables): for every lookup the model predicts exactly the same block events and reads (the filter is consulted before any fetch); non-trivial = every table; distinct by (keys kind, n, block size, bits)");
    let mut rep = parallel(&ctx.driver, ctx.threads, ctx.seed, base, |t, d, rng, rep| {
        // structural part: model predicts exactly which lookups access a block
        for _ in 0..(if ctx.thorough() { 300 } else { 40 }) {
            let mut cfg = gen_wcfg(rng);
            cfg.pol = PolKind::Bloom(*rng.pick(&[4u32, 10, 16]));
            cfg.cmp = CmpKind::Bytewise;
            let es = gen_entries(rng, &cfg.cmp, 60, 8);
            let c = match build_case(d, rep, &cfg, &es) {
                Some(c) => c,
                None => continue,
            };
            let mut ops = vec![Op::Open { t: 0, file: 0, size: c.img.len(), cmp: CmpKind::Bytewise, pol: cfg.pol.clone() }];
            for _ in 0..60 {
                let l = rng.range(1, 8);
                ops.push(Op::Get(0, rng.any_bytes(l)));
            }
            let s = Session { cap: 4, files: vec![c.img.clone()], faults: vec![], ops };
            rep.count("structural_sessions");
            compare_all(d, rep, &s);
        }
        let _ = t;
    });
    // measurement on the real crate: full grid of table size x block size x bits x key kind, in parallel
    let sizes: Vec<usize> = if ctx.thorough() { vec![50, 300, 2000, 8000, 20000] } else { vec![50, 1000, 20000] };
    let block_sizes: Vec<usize> = vec![8, 64, 512, 4096, 16384];
    let mut grid: Vec<(usize, usize, u32, usize)> = vec![];
    for n in sizes.iter() {
        for bs in block_sizes.iter() {
            if *bs == 8 && *n > 2000 {
                continue; // one entry per block: covered by the smaller tables
            }
            for bits in [4u32, 10, 16].iter() {
                for kind in 0..3usize {
                    if !ctx.thorough() && *bits != 10 && (kind + *bs) % 2 == 1 {
                        continue;
                    }
                    grid.push((*n, *bs, *bits, kind));
                }
            }
        }
    }
    // records sized so that EVERY data block is exactly 4096 (kind 3) / 2048 (kind 4) bytes on disk: every block starts at
    // a multiple of 2 KiB right behind a block that fills its range(s) completely (filter-range boundary arithmetic)
    grid.push((60, 4000, 10, 3));
    grid.push((90, 2000, 10, 4));
    grid.push((40, 4000, 16, 3));
    let grid = &grid;
    let measured = parallel(&ctx.driver, ctx.threads, ctx.seed ^ 0xC18, Report::new("C18", ""), |t, _d, rng, rep| {
        for (gi, (n, block_size, bits, kind)) in grid.iter().enumerate() {
            if gi % ctx.threads.max(1) != t {
                continue;
            }
            let (n, block_size, bits, kind) = (*n, *block_size, *bits, *kind);
            let mut keys: Vec<Vec<u8>> = (0..n)
                .map(|i| match kind {
                    0 => {
                        let l = rng.range(8, 16);
                        rng.any_bytes(l)
                    }
                    1 => format!("key{:08}", i * 3).into_bytes(),
                    // 16 bytes, well spread (NOT consecutive numbers: keys that differ only in their last byte have identical
                    // probe positions in a 64-bit filter under LevelDB's hash - a property of the format's hash function)
                    3 | 4 => format!("{:016x}", (i as u64 + 1).wrapping_mul(0x9E37_79B9_7F4A_7C15)).into_bytes(),
                    _ => {
                        let mut k = b"common/prefix/shared/by/all/keys/".to_vec();
                        k.extend(rng.any_bytes(6));
                        k
                    }
                })
                .collect();
            let val: Vec<u8> = match kind {
                3 => vec![b'p'; 4063],
                4 => vec![b'p'; 2015],
                _ => b"v".to_vec(),
            };
            keys.sort();
            keys.dedup();
            let cfg = WCfg { cmp: CmpKind::Bytewise, block_size, restart: 16, snappy: false, pol: PolKind::Bloom(bits) };
            let mut img = Vec::new();
            {
                let mut b = sstable::TableBuilder::new(cfg.options(), &mut img);
                for k in keys.iter() {
                    b.add(k, &val).unwrap();
                }
                b.finish().unwrap();
            }
            let reads = Arc::new(std::sync::atomic::AtomicUsize::new(0));
            let mut o = Options::default().with_cache_capacity(64);
            o.filter_policy = PolKind::Bloom(10).boxed();
            let size = img.len();
            let tb = Table::new(o, Box::new(CountingFile { data: img, reads: reads.clone() }), size).unwrap();
            let lookups = 20000;
            let mut touched = 0usize;
            let mut wrong = 0usize;
            let _ = sstable::verif::take_block_events();
            for j in 0..lookups {
                // absent by construction: a different length class / a residue no stored key has
                let probe: Vec<u8> = match kind {
                    0 => rng.any_bytes(17),
                    1 => format!("key{:08}", (j * 7 + 1) % (n * 3 + 100) / 3 * 3 + 1).into_bytes(),
                    3 | 4 => format!("{:016x}", (j as u64 + 1_000_003).wrapping_mul(0x9E37_79B9_7F4A_7C15)).into_bytes(),
                    _ => {
                        let mut k = b"common/prefix/shared/by/all/keys/".to_vec();
                        k.extend(rng.any_bytes(7));
                        k
                    }
                };
                let before = reads.load(std::sync::atomic::Ordering::SeqCst);
                let r = tb.get(&probe);
                let evs = sstable::verif::take_block_events();
                let after = reads.load(std::sync::atomic::Ordering::SeqCst);
                if !evs.is_empty() || after != before {
                    touched += 1;
                }
                if !matches!(r, Ok(None)) {
                    wrong += 1;
                }
            }
            let rate = touched as f64 / lookups as f64;
            let label = format!("keys={} n={} block_size={} bits_per_key={} rate={:.4}", ["random", "sequential", "shared-prefix", "page-sized-records-4096", "page-sized-records-2048"][kind], keys.len(), block_size, bits, rate);
            rep.case(&label, true);
            rep.count_n("absent_key_lookups", lookups as u64);
            rep.count_n("lookups_touching_a_data_block", touched as u64);
            rep.notes.push(label.clone());
            rep.sample(J::obj(vec![("table", J::s(&label))]));
            let limit = if bits >= 10 { 0.03 } else { 0.5 };
            if rate >= limit || wrong > 0 {
                rep.judge_fail(J::obj(vec![("what", J::s("absent-key lookups touch data blocks more often than the configured filter allows (or return a value)")), ("table", J::s(&label)), ("limit", J::F(limit)), ("wrong_answers", J::N(wrong as i64)), ("seed", J::N(ctx.seed as i64))]));
            }
        }
    });
    rep.merge(measured);
    rep.max_samples = 12;
    rep
}

// ------------------------------------------------------------------------------------------- C12
struct YieldFile {
    data: Arc<Vec<u8>>,
    salt: u64,
    ctr: std::sync::atomic::AtomicU64,
}
impl RandomAccess for YieldFile {
    fn read_at(&self, off: usize, dst: &mut [u8]) -> sstable::Result<usize> {
        let c = self.ctr.fetch_add(1, std::sync::atomic::Ordering::Relaxed);
        let h = fnv(&(c ^ self.salt).to_le_bytes());
        if h % 3 == 0 {
            std::thread::yield_now();
        }
        if h % 41 == 0 {
            std::thread::sleep(std::time::Duration::from_micros(50));
        }
        self.data.as_ref().read_at(off, dst)
    }
}
#[derive(Clone)]
enum TOp {
    Next,
    Prev,
    Seek(Vec<u8>),
    Get(Vec<u8>),
    Reset,
}
fn run_script(tb: &Table, script: &[TOp]) -> Vec<String> {
    let mut it = tb.iter();
    let mut out = vec![];
    for op in script {
        out.push(match op {
            TOp::Next => show_kv(&it.next()),
            TOp::Prev => {
                let b = it.prev();
                format!("{} {}", b, show_kv(&sstable::current_key_val(&it)))
            }
            TOp::Seek(k) => {
                it.seek(k);
                show_kv(&sstable::current_key_val(&it))
            }
            TOp::Get(k) => match tb.get(k) {
                Ok(v) => format!("ok {}", v.map(|v| hex(&v)).unwrap_or("none".into())),
                Err(e) => format!("err {:?}", e.code),
            },
            TOp::Reset => {
                it.reset();
                "-".into()
            }
        });
    }
    out
}
pub fn c12(ctx: &Ctx) -> Report {
    let mut rep = Report::new("C12", "S13: 2..16 OS threads run seeded scripts (next, prev, seek, get, reset; 60..200 steps) through a shared table handle (Arc), clones of it, or distinct tables sharing one cache of capacity 1..4, with seeded yields and short sleeps injected in read_at; each thread's outputs must equal the outputs of its script run alone before the threads start (which the model reproduces via S10), all threads must finish within 60 s (no deadlock) and no operation may return LockError; non-trivial = run with >= 2 threads; distinct by (seed, configuration); what this cannot show: data-race freedom of the compiled code and the soundness of `unsafe impl Send/Sync for Cache` (argued in DESIGN.md from &mut-through-write-guard)");
    let mut rng = Rng::new(ctx.seed ^ 0xC12);
    let mut d = ctx.new_driver();
    let runs = if ctx.thorough() { 400 } else { 40 };
    for r in 0..runs {
        let nt = rng.range(1, 3);
        let mut cases = vec![];
        for _ in 0..nt {
            let mut cfg = gen_wcfg(&mut rng);
            cfg.cmp = CmpKind::Bytewise;
            cfg.block_size = *rng.pick(&[8usize, 30, 100]);
            let es = gen_entries(&mut rng, &cfg.cmp, 30, 10);
            if let Some(c) = build_case(&mut d, &mut rep, &cfg, &es) {
                cases.push(c);
            }
        }
        if cases.is_empty() {
            continue;
        }
        let cap = rng.range(1, 4);
        let base = Options::default().with_cache_capacity(cap);
        let tables: Vec<Table> = cases
            .iter()
            .map(|c| {
                let mut o = base.clone();
                o.filter_policy = c.cfg.pol.boxed();
                let f = YieldFile { data: Arc::new(c.img.clone()), salt: rng.next(), ctr: Default::default() };
                Table::new(o, Box::new(f), c.img.len()).unwrap()
            })
            .collect();
        let nthreads = rng.range(2, 16);
        let mode = rng.below(3); // 0 shared handle, 1 clones, 2 distinct tables
        let mut scripts = vec![];
        for _ in 0..nthreads {
            let ti = if mode == 2 { rng.below(tables.len()) } else { 0 };
            let keys: Vec<Vec<u8>> = cases[ti].es.iter().map(|e| e.0.clone()).collect();
            let len = rng.range(60, 200);
            let script: Vec<TOp> = (0..len)
                .map(|_| {
                    let key = if !keys.is_empty() && rng.chance(3, 4) { rng.pick(&keys).clone() } else { gen_key(&mut rng, None, 4) };
                    match rng.below(10) {
                        0..=4 => TOp::Next,
                        5 => TOp::Prev,
                        6 | 7 => TOp::Seek(key),
                        8 => TOp::Get(key),
                        _ => TOp::Reset,
                    }
                })
                .collect();
            scripts.push((ti, script));
        }
        // expected: each script alone
        let expected: Vec<Vec<String>> = scripts.iter().map(|(ti, s)| run_script(&tables[*ti], s)).collect();
        let shared = Arc::new(tables);
        let (tx, rx) = std::sync::mpsc::channel();
        for (k, (ti, script)) in scripts.iter().cloned().enumerate() {
            let tables = shared.clone();
            let tx = tx.clone();
            std::thread::spawn(move || {
                let local;
                let tb: &Table = if mode == 1 {
                    local = tables[ti].clone();
                    &local
                } else {
                    &tables[ti]
                };
                let out = guarded(|| run_script(tb, &script));
                let _ = tx.send((k, out));
            });
        }
        drop(tx);
        let deadline = std::time::Instant::now() + std::time::Duration::from_secs(60);
        let mut got: Vec<Option<Result<Vec<String>, ()>>> = vec![None; nthreads];
        let mut received = 0;
        while received < nthreads {
            let left = deadline.saturating_duration_since(std::time::Instant::now());
            match rx.recv_timeout(left) {
                Ok((k, out)) => {
                    got[k] = Some(out);
                    received += 1;
                }
                Err(_) => break,
            }
        }
        let label = format!("run {} seed {} threads {} mode {} cap {} tables {}", r, ctx.seed, nthreads, ["shared", "clones", "distinct"][mode], cap, cases.len());
        rep.case(&label, true);
        rep.count(&format!("mode_{}", ["shared_handle", "clones", "distinct_tables"][mode]));
        rep.count_n("threads_started", nthreads as u64);
        if r < 2 {
            rep.sample(J::obj(vec![("run", J::s(&label)), ("script_0_len", J::N(scripts[0].1.len() as i64))]));
        }
        if received < nthreads {
            rep.judge_fail(J::obj(vec![("what", J::s("threads did not finish within 60 s (deadlock or livelock)")), ("run", J::s(&label)), ("finished", J::N(received as i64))]));
            return rep; // threads are stuck: leave
        }
        for k in 0..nthreads {
            match &got[k] {
                Some(Ok(o)) => {
                    if o.iter().any(|x| x.contains("LockError")) {
                        rep.judge_fail(J::obj(vec![("what", J::s("an operation failed with a lock error although nothing panicked")), ("run", J::s(&label)), ("thread", J::N(k as i64))]));
                    } else if *o != expected[k] {
                        let idx = o.iter().zip(expected[k].iter()).position(|(a, b)| a != b).unwrap_or(0);
                        rep.judge_fail(J::obj(vec![("what", J::s("a thread observes results different from running alone")), ("run", J::s(&label)), ("thread", J::N(k as i64)), ("step", J::N(idx as i64)), ("concurrent", J::s(&o[idx])), ("alone", J::s(&expected[k][idx]))]));
                    }
                }
                _ => rep.judge_fail(J::obj(vec![("what", J::s("a thread panicked")), ("run", J::s(&label)), ("thread", J::N(k as i64))])),
            }
        }
    }
    c12_concurrent_opens(ctx, &mut rep);
    c12_file_backed(ctx, &mut rep);
    rep
}

/// Tables are OPENED concurrently on one shared cache: every thread opens its own image (same keys and
/// layout, its own values) again and again, records the cache id of each handle and reads through it.
/// Judge: all ids handed out are pairwise distinct and every result is the thread's own data.
/// Tables opened from real FILES (Table::new_from_file; `impl RandomAccess for File`) shared by threads through
/// clones, with a cache of capacity 1 so that almost every access reads the file: a positional read is safe, a
/// seek-then-read on the shared descriptor is not. Equal-sized and different-sized blocks; every answer must equal
/// the single-threaded answer, no error, no panic.
fn c12_file_backed(ctx: &Ctx, rep: &mut Report) {
    let dir = std::path::Path::new("/verif/.cache/tmpfiles");
    let _ = std::fs::create_dir_all(dir);
    let mut rng = Rng::new(ctx.seed ^ 0xF11E);
    for round in 0..(if ctx.thorough() { 6 } else { 2 }) {
        let equal = round % 2 == 0;
        let n = 120usize;
        let es: Vec<(Vec<u8>, Vec<u8>)> = (0..n)
            .map(|i| (format!("key{:04}", i).into_bytes(), if equal { format!("value-{:04}", i).into_bytes() } else { vec![b'v'; 1 + (i * 7) % 23] }))
            .collect();
        let path = dir.join(format!("c12-{}-{}-{}.sst", std::process::id(), ctx.seed, round));
        {
            let f = match std::fs::File::create(&path) {
                Ok(f) => f,
                Err(e) => {
                    rep.notes.push(format!("cannot create a table file: {}", e));
                    return;
                }
            };
            let mut o = Options::default();
            o.block_size = 40;
            let mut b = sstable::TableBuilder::new(o, std::io::BufWriter::new(f));
            for (k, v) in es.iter() {
                b.add(k, v).unwrap();
            }
            b.finish().unwrap();
        }
        let tb = match Table::new_from_file(Options::default().with_cache_capacity(1), &path) {
            Ok(t) => t,
            Err(e) => {
                rep.judge_fail(J::obj(vec![("what", J::s("a table file just written does not open")), ("error", J::s(&format!("{:?}", e.code)))]));
                let _ = std::fs::remove_file(&path);
                return;
            }
        };
        let nthreads = 8usize;
        let scripts: Vec<Vec<usize>> = (0..nthreads).map(|_| (0..400).map(|_| rng.below(n)).collect()).collect();
        let bad = Arc::new(std::sync::Mutex::new(Vec::<String>::new()));
        let mut hs = vec![];
        for script in scripts.into_iter() {
            let t = tb.clone();
            let es = es.clone();
            let bad = bad.clone();
            hs.push(std::thread::spawn(move || {
                for (step, i) in script.iter().enumerate() {
                    let got = t.get(&es[*i].0);
                    let ok = matches!(&got, Ok(Some(v)) if *v == es[*i].1);
                    if !ok {
                        bad.lock().unwrap().push(format!("get({}) = {:?}", String::from_utf8_lossy(&es[*i].0), got.map(|v| v.map(|x| hex(&x))).map_err(|e| e.code)));
                        return;
                    }
                    if step % 97 == 0 {
                        let mut it = t.iter();
                        let mut cnt = 0usize;
                        let mut last: Option<Vec<u8>> = None;
                        while let Some((k, _)) = it.next() {
                            if let Some(l) = &last {
                                if *l >= k {
                                    bad.lock().unwrap().push(format!("scan out of order at entry {}", cnt));
                                    return;
                                }
                            }
                            last = Some(k);
                            cnt += 1;
                        }
                        if cnt != es.len() {
                            bad.lock().unwrap().push(format!("scan yields {} of {} entries", cnt, es.len()));
                            return;
                        }
                    }
                }
            }));
        }
        let mut panicked = 0;
        for h in hs {
            if h.join().is_err() {
                panicked += 1;
            }
        }
        let _ = std::fs::remove_file(&path);
        rep.case(&format!("file-backed round {} seed {}", round, ctx.seed), true);
        rep.count("file_backed_thread_runs");
        let bad = bad.lock().unwrap();
        if panicked > 0 || !bad.is_empty() {
            rep.judge_fail(J::obj(vec![("what", J::s("threads sharing clones of a FILE-backed table (cache capacity 1) get wrong answers, errors or panic")), ("blocks", J::s(if equal { "equal-sized" } else { "different-sized" })), ("threads_panicked", J::N(panicked)), ("first_wrong", J::s(&bad.iter().take(3).cloned().collect::<Vec<_>>().join("; ")))]));
        }
    }
}
fn c12_concurrent_opens(ctx: &Ctx, rep: &mut Report) {
    let nthreads = 8usize;
    let rounds = if ctx.thorough() { 30000 } else { 4000 };
    let base = Options::default().with_cache_capacity(8);
    let mut imgs = vec![];
    for t in 0..nthreads {
        let cfg = WCfg { cmp: CmpKind::Bytewise, block_size: 64, restart: 4, snappy: false, pol: PolKind::Bloom(10) };
        let es: Vec<(Vec<u8>, Vec<u8>)> = (0..12).map(|i| (format!("key{:02}", i).into_bytes(), format!("value{:02}-of-table-{:02}", i, t).into_bytes())).collect();
        let out = tb_build_impl(&cfg, &es, &[]);
        imgs.push(Arc::new(out.received));
    }
    let (tx, rx) = std::sync::mpsc::channel();
    for t in 0..nthreads {
        let img = imgs[t].clone();
        let base = base.clone();
        let tx = tx.clone();
        std::thread::spawn(move || {
            let out = guarded(|| {
                let mut ids = Vec::with_capacity(rounds);
                let mut wrong = vec![];
                for r in 0..rounds {
                    let tb = match Table::new(base.clone(), Box::new(img.as_ref().clone()), img.len()) {
                        Ok(tb) => tb,
                        Err(e) => {
                            wrong.push(format!("round {}: open failed: {:?}", r, e.code));
                            continue;
                        }
                    };
                    ids.push(tb.verif_cache_id());
                    let i = r % 12;
                    let want = format!("value{:02}-of-table-{:02}", i, t).into_bytes();
                    match tb.get(format!("key{:02}", i).as_bytes()) {
                        Ok(Some(v)) if v == want => {}
                        other => {
                            if wrong.len() < 5 {
                                wrong.push(format!("round {}: get(key{:02}) = {:?}, expected the value of table {}", r, i, other.map(|x| x.map(|v| String::from_utf8_lossy(&v).to_string())).map_err(|e| e.code), t))
                            }
                        }
                    }
                }
                (ids, wrong)
            });
            let _ = tx.send((t, out));
        });
    }
    drop(tx);
    let deadline = std::time::Instant::now() + std::time::Duration::from_secs(120);
    let mut all_ids: Vec<(u64, usize)> = vec![];
    let mut received = 0;
    while received < nthreads {
        let left = deadline.saturating_duration_since(std::time::Instant::now());
        match rx.recv_timeout(left) {
            Ok((t, Ok((ids, wrong)))) => {
                received += 1;
                for w in wrong {
                    rep.judge_fail(J::obj(vec![("what", J::s("a table opened concurrently with others on a shared cache returns data that is not its own")), ("thread", J::N(t as i64)), ("detail", J::s(&w)), ("rerun", J::s("threads open 8 tables (same layout, own values) concurrently on one cache"))]));
                }
                all_ids.extend(ids.into_iter().map(|i| (i as u64, t)));
            }
            Ok((t, Err(_))) => {
                received += 1;
                rep.judge_fail(J::obj(vec![("what", J::s("a thread opening tables concurrently panicked")), ("thread", J::N(t as i64))]));
            }
            Err(_) => break,
        }
    }
    rep.case(&format!("concurrent opens: {} threads x {} opens on one cache", nthreads, rounds), true);
    rep.count_n("concurrent_opens", all_ids.len() as u64);
    if received < nthreads {
        rep.judge_fail(J::obj(vec![("what", J::s("threads opening tables concurrently did not finish within 120 s")), ("finished", J::N(received as i64))]));
        return;
    }
    all_ids.sort();
    let mut dups = 0;
    for w in all_ids.windows(2) {
        if w[0].0 == w[1].0 {
            dups += 1;
            if dups <= 3 {
                rep.judge_fail(J::obj(vec![("what", J::s("two table handles opened on one cache received the same cache id")), ("id", J::N(w[0].0 as i64)), ("threads", J::s(&format!("{} and {}", w[0].1, w[1].1)))]));
            }
        }
    }
    rep.count_n("duplicate_cache_ids", dups);
}
