//! All layer streams in one run (used while developing the model; not a property check).
use crate::streams::*;
use crate::util::*;
use crate::Ctx;

pub fn run(ctx: &Ctx) -> Report {
    let mut rep = Report::new("LAYERS", "all layer streams");
    let mut rng = Rng::new(ctx.seed);
    let mut d = ctx.new_driver();
    let n = if ctx.thorough() { 2000 } else { 300 };
    s2_codec(&mut d, &mut rep, &mut rng, n);
    s3_crc(&mut d, &mut rep, &mut rng, n);
    s4_snappy(&mut d, &mut rep, &mut rng, n);
    s5_bloom(&mut d, &mut rep, &mut rng, n, ctx.thorough());
    s6_filterblock(&mut d, &mut rep, &mut rng, n);
    let blocks = s7_blockbuilder(&mut d, &mut rep, &mut rng, n);
    s8_blockiter(&mut d, &mut rep, &mut rng, &blocks, 25);
    for _ in 0..n {
        let cfg = crate::gen::gen_wcfg(&mut rng);
        let es = crate::gen::gen_entries(&mut rng, &cfg.cmp, 30, 60);
        rep.case(&format!("{} {}", cfg.describe(), crate::gen::entries_str(&es)), true);
        if let Some(img) = s9_build(&mut d, &mut rep, &cfg, &es) {
            use crate::session::*;
            let keys = crate::gen::probes(&mut rng, &es, &[]);
            let mut ops = vec![Op::Open { t: 0, file: 0, size: img.len(), cmp: cfg.cmp.clone(), pol: cfg.pol.clone() }, Op::Iter(0, 0), Op::Iter(1, 0)];
            ops.extend(gen_ops(&mut rng, 1, 2, &keys, 30, true));
            let s = Session { cap: rng.range(1, 4), files: vec![img], faults: vec![], ops };
            rep.count("s10_sessions");
            compare(&mut d, &mut rep, &s);
        }
    }
    for _ in 0..n {
        let cap = rng.range(1, 4);
        let nk = rng.range(2, 5);
        let ops: Vec<(char, usize, usize)> = (0..rng.range(1, 30)).map(|i| (*rng.pick(&['i', 'i', 'g', 'g', 'r']), rng.below(nk), i)).collect();
        let req = format!("cache_ops {} {}", cap, cache_ops_str(&ops));
        rep.case(&req, true);
        let imp = cache_ops_impl(cap, &ops);
        expect(&mut d, &mut rep, "S11 cache", &req, &imp);
    }
    rep
}
