use crate::util::Report;
use crate::Ctx;

pub mod c17;
pub mod layers;

pub fn run(prop: &str, ctx: &Ctx) -> Option<Report> {
    match prop {
        "C17" => Some(c17::run(ctx)),
        "LAYERS" => Some(layers::run(ctx)),
        _ => None,
    }
}
