use crate::util::Report;
use crate::Ctx;

pub mod c17;
pub mod hard;
pub mod layers;
pub mod simple;
pub mod tables;

pub fn run(prop: &str, ctx: &Ctx) -> Option<Report> {
    match prop {
        "C01" => Some(tables::c01(ctx)),
        "C02" => Some(tables::c02(ctx)),
        "C03" => Some(tables::c03(ctx)),
        "C04" => Some(tables::c04(ctx)),
        "C05" => Some(tables::c05(ctx)),
        "C19" => Some(tables::c19(ctx)),
        "C06" => Some(hard::c06(ctx)),
        "C07" => Some(hard::c07(ctx)),
        "C08" => Some(hard::c08(ctx)),
        "C10" => Some(hard::c10(ctx)),
        "C12" => Some(hard::c12(ctx)),
        "C14" => Some(hard::c14(ctx)),
        "C18" => Some(hard::c18(ctx)),
        "C09" => Some(simple::c09(ctx)),
        "C11" => Some(simple::c11(ctx)),
        "C13" => Some(simple::c13(ctx)),
        "C15" => Some(simple::c15(ctx)),
        "C16" => Some(simple::c16(ctx)),
        "C20" => Some(simple::c20(ctx)),
        "C17" => Some(c17::run(ctx)),
        "LAYERS" => Some(layers::run(ctx)),
        _ => None,
    }
}
