use crate::util::Report;
use crate::Ctx;

pub mod c17;

pub fn run(prop: &str, ctx: &Ctx) -> Option<Report> {
    match prop {
        "C17" => Some(c17::run(ctx)),
        _ => None,
    }
}
