//! Correspondence + judging harness: runs the real crate (from /repo's working tree, built with
//! `--cfg sstable_verif`) and the Lean model driver on the same cases and reports
//!  * judge failures  - the implementation violates the property as judged by the Lean Spec
//!  * disagreements   - implementation and model differ (the tie is broken)
mod custom;
mod gen;
mod props;
mod refenc;
mod session;
mod streams;
mod tcase;
mod util;
use util::*;

pub struct Ctx {
    pub tier: String,
    pub seed: u64,
    pub driver: String,
    pub threads: usize,
}
impl Ctx {
    pub fn thorough(&self) -> bool {
        self.tier == "thorough"
    }
    pub fn new_driver(&self) -> Driver {
        Driver::spawn(&self.driver)
    }
}

fn main() {
    let args: Vec<String> = std::env::args().collect();
    if args.len() < 2 {
        eprintln!("usage: sstverif <property> [--tier quick|thorough] [--seed N] [--driver PATH] [--out FILE]");
        std::process::exit(2);
    }
    let prop = args[1].clone();
    if prop == "C20-child" {
        props::simple::c20_child();
        return;
    }
    let mut ctx = Ctx { tier: "quick".into(), seed: 1, driver: "/verif/lean/.lake/build/bin/sstdriver".into(), threads: 8 };
    let mut out: Option<String> = None;
    let mut i = 2;
    while i < args.len() {
        match args[i].as_str() {
            "--tier" => {
                ctx.tier = args[i + 1].clone();
                i += 1
            }
            "--seed" => {
                ctx.seed = args[i + 1].parse().unwrap_or(1);
                i += 1
            }
            "--driver" => {
                ctx.driver = args[i + 1].clone();
                i += 1
            }
            "--threads" => {
                ctx.threads = args[i + 1].parse().unwrap_or(8);
                i += 1
            }
            "--out" => {
                out = Some(args[i + 1].clone());
                i += 1
            }
            _ => {}
        }
        i += 1;
    }
    install_crash_handler();
    // panics of the implementation are caught and classified; keep stderr quiet
    if std::env::var("VERIF_PANIC_TRACE").is_err() {
        std::panic::set_hook(Box::new(|_| {}));
    }
    let report = match props::run(&prop, &ctx) {
        Some(r) => r,
        None => {
            eprintln!("unknown property {}", prop);
            std::process::exit(2);
        }
    };
    let text = report.to_json().to_string();
    match out {
        Some(p) => std::fs::write(p, text).unwrap(),
        None => println!("{}", text),
    }
}
