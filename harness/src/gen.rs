//! Generators: keys over adversarial alphabets, sorted entry sets, option combinations.
use crate::custom::*;
use crate::util::*;
use sstable::filter::{BloomPolicy, BoxedFilterPolicy, NoFilterPolicy};
use sstable::{CompressionType, DefaultCmp, Options};
use std::sync::Arc;

#[derive(Clone, Debug, PartialEq)]
pub enum CmpKind {
    Bytewise,
    Reverse,
    /// shorter keys first, keys of equal length bytewise (neither the bytewise order nor its reverse)
    LenFirst,
}
impl CmpKind {
    pub fn name(&self) -> &'static str {
        match self {
            CmpKind::Bytewise => "bytewise",
            CmpKind::Reverse => "reverse",
            CmpKind::LenFirst => "lenfirst",
        }
    }
    pub fn less(&self, a: &[u8], b: &[u8]) -> bool {
        match self {
            CmpKind::Bytewise => a < b,
            CmpKind::Reverse => b < a,
            CmpKind::LenFirst => (a.len(), a) < (b.len(), b),
        }
    }
}
#[derive(Clone, Debug, PartialEq)]
pub enum PolKind {
    Bloom(u32),
    NoFilter,
    FirstByte,
    RejectAll,
    RejectAllPrefix,
    RejectAllExt,
}
impl PolKind {
    pub fn name(&self) -> String {
        match self {
            PolKind::Bloom(b) => format!("bloom:{}", b),
            PolKind::NoFilter => "none".into(),
            PolKind::FirstByte => "firstbyte".into(),
            PolKind::RejectAll => "rejectall".into(),
            PolKind::RejectAllPrefix => "rejectallprefix".into(),
            PolKind::RejectAllExt => "rejectallext".into(),
        }
    }
    pub fn boxed(&self) -> BoxedFilterPolicy {
        match self {
            PolKind::Bloom(b) => Arc::new(Box::new(BloomPolicy::new(*b))),
            PolKind::NoFilter => Arc::new(Box::new(NoFilterPolicy::new())),
            PolKind::FirstByte => Arc::new(Box::new(FirstBytePolicy)),
            PolKind::RejectAll => Arc::new(Box::new(RejectAllPolicy)),
            PolKind::RejectAllPrefix => Arc::new(Box::new(RejectAllPrefixPolicy)),
            PolKind::RejectAllExt => Arc::new(Box::new(RejectAllExtPolicy)),
        }
    }
    /// the on-disk policy name
    pub fn disk_name(&self) -> &'static str {
        match self {
            PolKind::Bloom(_) => "leveldb.BuiltinBloomFilter2",
            PolKind::NoFilter => "_",
            PolKind::FirstByte => "verif.FirstByte",
            PolKind::RejectAll => "verif.RejectAll",
            PolKind::RejectAllPrefix => "leveldb.BuiltinBloomFilter",
            PolKind::RejectAllExt => "leveldb.BuiltinBloomFilter2x",
        }
    }
}

#[derive(Clone, Debug)]
pub struct WCfg {
    pub cmp: CmpKind,
    pub block_size: usize,
    pub restart: usize,
    pub snappy: bool,
    pub pol: PolKind,
}
impl WCfg {
    pub fn options(&self) -> Options {
        let mut o = Options::default();
        o.cmp = match self.cmp {
            CmpKind::Bytewise => Arc::new(Box::new(DefaultCmp)),
            CmpKind::Reverse => Arc::new(Box::new(ReverseCmp)),
            CmpKind::LenFirst => Arc::new(Box::new(LenFirstCmp)),
        };
        o.block_size = self.block_size;
        o.block_restart_interval = self.restart;
        o.compression_type = if self.snappy { CompressionType::CompressionSnappy } else { CompressionType::CompressionNone };
        o.filter_policy = self.pol.boxed();
        o
    }
    pub fn describe(&self) -> String {
        format!("cmp={} bs={} ri={} snappy={} pol={}", self.cmp.name(), self.block_size, self.restart, self.snappy, self.pol.name())
    }
}

pub fn gen_wcfg(rng: &mut Rng) -> WCfg {
    let block_size = match rng.below(10) {
        0 => 0,
        1 => 1,
        2 => 7,
        3 => 8,
        4 => 9,
        5 => rng.range(10, 40),
        6 => rng.range(40, 200),
        7 => rng.range(200, 1000),
        8 => 4096,
        _ => 1 << 20,
    };
    WCfg {
        cmp: if rng.chance(1, 5) { CmpKind::Reverse } else { CmpKind::Bytewise },
        block_size,
        restart: match rng.below(6) {
            0 => 1,
            1 => 2,
            2 => 3,
            3 => 16,
            // wider than the crate's default of 16 (a reader must not rely on its own setting)
            4 => rng.range(17, 64),
            _ => rng.range(1, 20),
        },
        snappy: rng.chance(1, 3),
        pol: match rng.below(8) {
            0 => PolKind::NoFilter,
            1 => PolKind::FirstByte,
            2 => PolKind::Bloom(rng.below(41) as u32),
            _ => PolKind::Bloom(10),
        },
    }
}

/// one key: adversarial alphabet, often sharing a prefix with `prev`
pub fn gen_key(rng: &mut Rng, prev: Option<&[u8]>, maxlen: usize) -> Vec<u8> {
    let alpha: &[u8] = if rng.chance(4, 5) { ADV } else { &[b'a', b'b', b'c'] };
    match (prev, rng.below(4)) {
        (Some(p), 0) | (Some(p), 1) => {
            let keep = rng.below(p.len() + 1);
            let mut k = p[..keep].to_vec();
            let ext = rng.below(4);
            k.extend(rng.bytes(ext, alpha));
            k
        }
        (Some(p), 2) => {
            let mut k = p.to_vec();
            k.push(*rng.pick(&[0x00u8, 0xff, 0x01]));
            k
        }
        _ => {
            let l = rng.below(maxlen + 1);
            rng.bytes(l, alpha)
        }
    }
}

/// a strictly increasing (under `cmp`) entry set
pub fn gen_entries(rng: &mut Rng, cmp: &CmpKind, max_n: usize, max_val: usize) -> Vec<(Vec<u8>, Vec<u8>)> {
    // one set in five: long structured keys (8..40 bytes): a common prefix, a short varying part, a
    // common suffix - differences fall at every alignment inside long runs of equal bytes
    if rng.chance(1, 5) {
        let n = rng.range(2, max_n.max(2).min(40));
        let prefix = { let l = rng.below(12); rng.bytes(l, &[b'u', b'/', b'0', 0xff]) };
        let suffix = { let l = rng.below(20); rng.bytes(l, &[b'/', b'n', b'0', 0x00, 0xff]) };
        let mut keys: Vec<Vec<u8>> = (0..n)
            .map(|_| {
                let mut k = prefix.clone();
                let vl = rng.range(1, 3);
                k.extend(rng.bytes(vl, &[b'0', b'1', b'2', b'a', 0xfe, 0xff]));
                if rng.chance(3, 4) {
                    k.extend_from_slice(&suffix);
                }
                k
            })
            .collect();
        keys.sort();
        keys.dedup();
        if *cmp == CmpKind::Reverse {
            keys.reverse();
        }
        return keys.into_iter().map(|k| { let vl = rng.below(6); (k, rng.any_bytes(vl)) }).collect();
    }
    // one set in eight: entries whose header numbers need multi-byte varints - keys and shared prefixes around
    // 127/128 bytes, values around 127/128 and (rarely) 16383/16384 bytes
    if max_n >= 6 && rng.chance(1, 8) {
        let n = rng.range(2, 7);
        let plen = *rng.pick(&[0usize, 100, 126, 127, 128, 129, 200]);
        let prefix = rng.bytes(plen, &[b'p', b'q', 0x00, 0xff]);
        let mut keys: Vec<Vec<u8>> = (0..n)
            .map(|_| {
                let mut k = prefix.clone();
                let tl = *rng.pick(&[0usize, 1, 2, 5, 126usize.saturating_sub(plen), 127usize.saturating_sub(plen), 128usize.saturating_sub(plen), 130]);
                k.extend(rng.bytes(tl, &[b'a', b'b', 0x01, 0xfe, 0xff]));
                k
            })
            .collect();
        keys.sort();
        keys.dedup();
        if *cmp == CmpKind::Reverse {
            keys.reverse();
        }
        return keys
            .into_iter()
            .map(|k| {
                let vl = match rng.below(40) {
                    0 => 16383 + rng.below(3),
                    1..=20 => 126 + rng.below(4),
                    _ => rng.below(10),
                };
                (k, rng.any_bytes(vl))
            })
            .collect();
    }
    let n = match rng.below(8) {
        0 => 0,
        1 => 1,
        2 => 2,
        _ => rng.range(1, max_n.max(1)),
    };
    let mut keys: Vec<Vec<u8>> = vec![];
    let mut prev: Option<Vec<u8>> = None;
    for _ in 0..n {
        let k = gen_key(rng, prev.as_deref(), 6);
        prev = Some(k.clone());
        keys.push(k);
    }
    if rng.chance(1, 4) {
        keys.push(vec![]);
    }
    keys.sort();
    keys.dedup();
    if *cmp == CmpKind::Reverse {
        keys.reverse();
    }
    keys.into_iter()
        .map(|k| {
            let vl = match rng.below(10) {
                0 => 0,
                1 => rng.below(max_val + 1),
                _ => rng.below(8),
            };
            let v = rng.any_bytes(vl);
            (k, v)
        })
        .collect()
}

pub fn entries_str(es: &[(Vec<u8>, Vec<u8>)]) -> String {
    if es.is_empty() {
        return ".".into();
    }
    es.iter().map(|(k, v)| format!("{}={}", hex(k), hex(v))).collect::<Vec<_>>().join(",")
}

/// probe keys for a table: stored keys, neighbours, prefixes, extensions, extremes
pub fn probes(rng: &mut Rng, es: &[(Vec<u8>, Vec<u8>)], extra: &[Vec<u8>]) -> Vec<Vec<u8>> {
    let mut out: Vec<Vec<u8>> = vec![vec![], vec![0], vec![0xff, 0xff, 0xff, 0xff, 0xff, 0xff, 0xff]];
    // large tables: the neighbourhoods of a sample of 24 keys (first, last and random ones) - every probe is one
    // request carrying the whole image
    let sample: Vec<&(Vec<u8>, Vec<u8>)> = if es.len() > 60 {
        let mut ix: Vec<usize> = vec![0, 1, es.len() / 2, es.len() - 2, es.len() - 1];
        for _ in 0..19 {
            ix.push(rng.below(es.len()));
        }
        ix.sort();
        ix.dedup();
        ix.into_iter().map(|i| &es[i]).collect()
    } else {
        es.iter().collect()
    };
    for (k, _) in sample.into_iter() {
        out.push(k.clone());
        let mut e = k.clone();
        e.push(0);
        out.push(e);
        let mut e = k.clone();
        e.push(0xff);
        out.push(e);
        if !k.is_empty() {
            out.push(k[..k.len() - 1].to_vec());
            let mut p = k.clone();
            let l = p.len() - 1;
            if p[l] > 0 {
                p[l] -= 1;
                out.push(p.clone());
                p.push(0xff);
                out.push(p);
            }
            let mut s = k.clone();
            if s[l] < 255 {
                s[l] += 1;
                out.push(s);
            }
        }
    }
    out.extend(extra.iter().cloned());
    for _ in 0..4 {
        out.push(gen_key(rng, None, 5));
    }
    out.sort();
    out.dedup();
    out
}
