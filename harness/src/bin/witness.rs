//! Regression witnesses for the defects found in dermesser/sstable (DESIGN.md §6).
//!
//! Every witness is the concrete failing input of one defect. `witness list` prints the names,
//! `witness run <name>` runs one in this process (exit 0 = property holds on that input,
//! exit 1 = violated, anything else = crash), `witness all` runs each in a child process and
//! prints one line per witness: `<name> <property> ok|VIOLATED <detail>`.
use sstable::filter::{BloomPolicy, FilterPolicy, NoFilterPolicy};
use sstable::verif::*;
use sstable::*;
use std::io::Write;
use std::sync::Arc;

type R = std::result::Result<(), String>;

fn opts(bs: usize, ri: usize) -> Options {
    let mut o = Options::default();
    o.block_size = bs;
    o.block_restart_interval = ri;
    o
}

fn build(o: &Options, es: &[(&[u8], &[u8])]) -> Vec<u8> {
    let mut d = Vec::new();
    {
        let mut b = TableBuilder::new(o.clone(), &mut d);
        for (k, v) in es {
            b.add(k, v).unwrap();
        }
        b.finish().unwrap();
    }
    d
}

fn open(o: &Options, img: Vec<u8>) -> Table {
    let n = img.len();
    Table::new(o.clone(), Box::new(img), n).unwrap()
}

fn scan(t: &Table) -> Vec<(Vec<u8>, Vec<u8>)> {
    let mut it = t.iter();
    let mut out = vec![];
    while let Some(e) = it.next() {
        out.push(e);
        if out.len() > 1_000_000 {
            break;
        }
    }
    out
}

fn d1() -> R {
    let s = format!("{}", Status::new(StatusCode::NotFound, "x"));
    if s.contains("NotFound") && s.contains("x") {
        Ok(())
    } else {
        Err(s)
    }
}
fn d2() -> R {
    let e = snap::raw::Decoder::new()
        .decompress_vec(&[0xff, 0xff, 0xff, 0xff, 0xff, 0xff])
        .unwrap_err();
    let st: Status = e.into();
    let s = format!("{:?}", st.err);
    if st.err.contains("CompressionError") {
        Ok(())
    } else {
        Err(s)
    }
}
fn d3() -> R {
    let s = DefaultCmp.find_shortest_sep(b"abc", b"abc\0");
    if s.as_slice() >= b"abc".as_ref() && s.as_slice() < b"abc\0".as_ref() {
        Ok(())
    } else {
        Err(format!("sep={:?}", s))
    }
}
fn d4() -> R {
    let o = opts(8, 16);
    let img = build(&o, &[(b"abc", b"1"), (b"abc\0", b"2"), (b"abd", b"3")]);
    let t = open(&o, img);
    for (k, v) in [(&b"abc"[..], b"1"), (b"abc\0", b"2"), (b"abd", b"3")].iter() {
        let g = t.get(k).map_err(|e| e.err)?;
        if g.as_deref() != Some(&v[..]) {
            return Err(format!("get({:?})={:?}", k, g));
        }
    }
    Ok(())
}
fn d5() -> R {
    let o = opts(8, 16);
    let img = build(&o, &[(b"abc", b"1"), (b"abd", b"2"), (b"abe", b"3")]);
    let t = open(&o, img);
    let mut it = t.iter();
    it.seek(b"abc\0");
    match current_key_val(&it) {
        Some((k, _)) if k == b"abd" => Ok(()),
        x => Err(format!("after seek: {:?}", x)),
    }
}
fn d6() -> R {
    let o = opts(8, 16);
    let img = build(&o, &[(b"a", b"1"), (b"b", b"2"), (b"c", b"3"), (b"d", b"4")]);
    let t = open(&o, img);
    let mut it = t.iter();
    it.advance();
    it.prev();
    let mut ks = vec![];
    while let Some((k, _)) = it.next() {
        ks.push(k);
        if ks.len() > 20 {
            break;
        }
    }
    let want: Vec<Vec<u8>> = vec![b"a".to_vec(), b"b".to_vec(), b"c".to_vec(), b"d".to_vec()];
    if ks == want {
        Ok(())
    } else {
        Err(format!("{:?}", ks))
    }
}
fn d7() -> R {
    let o = opts(4096, 16);
    let img = build(&o, &[(b"", b"0"), (b"a", b"1"), (b"b", b"2")]);
    let t = open(&o, img);
    let s = scan(&t);
    if s.len() != 3 {
        return Err(format!("scan len {}", s.len()));
    }
    if t.get(b"").map_err(|e| e.err)? != Some(b"0".to_vec()) {
        return Err("get(\"\")".into());
    }
    if t.get(b"a").map_err(|e| e.err)? != Some(b"1".to_vec()) {
        return Err("get(a)".into());
    }
    Ok(())
}
fn d8a() -> R {
    let mut o = opts(4096, 16);
    o.filter_policy = Arc::new(Box::new(NoFilterPolicy::new()));
    let img = build(&o, &[(b"a", b"1"), (b"b", b"2")]);
    let t = open(&o, img);
    if t.get(b"a").map_err(|e| e.err)? != Some(b"1".to_vec()) {
        return Err("get(a)".into());
    }
    Ok(())
}
fn d8b() -> R {
    let o = opts(4096, 16);
    let img = build(&o, &[(b"", b"0")]);
    // D7 makes the scan miss it, but the lookup must at least not crash and must find it.
    let t = open(&o, img);
    if t.get(b"").map_err(|e| e.err)? != Some(b"0".to_vec()) {
        return Err("get(\"\")".into());
    }
    Ok(())
}
fn d9a() -> R {
    let o = opts(0, 16);
    let img = build(&o, &[(b"a", b"1"), (b"b", b"2"), (b"c", b"3")]);
    let t = open(&o, img);
    let mut it = t.iter();
    it.advance();
    it.prev();
    if it.valid() {
        return Err("valid after prev off the front".into());
    }
    Ok(())
}
fn d9b() -> R {
    let o = opts(0, 16);
    let img = build(&o, &[(&[0u8][..], b"1"), (b"b", b"2")]);
    let t = open(&o, img);
    if t.get(&[0u8]).map_err(|e| e.err)? != Some(b"1".to_vec()) {
        return Err("get([0])".into());
    }
    Ok(())
}
fn rejects(o: &Options, ks: &[&[u8]]) -> bool {
    let o = o.clone();
    let ks: Vec<Vec<u8>> = ks.iter().map(|k| k.to_vec()).collect();
    let r = std::panic::catch_unwind(std::panic::AssertUnwindSafe(move || {
        let mut d = Vec::new();
        let mut b = TableBuilder::new(o, &mut d);
        for k in ks.iter() {
            if b.add(k, b"v").is_err() {
                return true;
            }
        }
        false
    }));
    match r {
        Ok(rejected) => rejected,
        Err(_) => true,
    }
}
fn d10a() -> R {
    if rejects(&opts(0, 16), &[b"b", b"b"]) {
        Ok(())
    } else {
        Err("b,b accepted at block_size 0".into())
    }
}
fn d10b() -> R {
    if rejects(&opts(0, 16), &[b"b", b"c", b"bb"]) {
        Ok(())
    } else {
        Err("b,c,bb accepted at block_size 0".into())
    }
}
fn d10c() -> R {
    if rejects(&opts(8, 16), &[b"", b""]) {
        Ok(())
    } else {
        Err("\"\",\"\" accepted at block_size 8".into())
    }
}
struct HalfSink(Vec<u8>);
impl Write for HalfSink {
    fn write(&mut self, b: &[u8]) -> std::io::Result<usize> {
        let n = if b.len() > 1 { b.len() / 2 } else { b.len() };
        self.0.extend_from_slice(&b[..n]);
        Ok(n)
    }
    fn flush(&mut self) -> std::io::Result<()> {
        Ok(())
    }
}
fn d11() -> R {
    let o = opts(32, 2);
    let perfect = build(&o, &[(b"abc", b"def"), (b"abd", b"dee"), (b"bcd", b"asa"), (b"bsr", b"a00")]);
    let mut s = HalfSink(vec![]);
    let r = {
        let mut b = TableBuilder::new(o.clone(), &mut s);
        for (k, v) in [(b"abc", b"def"), (b"abd", b"dee"), (b"bcd", b"asa"), (b"bsr", b"a00")].iter() {
            b.add(&k[..], &v[..]).unwrap();
        }
        b.finish()
    };
    match r {
        Ok(n) if s.0 == perfect && n == perfect.len() => Ok(()),
        Ok(n) => Err(format!("finish=Ok({}) sink holds {} perfect {}", n, s.0.len(), perfect.len())),
        Err(_) => Ok(()),
    }
}
fn d12a() -> R {
    let o = opts(32, 2);
    let img = build(&o, &[(b"abc", b"def"), (b"abd", b"dee"), (b"bcd", b"asa"), (b"bsr", b"a00")]);
    for n in 0..img.len() {
        let p = img[..n].to_vec();
        let o2 = o.clone();
        let r = std::panic::catch_unwind(std::panic::AssertUnwindSafe(move || Table::new(o2, Box::new(p), n).is_err()));
        match r {
            Ok(true) => {}
            Ok(false) => return Err(format!("prefix {} accepted", n)),
            Err(_) => return Err(format!("prefix {} panics", n)),
        }
    }
    Ok(())
}
fn d12b() -> R {
    let mut img = vec![0xffu8; 40];
    img.extend_from_slice(&[0x57, 0xfb, 0x80, 0x8b, 0x24, 0x75, 0x47, 0xdb]);
    let r = std::panic::catch_unwind(std::panic::AssertUnwindSafe(move || Table::new(Options::default(), Box::new(img), 48).is_err()));
    match r {
        Ok(true) => Ok(()),
        Ok(false) => Err("accepted".into()),
        Err(_) => Err("panics".into()),
    }
}
fn d13() -> R {
    // footer whose index handle claims 2^45 bytes
    let o = opts(32, 2);
    let mut img = build(&o, &[(b"abc", b"def")]);
    let n = img.len();
    let mut f = vec![0u8; 48];
    {
        use integer_encoding::VarInt;
        let a = 0usize.encode_var(&mut f[..]);
        let b = 8usize.encode_var(&mut f[a..]);
        let c = 0usize.encode_var(&mut f[a + b..]);
        let _ = (1usize << 45).encode_var(&mut f[a + b + c..]);
    }
    f[40..].copy_from_slice(&[0x57, 0xfb, 0x80, 0x8b, 0x24, 0x75, 0x47, 0xdb]);
    img[n - 48..].copy_from_slice(&f);
    match Table::new(o, Box::new(img), n) {
        Err(_) => Ok(()),
        Ok(_) => Err("accepted".into()),
    }
}
fn d14() -> R {
    let o = opts(32, 2);
    let es: Vec<(Vec<u8>, Vec<u8>)> = (0..20u8).map(|i| (vec![b'k', b'a' + i], vec![b'v', i])).collect();
    let esr: Vec<(&[u8], &[u8])> = es.iter().map(|(k, v)| (&k[..], &v[..])).collect();
    let img = build(&o, &esr);
    let n = img.len();
    let mut bad = 0;
    for off in 0..n - 48 {
        for m in [0x01u8, 0x10, 0x80, 0xff].iter() {
            let mut im = img.clone();
            im[off] ^= m;
            let o2 = o.clone();
            let es2 = es.clone();
            let r = std::panic::catch_unwind(std::panic::AssertUnwindSafe(move || {
                if let Ok(t) = Table::new(o2, Box::new(im), n) {
                    for (k, _) in es2.iter() {
                        if let Ok(None) = t.get(k) {
                            return true;
                        }
                    }
                }
                false
            }));
            if let Ok(true) = r {
                bad += 1;
            }
        }
    }
    if bad == 0 {
        Ok(())
    } else {
        Err(format!("{} single-byte alterations make a stored key absent", bad))
    }
}
fn d15() -> R {
    let o = opts(8, 16);
    let n_e = 150_000u32;
    let mut d = Vec::new();
    {
        let mut b = TableBuilder::new_no_filter(o.clone(), &mut d);
        for i in 0..n_e {
            b.add(&i.to_be_bytes(), b"").unwrap();
        }
        b.finish().unwrap();
    }
    let first_block_len = 3 + 4 + 8 + 5;
    let data_end = first_block_len * n_e as usize;
    for b in d[..data_end].iter_mut() {
        *b = 0xaa;
    }
    let n = d.len();
    let mut ro = o.clone();
    ro.filter_policy = Arc::new(Box::new(NoFilterPolicy::new()));
    let t = Table::new(ro, Box::new(d), n).map_err(|e| e.err)?;
    let mut it = t.iter();
    let r = it.advance();
    if r {
        return Err("advance true on fully damaged data".into());
    }
    Ok(())
}
fn ck(i: u8) -> CacheKey {
    let mut k = [0u8; 16];
    k[0] = i;
    k
}
/// ops: (0,k,v)=insert (1,k,_)=get (2,k,_)=remove ; checked against a plain LRU list
fn cache_history(cap: usize, ops: &[(u8, u8, u32)]) -> R {
    let mut c: Cache<u32> = Cache::new(cap);
    let mut m: Vec<(u8, u32)> = vec![]; // most recent first
    for (i, &(op, k, v)) in ops.iter().enumerate() {
        match op {
            0 => {
                c.insert(&ck(k), v);
                m.retain(|e| e.0 != k);
                if m.len() >= cap {
                    m.pop();
                }
                m.insert(0, (k, v));
            }
            1 => {
                let got = c.get(&ck(k)).cloned();
                let want = m.iter().position(|e| e.0 == k).map(|p| {
                    let e = m.remove(p);
                    m.insert(0, e);
                    e.1
                });
                if got != want {
                    return Err(format!("op {}: get({})={:?} want {:?}", i, k, got, want));
                }
            }
            _ => {
                let got = c.remove(&ck(k));
                let want = m.iter().position(|e| e.0 == k).map(|p| m.remove(p).1);
                if got != want {
                    return Err(format!("op {}: remove({})={:?} want {:?}", i, k, got, want));
                }
            }
        }
        if c.count() != m.len() {
            return Err(format!("op {}: count {} want {}", i, c.count(), m.len()));
        }
        let (fwd, bwd, keys, _) = c.verif_dump();
        let wantf: Vec<CacheKey> = m.iter().map(|e| ck(e.0)).collect();
        let mut wantb = wantf.clone();
        wantb.reverse();
        let mut wantk = wantf.clone();
        wantk.sort();
        if fwd != wantf || bwd != wantb || keys != wantk {
            return Err(format!("op {}: list fwd {:?} bwd {:?} keys {:?} want {:?}", i, fwd.iter().map(|k| k[0]).collect::<Vec<_>>(), bwd.iter().map(|k| k[0]).collect::<Vec<_>>(), keys.iter().map(|k| k[0]).collect::<Vec<_>>(), m));
        }
    }
    Ok(())
}
fn d16a() -> R {
    cache_history(2, &[(0, 1, 10), (0, 1, 11), (1, 1, 0), (0, 2, 20), (0, 3, 30), (1, 1, 0), (1, 2, 0)])
}
fn d16b() -> R {
    cache_history(3, &[(0, 1, 10), (0, 2, 20), (0, 3, 30), (2, 2, 0), (0, 4, 40), (0, 5, 50), (1, 1, 0), (1, 3, 0)])
}
fn d16c() -> R {
    cache_history(2, &[(0, 1, 10), (2, 1, 0), (0, 2, 20), (0, 3, 30), (0, 4, 40), (1, 3, 0)])
}
struct ZzPolicy;
impl FilterPolicy for ZzPolicy {
    fn name(&self) -> &'static str {
        "zz"
    }
    fn create_filter(&self, _keys: &[u8], offs: &[usize]) -> Vec<u8> {
        // a filter that the bloom policy would read as "k=1, no bit set"
        let mut v = vec![0u8; 8 + offs.len()];
        v.push(1);
        v
    }
    fn key_may_match(&self, _key: &[u8], _f: &[u8]) -> bool {
        true
    }
}
fn d17() -> R {
    let mut o = opts(64, 4);
    o.filter_policy = Arc::new(Box::new(ZzPolicy));
    let es: Vec<(Vec<u8>, Vec<u8>)> = (0..50u8).map(|i| (vec![b'k', i], vec![i])).collect();
    let esr: Vec<(&[u8], &[u8])> = es.iter().map(|(k, v)| (&k[..], &v[..])).collect();
    let img = build(&o, &esr);
    let mut ro = opts(64, 4);
    ro.filter_policy = Arc::new(Box::new(BloomPolicy::new(10)));
    let t = open(&ro, img);
    let mut absent = 0;
    for (k, v) in es.iter() {
        if t.get(k).map_err(|e| e.err)? != Some(v.clone()) {
            absent += 1;
        }
    }
    if absent == 0 {
        Ok(())
    } else {
        Err(format!("{} of 50 stored keys reported absent", absent))
    }
}


// ---- raw table assembly (for files no writer of this crate produces) -------------------------
fn raw_block(contents: &[u8], ctype: u8) -> Vec<u8> {
    let crc = crc::Crc::<u32>::new(&crc::CRC_32_ISCSI);
    let mut d = crc.digest();
    d.update(contents);
    d.update(&[ctype]);
    let mut out = contents.to_vec();
    out.push(ctype);
    out.extend_from_slice(&mask_crc(d.finalize()).to_le_bytes());
    out
}
fn varint(mut n: usize, out: &mut Vec<u8>) {
    while n >= 0x80 {
        out.push((n as u8) | 0x80);
        n >>= 7;
    }
    out.push(n as u8);
}
fn handle(off: usize, size: usize) -> Vec<u8> {
    let mut v = vec![];
    varint(off, &mut v);
    varint(size, &mut v);
    v
}
/// a block with one restart point per entry and no prefix sharing
fn simple_block(es: &[(Vec<u8>, Vec<u8>)]) -> Vec<u8> {
    let mut b = vec![];
    let mut rs = vec![];
    for (k, v) in es {
        rs.push(b.len() as u32);
        varint(0, &mut b);
        varint(k.len(), &mut b);
        varint(v.len(), &mut b);
        b.extend_from_slice(k);
        b.extend_from_slice(v);
    }
    if rs.is_empty() {
        rs.push(0);
    }
    for r in rs.iter() {
        b.extend_from_slice(&r.to_le_bytes());
    }
    b.extend_from_slice(&(rs.len() as u32).to_le_bytes());
    b
}
/// data blocks (raw contents, index key) + optional (metaindex key, raw filter block contents)
fn raw_table(blocks: &[(Vec<u8>, Vec<u8>)], index_vals: Option<Vec<Vec<u8>>>, filter: Option<(Vec<u8>, Vec<u8>)>) -> Vec<u8> {
    let mut f = vec![];
    let mut ix = vec![];
    for (i, (c, k)) in blocks.iter().enumerate() {
        let h = handle(f.len(), c.len());
        f.extend_from_slice(&raw_block(c, 0));
        let v = match &index_vals {
            Some(vs) => vs[i].clone(),
            None => h,
        };
        ix.push((k.clone(), v));
    }
    let mut meta = vec![];
    if let Some((name, fc)) = filter {
        let h = handle(f.len(), fc.len());
        f.extend_from_slice(&raw_block(&fc, 0));
        meta.push((name, h));
    }
    let mc = simple_block(&meta);
    let mh = handle(f.len(), mc.len());
    f.extend_from_slice(&raw_block(&mc, 0));
    let ic = simple_block(&ix);
    let ih = handle(f.len(), ic.len());
    f.extend_from_slice(&raw_block(&ic, 0));
    let mut foot = mh;
    foot.extend_from_slice(&ih);
    foot.resize(40, 0);
    foot.extend_from_slice(&[0x57, 0xfb, 0x80, 0x8b, 0x24, 0x75, 0x47, 0xdb]);
    f.extend_from_slice(&foot);
    f
}
fn e(k: &[u8], v: &[u8]) -> (Vec<u8>, Vec<u8>) {
    (k.to_vec(), v.to_vec())
}
/// exercise every reader entry point; Err only on a wrong answer (panics are caught by the caller)
fn exercise(img: Vec<u8>, probes: &[&[u8]]) -> R {
    let n = img.len();
    let t = match Table::new(Options::default(), Box::new(img), n) {
        Ok(t) => t,
        Err(_) => return Ok(()),
    };
    let mut it = t.iter();
    let mut c = 0;
    while it.advance() {
        c += 1;
        if c > 1000 {
            return Err("scan does not end".into());
        }
    }
    for p in probes {
        let _ = t.get(p);
        let _ = t.approx_offset_of(p);
        it.seek(p);
        let _ = current_key_val(&it);
        it.prev();
        let _ = current_key_val(&it);
        it.prev();
        it.advance();
    }
    it.reset();
    it.advance();
    it.advance();
    it.prev();
    it.prev();
    Ok(())
}
fn d18a() -> R {
    // data block whose only entry claims a 200 byte key
    let bad = vec![0u8, 200, 0, 0, 0, 0, 0, 1, 0, 0, 0];
    let good = simple_block(&[e(b"x", b"1")]);
    exercise(raw_table(&[(bad, b"m".to_vec()), (good, b"y".to_vec())], None, None), &[b"a", b"m", b"x", b"z"])
}
fn d18b() -> R {
    // an empty data block followed by a normal one: prev() from the second block's first entry
    let empty = simple_block(&[]);
    let good = simple_block(&[e(b"x", b"1")]);
    exercise(raw_table(&[(empty, b"m".to_vec()), (good, b"y".to_vec())], None, None), &[b"a", b"m", b"x", b"z"])
}
fn d18c() -> R {
    // index values that are not block handles
    let good = simple_block(&[e(b"x", b"1")]);
    exercise(
        raw_table(&[(good.clone(), b"m".to_vec()), (good, b"y".to_vec())], Some(vec![vec![0xff], vec![]]), None),
        &[b"a", b"m", b"x", b"z"],
    )
}
fn d18d() -> R {
    let good = simple_block(&[e(b"x", b"1")]);
    let name = b"filter.leveldb.BuiltinBloomFilter2".to_vec();
    for fc in [
        vec![1u8],                                  // shorter than the 5 byte trailer
        vec![0, 0, 0, 0, 200],                      // base_lg2 = 200
        vec![9, 9, 9, 9, 11],                       // offsets_offset beyond the block
        vec![6, 0, 0, 0, 0, 1, 0, 0, 0, 0, 0, 0, 0, 0, 11], // one filter consisting of `k` only
    ]
    .iter()
    {
        exercise(raw_table(&[(good.clone(), b"y".to_vec())], None, Some((name.clone(), fc.clone()))), &[b"a", b"x", b"z"])?;
    }
    Ok(())
}

/// D19: the bloom policy computed the number of filter bits in u32: a filter of 2^29 bytes or more made the
/// reader panic (overflow / remainder by zero) and the writer panic or wrap
fn d19a() -> R {
    use sstable::filter::{BloomPolicy, FilterPolicy};
    let p = BloomPolicy::new(10);
    for extra in [1usize, 2, 9].iter() {
        let mut f = vec![0u8; (1usize << 29) + extra];
        let n = f.len();
        f[n - 1] = 1;
        // all bits are zero: every key must be reported absent, without a panic
        if p.key_may_match(b"x", &f) {
            return Err(format!("a filter of 2^29+{} zero bytes reports may-match", extra));
        }
    }
    Ok(())
}
fn d19b() -> R {
    use sstable::filter::{BloomPolicy, FilterPolicy};
    let p = BloomPolicy::new(1 << 31);
    let f = p.create_filter(b"ab", &[0, 1]);
    if f.len() != (1usize << 29) + 1 {
        return Err(format!("filter of 2 keys at 2^31 bits per key has {} bytes", f.len()));
    }
    for k in [&b"a"[..], &b"b"[..]].iter() {
        if !p.key_may_match(k, &f) {
            return Err("a key that was added is rejected".into());
        }
    }
    Ok(())
}
/// D20: a block marked as snappy declares its uncompressed length in its first bytes; the decoder
/// allocates that much up front. A 5-byte block claiming 4 GiB made `Table::new` / `get` request 4 GiB:
/// with limited memory the process aborts. Run with the address space limited to 1 GiB.
fn d20() -> R {
    unsafe {
        let lim = libc::rlimit { rlim_cur: 1 << 30, rlim_max: 1 << 30 };
        libc::setrlimit(libc::RLIMIT_AS, &lim);
    }
    let bomb = vec![0xffu8, 0xff, 0xff, 0xff, 0x0f];
    // (1) the bomb as the index block (and metaindex block) of a 58-byte file
    let mut f = raw_block(&bomb, 1);
    let h = handle(0, bomb.len());
    let mut foot = h.clone();
    foot.extend_from_slice(&h);
    foot.resize(40, 0);
    foot.extend_from_slice(&[0x57, 0xfb, 0x80, 0x8b, 0x24, 0x75, 0x47, 0xdb]);
    f.extend_from_slice(&foot);
    let n = f.len();
    if Table::new(Options::default(), Box::new(f), n).is_ok() {
        return Err("a table whose index block is a 5-byte snappy stream claiming 4 GiB opens".into());
    }
    // (2) the bomb as a data block of an otherwise valid table: get / scan must report an error, not abort
    let good = simple_block(&[e(b"x", b"1")]);
    let mut f = vec![];
    let h0 = handle(0, bomb.len());
    f.extend_from_slice(&raw_block(&bomb, 1));
    let h1 = handle(f.len(), good.len());
    f.extend_from_slice(&raw_block(&good, 0));
    let mc = simple_block(&[]);
    let mh = handle(f.len(), mc.len());
    f.extend_from_slice(&raw_block(&mc, 0));
    let ic = simple_block(&[(b"m".to_vec(), h0), (b"y".to_vec(), h1)]);
    let ih = handle(f.len(), ic.len());
    f.extend_from_slice(&raw_block(&ic, 0));
    let mut foot = mh;
    foot.extend_from_slice(&ih);
    foot.resize(40, 0);
    foot.extend_from_slice(&[0x57, 0xfb, 0x80, 0x8b, 0x24, 0x75, 0x47, 0xdb]);
    f.extend_from_slice(&foot);
    exercise(f, &[b"a", b"x", b"z"])
}
/// D21: every cached `Block` held a clone of the `Options`, and with it a strong reference to the block
/// cache that holds the block: a reference cycle. A cache that had ever cached a block was never freed
/// (nor were its blocks) after the last table handle and the last `Options` were dropped.
fn d21() -> R {
    let opt = Options::default().with_cache_capacity(4);
    let weak = Arc::downgrade(&opt.block_cache);
    {
        let mut b = TableBuilder::new(opts(32, 2), Vec::new());
        for i in 0..20u8 {
            b.add(&[b'k', i], &[i; 9]).map_err(|e| format!("add: {:?}", e.code))?;
        }
        // the image is needed: build it again into a shared sink
        drop(b);
    }
    let img = build_image(32, 2, 20);
    let n = img.len();
    {
        let t = Table::new(opt.clone(), Box::new(img), n).map_err(|e| format!("open: {:?}", e.code))?;
        let mut it = t.iter();
        let mut seen = 0;
        while it.advance() {
            seen += 1;
        }
        if seen != 20 {
            return Err(format!("scan saw {} entries", seen));
        }
        let _ = t.get(&[b'k', 3]);
    }
    // table and iterator are gone: only `opt` may still hold the cache
    let holders = Arc::strong_count(&opt.block_cache);
    drop(opt);
    if weak.upgrade().is_some() {
        return Err(format!("the block cache (and every block in it) is never freed: {} strong references remained after the table was dropped, and the cache is still alive after the last Options was dropped", holders));
    }
    Ok(())
}
fn build_image(bs: usize, ri: usize, n: u8) -> Vec<u8> {
    use std::cell::RefCell;
    use std::rc::Rc;
    struct Sink(Rc<RefCell<Vec<u8>>>);
    impl std::io::Write for Sink {
        fn write(&mut self, b: &[u8]) -> std::io::Result<usize> {
            self.0.borrow_mut().extend_from_slice(b);
            Ok(b.len())
        }
        fn flush(&mut self) -> std::io::Result<()> {
            Ok(())
        }
    }
    let buf = Rc::new(RefCell::new(vec![]));
    let mut b = TableBuilder::new(opts(bs, ri), Sink(buf.clone()));
    for i in 0..n {
        b.add(&[b'k', i], &[i; 9]).unwrap();
    }
    b.finish().unwrap();
    let v = buf.borrow().clone();
    v
}

// ---- format-inherent findings (open): expected to be VIOLATED, listed in known_findings.txt ------
/// like raw_table, but every handle is shifted by `base` (the table will sit at offset `base` of a larger file)
fn raw_table_at(base: usize, blocks: &[(Vec<u8>, Vec<u8>)]) -> Vec<u8> {
    let mut f = vec![];
    let mut ix = vec![];
    for (c, k) in blocks.iter() {
        let h = handle(base + f.len(), c.len());
        f.extend_from_slice(&raw_block(c, 0));
        ix.push((k.clone(), h));
    }
    let mc = simple_block(&[]);
    let mh = handle(base + f.len(), mc.len());
    f.extend_from_slice(&raw_block(&mc, 0));
    let ic = simple_block(&ix);
    let ih = handle(base + f.len(), ic.len());
    f.extend_from_slice(&raw_block(&ic, 0));
    let mut foot = mh;
    foot.extend_from_slice(&ih);
    foot.resize(40, 0);
    foot.extend_from_slice(&[0x57, 0xfb, 0x80, 0x8b, 0x24, 0x75, 0x47, 0xdb]);
    f.extend_from_slice(&foot);
    f
}
/// F1 (C15): a value that embeds a complete table relocated to its own position makes one strict
/// prefix of the outer file a valid table
fn f1() -> R {
    // [shared=0][non_shared=1][valsize varint]["k"] precede the value: 4 bytes if the value is < 128 bytes, else 5
    let mut base = 4;
    let mut inner = raw_table_at(base, &[(simple_block(&[e(b"x", b"1")]), b"y".to_vec())]);
    if inner.len() >= 128 {
        base = 5;
        inner = raw_table_at(base, &[(simple_block(&[e(b"x", b"1")]), b"y".to_vec())]);
    }
    let mut o = opts(4096, 16);
    o.filter_policy = Arc::new(Box::new(NoFilterPolicy::new()));
    let img = build(&o, &[(b"k", &inner[..])]);
    let n = base + inner.len();
    if img[base..n] != inner[..] {
        return Ok(()); // layout assumption does not hold: finding not reproduced
    }
    match Table::new(o, Box::new(img[..n].to_vec()), n) {
        Ok(t) => Err(format!("strict prefix of length {} of a {} byte table opens as a table with {} entries", n, img.len(), scan(&t).len())),
        Err(_) => Ok(()),
    }
}
/// F4 (C19): for the single key equal to the last index key (above every stored key) the approximate
/// offset is the START of the last data block, not >= its end
fn f4() -> R {
    let o = opts(8, 16);
    let img = build(&o, &[(b"a", b"1"), (b"zzz", b"2")]);
    let t = open(&o, img);
    let last_start = t.approx_offset_of(b"zzz");
    let probe = t.approx_offset_of(b"zzz\0");
    if probe <= last_start {
        Err(format!("approx_offset_of(\"zzz\\0\") = {} = start of the last data block, although the key is above every stored key", probe))
    } else {
        Ok(())
    }
}
fn crc32c_of(b: &[u8]) -> u32 {
    let c = crc::Crc::<u32>::new(&crc::CRC_32_ISCSI);
    let mut d = c.digest();
    d.update(b);
    d.finalize()
}
/// F2 (C07): CRC-32C collisions are constructible: alter a value byte of a data block and patch 4
/// other bytes so that the checksum still matches; the reader then returns the altered value
fn f2() -> R {
    let o = opts(4096, 16);
    let val = vec![b'v'; 24];
    let img = build(&o, &[(b"key", &val[..])]);
    // first data block: contents end where the first trailer begins; locate by the value bytes
    let vpos = (0..img.len()).find(|&i| img[i..].starts_with(&val)).ok_or("layout")?;
    // block contents = img[0..bl], type byte at bl
    let t = open(&o, img.clone());
    let bl = t.approx_offset_of(b"zzzz") ; // metaindex/filter offset is beyond; find the trailer by scanning
    let _ = bl;
    // the data block is the first physical block: its length is given by the index; easier: try all lengths
    let mut blen = 0;
    for l in (vpos + val.len())..img.len() - 5 {
        let mut d = img[..l + 1].to_vec();
        let _ = &mut d;
        let stored = u32::from_le_bytes([img[l + 1], img[l + 2], img[l + 3], img[l + 4]]);
        if mask_crc(crc32c_of(&img[..l + 1])) == stored {
            blen = l;
            break;
        }
    }
    if blen == 0 {
        return Ok(());
    }
    let body = img[..blen + 1].to_vec();
    let target = crc32c_of(&body);
    // flip one value byte, then fix 4 other value bytes (32 unknown bits) by linear algebra over GF(2)
    let mut forged = body.clone();
    forged[vpos] ^= 0x01;
    let fix = vpos + 8; // 4 bytes we are free to change
    let base = crc32c_of(&forged);
    let want = base ^ target;
    // columns: effect of flipping bit j of the 4-byte window on the CRC (linear)
    let mut cols = [0u32; 32];
    for j in 0..32 {
        let mut x = forged.clone();
        x[fix + j / 8] ^= 1 << (j % 8);
        cols[j] = crc32c_of(&x) ^ base;
    }
    // gaussian elimination: find subset of columns xoring to `want`
    let mut basis: Vec<(u32, u32)> = vec![]; // (vector, mask of columns)
    for j in 0..32 {
        let (mut v, mut m) = (cols[j], 1u32 << j);
        for (bv, bm) in basis.iter() {
            if v & (1 << (31 - bv.leading_zeros())) != 0 {
                v ^= bv;
                m ^= bm;
            }
        }
        if v != 0 {
            basis.push((v, m));
            basis.sort_by(|a, b| b.0.cmp(&a.0));
        }
    }
    let (mut v, mut m) = (want, 0u32);
    for (bv, bm) in basis.iter() {
        if v & (1 << (31 - bv.leading_zeros())) != 0 {
            v ^= bv;
            m ^= bm;
        }
    }
    if v != 0 {
        return Ok(());
    }
    for j in 0..32 {
        if m & (1 << j) != 0 {
            forged[fix + j / 8] ^= 1 << (j % 8);
        }
    }
    if crc32c_of(&forged) != target {
        return Ok(());
    }
    let mut img2 = img.clone();
    img2[..blen + 1].copy_from_slice(&forged);
    let t2 = open(&o, img2);
    match t2.get(b"key") {
        Ok(Some(v)) if v != val => Err(format!("5 altered bytes pass the checksum; get(\"key\") returns an altered value ({} bytes differ)", v.iter().zip(val.iter()).filter(|(a, b)| a != b).count())),
        _ => Ok(()),
    }
}
/// F3 (C07): the footer is not integrity-protected: swapping its two handles type-confuses the
/// blocks and a stored key is reported absent
fn f3() -> R {
    let o = opts(4096, 16);
    let img = build(&o, &[(b"zzz", b"1")]);
    let n = img.len();
    // decode the two handles and write them back in swapped order
    use integer_encoding::VarInt;
    let foot = &img[n - 48..n - 8];
    let (a, la) = usize::decode_var(foot).ok_or("footer")?;
    let (b, lb) = usize::decode_var(&foot[la..]).ok_or("footer")?;
    let (c, lc) = usize::decode_var(&foot[la + lb..]).ok_or("footer")?;
    let (d, _) = usize::decode_var(&foot[la + lb + lc..]).ok_or("footer")?;
    let mut f = vec![];
    for x in [c, d, a, b].iter() {
        varint(*x, &mut f);
    }
    f.resize(40, 0);
    let mut img2 = img.clone();
    img2[n - 48..n - 8].copy_from_slice(&f);
    match Table::new(o, Box::new(img2), n) {
        Ok(t) => match t.get(b"zzz") {
            Ok(None) => Err("footer handles swapped: the table opens and get(\"zzz\") reports a stored key as absent".into()),
            _ => Ok(()),
        },
        Err(_) => Ok(()),
    }
}

const ALL: &[(&str, &str, fn() -> R)] = &[
    ("D1-display-recursion", "C20", d1),
    ("D2-snap-error-code", "C20", d2),
    ("D3-sep-prefix-zero", "C17", d3),
    ("D4-get-key-eq-separator", "C02", d4),
    ("D5-seek-between-last-and-sep", "C03", d5),
    ("D6-prev-off-front-duplicates", "C04", d6),
    ("D7-empty-key-invisible", "C01", d7),
    ("D8a-nofilter-get-panics", "C09", d8a),
    ("D8b-single-empty-key-filter", "C09", d8b),
    ("D9a-empty-block-prev-panics", "C04", d9a),
    ("D9b-empty-block-get-misses", "C02", d9b),
    ("D10a-dup-key-at-boundary", "C16", d10a),
    ("D10b-stale-order-check", "C16", d10b),
    ("D10c-empty-key-dup", "C16", d10c),
    ("D11-partial-write-ignored", "C13", d11),
    ("D12a-prefix-panics", "C15", d12a),
    ("D12b-bad-footer-panics", "C08", d12b),
    ("D13-huge-handle-alloc", "C08", d13),
    ("D14-filter-block-unchecked", "C07", d14),
    ("D15-advance-recursion", "C14", d15),
    ("D16a-cache-reinsert", "C11", d16a),
    ("D16b-cache-remove-middle", "C11", d16b),
    ("D16c-cache-remove-only", "C11", d16c),
    ("D17-foreign-filter-consulted", "C02", d17),
    ("D18a-malformed-entry-panics", "C08", d18a),
    ("D18b-empty-data-block-prev", "C08", d18b),
    ("D18c-index-value-not-a-handle", "C08", d18c),
    ("D18d-malformed-filter-block", "C08", d18d),
    ("D19a-bloom-reader-512mib-filter", "C08", d19a),
    ("D19b-bloom-writer-2pow32-bits", "C09", d19b),
    ("D20-snappy-length-bomb", "C08", d20),
    ("D21-cache-reference-cycle", "C11", d21),
    ("F1-embedded-table-prefix", "C15", f1),
    ("F2-crc-collision", "C07", f2),
    ("F3-footer-handles-swapped", "C07", f3),
    ("F4-last-separator-offset", "C19", f4),
];

fn main() {
    let args: Vec<String> = std::env::args().collect();
    match args.get(1).map(|s| s.as_str()) {
        Some("list") => {
            for (n, p, _) in ALL {
                println!("{} {}", n, p);
            }
        }
        Some("run") => {
            let name = &args[2];
            for (n, _, f) in ALL {
                if n == name {
                    if std::env::var("VERIF_PANIC_TRACE").is_err() { std::panic::set_hook(Box::new(|_| {})); }
                    let r = std::panic::catch_unwind(|| f());
                    match r {
                        Ok(Ok(())) => std::process::exit(0),
                        Ok(Err(m)) => {
                            println!("{}", m);
                            std::process::exit(1)
                        }
                        Err(_) => {
                            println!("panic");
                            std::process::exit(1)
                        }
                    }
                }
            }
            std::process::exit(3);
        }
        _ => {
            let only: Option<&String> = args.get(2);
            let exe = std::env::current_exe().unwrap();
            let mut bad = 0;
            for (n, p, _) in ALL {
                if let Some(o) = only {
                    if p != o {
                        continue;
                    }
                }
                let out = std::process::Command::new(&exe)
                    .args(&["run", n])
                    .env("RUST_MIN_STACK", "1048576")
                    .output()
                    .unwrap();
                let detail = String::from_utf8_lossy(&out.stdout).trim().replace('\n', " | ");
                if n.starts_with('F') {
                    match out.status.code() {
                        Some(1) => println!("{} {} OPEN-REPRODUCED {}", n, p, detail),
                        c => println!("{} {} OPEN-not-reproduced status={:?} {}", n, p, c, detail),
                    }
                    continue;
                }
                match out.status.code() {
                    Some(0) => println!("{} {} ok", n, p),
                    Some(1) => {
                        bad += 1;
                        println!("{} {} VIOLATED {}", n, p, detail)
                    }
                    c => {
                        bad += 1;
                        println!("{} {} VIOLATED crash status={:?} {}", n, p, c, detail)
                    }
                }
            }
            std::io::stdout().flush().unwrap();
            std::process::exit(if bad == 0 { 0 } else { 1 });
        }
    }
}
