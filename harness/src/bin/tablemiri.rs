//! Supporting run for C08 (NOT a proof): small valid, damaged and truncated tables are opened, scanned,
//! searched and probed through the public API; meant to be executed under Miri, which reports undefined
//! behaviour in the compiled code (out-of-bounds or unaligned reads in dependencies, use of uninitialised
//! buffers, invalid pointer use) even when it does not crash natively. Panics are caught and reported as
//! failures too (C08: no panic on any input).
use sstable::filter::{BloomPolicy, NoFilterPolicy};
use sstable::{CompressionType, Options, SSIterator, Table, TableBuilder};
use std::cell::RefCell;
use std::io::Write;
use std::rc::Rc;
use std::sync::Arc;

struct Sink(Rc<RefCell<Vec<u8>>>);
impl Write for Sink {
    fn write(&mut self, b: &[u8]) -> std::io::Result<usize> {
        self.0.borrow_mut().extend_from_slice(b);
        Ok(b.len())
    }
    fn flush(&mut self) -> std::io::Result<()> {
        Ok(())
    }
}

fn opts(bloom: bool, snappy: bool) -> Options {
    let mut o = Options::default().with_cache_capacity(2);
    o.block_size = 24;
    o.block_restart_interval = 2;
    o.compression_type = if snappy { CompressionType::CompressionSnappy } else { CompressionType::CompressionNone };
    o.filter_policy = if bloom { Arc::new(Box::new(BloomPolicy::new(10))) } else { Arc::new(Box::new(NoFilterPolicy::new())) };
    o
}

fn build(bloom: bool, snappy: bool) -> Vec<u8> {
    let buf = Rc::new(RefCell::new(vec![]));
    let mut b = TableBuilder::new(opts(bloom, snappy), Sink(buf.clone()));
    let keys: [&[u8]; 7] = [b"", b"a", b"ab", b"abc", b"b\xff", b"c", b"cc"];
    for (i, k) in keys.iter().enumerate() {
        b.add(k, &vec![i as u8; i % 4 * 5]).unwrap();
    }
    b.finish().unwrap();
    let v = buf.borrow().clone();
    v
}

fn exercise(img: &[u8], size: usize, bloom: bool) -> Result<usize, String> {
    let r = std::panic::catch_unwind(|| {
        let mut n = 0usize;
        let t = match Table::new(opts(bloom, false), Box::new(img.to_vec()), size) {
            Ok(t) => t,
            Err(_) => return 0,
        };
        let mut it = t.iter();
        while it.advance() {
            n += 1;
            if n > 100 {
                break;
            }
        }
        for k in [&b""[..], b"a", b"abb", b"b\xff", b"zz"].iter() {
            let _ = t.get(k);
            let _ = t.approx_offset_of(k);
            it.seek(k);
            let _ = it.valid();
            let (mut kk, mut vv) = (vec![1u8], vec![2u8]);
            let _ = it.current(&mut kk, &mut vv);
            let _ = it.prev();
            let _ = it.next();
        }
        it.reset();
        it.seek_to_first();
        n
    });
    r.map_err(|_| "panic".to_string())
}

fn main() {
    let args: Vec<String> = std::env::args().collect();
    let stride: usize = args.get(1).and_then(|s| s.parse().ok()).unwrap_or(9);
    let mut cases = 0u64;
    for (bloom, snappy) in [(true, false), (false, true)].iter() {
        let img = build(*bloom, *snappy);
        let n = img.len();
        match exercise(&img, n, *bloom) {
            Ok(7) => {}
            other => {
                println!("TABLEMIRI-FAIL intact table (bloom {} snappy {}): {:?}", bloom, snappy, other);
                std::process::exit(1);
            }
        }
        cases += 1;
        // single-byte damage (every `stride`-th offset, and every byte of the footer's first 12 bytes)
        let mut offs: Vec<usize> = (0..n).step_by(stride).collect();
        offs.extend(n - 48..n - 36);
        for off in offs {
            for mask in [0xffu8, 0x01].iter() {
                let mut im = img.clone();
                im[off] ^= mask;
                if let Err(e) = exercise(&im, n, *bloom) {
                    println!("TABLEMIRI-FAIL offset {} mask {:#x} (bloom {} snappy {}): {}", off, mask, bloom, snappy, e);
                    std::process::exit(1);
                }
                cases += 1;
            }
        }
        // prefixes and a declared size larger than the file
        for len in (0..n).step_by(stride * 2).chain([n - 1, 47, 48, 49].iter().cloned()) {
            if let Err(e) = exercise(&img[..len.min(n)], len.min(n), *bloom) {
                println!("TABLEMIRI-FAIL prefix {}: {}", len, e);
                std::process::exit(1);
            }
            cases += 1;
        }
        if let Err(e) = exercise(&img, n + 13, *bloom) {
            println!("TABLEMIRI-FAIL declared size too large: {}", e);
            std::process::exit(1);
        }
        cases += 1;
    }
    println!("TABLEMIRI-OK cases={}", cases);
}
