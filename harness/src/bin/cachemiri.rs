//! Supporting run for C11 (NOT a proof): the real `Cache` (raw-pointer intrusive list) is driven through
//! every history of a small scope plus seeded random histories; meant to be executed under Miri
//! (`cargo +nightly miri run --bin cachemiri`), which reports use-after-free, out-of-bounds and invalid
//! pointer use, double free and leaks in the compiled code — the part of C11 the heap model only stands for.
//! Also runs natively (then it only checks the LRU answers against a Vec-based oracle).
use sstable::verif::{Cache, CacheKey};

fn ckey(i: usize) -> CacheKey {
    let mut k = [0u8; 16];
    k[..8].copy_from_slice(&(i as u64).to_le_bytes());
    k
}

/// Vec-based LRU oracle (front = most recent)
struct Oracle {
    cap: usize,
    l: Vec<(usize, usize)>,
}
impl Oracle {
    fn insert(&mut self, k: usize, v: usize) {
        if let Some(p) = self.l.iter().position(|e| e.0 == k) {
            self.l.remove(p);
        } else if self.l.len() >= self.cap {
            self.l.pop();
        }
        self.l.insert(0, (k, v));
    }
    fn get(&mut self, k: usize) -> Option<usize> {
        let p = self.l.iter().position(|e| e.0 == k)?;
        let e = self.l.remove(p);
        self.l.insert(0, e);
        Some(e.1)
    }
    fn remove(&mut self, k: usize) -> Option<usize> {
        let p = self.l.iter().position(|e| e.0 == k)?;
        Some(self.l.remove(p).1)
    }
}

fn run(cap: usize, ops: &[(u8, usize)]) -> Result<(), String> {
    let mut c: Box<Cache<usize>> = Box::new(Cache::new(cap));
    let mut o = Oracle { cap, l: vec![] };
    for (j, (op, k)) in ops.iter().enumerate() {
        let v = 100 + j;
        match op {
            0 => {
                c.insert(&ckey(*k), v);
                o.insert(*k, v);
            }
            1 => {
                let a = c.get(&ckey(*k)).cloned();
                let b = o.get(*k);
                if a != b {
                    return Err(format!("get({}) = {:?}, LRU oracle {:?}", k, a, b));
                }
            }
            _ => {
                let a = c.remove(&ckey(*k));
                let b = o.remove(*k);
                if a != b {
                    return Err(format!("remove({}) = {:?}, LRU oracle {:?}", k, a, b));
                }
            }
        }
        if c.count() != o.l.len() {
            return Err(format!("count {} but {} live keys after op {}", c.count(), o.l.len(), j));
        }
        let (f, b, _keys, _) = c.verif_dump();
        let want: Vec<CacheKey> = o.l.iter().map(|e| ckey(e.0)).collect();
        let mut rev = want.clone();
        rev.reverse();
        if f != want || b != rev {
            return Err(format!("list order differs from the LRU oracle after op {}", j));
        }
    }
    Ok(())
}

fn main() {
    let args: Vec<String> = std::env::args().collect();
    let depth: u32 = args.get(1).and_then(|s| s.parse().ok()).unwrap_or(4);
    let random: usize = args.get(2).and_then(|s| s.parse().ok()).unwrap_or(200);
    let mut seed: u64 = args.get(3).and_then(|s| s.parse().ok()).unwrap_or(1);
    let alphabet: Vec<(u8, usize)> = (0..3u8).flat_map(|o| (0..3usize).map(move |k| (o, k))).collect();
    let a = alphabet.len();
    let mut n = 0u64;
    for cap in 1..=3usize {
        for code in 0..a.pow(depth) {
            let mut x = code;
            let ops: Vec<(u8, usize)> = (0..depth)
                .map(|_| {
                    let e = alphabet[x % a];
                    x /= a;
                    e
                })
                .collect();
            if let Err(e) = run(cap, &ops) {
                println!("CACHEMIRI-FAIL cap={} ops={:?}: {}", cap, ops, e);
                std::process::exit(1);
            }
            n += 1;
        }
    }
    let mut next = || {
        seed ^= seed << 13;
        seed ^= seed >> 7;
        seed ^= seed << 17;
        seed
    };
    for _ in 0..random {
        let cap = 1 + (next() % 4) as usize;
        let nk = 2 + (next() % 4) as usize;
        let len = 1 + (next() % 40) as usize;
        let ops: Vec<(u8, usize)> = (0..len).map(|_| ([0u8, 0, 0, 1, 1, 2][(next() % 6) as usize], (next() as usize) % nk)).collect();
        if let Err(e) = run(cap, &ops) {
            println!("CACHEMIRI-FAIL cap={} ops={:?}: {}", cap, ops, e);
            std::process::exit(1);
        }
        n += 1;
    }
    println!("CACHEMIRI-OK histories={}", n);
}
