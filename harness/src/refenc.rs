//! Reference encoder: writes LevelDB table files with free layout choices (restart subsets,
//! shared-prefix lengths 0..max, any separator in [last, next first), per-block compression, gaps
//! between blocks, filter base 2^8..2^14, no / foreign-named filter, extra metaindex keys).
//! Its output is only used after the independent Lean decoder accepted it and decoded it to the
//! intended entries, so the encoder itself is not trusted.
use crate::gen::*;
use crate::streams::{crc32c, flatten, ref_snappy};
use crate::util::*;
use sstable::filter::{BloomPolicy, FilterPolicy};
use sstable::verif::mask_crc;

pub fn varint(mut n: usize, out: &mut Vec<u8>) {
    while n >= 0x80 {
        out.push((n as u8) | 0x80);
        n >>= 7;
    }
    out.push(n as u8);
}
pub fn handle(off: usize, size: usize) -> Vec<u8> {
    let mut v = vec![];
    varint(off, &mut v);
    varint(size, &mut v);
    v
}
pub fn physical(contents: &[u8], ctype: u8) -> Vec<u8> {
    let mut with_type = contents.to_vec();
    with_type.push(ctype);
    let crc = mask_crc(crc32c(&with_type));
    with_type.extend_from_slice(&crc.to_le_bytes());
    with_type
}
fn lcp(a: &[u8], b: &[u8]) -> usize {
    a.iter().zip(b.iter()).take_while(|(x, y)| x == y).count()
}
/// a header number, occasionally (when `inflate`) encoded as `n + k * 2^32`: a value whose low 32 bits
/// are the right number but which is far beyond the block (a validator that truncates to 32 bits would
/// accept it, the iterator would then index out of range)
fn header_num(rng: &mut Rng, n: usize, inflate: bool, out: &mut Vec<u8>) {
    if inflate && rng.chance(1, 6) {
        let k = match rng.below(3) {
            0 => 1usize,
            1 => rng.range(1, 255),
            _ => 1usize << rng.range(0, 30),
        };
        varint(n.wrapping_add(k << 32), out);
    } else {
        varint(n, out);
    }
}
pub fn block_contents(rng: &mut Rng, es: &[(Vec<u8>, Vec<u8>)], free: bool) -> Vec<u8> {
    block_contents_x(rng, es, free, false)
}
/// block contents with random restart subset and sharing
pub fn block_contents_x(rng: &mut Rng, es: &[(Vec<u8>, Vec<u8>)], free: bool, inflate: bool) -> Vec<u8> {
    let mut b = vec![];
    let mut restarts: Vec<u32> = vec![];
    let mut prev: Vec<u8> = vec![];
    // restart density of this block: every ~3rd entry, every ~40th entry, or only the mandatory first one
    // (other producers use intervals far above this crate's default of 16)
    let density = *rng.pick(&[3usize, 3, 40, 0]);
    for (i, (k, v)) in es.iter().enumerate() {
        let restart = i == 0 || (free && density > 0 && rng.chance(1, density)) || (!free && i % 16 == 0);
        let shared = if restart {
            restarts.push(b.len() as u32);
            0
        } else {
            let m = lcp(&prev, k);
            if free {
                rng.below(m + 1)
            } else {
                m
            }
        };
        header_num(rng, shared, inflate, &mut b);
        header_num(rng, k.len() - shared, inflate, &mut b);
        header_num(rng, v.len(), inflate, &mut b);
        b.extend_from_slice(&k[shared..]);
        b.extend_from_slice(v);
        prev = k.clone();
    }
    if restarts.is_empty() {
        restarts.push(0);
    }
    for r in restarts.iter() {
        b.extend_from_slice(&r.to_le_bytes());
    }
    b.extend_from_slice(&(restarts.len() as u32).to_le_bytes());
    b
}

pub struct RefTable {
    pub img: Vec<u8>,
    /// (offset, size, entries) of the data blocks
    pub blocks: Vec<(usize, usize, Vec<(Vec<u8>, Vec<u8>)>)>,
    pub description: String,
}

#[derive(Clone, Debug, PartialEq)]
pub enum RefFilter {
    None,
    Bloom(u32, u32), // bits per key, base_lg
    Foreign,
}

/// `mutate`: damage block *contents* before they are checksummed (files for C08)
pub fn encode_table(rng: &mut Rng, cmp: &CmpKind, es: &[(Vec<u8>, Vec<u8>)], mutate: bool) -> RefTable {
    let mut img: Vec<u8> = vec![];
    let mut desc = vec![];
    // split into non-empty blocks
    let mut parts: Vec<Vec<(Vec<u8>, Vec<u8>)>> = vec![];
    let mut i = 0;
    while i < es.len() {
        let n = match rng.below(6) {
            0 => 1,
            1 => rng.range(1, 3),
            // long blocks: dozens of entries, possibly behind a single restart point (see block_contents_x)
            2 => rng.range(20, 70),
            _ => rng.range(1, 12),
        }
        .min(es.len() - i);
        parts.push(es[i..i + n].to_vec());
        i += n;
    }
    let damage = |rng: &mut Rng, c: &mut Vec<u8>| {
        if c.is_empty() {
            return;
        }
        match rng.below(5) {
            0 => {
                let p = rng.below(c.len());
                c[p] = rng.next() as u8
            }
            1 => c.truncate(rng.below(c.len() + 1)),
            2 => {
                let p = c.len() - 1 - rng.below(c.len().min(12));
                c[p] = rng.below(6) as u8
            }
            3 => {
                let p = rng.below(c.len());
                c[p] ^= 1 << rng.below(8)
            }
            _ => {
                let p = rng.below(c.len());
                c[p] = 0xff
            }
        }
    };
    let mut emit = |rng: &mut Rng, img: &mut Vec<u8>, contents: &[u8], allow_snappy: bool| -> (usize, usize) {
        if rng.chance(1, 5) {
            let g = rng.below(9);
            img.extend(rng.any_bytes(g));
        }
        let (data, ty) = if allow_snappy && rng.chance(1, 3) {
            if rng.chance(1, 2) {
                (ref_snappy(rng, contents), 1u8)
            } else {
                (snap::raw::Encoder::new().compress_vec(contents).unwrap(), 1u8)
            }
        } else {
            (contents.to_vec(), 0u8)
        };
        let off = img.len();
        img.extend_from_slice(&physical(&data, ty));
        (off, data.len())
    };
    // one table in five (filter-less or with a foreign filter, whose metaindex does not depend on block offsets)
    // puts the metaindex block - and the foreign filter block - BEFORE the data blocks: nothing in the format says
    // that meta blocks follow the data
    let filter_early: Option<RefFilter> = if !mutate && rng.chance(1, 5) { Some(if rng.chance(1, 2) { RefFilter::None } else { RefFilter::Foreign }) } else { None };
    let mut early_meta: Option<(usize, usize)> = None;
    if let Some(f) = &filter_early {
        let mut meta: Vec<(Vec<u8>, Vec<u8>)> = vec![];
        if let RefFilter::Foreign = f {
            let fb = vec![0u8, 0, 0, 0, 11];
            let (off, size) = emit(rng, &mut img, &fb, false);
            meta.push((b"filter.aaa.Foreign".to_vec(), handle(off, size)));
        }
        if rng.chance(1, 3) {
            meta.push((b"a.extra".to_vec(), vec![1, 2, 3]));
        }
        meta.sort();
        if *cmp == CmpKind::Reverse {
            meta.reverse();
        }
        let mc = block_contents(rng, &meta, true);
        early_meta = Some(emit(rng, &mut img, &mc, true));
        desc.push("meta-first".into());
    }
    // physical placement: usually in key order; one table in four places its data blocks in a shuffled order
    // (the format does not tie file order to key order)
    let mut order: Vec<usize> = (0..parts.len()).collect();
    if !mutate && parts.len() > 1 && rng.chance(1, 4) {
        for i in (1..order.len()).rev() {
            let j = rng.below(i + 1);
            order.swap(i, j);
        }
        desc.push("shuffled".into());
    }
    let mut placed: Vec<Option<(usize, usize)>> = vec![None; parts.len()];
    for bi in order.iter() {
        let part = &parts[*bi];
        let inflate = mutate && rng.chance(1, 3);
        let mut c = block_contents_x(rng, part, true, inflate);
        if mutate && rng.chance(1, 3) {
            damage(rng, &mut c);
        }
        placed[*bi] = Some(emit(rng, &mut img, &c, true));
    }
    let trailing = !mutate && rng.chance(1, 10);
    let mut blocks = vec![];
    let mut index: Vec<(Vec<u8>, Vec<u8>)> = vec![];
    for (bi, part) in parts.iter().enumerate() {
        let (off, size) = placed[bi].unwrap();
        blocks.push((off, size, part.clone()));
        let last = &part[part.len() - 1].0;
        let sep = match cmp {
            CmpKind::Reverse | CmpKind::LenFirst => last.clone(),
            CmpKind::Bytewise => {
                let next_first = parts.get(bi + 1).map(|p| p[0].0.clone());
                let mut cands: Vec<Vec<u8>> = vec![last.clone()];
                let mut l0 = last.clone();
                l0.push(0);
                let mut lf = last.clone();
                lf.push(0xff);
                let short = {
                    use sstable::Cmp;
                    match &next_first {
                        Some(nf) => sstable::DefaultCmp.find_shortest_sep(last, nf),
                        None => sstable::DefaultCmp.find_short_succ(last),
                    }
                };
                for c in [l0, lf, short].iter() {
                    let ok = match &next_first {
                        Some(nf) => c.as_slice() >= last.as_slice() && c.as_slice() < nf.as_slice(),
                        None => c.as_slice() >= last.as_slice(),
                    };
                    if ok {
                        cands.push(c.clone());
                    }
                }
                rng.pick(&cands).clone()
            }
        };
        let mut hv = handle(off, size);
        if trailing {
            // bytes after the handle inside an index value are ignored by readers
            let extra = rng.range(1, 3);
            hv.extend(rng.any_bytes(extra));
        }
        if mutate && rng.chance(1, 12) {
            damage(rng, &mut hv);
        }
        if mutate && rng.chance(1, 10) {
            // boundary handles: offset + size at the edge of usize
            let a = usize::MAX - rng.below(8);
            hv = match rng.below(5) {
                0 => handle(off, a - off),
                1 => handle(a, 0),
                2 => handle(a - size, size),
                // an offset that differs from the real one only above bit 40: anything derived from it and truncated
                // to 32 bits at ONE of its uses (a filter index, say) looks valid there and is out of range elsewhere
                _ => handle(off + (rng.range(1, 7) << rng.range(40, 60)), size),
            };
        }
        index.push((sep, hv));
    }
    desc.push(format!("blocks={}", parts.len()));
    // filter
    let filter = match &filter_early {
        Some(f) => f.clone(),
        None => match rng.below(4) {
            0 => RefFilter::None,
            1 => RefFilter::Foreign,
            _ => RefFilter::Bloom(*rng.pick(&[4u32, 10, 10, 16]), rng.range(8, 14) as u32),
        },
    };
    desc.push(format!("filter={:?}", filter));
    let mut meta: Vec<(Vec<u8>, Vec<u8>)> = vec![];
    match &filter {
        RefFilter::None => {}
        RefFilter::Foreign => {
            let fb = vec![0u8, 0, 0, 0, 11];
            let (off, size) = emit(rng, &mut img, &fb, false);
            meta.push((b"filter.aaa.Foreign".to_vec(), handle(off, size)));
        }
        RefFilter::Bloom(bits, base_lg) => {
            let pol = BloomPolicy::new(*bits);
            let mut filters: Vec<u8> = vec![];
            let mut offsets: Vec<u32> = vec![];
            let nfilters = blocks.iter().map(|b| (b.0 >> base_lg) + 1).max().unwrap_or(0);
            for fi in 0..nfilters {
                offsets.push(filters.len() as u32);
                let keys: Vec<Vec<u8>> = blocks.iter().filter(|b| (b.0 >> base_lg) == fi).flat_map(|b| b.2.iter().map(|e| e.0.clone())).collect();
                if !keys.is_empty() {
                    let (flat, offs) = flatten(&keys);
                    filters.extend(pol.create_filter(&flat, &offs));
                }
            }
            let array_start = filters.len() as u32;
            let mut fb = filters;
            for o in offsets {
                fb.extend_from_slice(&o.to_le_bytes());
            }
            if mutate && rng.chance(1, 4) {
                // 1..3 slack bytes between the offset array and the trailer: the array is no longer a whole number of
                // 4-byte entries, so "entry number num" (the end of the last filter) is read from garbage
                for _ in 0..rng.range(1, 3) {
                    fb.push(*rng.pick(&[0xffu8, 0x7f, 0x00, 0x09]));
                }
            }
            fb.extend_from_slice(&array_start.to_le_bytes());
            fb.push(*base_lg as u8);
            if mutate && rng.chance(1, 3) {
                damage(rng, &mut fb);
            }
            let (off, size) = emit(rng, &mut img, &fb, false);
            meta.push((b"filter.leveldb.BuiltinBloomFilter2".to_vec(), handle(off, size)));
        }
    }
    if rng.chance(1, 3) {
        meta.push((b"a.extra".to_vec(), vec![1, 2, 3]));
    }
    if rng.chance(1, 3) {
        meta.push((b"zzz.extra".to_vec(), vec![]));
    }
    if rng.chance(1, 4) {
        meta.push((b"filter.leveldb.BuiltinBloomFilter".to_vec(), handle(0, 0)));
    }
    if !mutate && !matches!(filter, RefFilter::Bloom(..)) && rng.chance(1, 3) {
        // a filter of ANOTHER policy whose name merely EXTENDS the bloom policy's name (it sorts right where a seek
        // for "filter.leveldb.BuiltinBloomFilter2" lands): bloom-shaped, all bits clear, so that a reader that attaches
        // it would report every key of the first 2 KiB as absent
        let mut fb = vec![0u8; 8];
        fb.push(6);
        fb.extend_from_slice(&0u32.to_le_bytes());
        fb.extend_from_slice(&9u32.to_le_bytes());
        fb.push(11);
        let (off, size) = emit(rng, &mut img, &fb, false);
        let name: &[u8] = if rng.chance(1, 2) { b"filter.leveldb.BuiltinBloomFilter2.blocked" } else { b"filter.leveldb.BuiltinBloomFilter20" };
        meta.push((name.to_vec(), handle(off, size)));
        desc.push("extension-named-foreign-filter".into());
    }
    meta.sort();
    if *cmp == CmpKind::Reverse {
        meta.reverse();
    }
    let mut mc = block_contents(rng, &meta, true);
    if mutate && rng.chance(1, 6) {
        damage(rng, &mut mc);
    }
    let (moff, msize) = match early_meta {
        Some(m) => m,
        None => emit(rng, &mut img, &mc, true),
    };
    let mut ic = block_contents(rng, &index, true);
    if mutate && rng.chance(1, 6) {
        damage(rng, &mut ic);
    }
    let (ioff, isize) = emit(rng, &mut img, &ic, true);
    if rng.chance(1, 5) {
        let g = rng.below(9);
        img.extend(rng.any_bytes(g));
    }
    let mut foot = handle(moff, msize);
    foot.extend_from_slice(&handle(ioff, isize));
    foot.resize(40, 0);
    foot.extend_from_slice(&[0x57, 0xfb, 0x80, 0x8b, 0x24, 0x75, 0x47, 0xdb]);
    img.extend_from_slice(&foot);
    RefTable { img, blocks, description: desc.join(" ") }
}
