//! Correspondence streams: each maps one Rust API surface to one model function (DESIGN §4.2).
use crate::gen::*;
use crate::util::*;
use integer_encoding::{FixedInt, VarInt};
use sstable::filter::{BloomPolicy, FilterPolicy};
use sstable::verif::*;
use sstable::{current_key_val, SSIterator, StatusCode, TableBuilder};
use std::io::Write;

pub fn dis(rep: &mut Report, stream: &str, req: &str, imp: &str, model: &str) {
    let cut = |s: &str| if s.len() > 600 { format!("{}…({} chars)", &s[..600], s.len()) } else { s.to_string() };
    rep.disagree(J::obj(vec![("stream", J::s(stream)), ("request", J::s(&cut(req))), ("impl", J::s(&cut(imp))), ("model", J::s(&cut(model)))]));
}

/// compare one request/response; returns true if equal
pub fn expect(d: &mut Driver, rep: &mut Report, stream: &str, req: &str, imp: &str) -> bool {
    let m = d.ask(req);
    if m != imp {
        dis(rep, stream, req, imp, &m);
        false
    } else {
        true
    }
}

// ------------------------------------------------------------------------------------------ S2
pub fn s2_codec(d: &mut Driver, rep: &mut Report, rng: &mut Rng, n: usize) {
    let mut vals: Vec<u64> = vec![0, 1, 127, 128, 255, 256, 16383, 16384, u32::MAX as u64, u64::MAX, u64::MAX - 1, 1 << 63];
    for k in 1..10 {
        let p = 1u64 << (7 * k);
        vals.extend_from_slice(&[p - 1, p, p + 1]);
    }
    for _ in 0..n {
        let bits = rng.below(64) + 1;
        vals.push(rng.next() >> (64 - bits));
    }
    for v in vals.iter() {
        let mut buf = [0u8; 10];
        let l = (*v as usize).encode_var(&mut buf);
        rep.case(&format!("varint {}", v), true);
        rep.count("s2_varint_enc");
        expect(d, rep, "S2 codec", &format!("varint_enc {}", v), &hex(&buf[..l]));
        let dec = usize::decode_var(&buf[..l]).map(|(x, n)| format!("{} {}", x, n)).unwrap_or("none".into());
        expect(d, rep, "S2 codec", &format!("varint_dec {}", hex(&buf[..l])), &dec);
        let v32 = *v as u32;
        let mut f = [0u8; 4];
        v32.encode_fixed(&mut f);
        expect(d, rep, "S2 codec", &format!("fixed32 {}", v), &hex(&f));
        expect(d, rep, "S2 codec", &format!("fixed32_dec {}", hex(&f)), &format!("{}", u32::decode_fixed(&f)));
        expect(d, rep, "S2 codec", &format!("mask {}", v32), &format!("{}", mask_crc(v32)));
        expect(d, rep, "S2 codec", &format!("unmask {}", v32), &format!("{}", unmask_crc(v32)));
    }
    // malformed / truncated / overlong varints
    for i in 0..n {
        let l = rng.below(13);
        let mut b: Vec<u8> = (0..l).map(|_| if rng.chance(3, 4) { (rng.next() as u8) | 0x80 } else { rng.next() as u8 & 0x7f }).collect();
        if i % 3 == 0 && !b.is_empty() {
            let p = b.len() - 1;
            b[p] &= 0x7f;
        }
        let dec = usize::decode_var(&b).map(|(x, n)| format!("{} {}", x, n)).unwrap_or("none".into());
        rep.case(&format!("varint_dec {}", hex(&b)), true);
        rep.count(if dec == "none" { "s2_varint_dec_none" } else { "s2_varint_dec_some" });
        expect(d, rep, "S2 codec", &format!("varint_dec {}", hex(&b)), &dec);
        // handles
        let hd = BlockHandle::try_decode(&b).map(|(h, n)| format!("{} {} {}", h.offset(), h.size(), n)).unwrap_or("none".into());
        rep.count(if hd == "none" { "s2_handle_dec_none" } else { "s2_handle_dec_some" });
        expect(d, rep, "S2 codec", &format!("handle_dec {}", hex(&b)), &hd);
    }
    for i in 0..n {
        let (o1, s1, o2, s2) = (*rng.pick(&vals) as usize, *rng.pick(&vals) as usize, *rng.pick(&vals) as usize, *rng.pick(&vals) as usize);
        let mut dst = [0u8; 32];
        let l = BlockHandle::new(o1, s1).encode_to(&mut dst);
        expect(d, rep, "S2 codec", &format!("handle_enc {} {}", o1, s1), &hex(&dst[..l]));
        let f = Footer::new(BlockHandle::new(o1, s1), BlockHandle::new(o2, s2));
        let mut buf = [0u8; 48];
        f.encode(&mut buf);
        rep.case(&format!("footer {} {} {} {}", o1, s1, o2, s2), true);
        expect(d, rep, "S2 codec", &format!("footer_enc {} {} {} {}", o1, s1, o2, s2), &hex(&buf));
        // decode: intact, damaged magic, damaged handles, short
        let mut fb = buf.to_vec();
        match i % 5 {
            1 => fb[40 + rng.below(8)] ^= 1 << rng.below(8),
            2 => {
                let p = rng.below(40);
                fb[p] = rng.next() as u8
            }
            3 => fb.truncate(rng.below(48)),
            4 => {
                for b in fb[..40].iter_mut() {
                    *b = 0xff
                }
            }
            _ => {}
        }
        let dec = Footer::try_decode(&fb)
            .map(|f| format!("{} {} {} {}", f.meta_index.offset(), f.meta_index.size(), f.index.offset(), f.index.size()))
            .unwrap_or("none".into());
        rep.count(if dec == "none" { "s2_footer_dec_none" } else { "s2_footer_dec_some" });
        expect(d, rep, "S2 codec", &format!("footer_dec {}", hex(&fb)), &dec);
    }
}

// ------------------------------------------------------------------------------------------ S3
pub fn crc32c(b: &[u8]) -> u32 {
    let c = crc::Crc::<u32>::new(&crc::CRC_32_ISCSI);
    let mut d = c.digest();
    d.update(b);
    d.finalize()
}
pub fn s3_crc(d: &mut Driver, rep: &mut Report, rng: &mut Rng, n: usize) {
    let mut cases: Vec<Vec<u8>> = vec![vec![], b"123456789".to_vec(), vec![0; 32], vec![0xff; 32], (0..32).collect()];
    for _ in 0..n {
        let l = match rng.below(4) {
            0 => rng.below(8),
            1 => rng.below(64),
            _ => rng.below(600),
        };
        cases.push(if rng.chance(1, 4) { rng.bytes(l, &[0, 0xff]) } else { rng.any_bytes(l) });
    }
    for c in cases {
        rep.case(&format!("crc {}", hex(&c)), true);
        rep.count("s3_crc");
        expect(d, rep, "S3 crc", &format!("crc {}", hex(&c)), &format!("{}", crc32c(&c)));
    }
}

// ------------------------------------------------------------------------------------------ S4
pub fn snap_dec(b: &[u8]) -> String {
    match snap::raw::Decoder::new().decompress_vec(b) {
        Ok(v) => format!("ok {}", hex(&v)),
        Err(_) => "err".into(),
    }
}
fn varint_vec(mut n: usize) -> Vec<u8> {
    let mut out = vec![];
    while n >= 0x80 {
        out.push((n as u8) | 0x80);
        n >>= 7;
    }
    out.push(n as u8);
    out
}
/// a reference snappy stream for `data` with random element choices (literals of all length
/// classes, copies with 1/2/4 byte offsets where a match exists)
pub fn ref_snappy(rng: &mut Rng, data: &[u8]) -> Vec<u8> {
    let mut out = varint_vec(data.len());
    let mut i = 0;
    while i < data.len() {
        // try a copy
        if i > 0 && rng.chance(1, 2) {
            let off = rng.range(1, i.min(70000));
            let maxlen = (data.len() - i).min(64);
            let mut l = 0;
            while l < maxlen && data[i + l - off] == data[i + l] {
                l += 1;
            }
            if l >= 1 {
                let kind = rng.below(3);
                if kind == 0 && l >= 4 && off < 2048 {
                    let l = l.min(11);
                    out.push((((off >> 8) as u8) << 5) | (((l - 4) as u8) << 2) | 1);
                    out.push(off as u8);
                    i += l;
                    continue;
                } else if kind == 1 && off < 65536 {
                    out.push((((l - 1) as u8) << 2) | 2);
                    out.extend_from_slice(&(off as u16).to_le_bytes());
                    i += l;
                    continue;
                } else if kind == 2 {
                    out.push((((l - 1) as u8) << 2) | 3);
                    out.extend_from_slice(&(off as u32).to_le_bytes());
                    i += l;
                    continue;
                }
            }
        }
        let cap = if rng.chance(1, 8) { 300 } else { 20 };
        let l = rng.range(1, (data.len() - i).min(cap));
        if l <= 60 && rng.chance(7, 8) {
            out.push(((l - 1) as u8) << 2);
        } else {
            let nb = if l - 1 < 256 { rng.range(1, 4) } else if l - 1 < 65536 { rng.range(2, 4) } else { 4 };
            out.push(((59 + nb) as u8) << 2);
            out.extend_from_slice(&((l - 1) as u32).to_le_bytes()[..nb]);
        }
        out.extend_from_slice(&data[i..i + l]);
        i += l;
    }
    out
}
pub fn s4_snappy(d: &mut Driver, rep: &mut Report, rng: &mut Rng, n: usize) {
    for i in 0..n {
        let l = match rng.below(4) {
            0 => rng.below(4),
            1 => rng.below(40),
            _ => rng.below(400),
        };
        let data: Vec<u8> = if rng.chance(1, 2) { rng.bytes(l, &[b'a', b'b', 0]) } else { rng.any_bytes(l) };
        let stream = match i % 4 {
            0 => snap::raw::Encoder::new().compress_vec(&data).unwrap(),
            1 | 2 => ref_snappy(rng, &data),
            _ => {
                // malformed: mutate a valid stream or random bytes
                let mut s = if rng.chance(1, 2) { ref_snappy(rng, &data) } else { rng.any_bytes(l.min(30)) };
                if !s.is_empty() {
                    match rng.below(3) {
                        0 => {
                            let p = rng.below(s.len());
                            s[p] = rng.next() as u8
                        }
                        1 => s.truncate(rng.below(s.len() + 1)),
                        _ => s.push(rng.next() as u8),
                    }
                }
                s
            }
        };
        let imp = snap_dec(&stream);
        rep.case(&format!("snappy {}", hex(&stream)), true);
        rep.count(if imp == "err" { "s4_snappy_err" } else { "s4_snappy_ok" });
        if i % 4 < 3 && imp != format!("ok {}", hex(&data)) {
            rep.disagree(J::obj(vec![("stream", J::s("S4 snappy")), ("what", J::s("real decoder does not invert the stream (harness reference encoder or snap encoder)")), ("data", J::s(&hex(&data))), ("stream_bytes", J::s(&hex(&stream)))]));
        }
        expect(d, rep, "S4 snappy", &format!("snappy_dec {}", hex(&stream)), &imp);
    }
}

// ------------------------------------------------------------------------------------------ S5
pub fn flatten(keys: &[Vec<u8>]) -> (Vec<u8>, Vec<usize>) {
    let mut flat = vec![];
    let mut offs = vec![];
    for k in keys {
        offs.push(flat.len());
        flat.extend_from_slice(k);
    }
    (flat, offs)
}
pub fn s5_bloom(d: &mut Driver, rep: &mut Report, rng: &mut Rng, n: usize, thorough: bool) {
    for bits in 0..=64u32 {
        let p = BloomPolicy::new(bits);
        rep.count("s5_k");
        expect(d, rep, "S5 bloom", &format!("bloom_k {}", bits), &format!("{}", p.verif_k()));
    }
    for bits in [100u32, 1000, 65535, 1 << 20, u32::MAX].iter() {
        let p = BloomPolicy::new(*bits);
        expect(d, rep, "S5 bloom", &format!("bloom_k {}", bits), &format!("{}", p.verif_k()));
    }
    let p10 = BloomPolicy::new(10);
    for _ in 0..n {
        let m = if rng.chance(1, 2) { 9 } else { 65 };
        let l = rng.below(m);
        let k = rng.any_bytes(l);
        rep.case(&format!("hash {}", hex(&k)), true);
        rep.count(&format!("s5_hash_len_mod4_{}", l % 4));
        expect(d, rep, "S5 bloom", &format!("bloom_hash {}", hex(&k)), &format!("{}", p10.verif_bloom_hash(&k)));
    }
    let sets = if thorough { n / 4 } else { n / 20 };
    for _ in 0..sets.max(5) {
        let bits = match rng.below(5) {
            0 => rng.below(65) as u32,
            1 => 0,
            2 => 4,
            3 => 16,
            _ => 10,
        };
        let nk = match rng.below(6) {
            0 => 0,
            1 => 1,
            2 => rng.below(8),
            5 if thorough => rng.below(2000),
            _ => rng.below(100),
        };
        let mut keys: Vec<Vec<u8>> = (0..nk)
            .map(|_| {
                let m = if rng.chance(1, 3) { 3 } else { 20 };
                let l = rng.below(m);
                rng.any_bytes(l)
            })
            .collect();
        if rng.chance(1, 4) && !keys.is_empty() {
            keys.push(vec![]);
            let dup = keys[0].clone();
            keys.push(dup);
        }
        let (flat, offs) = flatten(&keys);
        let wp = BloomPolicy::new(bits);
        let f = wp.create_filter(&flat, &offs);
        rep.case(&format!("filter {} {}", bits, hexlist(&keys)), true);
        rep.count("s5_create");
        // (members are judged on the implementation's own filter whether or not the model agrees with it)
        let _ = expect(d, rep, "S5 bloom", &format!("bloom_create {} {}", bits, hexlist(&keys)), &hex(&f));
        // membership: every key (with a reader of different bits_per_key), plus non-members
        let rp = BloomPolicy::new(rng.below(65) as u32);
        let mut probes: Vec<Vec<u8>> = keys.iter().take(20).cloned().collect();
        for _ in 0..10 {
            let l = rng.below(12);
            probes.push(rng.any_bytes(l));
        }
        for k in probes {
            let m = rp.key_may_match(&k, &f);
            rep.count(if m { "s5_match_true" } else { "s5_match_false" });
            if keys.contains(&k) && !m {
                rep.judge_fail(J::obj(vec![("stream", J::s("S5 bloom")), ("what", J::s("bloom filter rejects a key that was added")), ("bits_per_key", J::N(bits as i64)), ("keys", J::s(&hexlist(&keys))), ("key", J::s(&hex(&k))), ("filter", J::s(&hex(&f)))]));
            }
            expect(d, rep, "S5 bloom", &format!("bloom_match {} {}", hex(&k), hex(&f)), &format!("{}", m));
        }
        // the probe-count byte at and around its maximum (30): 29, 30, 31, 32, 255
        if !f.is_empty() {
            for kb in [29u8, 30, 31, 32, 255].iter() {
                let mut g = f.clone();
                let p = g.len() - 1;
                g[p] = *kb;
                for k in keys.iter().take(2).cloned().chain(std::iter::once(rng.any_bytes(3))) {
                    let m = guarded(|| rp.key_may_match(&k, &g)).map(|b| format!("{}", b)).unwrap_or("panic".into());
                    rep.count("s5_kbyte_boundary");
                    expect(d, rep, "S5 bloom", &format!("bloom_match {} {}", hex(&k), hex(&g)), &m);
                }
            }
        }
        // the crate's NoFilterPolicy called directly (the filter-block reader never calls it: its filters are empty)
        {
            let np = sstable::filter::NoFilterPolicy::new();
            let k = rng.any_bytes(3);
            let (flat2, offs2) = flatten(&keys);
            let nf = np.create_filter(&flat2, &offs2);
            rep.count("s5_nofilter_direct");
            if !nf.is_empty() || !np.key_may_match(&k, &nf) || !np.key_may_match(&k, &f) {
                rep.judge_fail(J::obj(vec![("stream", J::s("S5 bloom")), ("what", J::s("NoFilterPolicy creates a non-empty filter or rejects a key")), ("key", J::s(&hex(&k)))]));
            }
        }
        // damaged filters (k byte, length)
        let mut g = f.clone();
        if !g.is_empty() {
            let p = g.len() - 1;
            g[p] = rng.next() as u8;
            let k = rng.any_bytes(3);
            let m = guarded(|| rp.key_may_match(&k, &g)).map(|b| format!("{}", b)).unwrap_or("panic".into());
            expect(d, rep, "S5 bloom", &format!("bloom_match {} {}", hex(&k), hex(&g)), &m);
            g.truncate(rng.below(3));
            let m = guarded(|| rp.key_may_match(&k, &g)).map(|b| format!("{}", b)).unwrap_or("panic".into());
            expect(d, rep, "S5 bloom", &format!("bloom_match {} {}", hex(&k), hex(&g)), &m);
        }
    }
}

// ------------------------------------------------------------------------------------------ S6
#[derive(Clone, Debug)]
pub enum FbEv {
    Key(Vec<u8>),
    Start(usize),
}
pub fn fb_events_str(evs: &[FbEv]) -> String {
    if evs.is_empty() {
        return ".".into();
    }
    evs.iter()
        .map(|e| match e {
            FbEv::Key(k) => format!("k:{}", hex(k)),
            FbEv::Start(o) => format!("s:{}", o),
        })
        .collect::<Vec<_>>()
        .join(",")
}
/// run the real FilterBlockBuilder
pub fn fb_build_impl(pol: &PolKind, evs: &[FbEv]) -> Result<Vec<u8>, ()> {
    guarded(|| {
        let mut b = FilterBlockBuilder::new(pol.boxed());
        for e in evs {
            match e {
                FbEv::Key(k) => b.add_key(k),
                FbEv::Start(o) => b.start_block(*o),
            }
        }
        b.finish()
    })
}
pub fn fb_match_impl(pol: &PolKind, blk: &[u8], off: usize, key: &[u8]) -> String {
    guarded(|| {
        let r = FilterBlockReader::new_owned(pol.boxed(), blk.to_vec());
        r.key_may_match(off, key)
    })
    .map(|b| format!("ok {}", b))
    .unwrap_or("panic".into())
}
/// the table builder's call pattern: keys of block i are added, then start_block(next offset)
pub fn gen_fb_events(rng: &mut Rng, exact_multiples: bool) -> (Vec<FbEv>, Vec<(usize, Vec<Vec<u8>>)>) {
    // one event list in twelve is BIG: 20..60 blocks (more than 16 filters, offsets beyond 2^16, exact
    // multiples of 2^15), up to 150 keys in a block, some keys longer than 255 bytes
    let big = rng.chance(1, 12);
    let nblocks = if big { rng.range(20, 60) } else { rng.below(7) };
    let mut off = 0usize;
    let mut evs = vec![];
    let mut blocks = vec![];
    for bi in 0..nblocks {
        let nk = if big && rng.chance(1, 8) { rng.range(65, 150) } else if rng.chance(1, 6) { 1 } else { rng.range(1, 6) };
        let keys: Vec<Vec<u8>> = (0..nk).map(|j| if big && j == 0 && bi % 7 == 0 { let l = rng.range(256, 300); rng.bytes(l, &[b'L', 0xff, 0x00]) } else { gen_key(rng, None, 4) }).collect();
        for k in keys.iter() {
            evs.push(FbEv::Key(k.clone()));
        }
        blocks.push((off, keys));
        let size = match rng.below(6) {
            0 => rng.range(6, 40),
            1 => rng.range(40, 700),
            2 => rng.range(1900, 2200),
            3 => rng.range(4000, 9000),
            4 if exact_multiples => 2048 * rng.range(1, 3) - (off % 2048),
            // land exactly on the next multiple of 2^15
            5 if big && exact_multiples => 32768 - (off % 32768),
            _ => rng.range(100, 3000),
        };
        off += size;
        evs.push(FbEv::Start(off));
    }
    (evs, blocks)
}
pub fn s6_filterblock(d: &mut Driver, rep: &mut Report, rng: &mut Rng, n: usize) {
    // one block with thousands of keys: a single filter far longer than the 2 KiB range it belongs to
    for nk in [1700usize, 2600].iter() {
        let keys: Vec<Vec<u8>> = (0..*nk).map(|i| format!("k{:05}", i).into_bytes()).collect();
        let mut evs: Vec<FbEv> = keys.iter().map(|k| FbEv::Key(k.clone())).collect();
        evs.push(FbEv::Start(30000));
        let pol = PolKind::Bloom(10);
        if let Ok(blk) = fb_build_impl(&pol, &evs) {
            rep.count("s6_long_filter_blocks");
            for k in [keys[0].clone(), keys[*nk / 2].clone(), b"absent-1".to_vec(), b"absent-2".to_vec(), b"zz".to_vec()].iter() {
                let m = fb_match_impl(&pol, &blk, 0, k);
                if keys.contains(k) && m != "ok true" {
                    rep.judge_fail(J::obj(vec![("stream", J::s("S6 filterblock")), ("what", J::s("filter block denies a key added to the block at this offset")), ("keys_in_block", J::N(*nk as i64)), ("key", J::s(&hex(k))), ("impl", J::s(&m))]));
                }
                expect(d, rep, "S6 filterblock", &format!("fb_match {} {} {} {}", pol.name(), hex(&blk), 0, hex(k)), &m);
            }
        }
    }
    for i in 0..n {
        let pol = match rng.below(5) {
            0 => PolKind::NoFilter,
            1 => PolKind::FirstByte,
            2 => PolKind::Bloom(rng.below(30) as u32),
            _ => PolKind::Bloom(10),
        };
        let (mut evs, blocks) = gen_fb_events(rng, true);
        let legal = i % 10 != 9;
        if !legal {
            // arbitrary (possibly decreasing) offsets: start_block may panic
            for e in evs.iter_mut() {
                if let FbEv::Start(o) = e {
                    if rng.chance(1, 3) {
                        *o = rng.below(9000);
                    }
                }
            }
        }
        let req = format!("fb_build {} {}", pol.name(), fb_events_str(&evs));
        let imp = fb_build_impl(&pol, &evs);
        let imp_s = match &imp {
            Ok(b) => format!("ok {}", hex(b)),
            Err(_) => "panic".into(),
        };
        rep.case(&req, true);
        rep.count(if imp.is_ok() { "s6_build_ok" } else { "s6_build_panic" });
        rep.count(&format!("s6_blocks_{}", blocks.len()));
        // the judge runs on the implementation's own block whether or not the model agrees with it
        let agree = expect(d, rep, "S6 filterblock", &req, &imp_s);
        if let Ok(blk) = imp {
            if !legal {
                continue;
            }
            if !agree {
                for (off, keys) in blocks.iter() {
                    for k in keys {
                        let m = fb_match_impl(&pol, &blk, *off, k);
                        if m != "ok true" {
                            rep.judge_fail(J::obj(vec![("stream", J::s("S6 filterblock")), ("what", J::s("filter block denies a key added to the block at this offset")), ("policy", J::s(&pol.name())), ("events", J::s(&fb_events_str(&evs))), ("offset", J::N(*off as i64)), ("key", J::s(&hex(k))), ("impl", J::s(&m))]));
                        }
                    }
                }
                continue;
            }
            // every key of every block must match at its block's offset; other probes are compared only
            let rpol = match &pol {
                PolKind::Bloom(_) => PolKind::Bloom(rng.below(40) as u32),
                p => p.clone(),
            };
            for (off, keys) in blocks.iter() {
                for k in keys {
                    let m = fb_match_impl(&rpol, &blk, *off, k);
                    rep.count("s6_member_probe");
                    if m != "ok true" {
                        rep.judge_fail(J::obj(vec![("stream", J::s("S6 filterblock")), ("what", J::s("filter block denies a key added to the block at this offset")), ("policy", J::s(&pol.name())), ("events", J::s(&fb_events_str(&evs))), ("offset", J::N(*off as i64)), ("key", J::s(&hex(k))), ("impl", J::s(&m))]));
                    }
                    expect(d, rep, "S6 filterblock", &format!("fb_match {} {} {} {}", rpol.name(), hex(&blk), off, hex(k)), &m);
                }
                let k = gen_key(rng, None, 4);
                let o2 = if rng.chance(1, 2) { *off } else { rng.below(20000) };
                let m = fb_match_impl(&rpol, &blk, o2, &k);
                rep.count("s6_other_probe");
                expect(d, rep, "S6 filterblock", &format!("fb_match {} {} {} {}", rpol.name(), hex(&blk), o2, hex(&k)), &m);
            }
            // malformed block: only blocks that pass is_well_formed reach the reader in the crate
            let mut bad = blk.clone();
            match rng.below(3) {
                0 => {
                    let p = bad.len() - 1 - rng.below(5.min(bad.len()));
                    bad[p] = rng.next() as u8
                }
                1 => bad.truncate(rng.below(bad.len() + 1)),
                _ => {
                    let p = rng.below(bad.len());
                    bad[p] ^= 1 << rng.below(8)
                }
            }
            // boundary values of the trailer: base_lg2 in {0, 11, 63, 64, 65, 255}, offsets_offset at and around
            // its maximum (len-5)
            if i % 4 == 0 && blk.len() >= 6 {
                for (which, val) in [(0usize, 0usize), (0, 11), (0, 63), (0, 64), (0, 65), (0, 255), (1, blk.len() - 5), (1, blk.len() - 4), (1, blk.len() - 6), (1, 0)].iter() {
                    let mut b2 = blk.clone();
                    let n = b2.len();
                    if *which == 0 {
                        b2[n - 1] = *val as u8;
                    } else {
                        b2[n - 5..n - 1].copy_from_slice(&(*val as u32).to_le_bytes());
                    }
                    let wf2 = FilterBlockReader::is_well_formed(&b2);
                    rep.count("s6_boundary_trailer");
                    expect(d, rep, "S6 filterblock", &format!("fb_wf {}", hex(&b2)), &format!("{}", wf2));
                    if wf2 {
                        for o2 in [0usize, 2047, 2048, 1 << 20, usize::MAX >> 1, usize::MAX].iter() {
                            let k = gen_key(rng, None, 3);
                            let m = fb_match_impl(&rpol, &b2, *o2, &k);
                            if m == "panic" {
                                rep.judge_fail(J::obj(vec![("stream", J::s("S6 filterblock")), ("what", J::s("reader panics on a filter block that passed validation")), ("block", J::s(&hex(&b2))), ("offset", J::N(*o2 as i64)), ("key", J::s(&hex(&k)))]));
                            }
                            expect(d, rep, "S6 filterblock", &format!("fb_match {} {} {} {}", rpol.name(), hex(&b2), o2, hex(&k)), &m);
                        }
                    }
                }
            }
            let wf = FilterBlockReader::is_well_formed(&bad);
            rep.count(if wf { "s6_malformed_wf" } else { "s6_malformed_rejected" });
            expect(d, rep, "S6 filterblock", &format!("fb_wf {}", hex(&bad)), &format!("{}", wf));
            if wf {
                let k = gen_key(rng, None, 4);
                let o2 = rng.below(9000);
                let m = fb_match_impl(&rpol, &bad, o2, &k);
                if m == "panic" {
                    rep.judge_fail(J::obj(vec![("stream", J::s("S6 filterblock")), ("what", J::s("reader panics on a filter block that passed validation")), ("block", J::s(&hex(&bad))), ("offset", J::N(o2 as i64)), ("key", J::s(&hex(&k)))]));
                }
                expect(d, rep, "S6 filterblock", &format!("fb_match {} {} {} {}", rpol.name(), hex(&bad), o2, hex(&k)), &m);
            }
        }
    }
}

// ------------------------------------------------------------------------------------------ S7
pub fn bb_build_impl(cfg: &WCfg, es: &[(Vec<u8>, Vec<u8>)]) -> Result<(Vec<u8>, Vec<usize>, usize, Vec<u8>), ()> {
    guarded(|| {
        let mut b = BlockBuilder::new(cfg.options());
        let mut ests = vec![];
        for (k, v) in es {
            b.add(k, v);
            ests.push(b.size_estimate());
        }
        let n = b.entries();
        let lk = b.last_key().to_vec();
        (b.finish(), ests, n, lk)
    })
}
pub fn s7_blockbuilder(d: &mut Driver, rep: &mut Report, rng: &mut Rng, n: usize) -> Vec<(WCfg, Vec<(Vec<u8>, Vec<u8>)>, Vec<u8>)> {
    let mut built = vec![];
    for i in 0..n {
        let mut cfg = gen_wcfg(rng);
        if rng.chance(1, 20) {
            cfg.restart = 0;
        }
        let mut es = gen_entries(rng, &cfg.cmp, 12, 40);
        if i % 6 == 5 && es.len() >= 2 {
            // one order violation
            let p = rng.range(1, es.len() - 1);
            if rng.chance(1, 2) {
                es[p].0 = es[p - 1].0.clone();
            } else {
                es.swap(p - 1, p);
            }
        }
        let req = format!("bb_build {} {} {}", cfg.cmp.name(), cfg.restart, entries_str(&es));
        let imp = bb_build_impl(&cfg, &es);
        let imp_s = match &imp {
            Ok((b, ests, n, lk)) => format!("ok {} {} {} {}", hex(b), natlist(ests), n, hex(lk)),
            Err(_) => "panic".into(),
        };
        rep.case(&req, true);
        rep.count(if imp.is_ok() { "s7_build_ok" } else { "s7_build_panic" });
        if expect(d, rep, "S7 blockbuilder", &req, &imp_s) {
            if let Ok((b, _, _, _)) = imp {
                built.push((cfg, es, b));
            }
        }
    }
    built
}

// ------------------------------------------------------------------------------------------ S8
pub fn show_kv(e: &Option<(Vec<u8>, Vec<u8>)>) -> String {
    match e {
        Some((k, v)) => format!("{}={}", hex(k), hex(v)),
        None => "none".into(),
    }
}
fn bstate(it: &BlockIter) -> String {
    let (o, r, c, ix, k, v) = it.verif_state();
    format!("{}/{}/{}/{}/{}/{}", o, r, c, ix, hex(&k), v)
}
pub fn gen_block_ops(rng: &mut Rng, keys: &[Vec<u8>], n: usize) -> Vec<String> {
    let mut ops = vec![];
    for _ in 0..n {
        ops.push(match rng.below(14) {
            0 | 1 | 2 => "a".to_string(),
            3 | 4 => "n".to_string(),
            5 | 6 => "p".to_string(),
            7 => "r".to_string(),
            8 => "f".to_string(),
            9 => "l".to_string(),
            10 | 11 => {
                let k = if !keys.is_empty() && rng.chance(2, 3) {
                    let mut k = rng.pick(keys).clone();
                    match rng.below(4) {
                        0 => k.push(0),
                        1 => {
                            k.pop();
                        }
                        _ => {}
                    }
                    k
                } else {
                    gen_key(rng, None, 4)
                };
                format!("s:{}", hex(&k))
            }
            12 => "c".to_string(),
            _ => "k".to_string(),
        });
        if rng.chance(1, 3) {
            ops.push("v".into());
        }
        if rng.chance(1, 3) {
            ops.push("c".into());
        }
    }
    ops
}
pub fn block_ops_impl(cfg: &WCfg, blk: &[u8], ops: &[String]) -> String {
    let mut out = vec![];
    let it = guarded(|| Block::new(cfg.options(), blk.to_vec()).iter());
    let mut it = match it {
        Ok(it) => it,
        Err(_) => return "panic".into(),
    };
    out.push("ok".to_string());
    for op in ops {
        let r = guarded(|| {
            let parts: Vec<&str> = op.split(':').collect();
            match parts[0] {
                "a" => format!("{}", it.advance()),
                "n" => show_kv(&it.next()),
                "p" => format!("{}", it.prev()),
                "r" => {
                    it.reset();
                    "-".into()
                }
                "f" => {
                    it.seek_to_first();
                    "-".into()
                }
                "l" => {
                    it.seek_to_last();
                    "-".into()
                }
                "s" => {
                    it.seek(&unhex(parts[1]).unwrap());
                    "-".into()
                }
                "v" => format!("{}", it.valid()),
                "c" => { let a = dirty_current(&it); let b = current_key_val(&it); if a == b { show_kv(&a) } else { format!("current-with-recycled-buffers:{}/helper:{}", show_kv(&a), show_kv(&b)) } }
                "k" => it.current_key().map(|k| hex(k)).unwrap_or("none".into()),
                _ => "bad".into(),
            }
        });
        match r {
            Ok(s) => out.push(format!("{}@{}", s, bstate(&it))),
            Err(_) => {
                out.push("panic".into());
                break;
            }
        }
    }
    out.join(";")
}
pub fn s8_blockiter(d: &mut Driver, rep: &mut Report, rng: &mut Rng, blocks: &[(WCfg, Vec<(Vec<u8>, Vec<u8>)>, Vec<u8>)], nops: usize) {
    for (cfg, es, blk) in blocks {
        let keys: Vec<Vec<u8>> = es.iter().map(|e| e.0.clone()).collect();
        let ops = gen_block_ops(rng, &keys, nops);
        let wf = Block::is_well_formed(blk);
        expect(d, rep, "S8 blockiter", &format!("wf {}", hex(blk)), &format!("{}", wf));
        let req = format!("block_ops {} {} {}", cfg.cmp.name(), hex(blk), ops.join(","));
        let model = d.ask(&req);
        rep.case(&req, true);
        rep.count("s8_wellformed_blocks");
        if cfg.restart == 0 || model.contains("diverge") {
            rep.count("s8_skipped_model_diverges_or_restart0");
            continue;
        }
        let imp = block_ops_impl(cfg, blk, &ops);
        if imp != model {
            dis(rep, "S8 blockiter", &req, &imp, &model);
        }
        if wf && imp.contains("panic") {
            rep.judge_fail(J::obj(vec![("stream", J::s("S8 blockiter")), ("what", J::s("block iterator panics on a block that passed validation")), ("request", J::s(&req))]));
        }
        // malformed variant
        let mut bad = blk.clone();
        if bad.is_empty() {
            continue;
        }
        for _ in 0..rng.range(1, 2) {
            if bad.is_empty() {
                break;
            }
            match rng.below(4) {
                0 => {
                    let p = rng.below(bad.len());
                    bad[p] = rng.next() as u8
                }
                1 => {
                    let p = rng.below(bad.len());
                    bad[p] ^= 1 << rng.below(8)
                }
                2 => bad.truncate(rng.below(bad.len() + 1)),
                _ => {
                    let p = bad.len() - 1 - rng.below(bad.len().min(8));
                    bad[p] = rng.below(4) as u8
                }
            }
        }
        let wf = guarded(|| Block::is_well_formed(&bad)).map(|b| format!("{}", b)).unwrap_or("panic".into());
        rep.count(if wf == "true" { "s8_malformed_accepted_by_validation" } else { "s8_malformed_rejected" });
        if wf == "panic" {
            rep.judge_fail(J::obj(vec![("stream", J::s("S8 blockiter")), ("what", J::s("Block::is_well_formed panics")), ("block", J::s(&hex(&bad)))]));
        }
        expect(d, rep, "S8 blockiter", &format!("wf {}", hex(&bad)), &wf);
        if bad.len() <= 4 {
            continue;
        }
        let req = format!("block_ops {} {} {}", cfg.cmp.name(), hex(&bad), ops.join(","));
        let model = d.ask(&req);
        if model.contains("diverge") {
            rep.count("s8_skipped_model_diverges_or_restart0");
            continue;
        }
        let imp = block_ops_impl(cfg, &bad, &ops);
        rep.case(&req, true);
        if imp != model {
            dis(rep, "S8 blockiter", &req, &imp, &model);
        }
        if wf == "true" && imp.contains("panic") {
            rep.judge_fail(J::obj(vec![("stream", J::s("S8 blockiter")), ("what", J::s("block iterator panics on a block that passed validation")), ("request", J::s(&req))]));
        }
    }
}

// ------------------------------------------------------------------------------------------ S9
#[derive(Clone, Debug, PartialEq)]
pub enum SinkResp {
    Accept(usize),
    Interrupted,
    Error,
}
pub fn sched_str(s: &[SinkResp]) -> String {
    if s.is_empty() {
        return ".".into();
    }
    s.iter()
        .map(|r| match r {
            SinkResp::Accept(n) => n.to_string(),
            SinkResp::Interrupted => "i".into(),
            SinkResp::Error => "e".into(),
        })
        .collect::<Vec<_>>()
        .join(",")
}
/// a sink driven by a response schedule (one response per write/flush call; perfect afterwards)
pub struct SchedSink {
    pub sched: std::collections::VecDeque<SinkResp>,
    pub received: Vec<u8>,
    pub log: Vec<Option<Vec<u8>>>,
}
impl SchedSink {
    pub fn new(s: &[SinkResp]) -> SchedSink {
        SchedSink { sched: s.iter().cloned().collect(), received: vec![], log: vec![] }
    }
}
impl Write for SchedSink {
    fn write(&mut self, buf: &[u8]) -> std::io::Result<usize> {
        self.log.push(Some(buf.to_vec()));
        match self.sched.pop_front() {
            None => {
                self.received.extend_from_slice(buf);
                Ok(buf.len())
            }
            Some(SinkResp::Accept(n)) => {
                let n = n.min(buf.len());
                self.received.extend_from_slice(&buf[..n]);
                Ok(n)
            }
            Some(SinkResp::Interrupted) => Err(std::io::Error::new(std::io::ErrorKind::Interrupted, "interrupted")),
            Some(SinkResp::Error) => Err(std::io::Error::new(std::io::ErrorKind::Other, "sink failed")),
        }
    }
    fn flush(&mut self) -> std::io::Result<()> {
        self.log.push(None);
        match self.sched.pop_front() {
            None | Some(SinkResp::Accept(_)) => Ok(()),
            Some(SinkResp::Interrupted) => Err(std::io::Error::new(std::io::ErrorKind::Interrupted, "interrupted")),
            Some(SinkResp::Error) => Err(std::io::Error::new(std::io::ErrorKind::Other, "sink failed")),
        }
    }
}
pub struct BuildOut {
    pub result: String,
    pub received: Vec<u8>,
    pub log: Vec<Option<Vec<u8>>>,
    pub finish_ok: Option<usize>,
    pub entries: usize,
}
pub fn code_name(c: &StatusCode) -> String {
    format!("{:?}", c)
}
/// run the real TableBuilder against a scheduled sink
pub fn tb_build_impl(cfg: &WCfg, es: &[(Vec<u8>, Vec<u8>)], sched: &[SinkResp]) -> BuildOut {
    let mut sink = SchedSink::new(sched);
    let mut finish_ok = None;
    let mut entries = 0;
    let result = {
        let sink_ref = &mut sink;
        let r = guarded(|| {
            let mut b = TableBuilder::new(cfg.options(), sink_ref);
            for (i, (k, v)) in es.iter().enumerate() {
                let r = guarded(|| b.add(k, v));
                match r {
                    Ok(Ok(())) => {}
                    Ok(Err(e)) => return format!("add-err {} {}", i, code_name(&e.code)),
                    Err(_) => return format!("add-panic {}", i),
                }
            }
            entries = b.entries();
            match guarded(|| b.finish()) {
                Ok(Ok(n)) => {
                    finish_ok = Some(n);
                    format!("finish-ok {} {}", n, entries)
                }
                Ok(Err(e)) => format!("finish-err {}", code_name(&e.code)),
                Err(_) => "finish-panic".into(),
            }
        });
        r.unwrap_or("panic".into())
    };
    BuildOut { result, received: sink.received, log: sink.log, finish_ok, entries }
}
pub fn log_str(log: &[Option<Vec<u8>>]) -> String {
    if log.is_empty() {
        return ".".into();
    }
    log.iter().map(|e| e.as_ref().map(|b| hex(b)).unwrap_or("F".into())).collect::<Vec<_>>().join(",")
}
/// the compressor table: every snappy block the implementation wrote (first write of a
/// data/type/crc triple followed by the type byte 1), decompressed by the real decoder
pub fn comp_table(log: &[Option<Vec<u8>>]) -> String {
    let mut pairs = vec![];
    let bufs: Vec<&Vec<u8>> = log.iter().filter_map(|e| e.as_ref()).collect();
    for i in 0..bufs.len() {
        if i + 1 < bufs.len() && bufs[i + 1].len() == 1 && bufs[i + 1][0] == 1 {
            if let Ok(raw) = snap::raw::Decoder::new().decompress_vec(bufs[i]) {
                pairs.push(format!("{}:{}", hex(&raw), hex(bufs[i])));
            }
        }
    }
    if pairs.is_empty() {
        ".".into()
    } else {
        pairs.join(",")
    }
}
pub fn tb_request(cfg: &WCfg, es: &[(Vec<u8>, Vec<u8>)], comp: &str, sched: &[SinkResp]) -> String {
    format!(
        "tb_build {} {} {} {} {} {} {} {}",
        cfg.cmp.name(),
        cfg.block_size,
        cfg.restart,
        if cfg.snappy { 1 } else { 0 },
        cfg.pol.name(),
        comp,
        entries_str(es),
        sched_str(sched)
    )
}
/// perfect-sink build on both sides; returns the image when they agree
pub fn s9_build(d: &mut Driver, rep: &mut Report, cfg: &WCfg, es: &[(Vec<u8>, Vec<u8>)]) -> Option<Vec<u8>> {
    let out = tb_build_impl(cfg, es, &[]);
    let comp = if cfg.snappy { comp_table(&out.log) } else { ".".into() };
    let req = tb_request(cfg, es, &comp, &[]);
    let imp = format!("{} {} {}", out.result, hex(&out.received), log_str(&out.log));
    if expect(d, rep, "S9 tablebuilder", &req, &imp) && out.finish_ok.is_some() {
        Some(out.received)
    } else if out.finish_ok.is_some() {
        Some(out.received)
    } else {
        None
    }
}

// ------------------------------------------------------------------------------------------ S11
pub fn ckey(i: usize) -> CacheKey {
    let mut k = [0u8; 16];
    k[..8].copy_from_slice(&(i as u64).to_le_bytes());
    k
}
pub fn ckey_num(k: &CacheKey) -> String {
    if *k == [0xee; 16] {
        return "X".into();
    }
    let mut b = [0u8; 8];
    b.copy_from_slice(&k[..8]);
    u64::from_le_bytes(b).to_string()
}
/// ops: ("i",k,v) ("g",k,_) ("r",k,_)
pub fn cache_ops_impl(cap: usize, ops: &[(char, usize, usize)]) -> String {
    let mut out = vec!["ok".to_string()];
    // boxed: the list head must not move after the first insert
    let mut c: Box<Cache<usize>> = Box::new(Cache::new(cap));
    for (op, k, v) in ops {
        let r = guarded(|| match op {
            'i' => {
                c.insert(&ckey(*k), *v);
                "-".to_string()
            }
            'g' => c.get(&ckey(*k)).map(|x| x.to_string()).unwrap_or("none".into()),
            _ => c.remove(&ckey(*k)).map(|x| x.to_string()).unwrap_or("none".into()),
        });
        match r {
            Ok(s) => {
                let (f, b, keys, _) = c.verif_dump();
                let show = |l: &Vec<CacheKey>, sep: &str| if l.is_empty() { ".".to_string() } else { l.iter().map(ckey_num).collect::<Vec<_>>().join(sep) };
                out.push(format!("{}@{}@{}@{}@{}", s, c.count(), show(&f, "/"), show(&b, "/"), show(&keys, ",")));
            }
            Err(_) => {
                out.push("panic".into());
                // the cache may be in an inconsistent state: do not drop it
                std::mem::forget(c);
                return out.join(";");
            }
        }
    }
    out.join(";")
}
pub fn cache_ops_str(ops: &[(char, usize, usize)]) -> String {
    if ops.is_empty() {
        return ".".into();
    }
    ops.iter().map(|(o, k, v)| if *o == 'i' { format!("i:{}:{}", k, v) } else { format!("{}:{}", o, k) }).collect::<Vec<_>>().join(",")
}

// ------------------------------------------------------------------------------------------ S12
pub fn io_kinds() -> Vec<(&'static str, std::io::ErrorKind)> {
    use std::io::ErrorKind::*;
    vec![
        ("NotFound", NotFound),
        ("PermissionDenied", PermissionDenied),
        ("ConnectionRefused", ConnectionRefused),
        ("ConnectionReset", ConnectionReset),
        ("ConnectionAborted", ConnectionAborted),
        ("NotConnected", NotConnected),
        ("AddrInUse", AddrInUse),
        ("AddrNotAvailable", AddrNotAvailable),
        ("BrokenPipe", BrokenPipe),
        ("AlreadyExists", AlreadyExists),
        ("WouldBlock", WouldBlock),
        ("InvalidInput", InvalidInput),
        ("InvalidData", InvalidData),
        ("TimedOut", TimedOut),
        ("WriteZero", WriteZero),
        ("Interrupted", Interrupted),
        ("Unsupported", Unsupported),
        ("UnexpectedEof", UnexpectedEof),
        ("OutOfMemory", OutOfMemory),
        ("Other", Other),
    ]
}
pub fn all_codes() -> Vec<StatusCode> {
    use StatusCode::*;
    vec![OK, AlreadyExists, Corruption, CompressionError, IOError, InvalidArgument, InvalidData, LockError, NotFound, NotSupported, PermissionDenied, Unknown]
}
#[allow(dead_code)]
pub fn policy_dyn(p: &PolKind) -> Box<dyn FilterPolicy> {
    match p {
        PolKind::Bloom(b) => Box::new(BloomPolicy::new(*b)),
        _ => Box::new(sstable::filter::NoFilterPolicy::new()),
    }
}
