import SstModel.Generated.Consts
import SstModel.Model.Basic
import SstModel.Model.Cmp
import SstModel.Lemmas.Order
import SstModel.Spec.Judge
