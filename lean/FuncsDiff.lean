import SstModel.Generated.Funcs
import SstModel.Model.Filter
import SstModel.Model.Cmp
import SstModel.Model.Block
import SstModel.Model.BlockBuilder
import SstModel.Spec.Judge
import Driver.Proto
/-
  Search for a concrete input when a function-level tie theorem (Props/FuncsTie/*) no longer checks:
  the regenerated translations (Sst.Gen.*) are run against the hand-written model functions on a battery
  of inputs (exhaustive small scope + structured long inputs), and, where the property has an executable
  judge (C17), the TRANSLATION's own answers are judged.  Run: `lake env lean --run FuncsDiff.lean`.
  Output lines:
     DIFF <function> <input> gen=<..> model=<..>        the translation differs from the model
     JUDGE <function> <input> <what>                     the translated code violates the Spec judge
     SUMMARY evaluations=<n> diffs=<n> judge_failures=<n>
  This is a search, not a proof: it only serves to turn a broken tie into a replayable input.
-/
open Sst

def hx (b : Bytes) : String := Proto.hexOfBytes b

def showRes {α} (f : α → String) : Res α → String
  | .ok a => f a
  | .err _ => "err"
  | .panic s => "panic(" ++ s ++ ")"
  | .diverge => "diverge"

def strings (alpha : List UInt8) : Nat → List Bytes
  | 0 => [[]]
  | n + 1 =>
    let prev := strings alpha n
    prev ++ (prev.filter (·.length = n)).flatMap (fun s => alpha.map (fun a => s ++ [a]))

def longOnes : List Bytes :=
  let lens := [7, 8, 9, 127, 128, 129, 255, 256, 257, 300, 600]
  lens.flatMap (fun n =>
    [List.replicate n 0x61, List.replicate n 0xff, List.replicate n 0x00,
     List.replicate n 0x61 ++ [0x62], List.replicate n 0xff ++ [0x01], List.replicate (n - 1) 0x61 ++ [0xff, 0x05],
     (List.range n).map (fun i => UInt8.ofNat (i * 7 + 3))])

structure DAcc where
  evals : Nat := 0
  diffs : Nat := 0
  judge : Nat := 0
  shown : Nat := 0

def report (acc : DAcc) (line : String) : IO DAcc := do
  if acc.shown < 40 then IO.println line
  pure { acc with shown := acc.shown + 1 }

def checkPair (acc : DAcc) (a b : Bytes) : IO DAcc := do
  let fuel := a.length + b.length + 300
  let mut acc := { acc with evals := acc.evals + 1 }
  let g := Gen.find_shortest_sep fuel a b
  let m := DefaultCmp.findShortestSep a b
  let gs := Gen.find_short_succ fuel a
  let ms := DefaultCmp.findShortSucc a
  if cmpBytes a b ≠ .gt then
    match g with
    | .ok s => if s ≠ m then
        acc ← report { acc with diffs := acc.diffs + 1 } s!"DIFF find_shortest_sep {hx a} {hx b} gen={hx s} model={hx m}"
    | r => acc ← report { acc with diffs := acc.diffs + 1 } s!"DIFF find_shortest_sep {hx a} {hx b} gen={showRes hx r} model={hx m}"
  match gs with
  | .ok s => if s ≠ ms then
      acc ← report { acc with diffs := acc.diffs + 1 } s!"DIFF find_short_succ {hx a} gen={hx s} model={hx ms}"
  | r => acc ← report { acc with diffs := acc.diffs + 1 } s!"DIFF find_short_succ {hx a} gen={showRes hx r} model={hx ms}"
  if !(Judge.c17 a b g.toOption gs.toOption) then
    acc ← report { acc with judge := acc.judge + 1 }
      s!"JUDGE c17 {hx a} {hx b} translated code answers sep={showRes hx g} succ={showRes hx gs}: bracket conditions violated"
  pure acc

def checkHash (acc : DAcc) (d : Bytes) : IO DAcc := do
  let mut acc := { acc with evals := acc.evals + 1 }
  let g := Gen.bloom_hash (d.length + 10) d
  let m := Bloom.bloomHash d
  match g with
  | .ok h => if h ≠ m then
      acc ← report { acc with diffs := acc.diffs + 1 } s!"DIFF bloom_hash {hx d} gen={h} model={m}"
  | r => acc ← report { acc with diffs := acc.diffs + 1 } s!"DIFF bloom_hash {hx d} gen={showRes toString r} model={m}"
  pure acc

def checkMatch (acc : DAcc) (key filter : Bytes) (member : Bool) : IO DAcc := do
  let mut acc := { acc with evals := acc.evals + 1 }
  let g := Gen.bloom_key_may_match (key.length + 300) key filter
  let m := Bloom.keyMayMatch key filter
  match g with
  | .ok r => if r ≠ m then
      acc ← report { acc with diffs := acc.diffs + 1 } s!"DIFF bloom_key_may_match key={hx key} filter={hx filter} gen={r} model={m}"
  | r => acc ← report { acc with diffs := acc.diffs + 1 } s!"DIFF bloom_key_may_match key={hx key} filter={hx filter} gen={showRes toString r} model={m}"
  if member && g.toOption ≠ some true then
    acc ← report { acc with judge := acc.judge + 1 }
      s!"JUDGE c09 key={hx key} filter={hx filter} the translated key_may_match denies a key the filter was built from"
  pure acc

def checkU32 (acc : DAcc) (c : Nat) : IO DAcc := do
  let mut acc := { acc with evals := acc.evals + 1 }
  if Gen.mask_crc c |>.toOption |> (· ≠ some (maskCrc c)) then
    acc ← report { acc with diffs := acc.diffs + 1 } s!"DIFF mask_crc {c} gen={showRes toString (Gen.mask_crc c)} model={maskCrc c}"
  if Gen.unmask_crc c |>.toOption |> (· ≠ some (unmaskCrc c)) then
    acc ← report { acc with diffs := acc.diffs + 1 } s!"DIFF unmask_crc {c} gen={showRes toString (Gen.unmask_crc c)} model={unmaskCrc c}"
  match Gen.mask_crc c with
  | .ok mc => if Gen.unmask_crc mc |>.toOption |> (· ≠ some c) then
      acc ← report { acc with judge := acc.judge + 1 } s!"JUDGE c07 mask_crc/unmask_crc of {c}: the translated pair is not a round trip"
  | _ => pure ()
  pure acc

def checkIndex (acc : DAcc) (off b : Nat) : IO DAcc := do
  let mut acc := { acc with evals := acc.evals + 1 }
  let g := Gen.get_filter_index off b
  let m := FilterBlockBuilder.filterIndex off b
  if b < 64 then
    if g.toOption ≠ some m then
      acc ← report { acc with diffs := acc.diffs + 1 } s!"DIFF get_filter_index {off} {b} gen={showRes toString g} model={m}"
  pure acc

/-- outcome up to the panic-site text -/
def cls {α} [BEq α] (a b : Res α) : Bool :=
  match a, b with
  | .ok x, .ok y => x == y
  | .panic _, .panic _ => true
  | .err c, .err d => decide (c = d)
  | .diverge, .diverge => true
  | _, _ => false

instance : BEq BlockIter where
  beq a b := a.block == b.block && a.restartsOff == b.restartsOff && a.offset == b.offset && a.curEntryOff == b.curEntryOff
    && a.curRestartIx == b.curRestartIx && a.key == b.key && a.valOffset == b.valOffset

/-- walk a block forward with the translated and the model `advance` in lock step, then backward with `prev`, and
    compare `seek_to_last`, `seek_to_restart_point` -/
def checkBlock (acc : DAcc) (contents : Bytes) : IO DAcc := do
  let mut acc := { acc with evals := acc.evals + 1 }
  let gw := Gen.block_is_well_formed (contents.length + 10) contents
  if gw.toOption ≠ some (Block.isWellFormed contents) then
    acc ← report { acc with diffs := acc.diffs + 1 } s!"DIFF block_is_well_formed block={hx contents} gen={showRes toString gw} model={Block.isWellFormed contents}"
  match Block.iter contents with
  | .ok it0 =>
    let fuel := contents.length * 2 + 40
    let mut it := it0
    for _ in [0:40] do
      acc := { acc with evals := acc.evals + 1 }
      let g := Gen.bi_advance fuel it
      let m := it.advance
      if !(cls g m) then
        acc ← report { acc with diffs := acc.diffs + 1 } s!"DIFF bi_advance block={hx contents} offset={it.offset} gen={showRes (fun p => toString p.2) g} model={showRes (fun p => toString p.2) m}"
      match m with
      | .ok (it', true) =>
        it := it'
        let gp := Gen.bi_prev fuel it'
        let mp := it'.prev
        acc := { acc with evals := acc.evals + 1 }
        if mp.isOk || mp.isPanic then
          if !(cls gp mp) then
            acc ← report { acc with diffs := acc.diffs + 1 } s!"DIFF bi_prev block={hx contents} entry_offset={it'.curEntryOff} gen={showRes (fun p => toString p.2) gp} model={showRes (fun p => toString p.2) mp}"
      | _ => break
    let gl := Gen.bi_seek_to_last fuel it0
    let ml := it0.seekToLast
    acc := { acc with evals := acc.evals + 1 }
    if (ml.isOk || ml.isPanic) && !(cls gl ml) then
      acc ← report { acc with diffs := acc.diffs + 1 } s!"DIFF bi_seek_to_last block={hx contents}"
    for t in [[], [0x61], [0x61, 0x62], [0x61, 0x62, 0x63, 0x00], [0x62], [0x6b, 0x30, 0x35], [0x6b, 0x31, 0x39], [0x6b, 0x31, 0x39, 0x00], [0x7a], List.replicate 130 0x61] do
      acc := { acc with evals := acc.evals + 1 }
      let gs := Gen.bi_seek fuel defaultCmp it0 t
      let msk := it0.seek defaultCmp t
      if (msk.isOk || msk.isPanic) && !(cls gs msk) then
        acc ← report { acc with diffs := acc.diffs + 1 } s!"DIFF bi_seek block={hx contents} target={hx t}"
    for ix in [0:4] do
      acc := { acc with evals := acc.evals + 1 }
      if !(cls (Gen.bi_seek_to_restart_point it0 ix) (it0.seekToRestartPoint ix)) then
        acc ← report { acc with diffs := acc.diffs + 1 } s!"DIFF bi_seek_to_restart_point block={hx contents} ix={ix}"
  | _ => pure ()
  pure acc

/-- build a block with the translated and the model builder in lock step -/
def checkBuilder (acc : DAcc) (ri : Nat) (es : List (Bytes × Bytes)) : IO (DAcc × Bytes) := do
  let mut acc := acc
  let mut bm : BlockBuilder := BlockBuilder.new ri
  for (k, v) in es do
    acc := { acc with evals := acc.evals + 1 }
    let g := Gen.bb_add (k.length + 5) defaultCmp bm k v
    let m := BlockBuilder.add defaultCmp bm k v
    let same := match g, m with
      | .ok a, .ok b => a.buffer == b.buffer && a.restarts == b.restarts && a.lastKey == b.lastKey && a.restartCounter == b.restartCounter && a.counter == b.counter
      | .panic _, .panic _ => true
      | _, _ => false
    if !same then
      acc ← report { acc with diffs := acc.diffs + 1 } s!"DIFF bb_add key={hx k} val={hx v} after {bm.counter} entries (restart interval {ri})"
    match m with
    | .ok b => bm := b
    | _ => pure ()
  let gf := Gen.bb_finish (bm.restarts.length + 5) bm
  if gf.toOption.map (·.2) ≠ some bm.finish then
    acc ← report { acc with diffs := acc.diffs + 1 } s!"DIFF bb_finish after {bm.counter} entries"
  pure (acc, bm.finish)

def main : IO Unit := do
  let mut acc : DAcc := {}
  let small := strings [0x00, 0x01, 0x7f, 0xfe, 0xff] 3
  for a in small do
    for b in small do
      acc ← checkPair acc a b
  for a in longOnes do
    for b in [a ++ [0], a ++ [0xff], a.dropLast, a.dropLast ++ [0xff], a.take (a.length / 2) ++ [0xff, 0xff], a] do
      acc ← checkPair acc a b
      acc ← checkPair acc b a
  for d in strings [0x00, 0x61, 0xff] 5 ++ longOnes do
    acc ← checkHash acc d
  let keysets : List (List Bytes) :=
    [[[]], [[0x61]], [[0x61], [0x62], [0x63, 0x64, 0x65, 0x66, 0x67]], (List.range 40).map (fun i => [UInt8.ofNat i, 0x61, UInt8.ofNat (i * 3)]),
     (List.range 300).map (fun i => [UInt8.ofNat (i / 256), UInt8.ofNat (i % 256), 0x6b, 0x65, 0x79])]
  for ks in keysets do
    for bits in [0, 1, 4, 10, 16, 40] do
      let f := Bloom.createFilter bits ks
      for k in ks.take 60 do
        acc ← checkMatch acc k f true
      for k in [[0x7a], [0x7a, 0x7a], [], [0xff, 0xff, 0xff, 0xff, 0xff]] do
        acc ← checkMatch acc k f (ks.contains k)
  for f in [[], [0x06], [0xff, 0x06], [0x00, 0x1f], [0xff, 0xff, 0x1e], [0x00, 0x00, 0xff]] do
    acc ← checkMatch acc [0x61] f false
  for c in [0, 1, 2, 0x7fff, 0x8000, 0x1ffff, 0x20000, 0xa282ead8, 0x5d7d1527, 0x5d7d1528, 0x7fffffff, 0x80000000, 0xfffffffe, 0xffffffff,
            0xe3069283, 0x12345678, 0xdeadbeef] do
    acc ← checkU32 acc c
  for off in [0, 1, 2047, 2048, 2049, 4096, 65535, 65536, 0xffffffff, 0x100000000, 0x80000000000, 0x7fffffffffffffff, 0xffffffffffffffff] do
    for b in [0, 1, 8, 11, 12, 31, 32, 63] do
      acc ← checkIndex acc off b
  -- blocks: built by the builders in lock step, then walked by the iterators in lock step; damaged variants
  let entrySets : List (List (Bytes × Bytes)) :=
    [[], [([], [])], [([0x61], [0x31]), ([0x61, 0x62], []), ([0x61, 0x62, 0x63], [0x33, 0x33]), ([0x62], [0x34])],
     (List.range 20).map (fun i => ([0x6b, UInt8.ofNat (0x30 + i / 10), UInt8.ofNat (0x30 + i % 10)], List.replicate (i % 4) 0x76)),
     [(List.replicate 130 0x61, List.replicate 129 0x62), (List.replicate 130 0x61 ++ [0x62], [])],
     [([0x61], [0x31]), ([0x61], [0x32])], [([0x62], [0x31]), ([0x61], [0x32])]]
  for es in entrySets do
    for ri in [1, 2, 3, 16] do
      let (a, blk) ← checkBuilder acc ri es
      acc := a
      acc ← checkBlock acc blk
      -- damaged copies (the iterator methods must agree on ill-formed contents too, panics included)
      for at_ in [0, 1, 2, blk.length / 2, blk.length - 5, blk.length - 1] do
        if at_ < blk.length then
          acc ← checkBlock acc (blk.set at_ ((blk.getD at_ 0) ^^^ 0x83))
  IO.println s!"SUMMARY evaluations={acc.evals} diffs={acc.diffs} judge_failures={acc.judge}"
