import SstModel
import SstModel.Lemmas.FaultyWitness
import Driver.Proto
import Driver.Cmds
/- Driver commands exposing the Spec (expected answers) and the judges. -/
namespace Sst.Judges
open Sst Sst.Proto Sst.Cmds Sst.Spec

def showEntries (es : List Entry) : String :=
  if es.isEmpty then "." else "+".intercalate (es.map fun (k, v) => hexOfBytes k ++ "=" ++ hexOfBytes v)

def parseObs (s : String) : Option (List Judge.Obs) :=
  if s = "." then some [] else
  (s.splitOn ";").mapM fun x =>
    match x.splitOn "," with
    | [op, arg, out] => do pure { op, arg := ← bytesOfHex arg, out }
    | _ => none

def handle (words : List String) : Option String :=
  match words with
  | ["spec_probe", cmp, es, probes] => do
    let c ← parseCmp cmp
    let es ← parseEntries es
    let ps ← bytesListOfHex probes
    let one (p : Bytes) : String :=
      let l := match lookup c es p with | some v => hexOfBytes v | none => "none"
      let lb := match lowerBound c es p with | some i => toString i | none => "none"
      l ++ "/" ++ lb
    pure (if ps.isEmpty then "." else ",".intercalate (ps.map one))
  | ["spec_sorted", cmp, es] => do
    pure (toString (strictSortedB (← parseCmp cmp) (← parseEntries es)))
  | ["judge_c05", cmp, img, es, fname, isBloom] => do
    let c ← parseCmp cmp
    let img ← bytesOfHex img
    let es ← parseEntries es
    let fname ← bytesOfHex fname
    pure ((Judge.c05 c img es (String.fromUTF8! ⟨fname.toArray⟩) (isBloom = "true")).replace " " "_")
  | ["judge_c04", cmp, es, obs] => do
    let c ← parseCmp cmp
    let es ← parseEntries es
    let obs ← parseObs obs
    pure ((Judge.c04 c es hexOfBytes obs none 0).replace " " "_")
  | ["no_short_collision", pol, img] => do
    -- the decidable hypotheses of the C14 theorems, evaluated on the bytes of an image
    -- (`C14_noShortCollision_checker`: true implies NoShortCollision / NoShortCollisionMeta)
    let p ← parsePolicy pol
    let img ← bytesOfHex img
    pure s!"{noShortCollisionB img} {noShortCollisionMetaB p img}"
  | ["spec_decode", img] => do
    match Format.decodeTable (← bytesOfHex img) with
    | none => pure "none"
    | some d =>
      let blocks := d.blocks.map fun b => s!"{b.handle.offset}:{b.handle.size}:{hexOfBytes b.indexKey}:{showEntries b.entries}"
      pure s!"ok {d.metaIndex.offset}:{d.metaIndex.size} {d.index.offset}:{d.index.size} {if blocks.isEmpty then "." else ",".intercalate blocks}"
  | ["spec_damaged", img] => do
    match Format.decodeDamaged (← bytesOfHex img) with
    | none => pure "none"
    | some l =>
      let one : Bytes × Option Format.DataBlock → String
        | (k, some b) => s!"{hexOfBytes k}:{b.handle.offset}:{showEntries b.entries}"
        | (k, none) => s!"{hexOfBytes k}:bad"
      pure ("ok " ++ (if l.isEmpty then "." else ",".intercalate (l.map one)))
  | ["spec_fb_match", fb, off, key] => do
    pure (toString (Format.filterBlockMayMatch (← bytesOfHex fb) (← off.toNat?) (← bytesOfHex key)))
  | ["spec_lru", cap, ops] => do
    let ops ← parseCacheOps ops
    let sops : List Lru.Op := ops.map fun (o, k, v) =>
      if o = "i" then .insert k v else if o = "g" then .get k else .remove k
    -- per op: output, count, order most-recent-first
    let rec go (s : Lru.State) : List Lru.Op → List String → List String
      | [], acc => acc.reverse
      | op :: rest, acc =>
        let (s, o) := Lru.step s op
        let out := match op, o with
          | .insert _ _, _ => "-"
          | _, some v => toString v
          | _, none => "none"
        go s rest (s!"{out}@{s.items.length}@{showKeys (s.items.map (some ·.1))}" :: acc)
    pure (";".intercalate ("ok" :: go { cap := ← cap.toNat? } sops []))
  | _ => none

end Sst.Judges
