import SstModel
import Driver.Proto
import Driver.Cmds
import Driver.Session
import Driver.Judges
open Sst Sst.Proto

/-- One request line in, one response line out. Unknown or ill-formed requests answer `bad-op`
    (never a default value). -/
def handle (line : String) : String :=
  match line.trimAscii.toString.splitOn " " with
  | ["cmp", a, b] =>
    match bytesOfHex a, bytesOfHex b with
    | some a, some b => showOrdering (cmpBytes a b)
    | _, _ => "bad-op"
  | ["sep", a, b] =>
    match bytesOfHex a, bytesOfHex b with
    | some a, some b => hexOfBytes (DefaultCmp.findShortestSep a b)
    | _, _ => "bad-op"
  | ["succ", a] =>
    match bytesOfHex a with
    | some a => hexOfBytes (DefaultCmp.findShortSucc a)
    | _ => "bad-op"
  | ["c17", a, b, isep, isucc] =>
    -- model outputs + judge of the implementation's outputs
    match bytesOfHex a, bytesOfHex b with
    | some a, some b =>
      let optB (x : String) : Option (Option Bytes) :=
        if x = "panic" then some none else (bytesOfHex x).map some
      match optB isep, optB isucc with
      | some isep, some isucc =>
        let msep := DefaultCmp.findShortestSep a b
        " ".intercalate [showOrdering (cmpBytes a b), hexOfBytes msep,
          hexOfBytes (DefaultCmp.findShortSucc a), toString (decide (blt msep b)),
          if Judge.c17 a b isep isucc then "ok" else "fail"]
      | _, _ => "bad-op"
    | _, _ => "bad-op"
  | words =>
    match Sst.Cmds.handle words with
    | some r => r
    | none =>
      match Sst.Session.handle words with
      | some r => r
      | none =>
        match Sst.Judges.handle words with
        | some r => r
        | none => "bad-op"

partial def loop (hin hout : IO.FS.Stream) : IO Unit := do
  let line ← hin.getLine
  if line.isEmpty then return ()
  hout.putStrLn (handle line)
  hout.flush
  loop hin hout

def main : IO Unit := do
  loop (← IO.getStdin) (← IO.getStdout)
