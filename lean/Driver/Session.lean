import SstModel
import Driver.Proto
import Driver.Cmds
/- S10: table sessions — several tables and iterators over shared files, one cache, one fault schedule. -/
namespace Sst.Session
open Sst Sst.Proto Sst.Cmds

structure St where
  w : World
  tables : List (Nat × Table) := []
  iters : List (Nat × TableIter) := []

def parseFaults (s : String) : Option (List Fault) :=
  if s = "." then some [] else
  (s.splitOn ",").mapM fun x =>
    if x = "n" then some Fault.none
    else if x = "e" then some Fault.ioError
    else if x.startsWith "s" then ((x.drop 1).toString.toNat?).map Fault.short
    else none

def showState (it : TableIter) : String :=
  showBlockIterState it.indexBlock ++ "|" ++
    (match it.currentBlock with
     | some cb => toString it.currentBlockOff ++ "|" ++ showBlockIterState cb
     | none => "none")

def showR {α} (f : α → String) : Res α → String
  | .ok a => "ok " ++ f a
  | .err c => "err " ++ showCode c
  | .panic _ => "panic"
  | .diverge => "diverge"

def showOptBytes : Option Bytes → String
  | some b => hexOfBytes b
  | none => "none"

/-- everything observable since the previous op: reads, block events, cache count -/
def sideEffects (before after : World) : String :=
  let nr := after.readLog.length - before.readLog.length
  let reads := (after.readLog.take nr).reverse.map fun (f, o, l) => s!"{f}:{o}:{l}"
  let ne := after.events.length - before.events.length
  let evs := (after.events.take ne).reverse.map fun e => s!"{e.cacheId}:{e.offset}:{if e.hit then "h" else "m"}"
  let sh (l : List String) := if l.isEmpty then "." else "/".intercalate l
  s!"{sh reads}~{sh evs}~{after.cache.count}"

def setAssoc {α} (l : List (Nat × α)) (k : Nat) (v : α) : List (Nat × α) :=
  (k, v) :: l.filter (·.1 ≠ k)

def itOp (st : St) (i : Nat) (f : TableIter → M (TableIter × String)) : St × String :=
  match st.iters.find? (·.1 = i) with
  | none => (st, "bad-op")
  | some (_, it) =>
    match f it st.w with
    | (w, .ok (it, out)) => ({ st with w, iters := setAssoc st.iters i it }, s!"ok {out}@{showState it}")
    | (w, .err c) => ({ st with w }, "err " ++ showCode c)
    | (w, .panic _) => ({ st with w }, "panic")
    | (w, .diverge) => ({ st with w }, "diverge")

def step (st : St) (op : String) : St × String :=
  match op.splitOn "," with
  | ["open", t, file, size, cmp, pol] =>
    match t.toNat?, file.toNat?, size.toNat?, parseCmp cmp, parsePolicy pol with
    | some t, some file, some size, some cmp, some pol =>
      match Table.new ⟨cmp, pol⟩ file size st.w with
      | (w, .ok tb) => ({ st with w, tables := setAssoc st.tables t tb }, s!"ok {tb.cacheId} {tb.filters.isSome}")
      | (w, r) => ({ st with w }, showR (fun _ => "") r)
    | _, _, _, _, _ => (st, "bad-op")
  | ["get", t, key] =>
    match t.toNat?.bind (fun t => st.tables.find? (·.1 = t)), bytesOfHex key with
    | some (_, tb), some key =>
      let (w, r) := tb.get key st.w
      ({ st with w }, showR showOptBytes r)
    | _, _ => (st, "bad-op")
  | ["approx", t, key] =>
    match t.toNat?.bind (fun t => st.tables.find? (·.1 = t)), bytesOfHex key with
    | some (_, tb), some key =>
      let (w, r) := tb.approxOffsetOf key st.w
      ({ st with w }, showR toString r)
    | _, _ => (st, "bad-op")
  | ["iter", i, t] =>
    match i.toNat?, t.toNat?.bind (fun t => st.tables.find? (·.1 = t)) with
    | some i, some (_, tb) =>
      match TableIter.new tb st.w with
      | (w, .ok it) => ({ st with w, iters := setAssoc st.iters i it }, s!"ok @{showState it}")
      | (w, r) => ({ st with w }, showR (fun _ => "") r)
    | _, _ => (st, "bad-op")
  | ["adv", i] => match i.toNat? with
    | some i => itOp st i fun it => do let (it, b) ← it.advance; pure (it, toString b)
    | none => (st, "bad-op")
  | ["next", i] => match i.toNat? with
    | some i => itOp st i fun it => do let (it, e) ← it.next; pure (it, showOptKV e)
    | none => (st, "bad-op")
  | ["prev", i] => match i.toNat? with
    | some i => itOp st i fun it => do let (it, b) ← it.prev; pure (it, toString b)
    | none => (st, "bad-op")
  | ["reset", i] => match i.toNat? with
    | some i => itOp st i fun it => pure (it.reset, "-")
    | none => (st, "bad-op")
  | ["first", i] => match i.toNat? with
    | some i => itOp st i fun it => do let it ← it.seekToFirst; pure (it, "-")
    | none => (st, "bad-op")
  | ["seek", i, key] => match i.toNat?, bytesOfHex key with
    | some i, some key => itOp st i fun it => do let it ← it.seek key; pure (it, "-")
    | _, _ => (st, "bad-op")
  | ["valid", i] => match i.toNat? with
    | some i => itOp st i fun it => pure (it, toString it.valid)
    | none => (st, "bad-op")
  | ["cur", i] => match i.toNat? with
    | some i => itOp st i fun it => do let e ← it.current; pure (it, showOptKV e)
    | none => (st, "bad-op")
  | ["key", i] => match i.toNat? with
    | some i => itOp st i fun it => pure (it, showOptBytes it.currentKey)
    | none => (st, "bad-op")
  | ["drop", t] => match t.toNat? with
    | some t => ({ st with tables := st.tables.filter (·.1 ≠ t) }, "ok")
    | none => (st, "bad-op")
  | ["faults", fs] => match parseFaults (fs.replace "+" ",") with
    | some fs => ({ st with w := { st.w with sched := fs } }, "ok")
    | none => (st, "bad-op")
  | _ => (st, "bad-op")

def runOps (st : St) : List String → List String → List String
  | [], acc => acc.reverse
  | op :: ops, acc =>
    let (st', out) := step st op
    let out := out ++ "~" ++ sideEffects st.w st'.w
    if out.startsWith "panic" || out.startsWith "diverge" then (out :: acc).reverse
    else runOps st' ops (out :: acc)

/-- `session <cap> <files> <faults> <ops>` -/
def handle (words : List String) : Option String :=
  match words with
  | ["session", cap, files, faults, ops] => do
    let cap ← cap.toNat?
    let files ← bytesListOfHex files
    let faults ← parseFaults faults
    let ops := if ops = "." then [] else ops.splitOn ";"
    let st : St := { w := { files, sched := faults, cache := { cap } } }
    pure (";".intercalate (runOps st ops []))
  | _ => none

end Sst.Session
