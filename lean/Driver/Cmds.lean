import SstModel
import Driver.Proto
/- Driver commands for the layer streams S2–S9, S11, S12. -/
namespace Sst.Cmds
open Sst Sst.Proto

def parseCmp (s : String) : Option Cmp :=
  if s = "bytewise" then some defaultCmp else if s = "reverse" then some reverseCmp
  else if s = "lenfirst" then some lenFirstCmp else none

def parsePolicy (s : String) : Option FilterPolicy :=
  match s.splitOn ":" with
  | ["bloom", b] => b.toNat?.map Bloom.policy
  | ["none"] => some noFilterPolicy
  | ["firstbyte"] => some firstBytePolicy
  | ["rejectall"] => some rejectAllPolicy
  | ["rejectallprefix"] => some rejectAllPrefixPolicy
  | ["rejectallext"] => some rejectAllExtPolicy
  | _ => none

/-- `k=v,k=v` with hex fields; "." is the empty list -/
def parseEntries (s : String) : Option (List (Bytes × Bytes)) :=
  if s = "." then some [] else
  (s.splitOn ",").mapM fun kv =>
    match kv.splitOn "=" with
    | [k, v] => do pure (← bytesOfHex k, ← bytesOfHex v)
    | _ => none

def showOptKV : Option (Bytes × Bytes) → String
  | some (k, v) => hexOfBytes k ++ "=" ++ hexOfBytes v
  | none => "none"

def showBlockIterState (it : BlockIter) : String :=
  s!"{it.offset}/{it.restartsOff}/{it.curEntryOff}/{it.curRestartIx}/{hexOfBytes it.key}/{it.valOffset}"

/-- block iterator op sequence; each op answers `<result>@<state>`; a panic ends the run -/
def blockOps (cmp : Cmp) (it : BlockIter) : List String → List String → List String
  | [], acc => acc.reverse
  | op :: ops, acc =>
    let r : Res (BlockIter × String) :=
      match op.splitOn ":" with
      | ["a"] => do let (it, b) ← it.advance; pure (it, toString b)
      | ["n"] => do let (it, e) ← it.next; pure (it, showOptKV e)
      | ["p"] => do let (it, b) ← it.prev; pure (it, toString b)
      | ["r"] => pure (it.reset, "-")
      | ["f"] => do let it ← it.seekToFirst; pure (it, "-")
      | ["l"] => do let it ← it.seekToLast; pure (it, "-")
      | ["s", k] =>
        match bytesOfHex k with
        | some k => do let it ← it.seek cmp k; pure (it, "-")
        | none => .panic "bad-op"
      | ["v"] => pure (it, toString it.valid)
      | ["c"] => do let e ← it.current; pure (it, showOptKV e)
      | ["k"] => pure (it, match it.currentKey with | some k => hexOfBytes k | none => "none")
      | _ => .panic "bad-op"
    match r with
    | .ok (it, out) => blockOps cmp it ops ((out ++ "@" ++ showBlockIterState it) :: acc)
    | .panic _ => ("panic" :: acc).reverse
    | .diverge => ("diverge" :: acc).reverse
    | .err _ => ("err" :: acc).reverse

def parseSinkSched (s : String) : Option (List SinkResp) :=
  if s = "." then some [] else
  (s.splitOn ",").mapM fun x =>
    if x = "i" then some .interrupted
    else if x = "e" then some .error
    else x.toNat?.map .accept

def showSinkLog (log : List (Option Bytes)) : String :=
  if log.isEmpty then "." else
  ",".intercalate (log.reverse.map fun
    | some b => hexOfBytes b
    | none => "F")

/-- compressor given as a lookup table raw:compressed (see DESIGN §4.2: the snappy encoder is a parameter) -/
def parseCompTable (s : String) : Option (List (Bytes × Bytes)) :=
  if s = "." then some [] else
  (s.splitOn ",").mapM fun kv =>
    match kv.splitOn ":" with
    | [k, v] => do pure (← bytesOfHex k, ← bytesOfHex v)
    | _ => none

def compOf (tbl : List (Bytes × Bytes)) (b : Bytes) : Bytes :=
  match tbl.find? (·.1 = b) with
  | some (_, c) => c
  | none => [0xde, 0xad]   -- a miss shows up as a disagreement

def parseCacheOps (s : String) : Option (List (String × Nat × Nat)) :=
  if s = "." then some [] else
  (s.splitOn ",").mapM fun x =>
    match x.splitOn ":" with
    | [o, k, v] => do pure (o, ← k.toNat?, ← v.toNat?)
    | [o, k] => do pure (o, ← k.toNat?, 0)
    | _ => none

def showOptNat : Option Nat → String
  | some n => toString n
  | none => "none"

def showKeys (l : List (Option Nat)) : String :=
  if l.isEmpty then "." else "/".intercalate (l.map fun | some k => toString k | none => "X")

def cacheOps (c : HCache.Cache) : List (String × Nat × Nat) → List String → List String
  | [], acc => acc.reverse
  | (op, k, v) :: ops, acc =>
    let r : Res (HCache.Cache × String) :=
      if op = "i" then do let c ← c.insert k v; pure (c, "-")
      else if op = "g" then do let (c, r) ← c.get k; pure (c, showOptNat r)
      else if op = "r" then do let (c, r) ← c.remove k; pure (c, showOptNat r)
      else .panic "bad-op"
    match r with
    | .ok (c, out) =>
      let keys := (c.map.map (·.1)).mergeSort (· ≤ ·)
      let st := s!"{out}@{c.count}@{showKeys c.dumpForward}@{showKeys c.dumpBackward}@{showNatList keys}"
      cacheOps c ops (st :: acc)
    | _ => ("panic" :: acc).reverse

def handle (words : List String) : Option String :=
  match words with
  | ["varint_enc", n] => do pure (hexOfBytes (encodeVarint (← n.toNat?)))
  | ["varint_dec", h] => do
    match decodeVarint (← bytesOfHex h) with
    | some (v, l) => pure s!"{v} {l}"
    | none => pure "none"
  | ["fixed32", n] => do pure (hexOfBytes (encodeFixed32 (← n.toNat?)))
  | ["fixed32_dec", h] => do pure (toString (decodeFixed32 (← bytesOfHex h)))
  | ["mask", n] => do pure (toString (maskCrc (← n.toNat?)))
  | ["unmask", n] => do pure (toString (unmaskCrc (← n.toNat?)))
  | ["crc", h] => do pure (toString (crc32c (← bytesOfHex h)))
  | ["handle_enc", o, s] => do pure (hexOfBytes (BlockHandle.encode ⟨← o.toNat?, ← s.toNat?⟩))
  | ["handle_dec", h] => do
    match BlockHandle.tryDecode (← bytesOfHex h) with
    | some (bh, l) => pure s!"{bh.offset} {bh.size} {l}"
    | none => pure "none"
  | ["footer_enc", a, b, c, d] => do
    pure (hexOfBytes (Footer.encode ⟨⟨← a.toNat?, ← b.toNat?⟩, ⟨← c.toNat?, ← d.toNat?⟩⟩))
  | ["footer_dec", h] => do
    match Footer.tryDecode (← bytesOfHex h) with
    | some f => pure s!"{f.metaIndex.offset} {f.metaIndex.size} {f.index.offset} {f.index.size}"
    | none => pure "none"
  | ["snappy_dec", h] => do
    match Snappy.decode (← bytesOfHex h) with
    | some b => pure ("ok " ++ hexOfBytes b)
    | none => pure "err"
  | ["bloom_hash", h] => do pure (toString (Bloom.bloomHash (← bytesOfHex h)))
  | ["bloom_k", b] => do pure (toString (Bloom.kOf (← b.toNat?)))
  | ["bloom_create", bits, keys] => do
    pure (hexOfBytes (Bloom.createFilter (← bits.toNat?) (← bytesListOfHex keys)))
  | ["bloom_match", key, f] => do pure (toString (Bloom.keyMayMatch (← bytesOfHex key) (← bytesOfHex f)))
  | ["fb_build", pol, evs] => do
    let p ← parsePolicy pol
    let evs ← if evs = "." then some [] else some (evs.splitOn ",")
    let rec goF (b : FilterBlockBuilder) : List String → Option (Res FilterBlockBuilder)
      | [] => some (.ok b)
      | e :: rest =>
        match e.splitOn ":" with
        | ["k", k] => do goF (b.addKey (← bytesOfHex k)) rest
        | ["s", o] => do
          match b.startBlock p (← o.toNat?) with
          | .ok b => goF b rest
          | r => some r
        | _ => none
    match ← goF {} evs with
    | .ok b => pure ("ok " ++ hexOfBytes (b.finish p))
    | _ => pure "panic"
  | ["fb_wf", blk] => do pure (toString (FilterBlockReader.isWellFormed (← bytesOfHex blk)))
  | ["fb_match", pol, blk, off, key] => do
    let p ← parsePolicy pol
    let r := do
      let rd ← FilterBlockReader.new (← (bytesOfHex blk).elim (.panic "bad") .ok)
      rd.keyMayMatch p (← off.toNat?.elim (.panic "bad") .ok) (← (bytesOfHex key).elim (.panic "bad") .ok)
    pure (showRes toString r)
  | ["bb_build", cmp, ri, es] => do
    let c ← parseCmp cmp
    let ri ← ri.toNat?
    let es ← parseEntries es
    let rec goB (b : BlockBuilder) (ests : List Nat) : List (Bytes × Bytes) → Res (BlockBuilder × List Nat)
      | [] => .ok (b, ests.reverse)
      | (k, v) :: rest =>
        match b.add c k v with
        | .ok b => goB b (b.sizeEstimate :: ests) rest
        | .panic s => .panic s
        | .err e => .err e
        | .diverge => .diverge
    match goB (BlockBuilder.new ri) [] es with
    | .ok (b, ests) => pure s!"ok {hexOfBytes b.finish} {showNatList ests} {b.entries} {hexOfBytes b.lastKey}"
    | _ => pure "panic"
  | ["wf", blk] => do pure (toString (Block.isWellFormed (← bytesOfHex blk)))
  | ["block_ops", cmp, blk, ops] => do
    let c ← parseCmp cmp
    let b ← bytesOfHex blk
    let ops := if ops = "." then [] else ops.splitOn ","
    match Block.iter b with
    | .ok it => pure (";".intercalate ("ok" :: blockOps c it ops []))
    | _ => pure "panic"
  | ["tb_build", cmp, bs, ri, ct, pol, comp, es, sched] => do
    let opt : WOpts := { cmp := ← parseCmp cmp, blockSize := ← bs.toNat?, restartInterval := ← ri.toNat?,
                         compression := ← ct.toNat?, filter := ← parsePolicy pol,
                         compress := compOf (← parseCompTable comp) }
    let es ← parseEntries es
    let sched ← parseSinkSched sched
    -- add one by one so that the position of a rejected add is observable
    let rec goT (t : TableBuilder) (i : Nat) : List (Bytes × Bytes) → TableBuilder × String
      | [] =>
        match t.finish with
        | (t, .ok n) => (t, s!"finish-ok {n} {t.numEntries}")
        | (t, .err c) => (t, s!"finish-err {showCode c}")
        | (t, .panic _) => (t, "finish-panic")
        | (t, .diverge) => (t, "finish-diverge")
      | (k, v) :: rest =>
        match t.add k v with
        | (t, .ok ()) => goT t (i + 1) rest
        | (t, .err c) => (t, s!"add-err {i} {showCode c}")
        | (t, .panic _) => (t, s!"add-panic {i}")
        | (t, .diverge) => (t, s!"add-diverge {i}")
    let (t, res) := goT (TableBuilder.new opt { sched }) 0 es
    pure s!"{res} {hexOfBytes t.sink.received} {showSinkLog t.sink.log}"
  | ["cache_ops", cap, ops] => do
    let ops ← parseCacheOps ops
    match HCache.Cache.new (← cap.toNat?) with
    | .ok c => pure (";".intercalate ("ok" :: cacheOps c ops []))
    | _ => pure "panic"
  | ["status_new", code, msg] => do
    let c ← Code.ofName code
    let m ← bytesOfHex msg
    let s := Status.new c (String.fromUTF8! ⟨m.toArray⟩)
    match s.display with
    | some d => pure (hexOfBytes d.toUTF8.toList)
    | none => pure "display-unmodelled"
  | ["status_io", kind] => do
    match ioKindCode kind with
    | some c => pure (showCode c)
    | none => pure "none"
  | _ => none

end Sst.Cmds
