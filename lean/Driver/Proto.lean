import SstModel.Model.Basic
/- Line protocol helpers: hex bytes, lists, numbers. -/
namespace Sst.Proto
open Sst

def hexDigit (n : Nat) : Char :=
  if n < 10 then Char.ofNat (48 + n) else Char.ofNat (87 + n)

def hexOfBytes (b : Bytes) : String :=
  if b.isEmpty then "-" else
  String.ofList (b.foldr (fun x acc => hexDigit (x.toNat / 16) :: hexDigit (x.toNat % 16) :: acc) [])

def hexVal (c : Char) : Option Nat :=
  if '0' ≤ c ∧ c ≤ '9' then some (c.toNat - 48)
  else if 'a' ≤ c ∧ c ≤ 'f' then some (c.toNat - 87)
  else none

def bytesOfHexChars : List Char → Option Bytes
  | [] => some []
  | [_] => none
  | a :: b :: rest => do
    let x ← hexVal a
    let y ← hexVal b
    let r ← bytesOfHexChars rest
    pure (UInt8.ofNat (x * 16 + y) :: r)

def bytesOfHex (s : String) : Option Bytes :=
  if s = "-" then some [] else bytesOfHexChars s.toList

/-- comma separated list of hex strings; "." is the empty list -/
def bytesListOfHex (s : String) : Option (List Bytes) :=
  if s = "." then some [] else (s.splitOn ",").mapM bytesOfHex

def hexOfBytesList (l : List Bytes) : String :=
  if l.isEmpty then "." else ",".intercalate (l.map hexOfBytes)

def natList (s : String) : Option (List Nat) :=
  if s = "." then some [] else (s.splitOn ",").mapM String.toNat?

def showNatList (l : List Nat) : String :=
  if l.isEmpty then "." else ",".intercalate (l.map toString)

def showOrdering : Ordering → String
  | .lt => "lt" | .eq => "eq" | .gt => "gt"

def showCode : Code → String
  | .ok => "OK" | .alreadyExists => "AlreadyExists" | .corruption => "Corruption"
  | .compressionError => "CompressionError" | .ioError => "IOError"
  | .invalidArgument => "InvalidArgument" | .invalidData => "InvalidData"
  | .lockError => "LockError" | .notFound => "NotFound" | .notSupported => "NotSupported"
  | .permissionDenied => "PermissionDenied" | .unknown => "Unknown"

def showRes {α} (f : α → String) : Res α → String
  | .ok a => "ok " ++ f a
  | .err c => "err " ++ showCode c
  | .panic _ => "panic"
  | .diverge => "diverge"

end Sst.Proto
