import Driver.Proto
import SstModel.Props.Judges
/-
  The hypotheses `Judge.HexOK` that `Props/Judges.lean` places on the byte printer hold for the
  printer the driver actually passes to `Judge.c04` (`hexOfBytes`: "-" for the empty string, else two
  lower-case hex digits per byte), and the C04 judge theorems instantiated at the driver's call
  `Judge.c04 cmp es hexOfBytes obs none 0` (Driver/Judges.lean, command `judge_c04`).
-/
namespace Sst.Proto
open Sst Sst.Spec Sst.Judge

theorem hexDigit_facts (n : Nat) (h : n < 16) :
    hexDigit n ≠ '=' ∧ hexDigit n ≠ 'n' ∧ hexDigit n ≠ '-' := by
  have : ∀ n : Fin 16, hexDigit n ≠ '=' ∧ hexDigit n ≠ 'n' ∧ hexDigit n ≠ '-' := by decide
  exact this ⟨n, h⟩

theorem hexDigit_inj (a b : Nat) (ha : a < 16) (hb : b < 16) (h : hexDigit a = hexDigit b) : a = b := by
  have : ∀ a b : Fin 16, hexDigit a = hexDigit b → a = b := by decide
  exact congrArg Fin.val (this ⟨a, ha⟩ ⟨b, hb⟩ h)


/-- the digit list of a non-empty byte string -/
def hexChars (b : Bytes) : List Char :=
  b.foldr (fun x acc => hexDigit (x.toNat / 16) :: hexDigit (x.toNat % 16) :: acc) []

theorem hexOfBytes_toList (b : Bytes) :
    (hexOfBytes b).toList = if b = [] then ['-'] else hexChars b := by
  unfold hexOfBytes
  cases b with
  | nil => decide
  | cons x xs => simp [hexChars]

theorem u8_div_mod_lt (x : UInt8) : x.toNat / 16 < 16 ∧ x.toNat % 16 < 16 := by
  have := x.toNat_lt; omega

theorem hexChars_noSpecial (b : Bytes) : ∀ c ∈ hexChars b, c ≠ '=' ∧ c ≠ 'n' ∧ c ≠ '-' := by
  induction b with
  | nil => intro c hc; cases hc
  | cons x xs ih =>
    intro c hc
    simp only [hexChars, List.foldr_cons, List.mem_cons] at hc
    rcases hc with rfl | rfl | hc
    · exact hexDigit_facts _ (u8_div_mod_lt x).1
    · exact hexDigit_facts _ (u8_div_mod_lt x).2
    · exact ih c hc

theorem hexChars_inj : ∀ a b : Bytes, hexChars a = hexChars b → a = b
  | [], [], _ => rfl
  | [], _ :: _, h => by simp [hexChars] at h
  | _ :: _, [], h => by simp [hexChars] at h
  | x :: xs, y :: ys, h => by
    simp only [hexChars, List.foldr_cons, List.cons.injEq] at h
    obtain ⟨h1, h2, h3⟩ := h
    have e1 := hexDigit_inj _ _ (u8_div_mod_lt x).1 (u8_div_mod_lt y).1 h1
    have e2 := hexDigit_inj _ _ (u8_div_mod_lt x).2 (u8_div_mod_lt y).2 h2
    have : x = y := UInt8.toNat_inj.mp (by omega)
    rw [this, hexChars_inj xs ys h3]

theorem hexOfBytes_no_eq (b : Bytes) : ∀ c ∈ (hexOfBytes b).toList, c ≠ '=' := by
  intro c hc
  rw [hexOfBytes_toList] at hc
  split at hc
  · simp only [List.mem_singleton] at hc; subst hc; decide
  · exact (hexChars_noSpecial b c hc).1

theorem hexOfBytes_inj (a b : Bytes) (h : hexOfBytes a = hexOfBytes b) : a = b := by
  have h' := congrArg String.toList h
  rw [hexOfBytes_toList, hexOfBytes_toList] at h'
  by_cases ha : a = [] <;> by_cases hb : b = [] <;> simp only [ha, hb, if_true, if_false] at h'
  · rw [ha, hb]
  · cases b with
    | nil => exact absurd rfl hb
    | cons y ys =>
      have := (hexChars_noSpecial (y :: ys) '-' (by rw [← h']; simp)).2.2
      exact absurd rfl this
  · cases a with
    | nil => exact absurd rfl ha
    | cons y ys =>
      have := (hexChars_noSpecial (y :: ys) '-' (by rw [h']; simp)).2.2
      exact absurd rfl this
  · exact hexChars_inj a b h'

theorem hexOfBytes_ne_none (k : Bytes) : hexOfBytes k ≠ "none" := by
  intro h
  have h' := congrArg String.toList h
  rw [hexOfBytes_toList, show "none".toList = ['n', 'o', 'n', 'e'] by decide] at h'
  split at h'
  · cases h'
  · exact (hexChars_noSpecial k 'n' (by rw [h']; simp)).2.1 rfl

theorem split_at_unique {K K' V V' : List Char} (hK : ∀ c ∈ K, c ≠ '=') (hK' : ∀ c ∈ K', c ≠ '=')
    (h : K ++ '=' :: V = K' ++ '=' :: V') : K = K' ∧ V = V' := by
  induction K generalizing K' with
  | nil =>
    cases K' with
    | nil => simpa using h
    | cons c cs =>
      simp only [List.nil_append, List.cons_append, List.cons.injEq] at h
      exact absurd h.1.symm (hK' c (by simp))
  | cons d ds ih =>
    cases K' with
    | nil =>
      simp only [List.nil_append, List.cons_append, List.cons.injEq] at h
      exact absurd h.1 (hK d (by simp))
    | cons c cs =>
      simp only [List.cons_append, List.cons.injEq] at h
      obtain ⟨h1, h2⟩ := ih (fun c hc => hK c (by simp [hc])) (fun c hc => hK' c (by simp [hc])) h.2
      exact ⟨by rw [h.1, h1], h2⟩

theorem showKV_toList (k v : Bytes) :
    (showKV (some (k, v)) hexOfBytes).toList = (hexOfBytes k).toList ++ '=' :: (hexOfBytes v).toList := by
  simp [showKV, String.toList_append]


/-- the driver's byte printer satisfies everything the C04 judge theorems need -/
theorem hexOfBytes_ok : HexOK hexOfBytes where
  kv_inj := by
    rintro ⟨k, v⟩ ⟨k', v'⟩ h
    have h' := congrArg String.toList h
    rw [showKV_toList, showKV_toList] at h'
    obtain ⟨h1, h2⟩ := split_at_unique (hexOfBytes_no_eq k) (hexOfBytes_no_eq k') h'
    rw [hexOfBytes_inj k k' (String.toList_inj.mp h1), hexOfBytes_inj v v' (String.toList_inj.mp h2)]
  kv_ne_none := by
    rintro ⟨k, v⟩ h
    have h' := congrArg String.toList h
    rw [showKV_toList, show "none".toList = ['n', 'o', 'n', 'e'] by decide] at h'
    have : '=' ∈ ['n', 'o', 'n', 'e'] := by rw [← h']; simp
    revert this; decide
  key_ne_none := hexOfBytes_ne_none

/-- the driver's `judge_c04` verdict on a new iterator (position `none`): "ok" iff the observed
    answers are a run of the Spec cursor started before-the-first -/
theorem judge_c04_driver_iff (cmp : Cmp) (hl : cmp.Lawful) (es : List Entry)
    (hs : StrictSorted cmp es) (ops : List IterOp) (outs : List IterOut) (obs : List Judge.Obs)
    (hr : RendersAll hexOfBytes ops outs obs) (hp : PrevThenCur ops) :
    Judge.c04 cmp es hexOfBytes obs none 0 = "ok" ↔ ∃ q, CursorRun cmp es none ops q outs :=
  Judge_c04_iff cmp hl es hs hexOfBytes hexOfBytes_ok ops outs obs hr hp none 0

theorem judge_c04_driver_sound (cmp : Cmp) (es : List Entry)
    (ops : List IterOp) (outs' : List IterOut) (hshape : ShapedAll ops outs')
    (hlast : ops.getLast? ≠ some .prev)
    (h : Judge.c04 cmp es hexOfBytes (renderAll hexOfBytes ops outs') none 0 = "ok") :
    ∃ q, CursorRun cmp es none ops q outs' :=
  Judge_c04_sound cmp es hexOfBytes hexOfBytes_ok ops outs' hshape hlast none h

end Sst.Proto

#print axioms Sst.Proto.hexOfBytes_ok
#print axioms Sst.Proto.judge_c04_driver_iff
#print axioms Sst.Proto.judge_c04_driver_sound
