import SstModel.Lemmas.Order
import SstModel.Spec.Format
/-
  Executable judges: the property statements as decidable checks on *observed* behaviour.
  The harness sends what the implementation did; these decide whether that satisfies the property.
  They use `blt`/`ble`, which `Props/C17.lean` proves equal to the Spec order `LexLt`/`LexLe`.
-/
namespace Sst.Judge
open Sst

/-- C17 on one observation: given a, b and the implementation's separator / successor. -/
def c17 (a b : Bytes) (sep : Option Bytes) (succ : Option Bytes) : Bool :=
  (if decide (blt a b) then
     match sep with
     | some s => decide (ble a s) && decide (blt s b) && decide (s.length ≤ a.length + 1)
     | none => false
   else true)
  && (match succ with
      | some s => decide (ble a s)
      | none => false)

end Sst.Judge

namespace Sst.Judge
open Sst Sst.Spec

/-- C05 on one produced file: the independent decoder accepts it, decodes exactly the added entries,
    data blocks are non-empty, index keys bracket their blocks, the metaindex names the filter, and
    (for bloom filters) every key passes the independently computed filter of its block.
    Returns the first failing clause. -/
def c05 (cmp : Cmp) (img : Bytes) (es : List Entry) (filterName : String) (isBloom : Bool) : String :=
  match Format.decodeTable img with
  | none => "independent decoder rejects the file"
  | some d =>
    if d.entries ≠ es then "decoded entries differ from the entries added"
    else if d.blocks.any (·.entries.isEmpty) then "empty data block"
    else
      let lastLeIndex := d.blocks.all fun b =>
        match b.entries.getLast? with
        | some e => cmp.cmp e.1 b.indexKey != .gt
        | none => true
      let indexLtNext := (d.blocks.zip d.blocks.tail).all fun (b, nb) =>
        match nb.entries.head? with
        | some e => cmp.cmp b.indexKey e.1 == .lt
        | none => true
      if !lastLeIndex then "an index key is below a key of its own block"
      else if !indexLtNext then "an index key is not below the first key of the next block"
      else
        let fkey := ("filter." ++ filterName).toUTF8.toList
        match d.metaEntries.find? (·.1 = fkey) with
        | none => "metaindex has no entry for the filter"
        | some (_, hv) =>
          match Format.handle hv with
          | none => "filter handle undecodable"
          | some (fh, _) =>
            match Format.block img ⟨fh.offset, fh.size⟩ with
            | none => "filter block unreadable"
            | some fb =>
              if isBloom ∧ !(d.blocks.all fun b => b.entries.all fun e =>
                    Format.filterBlockMayMatch fb b.handle.offset e.1)
              then "a key does not pass the filter of its block"
              else
                -- blocks are laid out in order and within the file
                let ordered := (d.blocks.zip d.blocks.tail).all fun (b, nb) =>
                  b.handle.offset + b.handle.size + 5 ≤ nb.handle.offset
                if !ordered then "data blocks overlap or are out of order" else "ok"

/-- one observed iterator call: the op and what the implementation answered -/
structure Obs where
  op : String
  arg : Bytes := []
  out : String

def showKV (e : Option Entry) (hex : Bytes → String) : String :=
  match e with
  | some (k, v) => hex k ++ "=" ++ hex v
  | none => "none"

/-- C04 judge: replay observed calls against the Spec cursor. `prev` from an invalid position is
    unspecified: the judge then adopts the position shown by the *following* `cur` observation
    (the harness always issues one), which must be a stored entry or invalid, and requires the
    returned flag to agree with it. Returns "ok" or the index and reason of the first failure. -/
def c04 (cmp : Cmp) (es : List Entry) (hex : Bytes → String) : List Obs → Pos → Nat → String
  | [], _, _ => "ok"
  | o :: rest, pos, i =>
    let bad (why : String) := s!"fail {i} {o.op}: {why} (impl answered {o.out})"
    let cur := showKV (entryAt es pos) hex
    match o.op with
    | "adv" =>
      let (p, b) := advance es pos
      if o.out = toString b then c04 cmp es hex rest p (i + 1) else bad s!"expected {b}"
    | "next" =>
      let (p, _) := advance es pos
      let want := showKV (entryAt es p) hex
      if o.out = want then c04 cmp es hex rest p (i + 1) else bad s!"expected {want}"
    | "prev" =>
      match pos with
      | some j =>
        let (p, b) := prevValid j
        if o.out = toString b then c04 cmp es hex rest p (i + 1) else bad s!"expected {b}"
      | none =>
        -- unspecified: resolve by the following `cur`
        match rest with
        | c :: rest' =>
          if c.op ≠ "cur" then bad "harness protocol: prev must be followed by cur"
          else if c.out = "none" then
            if o.out = "false" then c04 cmp es hex rest' none (i + 2) else bad "returned true but is invalid"
          else
            match (List.range es.length).find? (fun j => showKV es[j]? hex = c.out) with
            | some j => if o.out = "true" then c04 cmp es hex rest' (some j) (i + 2)
                        else bad "returned false but shows an entry"
            | none => bad s!"exposes {c.out}, which is not a stored entry"
        | [] => "ok"
    | "reset" => c04 cmp es hex rest none (i + 1)
    | "first" => c04 cmp es hex rest (seekToFirst es) (i + 1)
    | "seek" => c04 cmp es hex rest (lowerBound cmp es o.arg) (i + 1)
    | "valid" => if o.out = toString pos.isSome then c04 cmp es hex rest pos (i + 1) else bad s!"expected {pos.isSome}"
    | "cur" => if o.out = cur then c04 cmp es hex rest pos (i + 1) else bad s!"expected {cur}"
    | "key" =>
      let want := match entryAt es pos with | some (k, _) => hex k | none => "none"
      if o.out = want then c04 cmp es hex rest pos (i + 1) else bad s!"expected {want}"
    | _ => bad "unknown op"

end Sst.Judge
