import SstModel.Lemmas.Order
/-
  Executable judges: the property statements as decidable checks on *observed* behaviour.
  The harness sends what the implementation did; these decide whether that satisfies the property.
  They use `blt`/`ble`, which `Props/C17.lean` proves equal to the Spec order `LexLt`/`LexLe`.
-/
namespace Sst.Judge
open Sst

/-- C17 on one observation: given a, b and the implementation's separator / successor. -/
def c17 (a b : Bytes) (sep : Option Bytes) (succ : Option Bytes) : Bool :=
  (if decide (blt a b) then
     match sep with
     | some s => decide (ble a s) && decide (blt s b) && decide (s.length ≤ a.length + 1)
     | none => false
   else true)
  && (match succ with
      | some s => decide (ble a s)
      | none => false)

end Sst.Judge
