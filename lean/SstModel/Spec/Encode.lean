import SstModel.Spec.Format
/-
  Spec: an independent ENCODER of the LevelDB table format with FREE LAYOUT, written from the format
  description (doc/table_format.md), not from the crate and not from the model of the crate's writer
  (`Model/TableBuilder.lean`, `Model/BlockBuilder.lean` are not imported; the only things shared with
  `Spec/Format.lean` are what that file itself uses: `Bytes`, `crc32c`, `Snappy.decode`, `mask`, `magic`).

  A *layout* says what a producer of the format is free to choose:
  * in a block: which entries are restart points (any strictly increasing set of entry indices starting
    at 0 -- no fixed restart interval), and how many key bytes every other entry shares with its
    predecessor (ANY number up to the real common prefix, not necessarily the maximum);
  * in a table: the blocks in ANY file order, arbitrary bytes ("gaps") before every block and before the
    footer, blocks stored raw or as ANY snappy stream that decompresses to the block, any block of the
    file as the metaindex block (with arbitrary entries), an index that lists the data blocks in any order
    relative to the file order, blocks no index entry points to, arbitrary index keys, free restart points
    / sharing in the index block too, arbitrary footer padding bytes.
  The only placement restriction of `encodeTable` is that the index block is written after the blocks it
  points to (their offsets are computed, not guessed), and the footer is last (as the format demands);
  further blocks (for instance the metaindex block) may follow the index block.

  `Lemmas/SpecEncode.lean` proves that the independent decoder `decodeTable` inverts `encodeTable` on every
  well-formed layout (`Props/SpecRoundTrip.lean`: the headline statements).
-/
namespace Sst.Spec.Format
open Sst

/-! ### integers -/

/-- varint: 7 bits per byte, least significant group first, high bit = "more follows" (shortest form) -/
def encVarint (n : Nat) : Bytes :=
  if n < 128 then [UInt8.ofNat n]
  else UInt8.ofNat (n % 128 + 128) :: encVarint (n / 128)
termination_by n
decreasing_by omega

/-- fixed 32 bit little endian -/
def encU32le (n : Nat) : Bytes :=
  [UInt8.ofNat (n % 256), UInt8.ofNat (n / 256 % 256), UInt8.ofNat (n / 65536 % 256),
   UInt8.ofNat (n / 16777216 % 256)]

/-- block handle: varint offset, varint size -/
def encHandle (h : Handle) : Bytes := encVarint h.offset ++ encVarint h.size

/-! ### blocks -/

/-- length of the longest common prefix -/
def commonPrefix : Bytes → Bytes → Nat
  | a :: as, b :: bs => if a = b then commonPrefix as bs + 1 else 0
  | _, _ => 0

/-- what a producer chooses when it writes a block -/
structure BlockLayout where
  /-- the entries, in block order -/
  entries : List Spec.Entry
  /-- indices (into `entries`) of the restart points -/
  restartAt : List Nat
  /-- `share i`: how many leading key bytes entry `i` takes from entry `i - 1` -/
  share : Nat → Nat

/-- one entry: varint shared, varint non_shared, varint value_len, key suffix, value -/
def encEntry (shared : Nat) (e : Spec.Entry) : Bytes :=
  encVarint shared ++ encVarint (e.1.length - shared) ++ encVarint e.2.length ++ e.1.drop shared ++ e.2

/-- entries `i, i+1, …` one after the other -/
def encEntries (share : Nat → Nat) : Nat → List Spec.Entry → Bytes
  | _, [] => []
  | i, e :: es => encEntry (share i) e ++ encEntries share (i + 1) es

/-- offset (in the block) at which entry `i` starts -/
def BlockLayout.entryOffset (bl : BlockLayout) (i : Nat) : Nat :=
  (encEntries bl.share 0 (bl.entries.take i)).length

/-- the restart array -/
def BlockLayout.restartOffsets (bl : BlockLayout) : List Nat := bl.restartAt.map bl.entryOffset

/-- block contents: entries, restart offsets (u32le each), number of restart points (u32le) -/
def encodeBlock (bl : BlockLayout) : Bytes :=
  encEntries bl.share 0 bl.entries ++ bl.restartOffsets.flatMap encU32le ++ encU32le bl.restartAt.length

/-- a layout the format allows -/
structure BlockLayout.WF (bl : BlockLayout) : Prop where
  /-- the first restart point is entry 0 … -/
  first : bl.restartAt.head? = some 0
  /-- … restart points strictly increase … -/
  incr : bl.restartAt.Pairwise (· < ·)
  /-- … and are entries of the block (an empty block has the single restart point 0) -/
  inRange : ∀ r ∈ bl.restartAt, r < bl.entries.length ∨ r = 0
  /-- a restart point stores its full key -/
  shareZero : ∀ r ∈ bl.restartAt, bl.share r = 0
  /-- any other entry shares AT MOST the common prefix with its predecessor -/
  shareLe : ∀ (i : Nat) (a b : Spec.Entry), bl.entries[i]? = some a → bl.entries[i + 1]? = some b →
    bl.share (i + 1) ≤ commonPrefix a.1 b.1
  /-- restart offsets and the restart count are 32 bit numbers -/
  small : (encodeBlock bl).length < 2 ^ 32

/-- a physical block: stored bytes, type byte, masked CRC-32C of both (u32le) -/
def physWith (ty : UInt8) (raw : Bytes) : Bytes := raw ++ [ty] ++ encU32le (mask (crc32c (raw ++ [ty])))

/-- an uncompressed physical block -/
def phys (contents : Bytes) : Bytes := physWith 0 contents

/-! ### tables -/

/-- a block somewhere in the file -/
structure Section where
  /-- arbitrary bytes before the block -/
  gap : Bytes
  block : BlockLayout
  /-- `none`: stored as it is (type 0); `some raw`: stored as the snappy stream `raw` (type 1) -/
  stored : Option Bytes := none

def Section.raw (s : Section) : Bytes := s.stored.getD (encodeBlock s.block)
def Section.ty (s : Section) : UInt8 := if s.stored.isSome then 1 else 0
def Section.bytes (s : Section) : Bytes := s.gap ++ physWith s.ty s.raw

structure Section.OK (s : Section) : Prop where
  block : s.block.WF
  /-- a compressed block is any snappy stream for the block contents -/
  stored : ∀ raw, s.stored = some raw → Snappy.decode raw = some (encodeBlock s.block)

/-- sections one after the other -/
def layoutBytes (secs : List Section) : Bytes := secs.flatMap Section.bytes

def emptySection : Section := { gap := [], block := { entries := [], restartAt := [0], share := fun _ => 0 } }

/-- handle of section `j`: where its stored bytes start, and how many they are -/
def handleIn (secs : List Section) (j : Nat) : Handle :=
  { offset := (layoutBytes (secs.take j)).length + (secs.getD j emptySection).gap.length,
    size := (secs.getD j emptySection).raw.length }

/-- what a producer chooses when it writes a table -/
structure TableLayout where
  /-- the blocks written before the index block (data blocks, possibly the metaindex block, whatever
      else), in FILE order -/
  sections : List Section
  /-- blocks written after the index block (possibly the metaindex block) -/
  tail : List Section := []
  /-- which block of the file is the metaindex block: position in `sections ++ index block :: tail` -/
  metaAt : Nat
  /-- the index, in INDEX order: index key and the section it points to -/
  index : List (Bytes × Nat)
  /-- restart points / sharing of the index block -/
  indexRestartAt : List Nat
  indexShare : Nat → Nat
  /-- arbitrary bytes before the index block -/
  indexGap : Bytes := []
  indexStored : Option Bytes := none
  /-- arbitrary bytes between the index block and the footer -/
  footerGap : Bytes := []
  /-- bytes of the footer padding (cut / filled with zeros to the length the format demands) -/
  footerPad : Bytes := []

namespace TableLayout

def sectionAt (tl : TableLayout) (j : Nat) : Section := tl.sections.getD j emptySection
def handleOf (tl : TableLayout) (j : Nat) : Handle := handleIn tl.sections j

/-- the index block: value of an entry = handle of the block -/
def indexBlock (tl : TableLayout) : BlockLayout :=
  { entries := tl.index.map fun p => (p.1, encHandle (tl.handleOf p.2)),
    restartAt := tl.indexRestartAt, share := tl.indexShare }

def indexSection (tl : TableLayout) : Section :=
  { gap := tl.indexGap, block := tl.indexBlock, stored := tl.indexStored }

/-- every block of the file: the sections, then the index block, then the tail -/
def allSections (tl : TableLayout) : List Section := tl.sections ++ tl.indexSection :: tl.tail

def indexHandle (tl : TableLayout) : Handle := handleIn tl.allSections tl.sections.length
def metaHandle (tl : TableLayout) : Handle := handleIn tl.allSections tl.metaAt
def metaSection (tl : TableLayout) : Section := tl.allSections.getD tl.metaAt emptySection

/-- footer: metaindex handle, index handle, padding to 40 bytes, magic -/
def footer (tl : TableLayout) : Bytes :=
  let hs := encHandle tl.metaHandle ++ encHandle tl.indexHandle
  hs ++ (tl.footerPad ++ List.replicate 40 0).take (40 - hs.length) ++ magic

end TableLayout

def encodeTable (tl : TableLayout) : Bytes :=
  layoutBytes tl.allSections ++ tl.footerGap ++ tl.footer

namespace TableLayout

structure WF (tl : TableLayout) : Prop where
  sections : ∀ s ∈ tl.sections, s.OK
  index : tl.indexSection.OK
  tail : ∀ s ∈ tl.tail, s.OK
  metaIn : tl.metaAt < tl.allSections.length
  indexIn : ∀ p ∈ tl.index, p.2 < tl.sections.length
  /-- offsets are 64 bit numbers -/
  small : (encodeTable tl).length < 2 ^ 64

/-- entries of the table, in index order -/
def entries (tl : TableLayout) : List Spec.Entry :=
  (tl.index.map fun p => (tl.sectionAt p.2).block.entries).flatten

def metaEntries (tl : TableLayout) : List Spec.Entry := tl.metaSection.block.entries

/-- what the decoder has to find -/
def decoded (tl : TableLayout) : Decoded :=
  { metaIndex := tl.metaHandle
    index := tl.indexHandle
    blocks := tl.index.map fun p =>
      { handle := tl.handleOf p.2, indexKey := p.1, entries := (tl.sectionAt p.2).block.entries,
        restarts := (tl.sectionAt p.2).block.restartOffsets }
    metaEntries := tl.metaEntries }

/-- the order conditions of a table (the rest of `WFTable`), on the layout -/
structure Ordered (cmp : Cmp) (tl : TableLayout) : Prop where
  /-- data blocks hold entries -/
  nonempty : ∀ p ∈ tl.index, (tl.sectionAt p.2).block.entries ≠ []
  /-- keys strictly increase (index order) -/
  sorted : (tl.entries.map (·.1)).Pairwise (fun a b => cmp.cmp a b = .lt)
  /-- an index key is not below any key of its block … -/
  sepGe : ∀ p ∈ tl.index, ∀ e ∈ (tl.sectionAt p.2).block.entries, cmp.cmp e.1 p.1 ≠ .gt
  /-- … and below every key of the NEXT block of the index -/
  sepNext : ∀ (i : Nat) (p q : Bytes × Nat), tl.index[i]? = some p → tl.index[i + 1]? = some q →
    ∀ e ∈ (tl.sectionAt q.2).block.entries, cmp.cmp p.1 e.1 = .lt
  /-- no block is listed twice -/
  nodup : (tl.index.map (·.2)).Nodup
  metaSorted : (tl.metaEntries.map (·.1)).Pairwise (fun a b => cmp.cmp a b = .lt)

end TableLayout

end Sst.Spec.Format
