/-
  Spec: the lexicographic ("bytewise") order on byte strings, written as the textbook inductive
  definition, without looking at the Rust or the model.
-/
namespace Sst.Spec

/-- `a` is lexicographically smaller than `b`. -/
inductive LexLt : List UInt8 → List UInt8 → Prop where
  | nil  (y : UInt8) (ys : List UInt8) : LexLt [] (y :: ys)
  | head {x y : UInt8} (xs ys : List UInt8) (h : x.toNat < y.toNat) : LexLt (x :: xs) (y :: ys)
  | tail {x : UInt8} {xs ys : List UInt8} (h : LexLt xs ys) : LexLt (x :: xs) (x :: ys)

def LexLe (a b : List UInt8) : Prop := LexLt a b ∨ a = b

end Sst.Spec
