/-
  Spec: a capacity-bounded LRU map, as a list of (key, value), most recently used first.
-/
namespace Sst.Spec.Lru

structure State where
  cap : Nat
  items : List (Nat × Nat) := []
  deriving Repr, DecidableEq

inductive Op where
  | insert (k v : Nat)
  | get (k : Nat)
  | remove (k : Nat)
  deriving Repr, DecidableEq

def without (items : List (Nat × Nat)) (k : Nat) := items.filter (·.1 ≠ k)

/-- one step: new state and what the operation returns -/
def step (s : State) : Op → State × Option Nat
  | .insert k v =>
    let rest := without s.items k
    let rest := if rest.length ≥ s.cap then rest.dropLast else rest
    ({ s with items := (k, v) :: rest }, none)
  | .get k =>
    match s.items.find? (·.1 = k) with
    | some e => ({ s with items := e :: without s.items k }, some e.2)
    | none => (s, none)
  | .remove k =>
    match s.items.find? (·.1 = k) with
    | some e => ({ s with items := without s.items k }, some e.2)
    | none => (s, none)

def run (s : State) : List Op → State × List (Option Nat)
  | [] => (s, [])
  | op :: ops =>
    let (s, o) := step s op
    let (s', os) := run s ops
    (s', o :: os)

end Sst.Spec.Lru
