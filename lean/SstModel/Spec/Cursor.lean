import SstModel.Spec.Map
/-
  Spec: the bidirectional cursor of property C04 as a labelled transition system over the sorted
  entry list. Written without reference to the implementation.
-/
namespace Sst.Spec
open Sst

/-- the calls a client can make on a table iterator -/
inductive IterOp where
  | advance
  | next
  | prev
  | reset
  | seekToFirst
  | seek (t : Bytes)
  | valid
  | current
  | currentKey

/-- what a call returns -/
inductive IterOut where
  | flag (b : Bool)
  | entry (e : Option Entry)
  | key (k : Option Bytes)
  | unit

/-- one call on a cursor over the sorted entry list `es`. Deterministic except `prev` from an invalid
    position, which may land anywhere (on a stored entry) or stay invalid, but must report whether
    the new position is valid ("unspecified but consistent"). -/
inductive CursorStep (cmp : Cmp) (es : List Entry) : Pos → IterOp → Pos → IterOut → Prop where
  | advance (p : Pos) :
      CursorStep cmp es p .advance (Spec.advance es p).1 (.flag (Spec.advance es p).2)
  | next (p : Pos) :
      CursorStep cmp es p .next (Spec.advance es p).1 (.entry (entryAt es (Spec.advance es p).1))
  | prevValid (i : Nat) :
      CursorStep cmp es (some i) .prev (prevValid i).1 (.flag (prevValid i).2)
  | prevInvalid (p' : Pos) (h : ∀ i, p' = some i → i < es.length) :
      CursorStep cmp es none .prev p' (.flag p'.isSome)
  | reset (p : Pos) : CursorStep cmp es p .reset none .unit
  | seekToFirst (p : Pos) : CursorStep cmp es p .seekToFirst (Spec.seekToFirst es) .unit
  | seek (p : Pos) (t : Bytes) : CursorStep cmp es p (.seek t) (lowerBound cmp es t) .unit
  | valid (p : Pos) : CursorStep cmp es p .valid p (.flag p.isSome)
  | current (p : Pos) : CursorStep cmp es p .current p (.entry (entryAt es p))
  | currentKey (p : Pos) : CursorStep cmp es p .currentKey p (.key ((entryAt es p).map (·.1)))

/-- a finite call history: positions thread through, outputs are collected in order -/
inductive CursorRun (cmp : Cmp) (es : List Entry) : Pos → List IterOp → Pos → List IterOut → Prop where
  | nil (p : Pos) : CursorRun cmp es p [] p []
  | cons {p q r : Pos} {op : IterOp} {out : IterOut} {ops : List IterOp} {outs : List IterOut} :
      CursorStep cmp es p op q out → CursorRun cmp es q ops r outs →
      CursorRun cmp es p (op :: ops) r (out :: outs)

end Sst.Spec
