import SstModel.Spec.Format
/-
  Spec: what it means for a byte string to be a well-formed LevelDB table holding given contents,
  phrased only with the independent decoder `Spec.Format.decodeTable` and the comparator.
  (Sortedness is stated with `List.Pairwise` directly; it is `KeysSorted` of Lemmas/CmpLaws.)
-/
namespace Sst.Spec.Format
open Sst

/-- a well-formed LevelDB table image holding decoded contents `d` under comparator `cmp` -/
structure WFTable (cmp : Cmp) (img : Bytes) (d : Decoded) : Prop where
  decodes : decodeTable img = some d
  small : img.length < 2 ^ 64
  nonempty : ∀ b ∈ d.blocks, b.entries ≠ []
  /-- all keys strictly increase -/
  sorted : (d.entries.map (·.1)).Pairwise (fun a b => cmp.cmp a b = .lt)
  /-- index keys: not below any key of their block … -/
  sepGe : ∀ b ∈ d.blocks, ∀ e ∈ b.entries, cmp.cmp e.1 b.indexKey ≠ .gt
  /-- … and below every key of every later block -/
  sepLt : ∀ (i j : Nat) (bi bj : DataBlock), i < j → d.blocks[i]? = some bi → d.blocks[j]? = some bj →
            ∀ e ∈ bj.entries, cmp.cmp bi.indexKey e.1 = .lt
  /-- data blocks are distinct regions -/
  distinct : ∀ (i j : Nat) (bi bj : DataBlock), d.blocks[i]? = some bi → d.blocks[j]? = some bj →
            bi.handle.offset = bj.handle.offset → i = j
  /-- metaindex keys strictly increase -/
  metaSorted : (d.metaEntries.map (·.1)).Pairwise (fun a b => cmp.cmp a b = .lt)

end Sst.Spec.Format
