import SstModel.Model.Crc
import SstModel.Model.Snappy
import SstModel.Spec.Map
/-
  Spec: the LevelDB table format (doc/table_format.md of LevelDB, filter_block / bloom as in
  util/bloom.cc, util/hash.cc, table/filter_block.cc), as an *independent decoder*: constants are
  written out here (not taken from the generated ones), parsing is sequential over the remaining
  input, nothing is shared with the model of the reader except CRC-32C and the snappy decoder, which
  are themselves written from their specifications and anchored by published test vectors.
-/
namespace Sst.Spec.Format
open Sst

def magic : Bytes := [0x57, 0xfb, 0x80, 0x8b, 0x24, 0x75, 0x47, 0xdb]   -- 0xdb4775248b80fb57, little endian
def footerLen : Nat := 48
def trailerLen : Nat := 5
def maskDelta : Nat := 0xa282ead8

/-- LevelDB `crc32c::Mask`: rotate right by 15 bits and add a constant -/
def mask (crc : Nat) : Nat := ((crc >>> 15 ||| (crc <<< 17) % 2 ^ 32) + maskDelta) % 2 ^ 32

/-- varint32/64 (base-128, little endian groups), at most 10 bytes; (value, rest) -/
def varint : Bytes → Nat → Nat → Option (Nat × Bytes)
  | [], _, _ => none
  | b :: rest, shift, n =>
    if n ≥ 10 then none
    else if b.toNat &&& 0x80 = 0 then some (b.toNat <<< shift, rest)
    else (varint rest (shift + 7) (n + 1)).map fun (v, r) => ((b.toNat &&& 0x7f) <<< shift ||| v, r)

def u32le : Bytes → Option Nat
  | [a, b, c, d] => some (a.toNat ||| b.toNat <<< 8 ||| c.toNat <<< 16 ||| d.toNat <<< 24)
  | _ => none

structure Handle where
  offset : Nat
  size : Nat
  deriving Repr, DecidableEq

def handle (b : Bytes) : Option (Handle × Bytes) := do
  let (o, r) ← varint b 0 0
  let (s, r) ← varint r 0 0
  pure (⟨o, s⟩, r)

/-- physical block at `h`: contents, type byte, masked crc must match; returns decompressed contents -/
def block (img : Bytes) (h : Handle) : Option Bytes :=
  if h.offset + h.size + trailerLen > img.length then none
  else
    let raw := (img.drop h.offset).take h.size
    let ty := (img.drop (h.offset + h.size)).take 1
    let ck := (img.drop (h.offset + h.size + 1)).take 4
    if u32le ck ≠ some (mask (crc32c (raw ++ ty))) then none
    else match ty with
      | [0] => some raw
      | [1] => Snappy.decode raw
      | _ => none

/-- entries of a block body (the bytes before the restart array), with prefix decompression;
    also returns the start offset and shared length of every entry -/
def entries (body : Bytes) (pos : Nat) (prevKey : Bytes) (fuel : Nat) :
    Option (List (Spec.Entry × Nat × Nat)) :=
  match fuel with
  | 0 => none
  | fuel + 1 =>
    if body.isEmpty then some []
    else do
      let (shared, r1) ← varint body 0 0
      let (nonShared, r2) ← varint r1 0 0
      let (vlen, r3) ← varint r2 0 0
      if shared > prevKey.length ∨ nonShared + vlen > r3.length then none
      else
        let key := prevKey.take shared ++ r3.take nonShared
        let val := (r3.drop nonShared).take vlen
        let rest := r3.drop (nonShared + vlen)
        let used := body.length - rest.length
        let tail ← entries rest (pos + used) key fuel
        pure (((key, val), pos, shared) :: tail)

def u32list : Bytes → Option (List Nat)
  | [] => some []
  | a :: b :: c :: d :: rest => do
    let x ← u32le [a, b, c, d]
    let xs ← u32list rest
    pure (x :: xs)
  | _ => none

structure BlockInfo where
  entries : List Spec.Entry
  restarts : List Nat
  deriving Repr

/-- a block: entries, restart array, restart count. Restart points must be strictly increasing
    entry starts with shared = 0, the first one 0 -/
def parseBlock (b : Bytes) : Option BlockInfo := do
  if b.length < 4 then none
  let n ← u32le (b.drop (b.length - 4))
  if n = 0 ∨ 4 * n + 4 > b.length then none
  let bodyLen := b.length - 4 - 4 * n
  let restarts ← u32list ((b.drop bodyLen).take (4 * n))
  let es ← entries (b.take bodyLen) 0 [] (bodyLen + 1)
  let starts := es.map (fun e => (e.2.1, e.2.2))
  let okRestart (r : Nat) : Bool := starts.any (fun s => s.1 = r ∧ s.2 = 0) || (es.isEmpty && r = 0)
  if restarts.head? ≠ some 0 then none
  if !restarts.all okRestart then none
  if !(restarts.zip restarts.tail).all (fun p => p.1 < p.2) then none
  pure { entries := es.map (·.1), restarts }

structure DataBlock where
  handle : Handle
  indexKey : Bytes
  entries : List Spec.Entry
  restarts : List Nat
  deriving Repr

structure Decoded where
  metaIndex : Handle
  index : Handle
  blocks : List DataBlock
  metaEntries : List Spec.Entry
  deriving Repr

def Decoded.entries (d : Decoded) : List Spec.Entry := (d.blocks.map (·.entries)).flatten

/-- the whole table: footer, index block, every data block it points to, metaindex block -/
def decodeTable (img : Bytes) : Option Decoded := do
  if img.length < footerLen then none
  let foot := img.drop (img.length - footerLen)
  if foot.drop 40 ≠ magic then none
  let (mh, r) ← handle (foot.take 40)
  let (ih, _) ← handle r
  let ib ← parseBlock (← block img ih)
  let mb ← parseBlock (← block img mh)
  let blocks ← ib.entries.mapM fun (k, v) => do
    let (h, _) ← handle v
    let b ← parseBlock (← block img h)
    pure { handle := h, indexKey := k, entries := b.entries, restarts := b.restarts : DataBlock }
  pure { metaIndex := mh, index := ih, blocks, metaEntries := mb.entries }

/-- like `decodeTable` but keeps going over unreadable data blocks (for judging damaged files):
    the list holds `none` for index entries whose block does not verify / parse -/
def decodeDamaged (img : Bytes) : Option (List (Bytes × Option DataBlock)) := do
  if img.length < footerLen then none
  let foot := img.drop (img.length - footerLen)
  if foot.drop 40 ≠ magic then none
  let (_, r) ← handle (foot.take 40)
  let (ih, _) ← handle r
  let ib ← parseBlock (← block img ih)
  pure (ib.entries.map fun (k, v) =>
    (k, do
      let (h, _) ← handle v
      let b ← parseBlock (← block img h)
      pure { handle := h, indexKey := k, entries := b.entries, restarts := b.restarts : DataBlock }))

/-! ### bloom filter and filter block, after LevelDB's util/hash.cc, util/bloom.cc, table/filter_block.cc -/

def u32 (n : Nat) : Nat := n % 2 ^ 32

/-- `Hash(data, n, seed)` -/
def hash (data : Bytes) (seed : Nat) : Nat :=
  let m := 0xc6a4a793
  let rec words (d : Bytes) (h : Nat) (fuel : Nat) : Nat × Bytes :=
    match fuel, d with
    | fuel + 1, a :: b :: c :: e :: rest =>
      let w := a.toNat ||| b.toNat <<< 8 ||| c.toNat <<< 16 ||| e.toNat <<< 24
      let h := u32 (h + w)
      let h := u32 (h * m)
      words rest (h ^^^ (h >>> 16)) fuel
    | _, d => (h, d)
  let (h, tail) := words data (seed ^^^ u32 (data.length * m)) data.length
  match tail with
  | [x, y, z] => let h := u32 (u32 (u32 (h + z.toNat <<< 16) + y.toNat <<< 8) + x.toNat); let h := u32 (h * m); h ^^^ (h >>> 24)
  | [x, y] => let h := u32 (u32 (h + y.toNat <<< 8) + x.toNat); let h := u32 (h * m); h ^^^ (h >>> 24)
  | [x] => let h := u32 (h + x.toNat); let h := u32 (h * m); h ^^^ (h >>> 24)
  | _ => h

def bloomHash (key : Bytes) : Nat := hash key 0xbc9f1d34

/-- `BloomFilterPolicy::KeyMayMatch`, except that a filter too short to hold any bit excludes nothing
    (LevelDB answers `false` there; such filters are never produced for a block that has keys) -/
def bloomMayMatch (key filter : Bytes) : Bool :=
  if filter.length < 2 then true
  else
    let bits := (filter.length - 1) * 8
    let k := (filter.getD (filter.length - 1) 0).toNat
    if k > 30 then true
    else
      let h := bloomHash key
      let delta := (h >>> 17) ||| u32 (h <<< 15)
      let rec probe (h : Nat) : Nat → Bool
        | 0 => true
        | j + 1 =>
          let bitpos := h % bits
          if (filter.getD (bitpos / 8) 0).toNat &&& (1 <<< (bitpos % 8)) = 0 then false
          else probe (u32 (h + delta)) j
      probe h k

/-- `FilterBlockReader::KeyMayMatch(block_offset, key)` for a bloom filter block -/
def filterBlockMayMatch (fb : Bytes) (blockOffset : Nat) (key : Bytes) : Bool :=
  if fb.length < 5 then true
  else
    let baseLg := (fb.getD (fb.length - 1) 0).toNat
    match u32le ((fb.drop (fb.length - 5)).take 4) with
    | none => true
    | some arrayStart =>
      if arrayStart > fb.length - 5 then true
      else
        let num := (fb.length - 5 - arrayStart) / 4
        let index := blockOffset >>> baseLg
        if index < num then
          match u32le ((fb.drop (arrayStart + 4 * index)).take 4),
                u32le ((fb.drop (arrayStart + 4 * index + 4)).take 4) with
          | some start, some limit =>
            if start < limit ∧ limit ≤ arrayStart then bloomMayMatch key ((fb.drop start).take (limit - start))
            else true
          | _, _ => true
        else true

end Sst.Spec.Format
