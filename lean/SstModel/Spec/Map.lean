import SstModel.Model.Cmp
/-
  Spec: a table is a strictly sorted association list; point lookup, lower bound, and a
  bidirectional cursor over it. Written without reference to the implementation.
-/
namespace Sst.Spec
open Sst

abbrev Entry := Bytes × Bytes

def keyLt (cmp : Cmp) (a b : Bytes) : Bool := cmp.cmp a b == .lt

/-- strictly increasing keys -/
def StrictSorted (cmp : Cmp) : List Entry → Prop
  | [] => True
  | [_] => True
  | a :: b :: rest => keyLt cmp a.1 b.1 = true ∧ StrictSorted cmp (b :: rest)

def strictSortedB (cmp : Cmp) : List Entry → Bool
  | [] => true
  | [_] => true
  | a :: b :: rest => keyLt cmp a.1 b.1 && strictSortedB cmp (b :: rest)

/-- the value stored under `k`, if any -/
def lookup (cmp : Cmp) (es : List Entry) (k : Bytes) : Option Bytes :=
  (es.find? (fun e => cmp.cmp e.1 k == .eq)).map (·.2)

/-- index of the first entry whose key is not below `t` -/
def lowerBound (cmp : Cmp) (es : List Entry) (t : Bytes) : Option Nat :=
  let i := (es.takeWhile (fun e => keyLt cmp e.1 t)).length
  if i < es.length then some i else none

/-- cursor position: `none` = invalid (before the first / after the last) -/
abbrev Pos := Option Nat

def entryAt (es : List Entry) : Pos → Option Entry
  | some i => es[i]?
  | none => none

def advance (es : List Entry) : Pos → Pos × Bool
  | none => if es.isEmpty then (none, false) else (some 0, true)
  | some i => if i + 1 < es.length then (some (i + 1), true) else (none, false)

/-- `prev` from a valid position -/
def prevValid (i : Nat) : Pos × Bool := if i = 0 then (none, false) else (some (i - 1), true)

def seekToFirst (es : List Entry) : Pos := if es.isEmpty then none else some 0

end Sst.Spec
