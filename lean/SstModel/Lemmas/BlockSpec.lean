import SstModel.Model.Block
import SstModel.Spec.Map
/-
  The abstraction every block-level proof uses: a well-formed block is a byte string together with
  its table of parsed entries (`EInfo`) and its restart array. The iterator lemmas relate the
  concrete iterator fields to an index into that table (`SimB`).
-/
namespace Sst

/-- one parsed entry -/
structure EInfo where
  off : Nat          -- offset of the entry's first byte
  shared : Nat
  nonShared : Nat
  valLen : Nat
  headLen : Nat      -- length of the three varints
  key : Bytes        -- the full (prefix-decompressed) key
  deriving Repr

namespace EInfo
def valOff (e : EInfo) : Nat := e.off + e.headLen + e.nonShared
def next (e : EInfo) : Nat := e.valOff + e.valLen
end EInfo

/-- `Chain b roff prev off es`: starting at offset `off` with previous key `prev`, the entries `es`
    follow one another without gap up to exactly `roff`, each parsing as the model parses it
    (three varints read from the block at the entry offset), with in-range lengths, and with keys
    reconstructed by prefix sharing. -/
def Chain (b : Bytes) (roff : Nat) : Bytes → Nat → List EInfo → Prop
  | _, off, [] => off = roff
  | prev, off, e :: es =>
    e.off = off ∧ off < roff
    ∧ Block.parseHeader (b.drop off) = some (e.shared, e.nonShared, e.valLen, e.headLen)
    ∧ e.shared ≤ prev.length
    ∧ e.next ≤ roff
    ∧ e.key = prev.take e.shared ++ (b.drop (off + e.headLen)).take e.nonShared
    ∧ Chain b roff e.key e.next es

/-- a well-formed block: layout of the restart array and the entry chain -/
structure BlockWF (b : Bytes) (es : List EInfo) (rs : List Nat) : Prop where
  len : 8 ≤ b.length
  nrs : rs.length ≥ 1
  fits : 4 * rs.length + 4 ≤ b.length
  count : decodeFixed32 (b.drop (b.length - 4)) = rs.length
  restartAt : ∀ i, (h : i < rs.length) → fixed32At b (b.length - 4 - 4 * rs.length + 4 * i) = some rs[i]
  chain : Chain b (b.length - 4 - 4 * rs.length) [] 0 es
  first : rs[0]? = some 0
  incr : rs.Pairwise (· < ·)
  isStart : ∀ r ∈ rs, (∃ e ∈ es, e.off = r ∧ e.shared = 0) ∨ (es = [] ∧ r = 0)

/-- offset of the restart array -/
def BlockWF.roff {b es rs} (_ : BlockWF b es rs) : Nat := b.length - 4 - 4 * rs.length

/-- the (key, value) pairs a block holds -/
def kvOf (b : Bytes) (es : List EInfo) : List Spec.Entry :=
  es.map fun e => (e.key, (b.drop e.valOff).take e.valLen)

/-- simulation between the concrete block iterator and a cursor position over the entry table -/
structure SimB (b : Bytes) (es : List EInfo) (rs : List Nat) (it : BlockIter) (pos : Spec.Pos) : Prop where
  block : it.block = b
  roff : it.restartsOff = b.length - 4 - 4 * rs.length
  rix : it.curRestartIx < rs.length
  at_ : match pos with
    | some i => ∃ e, es[i]? = some e ∧ it.curEntryOff = e.off ∧ it.offset = e.next
                      ∧ it.valOffset = e.valOff ∧ it.key = e.key
    | none => it.offset = 0 ∧ it.valOffset = 0 ∧ it.key = [] ∧ it.curRestartIx = 0
              ∧ (it.curEntryOff = 0 ∨ ∃ e ∈ es, it.curEntryOff = e.off)

end Sst
