import SstModel.Lemmas.FaultySeek
/-
  Sessions (`FT.Ev`, `FT.run` of Lemmas/Faulty.lean) in which every iterator SIMULATES a position
  (`SimT`): the invariant `SessSim` is kept by every event under any fault schedule, and every iterator
  call made in a state satisfying it is described by `CallOutcome` (the positional semantics of
  Lemmas/FaultySeek.lean: `StepOutcome` / `SeekOutcome` / `PrevOutcome`).
-/
namespace Sst
set_option linter.unusedSectionVars false
namespace FT
open TI Spec TwoLevel

/-- what the call `op` does to the simulated position and returns, when block reads may fail -/
def CallOutcome (cmp : Cmp) (tb : Table) (t : TableImg) (pos : Option (Nat × Nat)) (op : Spec.IterOp)
    (w w' : World) (pos' : Option (Nat × Nat)) (out : Spec.IterOut) : Prop :=
  match op with
  | .advance => ∃ failed, StepOutcome tb t pos w failed w' pos' ∧ out = .flag pos'.isSome
  | .next => ∃ failed, StepOutcome tb t pos w failed w' pos'
      ∧ out = .entry (Spec.entryAt t.entries (t.flatPos pos'))
  | .seekToFirst => ∃ failed, StepOutcome tb t none w failed w' pos' ∧ out = .unit
  | .seek k => ∃ failed, SeekOutcome cmp tb t k w failed w' pos' ∧ out = .unit
  | .prev => out = .flag pos'.isSome
      ∧ ∀ bi li, pos = some (bi, li) → ∃ failed, PrevOutcome tb t bi li w failed w' pos'
  | .reset => pos' = none ∧ w' = w ∧ out = .unit
  | .valid => pos' = pos ∧ w' = w ∧ out = .flag (t.flatPos pos).isSome
  | .current => pos' = pos ∧ w' = w ∧ out = .entry (Spec.entryAt t.entries (t.flatPos pos))
  | .currentKey => pos' = pos ∧ w' = w ∧ out = .key ((Spec.entryAt t.entries (t.flatPos pos)).map (·.1))

section
variable (cmp : Cmp) (hc : cmp.Lawful) (p : FilterPolicy) (t : TableImg) (hwf : t.WF cmp)
  (fv : Option Bytes) (tb : Table) (hop : Opened tb t cmp p fv)
include hc hwf hop

/-- `call_gen` with the outcome kept -/
theorem call_outcome_gen (P : World → Prop) (hload : LoadOK t tb P) (it : TableIter)
    (pos : Option (Nat × Nat)) (hs : SimT t tb it pos) (op : Spec.IterOp) (w : World) (hp : P w) :
    ∃ w' it' out pos', it.call op w = (w', .ok (it', out)) ∧ SimT t tb it' pos' ∧ P w'
      ∧ CallOutcome cmp tb t pos op w w' pos' out := by
  cases op with
  | advance =>
    obtain ⟨failed, w', it', pos', hadv, hsT, hp', hout⟩ :=
      advance_gen cmp hc p t hwf fv tb hop P hload it pos hs w hp
    refine ⟨w', it', .flag pos'.isSome, pos', ?_, hsT, hp', failed, hout, rfl⟩
    show (it.advance >>= fun r => pure (r.1, Spec.IterOut.flag r.2)) w = _
    rw [bind_ok hadv]; rfl
  | next =>
    obtain ⟨failed, w', it', pos', hadv, hsT, hp', hout⟩ :=
      advance_gen cmp hc p t hwf fv tb hop P hload it pos hs w hp
    exact ⟨w', it', _, pos', call_next (next_of_advance cmp hc p t hwf fv tb hop hadv hsT), hsT, hp',
      failed, hout, rfl⟩
  | prev =>
    cases pos with
    | none =>
      obtain ⟨w', it', pos', hrun, hsT, hp'⟩ := prev_invalid_gen cmp hc p t hwf fv tb hop P hload it hs w hp
      refine ⟨w', it', .flag pos'.isSome, pos', ?_, hsT, hp', rfl, ?_⟩
      · show (it.prev >>= fun r => pure (r.1, Spec.IterOut.flag r.2)) w = _
        rw [bind_ok hrun]; rfl
      · intro bi li h; cases h
    | some q =>
      obtain ⟨bi, li⟩ := q
      obtain ⟨failed, w', it', pos', hrun, hsT, hp', hout⟩ :=
        prev_gen cmp hc p t hwf fv tb hop P hload it bi li hs w hp
      refine ⟨w', it', .flag pos'.isSome, pos', ?_, hsT, hp', rfl, ?_⟩
      · show (it.prev >>= fun r => pure (r.1, Spec.IterOut.flag r.2)) w = _
        rw [bind_ok hrun]; rfl
      · intro bi' li' h
        cases h
        exact ⟨failed, hout⟩
  | reset =>
    exact ⟨w, it.reset, .unit, none, rfl, simT_reset cmp hc p t hwf fv tb hop it pos hs, hp, rfl, rfl, rfl⟩
  | seekToFirst =>
    obtain ⟨failed, w', it', pos', hadv, hsT, hp', hout⟩ :=
      advance_gen cmp hc p t hwf fv tb hop P hload it.reset none
        (simT_reset cmp hc p t hwf fv tb hop it pos hs) w hp
    refine ⟨w', it', .unit, pos', ?_, hsT, hp', failed, hout, rfl⟩
    show (it.seekToFirst >>= fun it' => pure (it', Spec.IterOut.unit)) w = _
    have : it.seekToFirst w = (w', .ok it') := by
      unfold TableIter.seekToFirst
      rw [bind_ok hadv]; rfl
    rw [bind_ok this]; rfl
  | seek k =>
    obtain ⟨ipos, hi⟩ := simT_index hs
    obtain ⟨failed, w', it', pos', hrun, hsT, hp', hout⟩ :=
      seek_gen cmp hc p t hwf fv tb hop P hload it hs.table ipos hi w hp k
    refine ⟨w', it', .unit, pos', ?_, hsT, hp', failed, hout, rfl⟩
    show (it.seek k >>= fun it' => pure (it', Spec.IterOut.unit)) w = _
    rw [bind_ok hrun]; rfl
  | valid =>
    exact ⟨w, it, _, pos, rfl, hs, hp, rfl, rfl, by rw [simT_valid cmp hc p t hwf fv tb hop it pos hs]⟩
  | current =>
    refine ⟨w, it, .entry (Spec.entryAt t.entries (t.flatPos pos)), pos, ?_, hs, hp, rfl, rfl, rfl⟩
    show (it.current >>= fun e => pure (it, Spec.IterOut.entry e)) w = _
    rw [bind_ok (simT_current cmp hc p t hwf fv tb hop w it pos hs)]; rfl
  | currentKey =>
    exact ⟨w, it, _, pos, rfl, hs, hp, rfl, rfl, by rw [simT_currentKey cmp hc p t hwf fv tb hop it pos hs]⟩

end

/-- the session invariant with simulating iterators -/
structure SessSim (cmp : Cmp) (tb : Table) (t : TableImg) (s : Sess) : Prop where
  inv : Inv tb t s.w
  its : ∀ it ∈ s.its, ∃ pos, SimT t tb it pos
  gets : ∀ e ∈ s.gets, e.2 = .ok (Spec.lookup cmp t.entries e.1) ∨ ∃ c, e.2 = .err c
  calls : s.failedCalls = 0

section
variable (cmp : Cmp) (hc : cmp.Lawful) (p : FilterPolicy) (t : TableImg) (hwf : t.WF cmp)
  (fv : Option Bytes) (tb : Table) (hop : Opened tb t cmp p fv)
  (hsound : ∀ fb, fv = some fb → FilterSound p t fb)
  (hfwf : ∀ fb, fv = some fb → FilterBlockReader.isWellFormed fb = true) (hns : NoShortCollision t)
include hc hwf hop hsound hfwf hns

/-- a call event in a state satisfying the invariant: the call succeeds, is described by `CallOutcome`, and
    the session step replaces the iterator -/
theorem session_call (s : Sess) (hs : SessSim cmp tb t s) (i : Nat) (it : TableIter)
    (hi : s.its[i]? = some it) (op : Spec.IterOp) :
    ∃ pos w' it' out pos', SimT t tb it pos ∧ it.call op s.w = (w', .ok (it', out))
      ∧ SimT t tb it' pos' ∧ Inv tb t w' ∧ CallOutcome cmp tb t pos op s.w w' pos' out
      ∧ step tb s (.call i op) = { s with w := w', its := s.its.set i it' } := by
  obtain ⟨pos, hsim⟩ := hs.its it (List.mem_of_getElem? hi)
  obtain ⟨w', it', out, pos', hcall, hsT, hinv, hout⟩ :=
    call_outcome_gen cmp hc p t hwf fv tb hop (Inv tb t) (loadOK_inv cmp hc p t hwf fv tb hop hns)
      it pos hsim op s.w hs.inv
  refine ⟨pos, w', it', out, pos', hsim, hcall, hsT, hinv, hout, ?_⟩
  unfold step
  simp only [hi, hcall]

theorem step_sim (s : Sess) (hs : SessSim cmp tb t s) (e : Ev) : SessSim cmp tb t (step tb s e) := by
  cases e with
  | get k =>
    obtain ⟨h1, h2⟩ := get_faulty_inv cmp hc p t hwf fv tb hop hsound hfwf hns s.w hs.inv k
    refine ⟨h1, hs.its, ?_, hs.calls⟩
    intro e he
    rcases List.mem_cons.mp he with rfl | he
    · exact h2
    · exact hs.gets e he
  | newIter =>
    obtain ⟨it, hnew, hsim⟩ := iter_new_ok cmp hc p t hwf fv tb hop s.w
    unfold step
    simp only [hnew]
    refine ⟨hs.inv, ?_, hs.gets, hs.calls⟩
    intro it' hit'
    rcases List.mem_append.mp hit' with h | h
    · exact hs.its it' h
    · rw [List.mem_singleton.mp h]; exact ⟨none, hsim⟩
  | call i op =>
    cases hi : s.its[i]? with
    | none =>
      have : step tb s (.call i op) = s := by unfold step; simp only [hi]
      rw [this]; exact hs
    | some it =>
      obtain ⟨pos, w', it', out, pos', _, _, hsT, hinv, _, hstep⟩ :=
        session_call cmp hc p t hwf fv tb hop hsound hfwf hns s hs i it hi op
      rw [hstep]
      refine ⟨hinv, ?_, hs.gets, hs.calls⟩
      intro x hx
      rcases List.mem_or_eq_of_mem_set hx with h | h
      · exact hs.its x h
      · rw [h]; exact ⟨pos', hsT⟩
  | faults sch => exact ⟨hs.inv, hs.its, hs.gets, hs.calls⟩

theorem run_sim (evs : List Ev) : ∀ (s : Sess), SessSim cmp tb t s → SessSim cmp tb t (run tb evs s) := by
  induction evs with
  | nil => intro s hs; exact hs
  | cons e evs ih =>
    intro s hs
    exact ih _ (step_sim cmp hc p t hwf fv tb hop hsound hfwf hns s hs e)

end

end FT
end Sst

#print axioms Sst.FT.call_outcome_gen
#print axioms Sst.FT.session_call
#print axioms Sst.FT.run_sim
