import SstModel.Lemmas.BlockAdvance
/-
  The backward half of the block-iterator refinement: `prev`, `seek_to_restart_point`,
  `seek_to_last` of the model (`SstModel/Model/Block.lean`) simulate the `Spec` cursor over the
  entry table of a well-formed block.
-/
namespace Sst
open Spec

/-! ### more facts about chains -/

/-- a chain of `n` entries needs at least `n` bytes -/
theorem Chain.length_le {b : Bytes} {roff : Nat} :
    ∀ {es : List EInfo} {prev : Bytes} {off : Nat}, Chain b roff prev off es →
      off + es.length ≤ roff := by
  intro es
  induction es with
  | nil =>
    intro _ off h
    have : off = roff := h
    simp only [List.length_nil]; omega
  | cons a es ih =>
    intro prev off h
    obtain ⟨hoff, hlt, hp, hsh, hnext, hkey, hrest⟩ := h
    have hhl := parseHeader_headLen hp
    have := ih hrest
    simp only [EInfo.next, EInfo.valOff, List.length_cons] at *
    omega

/-- distinct entries have distinct offsets -/
theorem Chain.idx_eq_of_off_eq {b : Bytes} {roff : Nat} {es : List EInfo} {prev : Bytes} {off : Nat}
    (h : Chain b roff prev off es) {i j : Nat} {a c : EInfo}
    (ha : es[i]? = some a) (hc : es[j]? = some c) (ho : a.off = c.off) : i = j := by
  rcases Nat.lt_trichotomy i j with hlt | heq | hgt
  · have := (Chain.off_lt_of_lt h hlt ha hc).2; omega
  · exact heq
  · have := (Chain.off_lt_of_lt h hgt hc ha).2; omega

/-- offsets order the indices -/
theorem Chain.idx_lt_of_off_lt {b : Bytes} {roff : Nat} {es : List EInfo} {prev : Bytes} {off : Nat}
    (h : Chain b roff prev off es) {i j : Nat} {a c : EInfo}
    (ha : es[i]? = some a) (hc : es[j]? = some c) (ho : a.off < c.off) : i < j := by
  rcases Nat.lt_trichotomy i j with hlt | heq | hgt
  · exact hlt
  · subst heq; rw [ha] at hc; cases hc; omega
  · have := (Chain.off_lt_of_lt h hgt hc ha).2; omega

/-! ### the entry table of a well-formed block, continued -/

theorem BlockWF.off_zero {b es rs} (wf : BlockWF b es rs) {e : EInfo} (he : es[0]? = some e) :
    e.off = 0 := by
  obtain ⟨_, _, hm⟩ := Chain.at_index wf.chain 0 e he
  exact hm.2

theorem BlockWF.off_succ {b es rs} (wf : BlockWF b es rs) {i : Nat} {p e : EInfo}
    (hp : es[i]? = some p) (he : es[i + 1]? = some e) : e.off = p.next := by
  obtain ⟨_, _, p', hp', _, hoff⟩ := Chain.at_index wf.chain (i + 1) e he
  rw [hp] at hp'; cases hp'; exact hoff

theorem BlockWF.last_next {b es rs} (wf : BlockWF b es rs) {i : Nat} {e : EInfo}
    (he : es[i]? = some e) (hl : es.length ≤ i + 1) : e.next = b.length - 4 - 4 * rs.length := by
  obtain ⟨prev', hc, _⟩ := Chain.at_index wf.chain i e he
  have hdrop : es.drop (i + 1) = [] := List.drop_eq_nil_of_le hl
  rw [hdrop] at hc
  exact hc.2.2.2.2.2.2

theorem BlockWF.length_le {b es rs} (wf : BlockWF b es rs) : es.length ≤ b.length := by
  have := Chain.length_le wf.chain
  omega

theorem BlockWF.rs_zero {b es rs} (wf : BlockWF b es rs) : rs[0]'wf.nrs = 0 := by
  have h := wf.first
  rw [List.getElem?_eq_getElem wf.nrs] at h
  exact Option.some.inj h

/-- every restart point is the offset of an entry with `shared = 0` (when there are entries) -/
theorem BlockWF.restart_entry {b es rs} (wf : BlockWF b es rs) (hne : es ≠ []) (ix : Nat)
    (hix : ix < rs.length) : ∃ (j : Nat) (e : EInfo), es[j]? = some e ∧ e.off = rs[ix] ∧ e.shared = 0 := by
  rcases wf.isStart rs[ix] (List.getElem_mem hix) with ⟨e, hmem, hoff, hsh⟩ | ⟨hnil, _⟩
  · obtain ⟨j, hj⟩ := List.getElem?_of_mem hmem
    exact ⟨j, e, hj, hoff, hsh⟩
  · exact absurd hnil hne

/-! ### `seek_to_restart_point` -/

/-- `seek_to_restart_point(ix)` for ix < rs.length lands on the entry at that restart point -/
theorem seekToRestartPoint_ok {b es rs} (wf : BlockWF b es rs) (hsmall : b.length < 2 ^ 64)
    (it : BlockIter) (hb : it.block = b) (hr : it.restartsOff = b.length - 4 - 4 * rs.length)
    (ix : Nat) (hix : ix < rs.length) (hne : es ≠ []) :
    ∃ (it' : BlockIter) (j : Nat) (e : EInfo), it.seekToRestartPoint ix = .ok it' ∧ es[j]? = some e
      ∧ e.off = rs[ix] ∧ e.shared = 0 ∧ SimB b es rs it' (some j) ∧ it'.curRestartIx = ix := by
  obtain ⟨j, e, he, hoff, hsh⟩ := wf.restart_entry hne ix hix
  obtain ⟨hhl, hlt, hnext, hp⟩ := wf.entry he
  have hpa := parse_at wf hsmall
    { it with offset := rs[ix], curEntryOff := rs[ix], curRestartIx := ix } j e hb he hoff.symm
  simp only [hb] at hpa
  have hvn : e.off + e.headLen + e.nonShared ≤ e.next := by
    simp only [EInfo.next, EInfo.valOff]; omega
  have hsl : slice? b (rs[ix] + e.headLen) (rs[ix] + e.headLen + e.nonShared)
      = some ((b.drop (e.off + e.headLen)).take e.nonShared) := by
    rw [← hoff]; exact slice?_add (by omega)
  obtain ⟨prev', hc, _⟩ := Chain.at_index wf.chain j e he
  have hkey : e.key = prev'.take e.shared ++ (b.drop (e.off + e.headLen)).take e.nonShared :=
    hc.2.2.2.2.2.1
  have hsim : SimB b es rs
      { block := b, restartsOff := it.restartsOff, offset := e.next, curEntryOff := rs[ix],
        curRestartIx := ix,
        key := it.key.take e.shared ++ (b.drop (e.off + e.headLen)).take e.nonShared,
        valOffset := e.valOff } (some j) :=
    { block := rfl
      roff := hr
      rix := hix
      at_ := ⟨e, he, hoff.symm, rfl, rfl, by rw [hkey, hsh]; simp⟩ }
  have hval := simB_valid wf hsim
  refine ⟨_, j, e, ?_, he, hoff, hsh, hsim, rfl⟩
  unfold BlockIter.seekToRestartPoint
  simp only [getRestartPoint_eq wf it hb hr ix hix, Res.bind_ok, hpa, BlockIter.assembleKey, hb, hsl]
  have ha1 : assert (e.shared == 0) "seek_to_restart_point: shared == 0" = .ok () := by
    rw [hsh]; rfl
  simp only [ha1, Res.bind_ok]
  have ha2 : assert (BlockIter.valid
      { block := b, restartsOff := it.restartsOff, offset := e.next, curEntryOff := rs[ix],
        curRestartIx := ix,
        key := it.key.take e.shared ++ (b.drop (e.off + e.headLen)).take e.nonShared,
        valOffset := e.valOff }) "seek_to_restart_point: valid" = .ok () := by
    rw [hval]; rfl
  simp only [ha2, Res.bind_ok, Res.pure_eq]

/-! ### forward scans -/

theorem spec_advance_lt {b : Bytes} {es : List EInfo} {j : Nat} (h : j + 1 < es.length) :
    Spec.advance (kvOf b es) (some j) = (some (j + 1), true) := by
  simp only [Spec.advance, kvOf_length, if_pos h]

/-- the scan of `prev`: from ON entry `j`, repeated `advance` until `offset ≥ es[t].next` (`j < t`)
    stops exactly ON entry `t`, the last `advance` having returned `true` -/
theorem scan_to {b es rs} (wf : BlockWF b es rs) (hsmall : b.length < 2 ^ 64) :
    ∀ (n : Nat) (it : BlockIter) (j t : Nat) (et : EInfo) (fuel : Nat),
      SimB b es rs it (some j) → j + 1 + n = t → es[t]? = some et → n + 1 ≤ fuel →
      ∃ it', it.prevScan et.next fuel = .ok (it', true) ∧ SimB b es rs it' (some t) := by
  intro n
  induction n with
  | zero =>
    intro it j t et fuel h hjt het hfuel
    have htl : t < es.length := (List.getElem?_eq_some_iff.mp het).1
    obtain ⟨it1, ha, hs⟩ := simB_advance wf hsmall h
    rw [spec_advance_lt (by omega)] at ha hs
    obtain ⟨e1, he1, _, ho1, _⟩ := hs.at_
    have : j + 1 = t := by omega
    subst this
    rw [het] at he1; cases he1
    obtain ⟨fuel', rfl⟩ : ∃ f, fuel = f + 1 := ⟨fuel - 1, by omega⟩
    refine ⟨it1, ?_, hs⟩
    simp only [BlockIter.prevScan, ha]
    rw [if_pos (by omega)]
  | succ n ih =>
    intro it j t et fuel h hjt het hfuel
    have htl : t < es.length := (List.getElem?_eq_some_iff.mp het).1
    obtain ⟨it1, ha, hs⟩ := simB_advance wf hsmall h
    rw [spec_advance_lt (by omega)] at ha hs
    obtain ⟨e1, he1, _, ho1, _⟩ := hs.at_
    have hlt := Chain.off_lt_of_lt wf.chain (show j + 1 < t by omega) he1 het
    have hnx := (wf.entry het).2.1
    obtain ⟨fuel', rfl⟩ : ∃ f, fuel = f + 1 := ⟨fuel - 1, by omega⟩
    obtain ⟨it', hsc, hs'⟩ := ih it1 (j + 1) t et fuel' hs (by omega) het (by omega)
    refine ⟨it', ?_, hs'⟩
    simp only [BlockIter.prevScan, ha]
    rw [if_neg (by omega)]
    exact hsc

/-- the scan of `seek_to_last`: from ON entry `j`, `advance` while `offset < restarts_off` ends ON the
    last entry -/
theorem scan_to_end {b es rs} (wf : BlockWF b es rs) (hsmall : b.length < 2 ^ 64) :
    ∀ (n : Nat) (it : BlockIter) (j : Nat) (fuel : Nat),
      SimB b es rs it (some j) → j + 1 + n = es.length → n + 1 ≤ fuel →
      ∃ it', it.advanceToEnd fuel = .ok it' ∧ SimB b es rs it' (some (es.length - 1)) := by
  intro n
  induction n with
  | zero =>
    intro it j fuel h hj hfuel
    obtain ⟨e, he, _, ho, _⟩ := h.at_
    have hend := wf.last_next he (by omega)
    obtain ⟨fuel', rfl⟩ : ∃ f, fuel = f + 1 := ⟨fuel - 1, by omega⟩
    have : es.length - 1 = j := by omega
    rw [this]
    refine ⟨it, ?_, h⟩
    simp only [BlockIter.advanceToEnd]
    rw [if_neg (by rw [h.roff, ho, hend]; omega)]
  | succ n ih =>
    intro it j fuel h hj hfuel
    obtain ⟨e, he, _, ho, _⟩ := h.at_
    obtain ⟨it1, ha, hs⟩ := simB_advance wf hsmall h
    rw [spec_advance_lt (by omega)] at ha hs
    obtain ⟨e1, he1, _, _, _⟩ := hs.at_
    have hoff := wf.off_succ he he1
    have hlt := (wf.entry he1)
    obtain ⟨fuel', rfl⟩ : ∃ f, fuel = f + 1 := ⟨fuel - 1, by omega⟩
    obtain ⟨it', hsc, hs'⟩ := ih it1 (j + 1) fuel' hs (by omega) (by omega)
    refine ⟨it', ?_, hs'⟩
    simp only [BlockIter.advanceToEnd, ha]
    rw [if_pos (by rw [h.roff, ho]; omega)]
    exact hsc

/-! ### `prev` -/

/-- the first loop of `prev` stops at a restart point below `orig` without touching anything but
    `curRestartIx` -/
theorem prevFindRestart_ok {b es rs} (wf : BlockWF b es rs) (orig : Nat) (horig : 0 < orig) :
    ∀ (fuel : Nat) (it : BlockIter), it.block = b →
      it.restartsOff = b.length - 4 - 4 * rs.length → it.curRestartIx < rs.length →
      it.curRestartIx + 1 ≤ fuel →
      ∃ (k : Nat) (hk : k < rs.length), it.prevFindRestart orig fuel = .ok { it with curRestartIx := k }
        ∧ k ≤ it.curRestartIx ∧ rs[k] < orig := by
  intro fuel
  induction fuel with
  | zero => intro it _ _ _ hf; omega
  | succ fuel ih =>
    intro it hb hr hrix hf
    unfold BlockIter.prevFindRestart
    rw [getRestartPoint_eq wf it hb hr _ hrix]
    simp only
    by_cases h1 : rs[it.curRestartIx] ≥ orig
    · rw [if_pos h1]
      have hz : it.curRestartIx ≠ 0 := by
        intro hz
        have h0 := wf.rs_zero
        have : rs[it.curRestartIx] = rs[0]'wf.nrs := by simp only [hz]
        omega
      rw [if_neg hz]
      obtain ⟨k, hk, hpf, hle, hlt⟩ := ih { it with curRestartIx := it.curRestartIx - 1 } hb hr
        (by simp only; omega) (by simp only; omega)
      exact ⟨k, hk, hpf, by simp only at hle; omega, hlt⟩
    · rw [if_neg h1]
      exact ⟨it.curRestartIx, hrix, rfl, Nat.le_refl _, by omega⟩

/-- `prev` from any state whose `curEntryOff` is the offset of entry `i > 0` lands on entry `i - 1` -/
theorem prev_core {b es rs} (wf : BlockWF b es rs) (hsmall : b.length < 2 ^ 64) (it : BlockIter)
    (hb : it.block = b) (hr : it.restartsOff = b.length - 4 - 4 * rs.length)
    (hrix : it.curRestartIx < rs.length) (i : Nat) (ei : EInfo) (he : es[i]? = some ei)
    (hce : it.curEntryOff = ei.off) (hne : ei.off ≠ 0) :
    ∃ it', it.prev = .ok (it', true) ∧ SimB b es rs it' (some (i - 1)) ∧ 0 < i := by
  have hes : es ≠ [] := by intro h; rw [h] at he; simp at he
  have hi : 0 < i := by
    rcases Nat.eq_zero_or_pos i with h0 | h0
    · subst h0; exact absurd (wf.off_zero he) hne
    · exact h0
  obtain ⟨t, rfl⟩ : ∃ t, i = t + 1 := ⟨i - 1, by omega⟩
  have hil : t + 1 < es.length := (List.getElem?_eq_some_iff.mp he).1
  have het : es[t]? = some es[t] := List.getElem?_eq_getElem (by omega)
  have horig : ei.off = es[t].next := wf.off_succ het he
  -- first loop
  obtain ⟨k, hk, hpf, hkle, hklt⟩ := prevFindRestart_ok wf it.curEntryOff (by omega)
    (it.curRestartIx + 2) it hb hr hrix (by omega)
  -- the restart entry
  obtain ⟨j, e, hej, hoff, hsh⟩ := wf.restart_entry hes k hk
  have hjlt : j < t + 1 := Chain.idx_lt_of_off_lt wf.chain hej he (by omega)
  -- first advance of the scan
  obtain ⟨it1, ha, hs1, _⟩ := advance_at wf hsmall
    { it with curRestartIx := k, offset := rs[k] } j e hb hr hk hej hoff.symm (Or.inl hsh)
  obtain ⟨e1, he1, _, ho1, _⟩ := hs1.at_
  rw [hej] at he1; cases he1
  have hgr : BlockIter.getRestartPoint { it with curRestartIx := k } k = .ok rs[k] :=
    getRestartPoint_eq wf { it with curRestartIx := k } hb hr k hk
  have has : assert (decide (rs[k] < it.curEntryOff)) "prev: offset < orig_offset" = .ok () := by
    unfold assert; rw [if_pos (by simpa using hklt)]
  simp only [Nat.add_sub_cancel]
  suffices hsc : ∃ it', BlockIter.prevScan { it with curRestartIx := k, offset := rs[k] }
      it.curEntryOff (it.block.length + 2) = .ok (it', true) ∧ SimB b es rs it' (some t) by
    obtain ⟨it', hsc, hs'⟩ := hsc
    refine ⟨it', ?_, hs', hi⟩
    unfold BlockIter.prev
    simp only
    rw [if_neg (by omega)]
    simp only [hpf, Res.bind_ok, hgr, has]
    exact hsc
  simp only [BlockIter.prevScan, ha]
  by_cases hjt : j = t
  · subst hjt
    simp only [List.getElem?_eq_getElem (show j < es.length by omega), Option.some.injEq] at hej
    refine ⟨it1, ?_, hs1⟩
    rw [if_pos (by rw [ho1, hce, horig, hej]; omega)]
  · have hlt := Chain.off_lt_of_lt wf.chain (show j < t by omega) hej het
    have hnx := (wf.entry het).2.1
    rw [if_neg (by rw [ho1, hce, horig]; omega)]
    have hlen := wf.length_le
    obtain ⟨it', hsc, hs'⟩ := scan_to wf hsmall (t - j - 1) it1 j t es[t] (it.block.length + 1) hs1
      (by omega) het (by rw [hb]; omega)
    refine ⟨it', ?_, hs'⟩
    rw [hce, horig]; exact hsc

theorem prev_zero (it : BlockIter) (h : it.curEntryOff = 0) : it.prev = .ok (it.reset, false) := by
  unfold BlockIter.prev
  simp only
  rw [if_pos h]

/-- T3a: `prev` from a valid position i: false + before-first if i = 0, else true and position i-1 -/
theorem simB_prev_valid {b es rs it i} (wf : BlockWF b es rs) (hsmall : b.length < 2 ^ 64)
    (h : SimB b es rs it (some i)) :
    ∃ it', it.prev = .ok (it', (Spec.prevValid i).2) ∧ SimB b es rs it' (Spec.prevValid i).1 := by
  obtain ⟨e, he, hce, _⟩ := h.at_
  by_cases h0 : e.off = 0
  · have hi : i = 0 := by
      have hl : 0 < es.length := by have := (List.getElem?_eq_some_iff.mp he).1; omega
      have h0' := wf.off_zero (List.getElem?_eq_getElem hl)
      exact Chain.idx_eq_of_off_eq wf.chain he (List.getElem?_eq_getElem hl) (by omega)
    subst hi
    exact ⟨it.reset, prev_zero it (by omega), simB_reset wf h⟩
  · obtain ⟨it', hp, hs, hi⟩ := prev_core wf hsmall it h.block h.roff h.rix i e he hce h0
    have : Spec.prevValid i = (some (i - 1), true) := by
      unfold Spec.prevValid; rw [if_neg (by omega)]
    rw [this]
    exact ⟨it', hp, hs⟩

/-- T3b: `prev` from an invalid position is unspecified but harmless: it never panics, lands on some
    position (possibly none) and its return value says whether that position is valid -/
theorem simB_prev_invalid {b es rs it} (wf : BlockWF b es rs) (hsmall : b.length < 2 ^ 64)
    (h : SimB b es rs it none) :
    ∃ it' pos', it.prev = .ok (it', pos'.isSome) ∧ SimB b es rs it' pos' := by
  obtain ⟨_, _, _, _, hce⟩ := h.at_
  by_cases h0 : it.curEntryOff = 0
  · exact ⟨it.reset, none, prev_zero it h0, simB_reset wf h⟩
  · rcases hce with hz | ⟨e, hmem, hce⟩
    · exact absurd hz h0
    · obtain ⟨i, he⟩ := List.getElem?_of_mem hmem
      obtain ⟨it', hp, hs, _⟩ := prev_core wf hsmall it h.block h.roff h.rix i e he hce (by omega)
      exact ⟨it', some (i - 1), hp, hs⟩

/-! ### `seek_to_last` -/

/-- T5: `seek_to_last`: the last entry, or before-first for a block without entries -/
theorem simB_seekToLast {b es rs it pos} (wf : BlockWF b es rs) (hsmall : b.length < 2 ^ 64)
    (h : SimB b es rs it pos) :
    ∃ it', it.seekToLast = .ok it'
      ∧ SimB b es rs it' (if es = [] then none else some (es.length - 1)) := by
  have hlen := Chain.length_le wf.chain
  by_cases hr0 : it.restartsOff = 0
  · have hes : es = [] := by
      rw [h.roff] at hr0
      cases es with
      | nil => rfl
      | cons a es => simp only [List.length_cons] at hlen; omega
    rw [if_pos hes]
    refine ⟨it.reset, ?_, simB_reset wf h⟩
    unfold BlockIter.seekToLast
    rw [if_pos hr0]
  · have hes : es ≠ [] := by
      intro hnil
      have hc := wf.chain
      rw [hnil] at hc
      have : 0 = b.length - 4 - 4 * rs.length := hc
      rw [h.roff] at hr0; omega
    rw [if_neg hes]
    have hnr := numberRestarts_eq wf it h.block
    have hnrs := wf.nrs
    obtain ⟨it1, j, e, hsk, hej, _, _, hs1, _⟩ := seekToRestartPoint_ok wf hsmall it h.block h.roff
      (rs.length - 1) (by omega) hes
    have hjl : j < es.length := (List.getElem?_eq_some_iff.mp hej).1
    obtain ⟨it2, hsc, hs2⟩ := scan_to_end wf hsmall (es.length - 1 - j) it1 j (it1.block.length + 1)
      hs1 (by omega) (by rw [hs1.block]; omega)
    have hval : it2.valid = true := by rw [simB_valid wf hs2]; rfl
    refine ⟨it2, ?_, hs2⟩
    unfold BlockIter.seekToLast
    rw [if_neg hr0, hnr, if_pos (by omega)]
    simp only [hsk, Res.bind_ok, hsc, hval, assert, if_true, Res.pure_eq]

end Sst

#print axioms Sst.seekToRestartPoint_ok
#print axioms Sst.scan_to
#print axioms Sst.scan_to_end
#print axioms Sst.simB_prev_valid
#print axioms Sst.simB_prev_invalid
#print axioms Sst.simB_seekToLast
