import SstModel.Lemmas.TableSpec
/-
  Fault-free block reads are pure functions of the image (`readBlockContents_clean`,
  `readTableBlock_clean`), `check_block_bounds` decides `InBounds`, LRU cache facts, and
  `Table::read_block` through a coherent cache returns the true block contents and keeps the cache
  coherent (`readBlock_ok`).
-/
namespace Sst

/-! ### fault-free reads -/

/-- whatever passes `Block::is_well_formed` has at least 8 bytes (so `Block::new`'s assertion holds) -/
theorem isWellFormed_length (c : Bytes) (h : Block.isWellFormed c = true) : 8 ≤ c.length := by
  unfold Block.isWellFormed at h
  simp only at h
  split at h
  · simp at h
  · omega

/-- `readBytes_clean` with the resulting world made explicit -/
theorem readBytes_clean_eq (file : Nat) (loc : BlockHandle) (w : World) (hs : w.sched = []) :
    readBytes file loc w =
      ({ w with sched := [], readLog := (file, loc.offset, loc.size) :: w.readLog,
                allocs := loc.size :: w.allocs },
       .ok (cleanBuf (w.files.getD file []) loc.offset loc.size)) := by
  have hn : (if loc.offset > (w.files.getD file []).length then 0
              else min loc.size ((w.files.getD file []).length - loc.offset))
            = min loc.size ((w.files.getD file []).length - loc.offset) := by
    split <;> omega
  unfold readBytes readAt cleanBuf
  simp only [hs, hn]
  congr 3
  rw [List.take_eq_take_iff]
  simp only [List.length_drop]
  omega

/-- fault-free reads are pure functions of the image; only the logs change -/
theorem readBlockContents_clean (w : World) (file : Nat) (img : Bytes) (h : BlockHandle)
    (hc : CleanWorld w file img) :
    ∃ w', readBlockContents file h w = (w', blockAt img h) ∧ CleanWorld w' file img
      ∧ w'.cache = w.cache ∧ w'.files = w.files ∧ w'.events = w.events := by
  have hr := readBytes_clean_eq file
    ⟨h.offset, h.size + Consts.tableBlockCksumLen + Consts.tableBlockCompressLen⟩ w hc.sched
  refine ⟨({ w with
      sched := [],
      readLog := (file, h.offset, h.size + Consts.tableBlockCksumLen + Consts.tableBlockCompressLen) :: w.readLog,
      allocs := blockAllocs img h ++ w.allocs } : World), ?_, ⟨hc.file, rfl⟩, rfl, rfl, rfl⟩
  rw [readBlockContents_eq, hr, hc.file]
  simp only [blockAllocs, blockAt, List.append_assoc, List.cons_append, List.nil_append]

theorem readTableBlock_clean (w : World) (file : Nat) (img : Bytes) (h : BlockHandle)
    (hc : CleanWorld w file img) :
    ∃ w', readTableBlock file h w = (w', tableBlockAt img h) ∧ CleanWorld w' file img
      ∧ w'.cache = w.cache ∧ w'.files = w.files ∧ w'.events = w.events := by
  obtain ⟨w', hr, hc', h1, h2, h3⟩ := readBlockContents_clean w file img h hc
  refine ⟨w', ?_, hc', h1, h2, h3⟩
  unfold readTableBlock tableBlockAt
  show M.bind' (readBlockContents file h) _ w = _
  unfold M.bind'
  rw [hr]
  cases hb : blockAt img h with
  | ok c =>
    simp only []
    by_cases hwf : Block.isWellFormed c = true
    · have hlen := isWellFormed_length c hwf
      have hlen' : decide (c.length > 4) = true := by simp; omega
      simp only [hwf, Bool.not_true, Bool.false_eq_true, if_false, if_true, bind, M.bind', M.lift,
        hlen', assert, pure, M.pure']
    · simp only [hwf, Bool.not_false, if_true, M.fail]
      simp at hwf
      simp
  | err c => rfl
  | panic s => rfl
  | diverge => rfl

theorem checkBlockBounds_iff (h : BlockHandle) (size : Nat) (w : World) :
    (InBounds h size → checkBlockBounds h size w = (w, .ok ()))
      ∧ (¬ InBounds h size → checkBlockBounds h size w = (w, .err .corruption)) := by
  unfold InBounds checkBlockBounds
  constructor
  · intro hb
    simp only [hb, and_self, if_true]
    rfl
  · intro hb
    simp only [hb, if_false]
    rfl

/-! ### LRU cache facts -/

namespace LruCache

/-- the invariant of the LRU map: keys are unique -/
def KeysNodup {α} (c : LruCache α) : Prop := (c.entries.map (·.1)).Nodup

@[simp] theorem insert_cap {α} (c : LruCache α) (k v) : (c.insert k v).cap = c.cap := rfl
@[simp] theorem insert_nextId {α} (c : LruCache α) (k v) : (c.insert k v).nextId = c.nextId := rfl

theorem get_cap {α} (c : LruCache α) (k) : (c.get k).1.cap = c.cap := by
  unfold get; split <;> rfl
theorem get_nextId {α} (c : LruCache α) (k) : (c.get k).1.nextId = c.nextId := by
  unfold get; split <;> rfl

theorem get_none {α} (c : LruCache α) (k) (h : (c.get k).2 = none) : (c.get k).1 = c := by
  unfold get at h ⊢
  split
  · rename_i e he; rw [he] at h; simp at h
  · rfl

theorem insert_count_le {α} (c : LruCache α) (k v) (hcap : 1 ≤ c.cap) (h : c.count ≤ c.cap) :
    (c.insert k v).count ≤ c.cap := by
  unfold insert count at *
  have hf : (c.entries.filter (·.1 ≠ k)).length ≤ c.entries.length := List.length_filter_le _ _
  simp only [List.length_cons]
  split
  · rw [List.length_dropLast]; omega
  · omega

private theorem filter_ne_length_lt {α} (k : Nat × Nat) (l : List ((Nat × Nat) × α)) (e)
    (he : e ∈ l) (hk : e.1 = k) : (l.filter (·.1 ≠ k)).length + 1 ≤ l.length := by
  induction l with
  | nil => cases he
  | cons x xs ih =>
    by_cases hx : x.1 = k
    · have : (List.filter (fun y => decide (y.1 ≠ k)) (x :: xs)) = List.filter (fun y => decide (y.1 ≠ k)) xs := by
        simp [hx]
      rw [this]
      have := List.length_filter_le (fun y : (Nat × Nat) × α => decide (y.1 ≠ k)) xs
      simp only [List.length_cons]; omega
    · have hmem : e ∈ xs := by
        rcases List.mem_cons.mp he with rfl | h
        · exact absurd hk hx
        · exact h
      have : (List.filter (fun y => decide (y.1 ≠ k)) (x :: xs)) = x :: List.filter (fun y => decide (y.1 ≠ k)) xs := by
        simp [hx]
      rw [this]
      have := ih hmem
      simp only [List.length_cons]; omega

private theorem filter_ne_length_eq {α} (k : Nat × Nat) (l : List ((Nat × Nat) × α)) (e)
    (hnd : (l.map (·.1)).Nodup) (he : e ∈ l) (hk : e.1 = k) :
    (l.filter (·.1 ≠ k)).length + 1 = l.length := by
  induction l with
  | nil => cases he
  | cons x xs ih =>
    simp only [List.map_cons, List.nodup_cons] at hnd
    by_cases hx : x.1 = k
    · have hall : List.filter (fun y => decide (y.1 ≠ k)) xs = xs := by
        rw [List.filter_eq_self]
        intro y hy
        have : y.1 ≠ k := by
          intro hyk
          exact hnd.1 (List.mem_map.mpr ⟨y, hy, by rw [hyk, hx]⟩)
        simpa using this
      have : (List.filter (fun y => decide (y.1 ≠ k)) (x :: xs)) = List.filter (fun y => decide (y.1 ≠ k)) xs := by
        simp [hx]
      rw [this, hall]
      rfl
    · have hmem : e ∈ xs := by
        rcases List.mem_cons.mp he with rfl | h
        · exact absurd hk hx
        · exact h
      have : (List.filter (fun y => decide (y.1 ≠ k)) (x :: xs)) = x :: List.filter (fun y => decide (y.1 ≠ k)) xs := by
        simp [hx]
      rw [this]
      have := ih hnd.2 hmem
      simp only [List.length_cons]; omega

/-- a lookup never grows the cache (no invariant needed) -/
theorem get_count_le {α} (c : LruCache α) (k) : (c.get k).1.count ≤ c.count := by
  unfold get count
  split
  · rename_i e he
    have h1 := List.mem_of_find?_eq_some he
    have h2 : e.1 = k := by simpa using List.find?_some he
    have := filter_ne_length_lt k c.entries e h1 h2
    simp only [List.length_cons]; omega
  · exact Nat.le_refl _

/-- a lookup keeps the number of entries — provided keys are unique (`KeysNodup`); without the
    invariant only `get_count_le` holds, the duplicates of the looked-up key being dropped -/
theorem get_count {α} (c : LruCache α) (k) (hnd : c.KeysNodup) : (c.get k).1.count = c.count := by
  unfold get count
  split
  · rename_i e he
    have h1 := List.mem_of_find?_eq_some he
    have h2 : e.1 = k := by simpa using List.find?_some he
    have := filter_ne_length_eq k c.entries e hnd h1 h2
    simp only [List.length_cons]; omega
  · rfl

theorem get_some_mem {α} (c : LruCache α) (k) (v : α) (h : (c.get k).2 = some v) :
    (k, v) ∈ c.entries := by
  unfold get at h
  split at h
  · rename_i e he
    have h1 := List.mem_of_find?_eq_some he
    have h2 : e.1 = k := by simpa using List.find?_some he
    simp only [Option.some.injEq] at h
    have : e = (k, v) := by rw [← h2, ← h]
    rw [← this]; exact h1
  · cases h

/-- an entry of the cache after `insert` is the inserted one or an old one (under another key) -/
theorem mem_insert {α} (c : LruCache α) (k v) (x : (Nat × Nat) × α) (h : x ∈ (c.insert k v).entries) :
    x = (k, v) ∨ (x ∈ c.entries ∧ x.1 ≠ k) := by
  unfold insert at h
  simp only [List.mem_cons] at h
  rcases h with h | h
  · exact .inl h
  · right
    have h' : x ∈ c.entries.filter (·.1 ≠ k) := by
      split at h
      · exact List.dropLast_subset _ h
      · exact h
    have := List.mem_filter.mp h'
    exact ⟨this.1, by simpa using this.2⟩

/-- the inserted entry is there -/
theorem mem_insert_self {α} (c : LruCache α) (k v) : (k, v) ∈ (c.insert k v).entries := by
  unfold insert; simp

/-- an entry of the cache after `get` is an old one -/
theorem mem_get {α} (c : LruCache α) (k) (x : (Nat × Nat) × α) (h : x ∈ (c.get k).1.entries) :
    x ∈ c.entries := by
  unfold get at h
  split at h
  · rename_i e he
    simp only [List.mem_cons] at h
    rcases h with rfl | h
    · exact List.mem_of_find?_eq_some he
    · exact (List.mem_filter.mp h).1
  · exact h

/-- `get` keeps all entries under other keys -/
theorem mem_get_of_ne {α} (c : LruCache α) (k) (x : (Nat × Nat) × α) (h : x ∈ c.entries) (hk : x.1 ≠ k) :
    x ∈ (c.get k).1.entries := by
  unfold get
  split
  · exact List.mem_cons_of_mem _ (List.mem_filter.mpr ⟨h, by simpa using hk⟩)
  · exact h

/-- `get` keeps the entry it found -/
theorem mem_get_self {α} (c : LruCache α) (k) (v : α) (h : (c.get k).2 = some v) :
    (k, v) ∈ (c.get k).1.entries := by
  unfold get at h ⊢
  split
  · rename_i e he
    rw [he] at h
    have h2 : e.1 = k := by simpa using List.find?_some he
    simp only [Option.some.injEq] at h
    have : e = (k, v) := by rw [← h2, ← h]
    rw [← this]; exact List.mem_cons_self
  · rename_i he; rw [he] at h; cases h

/-- uniqueness of keys is preserved by `get` … -/
theorem get_keysNodup {α} (c : LruCache α) (k) (hnd : c.KeysNodup) : (c.get k).1.KeysNodup := by
  unfold KeysNodup get at *
  split
  · rename_i e he
    have h2 : e.1 = k := by simpa using List.find?_some he
    simp only [List.map_cons, List.nodup_cons]
    constructor
    · intro hm
      obtain ⟨y, hy, hye⟩ := List.mem_map.mp hm
      have := (List.mem_filter.mp hy).2
      simp only [ne_eq, decide_not, Bool.not_eq_eq_eq_not, Bool.not_true, decide_eq_false_iff_not] at this
      exact this (by rw [hye, h2])
    · exact (List.filter_sublist.map _).nodup hnd
  · exact hnd

/-- … and by `insert` -/
theorem insert_keysNodup {α} (c : LruCache α) (k v) (hnd : c.KeysNodup) : (c.insert k v).KeysNodup := by
  unfold KeysNodup insert at *
  simp only [List.map_cons, List.nodup_cons]
  have hsub : (if (c.entries.filter (·.1 ≠ k)).length ≥ c.cap then (c.entries.filter (·.1 ≠ k)).dropLast
      else c.entries.filter (·.1 ≠ k)).Sublist (c.entries.filter (·.1 ≠ k)) := by
    split
    · exact List.dropLast_sublist _
    · exact List.Sublist.refl _
  constructor
  · intro hm
    obtain ⟨y, hy, hye⟩ := List.mem_map.mp hm
    have := (List.mem_filter.mp (hsub.subset hy)).2
    simp only [ne_eq, decide_not, Bool.not_eq_eq_eq_not, Bool.not_true, decide_eq_false_iff_not] at this
    exact this hye
  · exact ((hsub.trans List.filter_sublist).map _).nodup hnd

end LruCache

/-! ### `Table::read_block` -/

/-- the side condition of `readBlock_ok`, from injectivity of `offset ↦ handle` on the table's blocks -/
theorem TableImg.WF.contents_of_offset {cmp : Cmp} {t : TableImg} (hwf : t.WF cmp)
    (hinj : ∀ d1 ∈ t.blocks, ∀ d2 ∈ t.blocks, d1.handle.offset = d2.handle.offset → d1.handle = d2.handle) :
    ∀ d1 ∈ t.blocks, ∀ d2 ∈ t.blocks, d1.handle.offset = d2.handle.offset →
      d1.blk.contents = d2.blk.contents := by
  intro d1 h1 d2 h2 ho
  have e1 := hwf.dataRead d1 h1
  have e2 := hwf.dataRead d2 h2
  rw [hinj d1 h1 d2 h2 ho] at e1
  rw [e1] at e2
  exact Res.ok.inj e2

/-- reading a data block of a well-formed table through the cache returns its true contents, whether
    it is a hit or a miss, and keeps the cache coherent — for this table and for every other table
    (other cache id) sharing the cache.

    `hoff` (blocks of the table with the same offset have the same contents) is an ADDED hypothesis:
    it is needed on a hit, where the cache key only records the offset. -/
theorem readBlock_ok (cmp : Cmp) (t : TableImg) (hwf : t.WF cmp) (tb : Table) (w : World)
    (hfile : CleanWorld w tb.file t.img) (hsize : tb.fileSize = t.img.length)
    (hcoh : Coherent w tb.cacheId t)
    (hoff : ∀ d1 ∈ t.blocks, ∀ d2 ∈ t.blocks, d1.handle.offset = d2.handle.offset →
      d1.blk.contents = d2.blk.contents)
    (d : DBlock) (hd : d ∈ t.blocks) :
    ∃ w', tb.readBlock d.handle w = (w', .ok d.blk.contents)
      ∧ CleanWorld w' tb.file t.img ∧ w'.files = w.files
      ∧ Coherent w' tb.cacheId t
      ∧ (∀ id' t', id' ≠ tb.cacheId → Coherent w id' t' → Coherent w' id' t')
      ∧ w'.cache.cap = w.cache.cap ∧ w'.cache.nextId = w.cache.nextId
      ∧ (1 ≤ w.cache.cap → w.cache.count ≤ w.cache.cap → w'.cache.count ≤ w'.cache.cap) := by
  have hb : InBounds d.handle tb.fileSize := hsize ▸ hwf.dataBounds d hd
  have hchk := (checkBlockBounds_iff d.handle tb.fileSize w).1 hb
  have hlt : d.handle.offset < 2 ^ 64 := by
    have := hb.1; omega
  -- the world after the cache lookup
  generalize hw1 : ({ w with
      cache := (w.cache.get (tb.cacheId, d.handle.offset % 2 ^ 64)).1,
      events := ⟨tb.cacheId, d.handle.offset,
        (w.cache.get (tb.cacheId, d.handle.offset % 2 ^ 64)).2.isSome⟩ :: w.events } : World) = w1
  have hw1c : w1.cache = (w.cache.get (tb.cacheId, d.handle.offset % 2 ^ 64)).1 := by rw [← hw1]
  have hw1f : w1.files = w.files := by rw [← hw1]
  have hw1s : w1.sched = w.sched := by rw [← hw1]
  have hclean1 : CleanWorld w1 tb.file t.img := ⟨hw1f ▸ hfile.file, hw1s ▸ hfile.sched⟩
  have hsub1 : ∀ x, x ∈ w1.cache.entries → x ∈ w.cache.entries := by
    intro x hx; rw [hw1c] at hx; exact LruCache.mem_get _ _ _ hx
  have hcap1 : w1.cache.cap = w.cache.cap := by rw [hw1c]; exact LruCache.get_cap _ _
  have hnid1 : w1.cache.nextId = w.cache.nextId := by rw [hw1c]; exact LruCache.get_nextId _ _
  have hcnt1 : w1.cache.count ≤ w.cache.count := by rw [hw1c]; exact LruCache.get_count_le _ _
  have hstep : tb.readBlock d.handle w =
      (match (w.cache.get (tb.cacheId, d.handle.offset % 2 ^ 64)).2 with
       | some b => (w1, .ok b)
       | none =>
         match readTableBlock tb.file d.handle w1 with
         | (w2, .ok b) => ({ w2 with cache := w2.cache.insert (tb.cacheId, d.handle.offset % 2 ^ 64) b }, .ok b)
         | (w2, .err c) => (w2, .err c)
         | (w2, .panic s) => (w2, .panic s)
         | (w2, .diverge) => (w2, .diverge)) := by
    unfold Table.readBlock
    simp only [bind, M.bind', hchk, pure]
    subst hw1
    cases hg : (w.cache.get (tb.cacheId, d.handle.offset % 2 ^ 64)).2 with
    | some b => rfl
    | none =>
      show M.bind' (readTableBlock tb.file d.handle) _ _ = _
      unfold M.bind'
      simp only []
      rcases readTableBlock tb.file d.handle _ with ⟨w2, r⟩
      cases r <;> rfl
  rw [hstep]
  cases hg : (w.cache.get (tb.cacheId, d.handle.offset % 2 ^ 64)).2 with
  | some b =>
    -- hit
    have hmem := LruCache.get_some_mem _ _ _ hg
    obtain ⟨d', hd', ho', hc'⟩ := hcoh _ _ hmem
    have hb' : InBounds d'.handle t.img.length := hwf.dataBounds d' hd'
    have hlt' : d'.handle.offset < 2 ^ 64 := by have := hb'.1; omega
    have hoeq : d'.handle.offset = d.handle.offset := by
      rw [Nat.mod_eq_of_lt hlt, Nat.mod_eq_of_lt hlt'] at ho'; exact ho'
    have hbeq : b = d.blk.contents := by rw [← hc']; exact hoff d' hd' d hd hoeq
    refine ⟨w1, by simp only [hbeq], hclean1, hw1f, ?_, ?_, hcap1, hnid1, ?_⟩
    · intro off c hx; exact hcoh off c (hsub1 _ hx)
    · intro id' t' _ hco off c hx; exact hco off c (hsub1 _ hx)
    · intro _ hle; rw [hcap1]; omega
  | none =>
    -- miss
    obtain ⟨w2, hr, hclean2, hc2, hf2, _⟩ := readTableBlock_clean w1 tb.file t.img d.handle hclean1
    rw [hwf.dataRead d hd] at hr
    simp only [hr]
    refine ⟨_, rfl, ⟨hclean2.file, hclean2.sched⟩, ?_, ?_, ?_, ?_, ?_, ?_⟩
    · show w2.files = w.files
      rw [hf2, hw1f]
    · intro off c hx
      rcases LruCache.mem_insert _ _ _ _ hx with he | ⟨ho, _⟩
      · simp only [Prod.mk.injEq] at he
        exact ⟨d, hd, he.1.2.symm, he.2.symm⟩
      · rw [hc2] at ho; exact hcoh off c (hsub1 _ ho)
    · intro id' t' hne hco off c hx
      rcases LruCache.mem_insert _ _ _ _ hx with he | ⟨ho, _⟩
      · simp only [Prod.mk.injEq] at he
        exact absurd he.1.1 hne
      · rw [hc2] at ho; exact hco off c (hsub1 _ ho)
    · show (w2.cache.insert _ _).cap = _
      rw [LruCache.insert_cap, hc2, hcap1]
    · show (w2.cache.insert _ _).nextId = _
      rw [LruCache.insert_nextId, hc2, hnid1]
    · intro h1 hle
      show (w2.cache.insert _ _).count ≤ (w2.cache.insert _ _).cap
      rw [LruCache.insert_cap]
      apply LruCache.insert_count_le
      · rw [hc2, hcap1]; exact h1
      · rw [hc2, hcap1]; omega

end Sst

#print axioms Sst.readBlockContents_clean
#print axioms Sst.readTableBlock_clean
#print axioms Sst.checkBlockBounds_iff
#print axioms Sst.LruCache.insert_count_le
#print axioms Sst.LruCache.get_count
#print axioms Sst.LruCache.get_count_le
#print axioms Sst.LruCache.get_some_mem
#print axioms Sst.LruCache.mem_insert
#print axioms Sst.LruCache.mem_get
#print axioms Sst.LruCache.get_keysNodup
#print axioms Sst.LruCache.insert_keysNodup
#print axioms Sst.readBlock_ok
