import SstModel.Lemmas.ProgEquiv
import SstModel.Lemmas.TableGet
/-
  Every critical section the reader programs of `Model/Prog.lean` ask for is `read_block` of a DATA
  BLOCK of their own table (handle taken from the index block) — the fact that makes the result of a
  critical section independent of what other threads did to the cache in between.

  `Runs tb t p r n`: following program `p` along the path on which every request is `tb.read_block
  (d.handle)` for a data block `d` of image `t` and is answered with `d`'s contents, the program makes
  `n` requests and ends with result `r`. `Tri tb t p Q` ("Hoare triple"): such a path exists and a
  result `ok a` satisfies `Q a`.
-/
set_option linter.unusedVariables false

namespace Sst

inductive Runs (tb : Table) (t : TableImg) {α : Type} : Prog α → Res α → Nat → Prop where
  | ret (r : Res α) : Runs tb t (.ret r) r 0
  | rb (d : DBlock) (hd : d ∈ t.blocks) (k : Res Bytes → Prog α) (r : Res α) (n : Nat)
      (h : Runs tb t (k (.ok d.blk.contents)) r n) : Runs tb t (.rb tb d.handle k) r (n + 1)

namespace Runs
variable {tb : Table} {t : TableImg}

theorem bind {α β} {p : Prog α} {r : Res α} {n : Nat} (h : Runs tb t p r n) (f : α → Prog β) :
    match r with
    | .ok a => ∀ r' m, Runs tb t (f a) r' m → Runs tb t (p >>= f) r' (m + n)
    | .err c => Runs tb t (p >>= f) (.err c) n
    | .panic s => Runs tb t (p >>= f) (.panic s) n
    | .diverge => Runs tb t (p >>= f) .diverge n := by
  induction h with
  | ret r =>
    cases r with
    | ok a => intro r' m h'; exact h'
    | err c => exact Runs.ret _
    | panic s => exact Runs.ret _
    | diverge => exact Runs.ret _
  | rb d hd k r n h ih =>
    cases r with
    | ok a => intro r' m h'; exact Runs.rb d hd _ r' (m + n) (ih r' m h')
    | err c => exact Runs.rb d hd _ _ n ih
    | panic s => exact Runs.rb d hd _ _ n ih
    | diverge => exact Runs.rb d hd _ _ n ih

/-- the result of `M.try'` -/
def tryRes {α} : Res α → Res (Except Code α)
  | .ok a => .ok (.ok a)
  | .err c => .ok (.error c)
  | .panic s => .panic s
  | .diverge => .diverge

theorem try' {α} {p : Prog α} {r : Res α} {n : Nat} (h : Runs tb t p r n) :
    Runs tb t p.try' (tryRes r) n := by
  induction h with
  | ret r => cases r <;> exact Runs.ret _
  | rb d hd k r n h ih => exact Runs.rb d hd _ _ n ih

end Runs

/-- the canonical path of `p` exists and a result `ok a` on it satisfies `Q a` -/
def Tri (tb : Table) (t : TableImg) {α : Type} (p : Prog α) (Q : α → Prop) : Prop :=
  ∃ r n, Runs tb t p r n ∧ ∀ a, r = .ok a → Q a

namespace Tri
variable {tb : Table} {t : TableImg}

theorem ret {α} {Q : α → Prop} (r : Res α) (h : ∀ a, r = .ok a → Q a) : Tri tb t (.ret r) Q :=
  ⟨r, 0, Runs.ret r, h⟩

theorem pure {α} {Q : α → Prop} (a : α) (h : Q a) : Tri tb t (Pure.pure a : Prog α) Q :=
  ret _ (fun b hb => by cases hb; exact h)

theorem lift {α} {Q : α → Prop} (r : Res α) (h : ∀ a, r = .ok a → Q a) : Tri tb t (Prog.lift r) Q :=
  ret r h

theorem fail {α} {Q : α → Prop} (c : Code) : Tri tb t (Prog.fail c : Prog α) Q :=
  ret _ (fun b hb => by cases hb)

theorem bind {α β} {p : Prog α} {f : α → Prog β} {Q : α → Prop} {Q' : β → Prop}
    (hp : Tri tb t p Q) (hf : ∀ a, Q a → Tri tb t (f a) Q') : Tri tb t (p >>= f) Q' := by
  obtain ⟨r, n, hr, hq⟩ := hp
  have hb := hr.bind f
  cases r with
  | ok a =>
    obtain ⟨r', m, hr', hq'⟩ := hf a (hq a rfl)
    exact ⟨r', m + n, hb r' m hr', hq'⟩
  | err c => exact ⟨_, n, hb, fun b hb => by cases hb⟩
  | panic s => exact ⟨_, n, hb, fun b hb => by cases hb⟩
  | diverge => exact ⟨_, n, hb, fun b hb => by cases hb⟩

/-- thread-local computation followed by `f`: only the `ok` case matters -/
theorem lift_bind {α β} {f : α → Prog β} {Q' : β → Prop} (r : Res α)
    (hf : ∀ a, r = .ok a → Tri tb t (f a) Q') : Tri tb t (Prog.lift r >>= f) Q' :=
  bind (lift (Q := fun a => r = .ok a) r (fun a h => h)) hf

theorem try' {α} {p : Prog α} {Q : α → Prop} (hp : Tri tb t p Q) :
    Tri tb t p.try' (fun e => ∀ a, e = .ok a → Q a) := by
  obtain ⟨r, n, hr, hq⟩ := hp
  refine ⟨_, n, hr.try', ?_⟩
  intro e he a ha
  subst ha
  cases r with
  | ok b => cases he; exact hq _ rfl
  | err c => cases he
  | panic s => cases he
  | diverge => cases he

theorem conseq {α} {p : Prog α} {Q Q' : α → Prop} (hp : Tri tb t p Q) (h : ∀ a, Q a → Q' a) :
    Tri tb t p Q' := by
  obtain ⟨r, n, hr, hq⟩ := hp
  exact ⟨r, n, hr, fun a ha => h a (hq a ha)⟩

/-- the critical section on a data block -/
theorem readBlock (d : DBlock) (hd : d ∈ t.blocks) :
    Tri tb t (Prog.readBlock tb d.handle) (fun b => b = d.blk.contents) :=
  ⟨_, 1, Runs.rb d hd _ _ 0 (Runs.ret _), fun a ha => by cases ha; rfl⟩

end Tri

/-! ### the programs only ask for data blocks of their table -/

theorem Prog.lift_ok_bind {α β} (a : α) (f : α → Prog β) : (Prog.lift (.ok a) >>= f) = f a := rfl

/-- what the safety proofs need of an iterator state: it is an iterator on `tb`, and its index-block
    iterator stands somewhere in the index block of image `t` (nothing about the current data block) -/
structure Idx (t : TableImg) (tb : Table) (it : TableIter) : Prop where
  table : it.table = tb
  index : ∃ ipos, SimB t.index.contents t.index.es t.index.rs it.indexBlock ipos

theorem Idx.of_simT {t : TableImg} {tb : Table} {it : TableIter} {pos : Option (Nat × Nat)}
    (h : SimT t tb it pos) : Idx t tb it :=
  ⟨h.table, TI.simT_index h⟩

section
variable {cmp : Cmp} {p : FilterPolicy} {t : TableImg} {fv : Option Bytes} {tb : Table}

/-- an entry of the index block is `(separator, encoded handle)` of a data block -/
theorem index_entry (hwf : t.WF cmp) (pos : Spec.Pos) :
    Spec.entryAt (kvOf t.index.contents t.index.es) pos = none
      ∨ ∃ d ∈ t.blocks, Spec.entryAt (kvOf t.index.contents t.index.es) pos = some (d.sep, d.hval) := by
  cases pos with
  | none => exact .inl rfl
  | some i =>
    show (kvOf t.index.contents t.index.es)[i]? = none ∨ ∃ d ∈ t.blocks, (kvOf t.index.contents t.index.es)[i]? = _
    rw [TI.index_kvs_getElem? hwf]
    cases hd : t.blocks[i]? with
    | none => exact .inl rfl
    | some d => exact .inr ⟨d, List.mem_of_getElem? hd, rfl⟩

theorem Idx.reset (hwf : t.WF cmp) {it : TableIter} (h : Idx t tb it) : Idx t tb it.reset := by
  obtain ⟨ipos, hs⟩ := h.index
  exact ⟨h.table, none, simB_reset hwf.indexWF.1 hs⟩

theorem loadBlockP_tri (hwf : t.WF cmp) (it : TableIter) (hit : Idx t tb it) (d : DBlock)
    (hd : d ∈ t.blocks) : Tri tb t (it.loadBlockP d.hval) (fun it' => Idx t tb it') := by
  obtain ⟨n, hn⟩ := hwf.hval d hd
  unfold TableIter.loadBlockP
  simp only [hn]
  rw [hit.table]
  exact Tri.bind (Tri.readBlock d hd) (fun b _ => Tri.lift_bind _ (fun bi _ =>
    Tri.pure _ ⟨rfl, hit.index⟩))

theorem skipToNextEntryP_tri (hwf : t.WF cmp) (it : TableIter) (hit : Idx t tb it) :
    Tri tb t it.skipToNextEntryP (fun r => Idx t tb r.1) := by
  obtain ⟨ipos, hs⟩ := hit.index
  obtain ⟨ib', hnext, hs'⟩ := simB_next hwf.indexWF.1 hwf.indexWF.2 hs
  have hit' : Idx t tb { it with indexBlock := ib' } := ⟨hit.table, _, hs'⟩
  unfold TableIter.skipToNextEntryP
  rw [hnext]
  simp only [Prog.lift_ok_bind]
  rcases index_entry hwf (Spec.advance (kvOf t.index.contents t.index.es) ipos).1 with hn | ⟨d, hd, hsome⟩
  · rw [hn]
    exact Tri.pure _ hit'
  · rw [hsome]
    refine Tri.bind (Tri.try' (loadBlockP_tri hwf _ hit' d hd)) ?_
    intro e he
    cases e with
    | ok it2 => exact Tri.pure _ (he it2 rfl)
    | error c => exact Tri.pure _ hit'

theorem advanceLoopP_tri (hwf : t.WF cmp) (fuel : Nat) : ∀ (it : TableIter), Idx t tb it →
    Tri tb t (it.advanceLoopP fuel) (fun r => Idx t tb r.1) := by
  induction fuel with
  | zero =>
    intro it _
    exact Tri.ret _ (fun a ha => by cases ha)
  | succ fuel ih =>
    intro it hit
    have tail : ∀ (q : TableIter × Bool), Idx t tb q.1 →
        Tri tb t (if q.2 = true then (pure (q.1, true) : Prog (TableIter × Bool))
          else do
            let __x ← ({ q.1 with currentBlock := none } : TableIter).skipToNextEntryP
            match __x.snd with
              | Except.ok true => __x.fst.advanceLoopP fuel
              | Except.ok false => pure (__x.fst.reset, false)
              | Except.error _ => __x.fst.advanceLoopP fuel) (fun r => Idx t tb r.1) := by
      intro q hq
      obtain ⟨it1, ok⟩ := q
      cases ok with
      | true => exact Tri.pure _ hq
      | false =>
        simp only [Bool.false_eq_true, if_false]
        refine Tri.bind (skipToNextEntryP_tri hwf _ ⟨hq.table, hq.index⟩) ?_
        intro r hr
        obtain ⟨it2, e⟩ := r
        cases e with
        | error c => exact ih it2 hr
        | ok b =>
          cases b with
          | true => exact ih it2 hr
          | false => exact Tri.pure _ (hr.reset hwf)
    unfold TableIter.advanceLoopP
    cases it.currentBlock with
    | none => exact tail (it, false) hit
    | some cb =>
      refine Tri.lift_bind _ (fun x _ => ?_)
      obtain ⟨cb', ok⟩ := x
      exact tail ({ it with currentBlock := some cb' }, ok) ⟨hit.table, hit.index⟩

theorem advanceP_tri (hwf : t.WF cmp) (it : TableIter) (hit : Idx t tb it) :
    Tri tb t it.advanceP (fun r => Idx t tb r.1) :=
  advanceLoopP_tri hwf _ it hit

theorem currentP_tri (it : TableIter) : Tri tb t it.currentP (fun _ => True) := by
  unfold TableIter.currentP
  cases it.currentBlock with
  | none => exact Tri.pure _ trivial
  | some cb => exact Tri.lift _ (fun _ _ => trivial)

theorem nextP_tri (hwf : t.WF cmp) (it : TableIter) (hit : Idx t tb it) :
    Tri tb t it.nextP (fun r => Idx t tb r.1) := by
  unfold TableIter.nextP
  refine Tri.bind (advanceP_tri hwf it hit) ?_
  intro r hr
  obtain ⟨it1, ok⟩ := r
  cases ok with
  | false => exact Tri.pure _ hr
  | true =>
    simp only [Bool.not_true, Bool.false_eq_true, if_false]
    exact Tri.bind (currentP_tri it1) (fun c _ => Tri.pure _ hr)

theorem seekToFirstP_tri (hwf : t.WF cmp) (it : TableIter) (hit : Idx t tb it) :
    Tri tb t it.seekToFirstP (fun r => Idx t tb r) := by
  unfold TableIter.seekToFirstP
  refine Tri.bind (advanceP_tri hwf _ (hit.reset hwf)) ?_
  intro r hr
  exact Tri.pure _ hr

theorem seekP_tri (hc : cmp.Lawful) (hwf : t.WF cmp) (hop : Opened tb t cmp p fv) (it : TableIter)
    (hit : Idx t tb it) (to : Bytes) : Tri tb t (it.seekP to) (fun r => Idx t tb r) := by
  obtain ⟨ipos, hs⟩ := hit.index
  obtain ⟨ib', hseek, hs'⟩ :=
    simB_seek cmp hc hwf.indexWF.1 hwf.indexWF.2 (TI.index_sorted hc hwf) hs to
  have hcmp : it.table.opt.cmp = cmp := by rw [hit.table, hop.opt]
  have hcur := simB_current hwf.indexWF.1 hs'
  have hit' : Idx t tb { it with indexBlock := ib' } := ⟨hit.table, _, hs'⟩
  unfold TableIter.seekP
  rw [hcmp, hseek]
  simp only [Prog.lift_ok_bind, curKVP, hcur]
  rcases index_entry hwf (Spec.lowerBound cmp (kvOf t.index.contents t.index.es) to) with hn | ⟨d, hd, hsome⟩
  · rw [hn]
    exact Tri.pure _ (hit'.reset hwf)
  · rw [hsome]
    dsimp only
    split
    · refine Tri.bind (Tri.try' (loadBlockP_tri hwf _ hit' d hd)) ?_
      intro e he
      cases e with
      | error c => exact Tri.pure _ (hit'.reset hwf)
      | ok it1 =>
        have h1 : Idx t tb it1 := he it1 rfl
        dsimp only
        split
        · exact Tri.lift _ (fun a ha => by cases ha)
        · refine Tri.lift_bind _ (fun cb' _ => ?_)
          split
          · refine Tri.bind (advanceP_tri hwf _ ⟨h1.table, h1.index⟩) ?_
            intro r hr
            exact Tri.pure _ hr
          · exact Tri.pure _ ⟨h1.table, h1.index⟩
    · exact Tri.pure _ (hit'.reset hwf)

theorem prevP_tri (hwf : t.WF cmp) (it : TableIter) (hit : Idx t tb it) :
    Tri tb t it.prevP (fun r => Idx t tb r.1) := by
  have tail : ∀ (q : TableIter × Bool), Idx t tb q.1 →
      Tri tb t (if q.2 = true then (pure (q.1, true) : Prog (TableIter × Bool))
        else do
          let __x ← Prog.lift q.1.indexBlock.prev
          if __x.snd = true then do
            let __y ← curKVP ({ q.1 with indexBlock := __x.fst } : TableIter).indexBlock
            match __y with
              | some (_, handle) => do
                let __z ← Prog.try' (({ q.1 with indexBlock := __x.fst } : TableIter).loadBlockP handle)
                match __z with
                  | .ok it =>
                    match it.currentBlock with
                    | none => Prog.lift (.panic "prev: current_block unwrap")
                    | some cb => do
                      let cb ← Prog.lift cb.seekToLast
                      pure ({ it with currentBlock := some cb }, cb.valid)
                  | .error _ => pure (({ q.1 with indexBlock := __x.fst } : TableIter).reset, false)
              | none => pure (({ q.1 with indexBlock := __x.fst } : TableIter), false)
          else pure (({ q.1 with indexBlock := __x.fst } : TableIter).reset, false))
        (fun r => Idx t tb r.1) := by
    intro q hq
    obtain ⟨it1, ok⟩ := q
    cases ok with
    | true => exact Tri.pure _ hq
    | false =>
      simp only [Bool.false_eq_true, if_false]
      obtain ⟨ipos, hs⟩ := hq.index
      have hprev : ∃ ib' flag ipos', it1.indexBlock.prev = .ok (ib', flag)
          ∧ SimB t.index.contents t.index.es t.index.rs ib' ipos' := by
        cases ipos with
        | none =>
          obtain ⟨ib', ipos', h1, h2⟩ := simB_prev_invalid hwf.indexWF.1 hwf.indexWF.2 hs
          exact ⟨ib', _, ipos', h1, h2⟩
        | some i =>
          obtain ⟨ib', h1, h2⟩ := simB_prev_valid hwf.indexWF.1 hwf.indexWF.2 hs
          exact ⟨ib', _, _, h1, h2⟩
      obtain ⟨ib', flag, ipos', hp, hs'⟩ := hprev
      have hit' : Idx t tb { it1 with indexBlock := ib' } := ⟨hq.table, _, hs'⟩
      have hcur := simB_current hwf.indexWF.1 hs'
      rw [hp]
      simp only [Prog.lift_ok_bind]
      cases flag with
      | false => exact Tri.pure _ (hit'.reset hwf)
      | true =>
        simp only [if_true, curKVP, hcur, Prog.lift_ok_bind]
        rcases index_entry hwf ipos' with hn | ⟨d, hd, hsome⟩
        · rw [hn]
          exact Tri.pure _ hit'
        · rw [hsome]
          refine Tri.bind (Tri.try' (loadBlockP_tri hwf _ hit' d hd)) ?_
          intro e he
          cases e with
          | error c => exact Tri.pure _ (hit'.reset hwf)
          | ok it2 =>
            have h2 : Idx t tb it2 := he it2 rfl
            dsimp only
            split
            · exact Tri.lift _ (fun a ha => by cases ha)
            · exact Tri.lift_bind _ (fun cb' _ => Tri.pure _ ⟨h2.table, h2.index⟩)
  unfold TableIter.prevP
  cases it.currentBlock with
  | none => exact tail (it, false) hit
  | some cb =>
    refine Tri.lift_bind _ (fun x _ => ?_)
    obtain ⟨cb', ok⟩ := x
    exact tail ({ it with currentBlock := some cb' }, ok) ⟨hit.table, hit.index⟩

open Spec in
/-- one iterator call only asks for data blocks of its table, and leaves such an iterator -/
theorem callP_tri (hc : cmp.Lawful) (hwf : t.WF cmp) (hop : Opened tb t cmp p fv) (it : TableIter)
    (hit : Idx t tb it) (op : IterOp) : Tri tb t (it.callP op) (fun r => Idx t tb r.1) := by
  cases op with
  | advance => exact Tri.bind (advanceP_tri hwf it hit) (fun r hr => Tri.pure _ hr)
  | next => exact Tri.bind (nextP_tri hwf it hit) (fun r hr => Tri.pure _ hr)
  | prev => exact Tri.bind (prevP_tri hwf it hit) (fun r hr => Tri.pure _ hr)
  | reset => exact Tri.pure _ (hit.reset hwf)
  | seekToFirst => exact Tri.bind (seekToFirstP_tri hwf it hit) (fun r hr => Tri.pure _ hr)
  | seek to => exact Tri.bind (seekP_tri hc hwf hop it hit to) (fun r hr => Tri.pure _ hr)
  | valid => exact Tri.pure _ hit
  | current => exact Tri.bind (currentP_tri it) (fun r _ => Tri.pure _ hit)
  | currentKey => exact Tri.pure _ hit

open Spec in
/-- … and so does a whole call history -/
theorem runP_tri (hc : cmp.Lawful) (hwf : t.WF cmp) (hop : Opened tb t cmp p fv) (ops : List IterOp) :
    ∀ (it : TableIter), Idx t tb it → Tri tb t (it.runP ops) (fun r => Idx t tb r.1) := by
  induction ops with
  | nil => intro it hit; exact Tri.pure _ hit
  | cons op ops ih =>
    intro it hit
    exact Tri.bind (callP_tri hc hwf hop it hit op) (fun r hr =>
      Tri.bind (ih r.1 hr) (fun s hs => Tri.pure _ hs))

/-- a lookup asks for at most one block: the data block the index points to -/
theorem getP_tri (hc : cmp.Lawful) (hwf : t.WF cmp) (hop : Opened tb t cmp p fv) (key : Bytes) :
    Tri tb t (tb.getP key) (fun _ => True) := by
  obtain ⟨it, it', hit, hit', hcur⟩ :=
    seek_current cmp hc hwf.indexWF.1 hwf.indexWF.2 (hwf.index_sorted hc) key
  unfold Table.getP
  simp only [hop.index, hop.opt, hit, hit', curKVP, hcur, Prog.lift_ok_bind]
  rcases index_entry hwf (Spec.lowerBound cmp (kvOf t.index.contents t.index.es) key) with hn | ⟨d, hd, hsome⟩
  · rw [hn]
    exact Tri.pure _ trivial
  · rw [hsome]
    dsimp only
    split
    · exact Tri.pure _ trivial
    · obtain ⟨n, hn⟩ := hwf.hval d hd
      simp only [hn]
      have tail : ∀ (pass : Bool),
          Tri tb t (if (!pass) = true then (pure none : Prog (Option Bytes))
            else do
              let b ← Prog.readBlock tb d.handle
              let it ← Prog.lift (Block.iter b)
              let it ← Prog.lift (it.seek cmp key)
              match ← Prog.lift it.current with
              | some (k, v) => if cmp.cmp k key == .eq then pure (some v) else pure none
              | none => pure none) (fun _ => True) := by
        intro pass
        cases pass with
        | false => exact Tri.pure _ trivial
        | true =>
          simp only [Bool.not_true, Bool.false_eq_true, if_false]
          refine Tri.bind (Tri.readBlock d hd) (fun b _ => Tri.lift_bind _ (fun i0 _ =>
            Tri.lift_bind _ (fun i1 _ => Tri.lift_bind _ (fun c _ => ?_))))
          cases c with
          | none => exact Tri.pure _ trivial
          | some kv =>
            obtain ⟨k, v⟩ := kv
            dsimp only
            split <;> exact Tri.pure _ trivial
      cases tb.filters with
      | none => exact tail true
      | some f => exact Tri.lift_bind _ (fun pass _ => tail pass)

end
end Sst

#print axioms Sst.callP_tri
#print axioms Sst.runP_tri
#print axioms Sst.getP_tri
