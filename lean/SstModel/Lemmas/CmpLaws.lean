import SstModel.Lemmas.Sep
import SstModel.Model.Custom
import SstModel.Spec.Map
/-
  The hypothesis on user-supplied comparators (`Cmp` trait objects): a strict total order on byte
  strings whose separator / successor functions bracket correctly. `defaultCmp` (the crate's
  `DefaultCmp`) and the harness's `reverseCmp` are proved lawful.
-/
namespace Sst

structure Cmp.Lawful (c : Cmp) : Prop where
  refl : ∀ a, c.cmp a a = .eq
  eq_imp : ∀ a b, c.cmp a b = .eq → a = b
  gt_iff : ∀ a b, c.cmp a b = .gt ↔ c.cmp b a = .lt
  trans : ∀ a b d, c.cmp a b = .lt → c.cmp b d = .lt → c.cmp a d = .lt
  /-- for a < b: a ≤ sep a b < b -/
  sep_ge : ∀ a b, c.cmp a b = .lt → c.cmp a (c.sep a b) ≠ .gt
  sep_lt : ∀ a b, c.cmp a b = .lt → c.cmp (c.sep a b) b = .lt
  /-- a ≤ succ a -/
  succ_ge : ∀ a, c.cmp a (c.succ a) ≠ .gt

namespace Cmp.Lawful
variable {c : Cmp} (h : c.Lawful)
include h

theorem lt_irrefl (a : Bytes) : c.cmp a a ≠ .lt := by rw [h.refl]; simp
theorem lt_asymm {a b : Bytes} (h1 : c.cmp a b = .lt) : c.cmp b a ≠ .lt := by
  intro h2; exact h.lt_irrefl a (h.trans _ _ _ h1 h2)
theorem not_lt_iff {a b : Bytes} : c.cmp a b ≠ .lt ↔ (c.cmp b a = .lt ∨ a = b) := by
  constructor
  · intro hn
    cases hc : c.cmp a b with
    | lt => exact absurd hc hn
    | eq => exact .inr (h.eq_imp _ _ hc)
    | gt => exact .inl ((h.gt_iff _ _).mp hc)
  · rintro (h1 | h1) h2
    · exact h.lt_asymm h2 h1
    · subst h1; exact h.lt_irrefl _ h2
/-- `a ≤ b` as `cmp a b ≠ gt` -/
theorem le_iff {a b : Bytes} : c.cmp a b ≠ .gt ↔ (c.cmp a b = .lt ∨ a = b) := by
  constructor
  · intro hn
    cases hc : c.cmp a b with
    | lt => exact .inl rfl
    | eq => exact .inr (h.eq_imp _ _ hc)
    | gt => exact absurd hc hn
  · rintro (h1 | h1)
    · rw [h1]; simp
    · subst h1; rw [h.refl]; simp
theorem lt_of_lt_of_le {a b d : Bytes} (h1 : c.cmp a b = .lt) (h2 : c.cmp b d ≠ .gt) : c.cmp a d = .lt := by
  rcases h.le_iff.mp h2 with h3 | h3
  · exact h.trans _ _ _ h1 h3
  · subst h3; exact h1
theorem lt_of_le_of_lt {a b d : Bytes} (h1 : c.cmp a b ≠ .gt) (h2 : c.cmp b d = .lt) : c.cmp a d = .lt := by
  rcases h.le_iff.mp h1 with h3 | h3
  · exact h.trans _ _ _ h3 h2
  · subst h3; exact h2
theorem total (a b : Bytes) : c.cmp a b = .lt ∨ a = b ∨ c.cmp b a = .lt := by
  cases hc : c.cmp a b with
  | lt => exact .inl rfl
  | eq => exact .inr (.inl (h.eq_imp _ _ hc))
  | gt => exact .inr (.inr ((h.gt_iff _ _).mp hc))
end Cmp.Lawful

theorem defaultCmp_lawful : defaultCmp.Lawful where
  refl := cmpBytes_refl
  eq_imp := fun _ _ h => cmpBytes_eq_iff.mp h
  gt_iff := fun _ _ => cmpBytes_gt_iff
  trans := fun _ _ _ h1 h2 => blt_trans h1 h2
  sep_ge := fun a b h => (DefaultCmp.sep_spec a b h).1
  sep_lt := fun a b h => (DefaultCmp.sep_spec a b h).2.1
  succ_ge := fun a => ble_of_blt (DefaultCmp.succ_spec a)

theorem reverseCmp_lawful : reverseCmp.Lawful where
  refl := fun a => cmpBytes_refl a
  eq_imp := fun _ _ h => (cmpBytes_eq_iff.mp h).symm
  gt_iff := fun _ _ => cmpBytes_gt_iff
  trans := fun _ _ _ h1 h2 => blt_trans h2 h1
  sep_ge := fun a _ _ => by show cmpBytes a a ≠ .gt; simp
  sep_lt := fun _ _ h => h
  succ_ge := fun a => by show cmpBytes a a ≠ .gt; simp

/-- keys of an entry table strictly increase -/
def KeysSorted (c : Cmp) (keys : List Bytes) : Prop := keys.Pairwise (fun a b => c.cmp a b = .lt)

end Sst
