import SstModel.Model.Prog
import SstModel.Lemmas.IterRun
/-
  The program view IS the model: running a program of `Model/Prog.lean` alone (`Prog.run`: every
  critical section executed at once) is, as a function on worlds, the monadic operation of
  `Model/Table.lean` it mirrors.
-/
namespace Sst
namespace Prog

theorem run_ret {α} (r : Res α) : (Prog.ret r).run = M.lift r := rfl
theorem run_pure {α} (a : α) : (pure a : Prog α).run = (pure a : M α) := rfl
theorem run_lift {α} (r : Res α) : (Prog.lift r).run = M.lift r := rfl
theorem run_fail {α} (c : Code) : (Prog.fail c : Prog α).run = M.fail c := rfl
theorem run_readBlock (t : Table) (h : BlockHandle) : (Prog.readBlock t h).run = t.readBlock h := rfl

theorem run_bind {α β} (p : Prog α) (f : α → Prog β) :
    (p >>= f).run = (p.run >>= fun a => (f a).run) := by
  induction p with
  | ret r =>
    funext w
    cases r <;> rfl
  | rb t h k ih =>
    funext w
    show ((k (t.readBlock h w).2).bind' f).run (t.readBlock h w).1 = _
    exact congrFun (ih _) _

theorem run_try {α} (p : Prog α) : p.try'.run = M.try' p.run := by
  induction p with
  | ret r =>
    funext w
    cases r <;> rfl
  | rb t h k ih =>
    funext w
    show ((k (t.readBlock h w).2).try').run (t.readBlock h w).1 = _
    exact congrFun (ih _) _

end Prog

open Prog

theorem run_curKVP (ib : BlockIter) : (curKVP ib).run = curKV ib := rfl

namespace TableIter

theorem run_loadBlockP (it : TableIter) (handle : Bytes) :
    (it.loadBlockP handle).run = it.loadBlock handle := by
  unfold TableIter.loadBlockP TableIter.loadBlock
  cases BlockHandle.tryDecode handle with
  | none => rfl
  | some p =>
    obtain ⟨h, n⟩ := p
    simp only [run_bind, run_readBlock, run_lift, run_pure]

theorem run_skipToNextEntryP (it : TableIter) : it.skipToNextEntryP.run = it.skipToNextEntry := by
  unfold TableIter.skipToNextEntryP TableIter.skipToNextEntry
  simp only [run_bind, run_lift]
  congr 1
  funext p
  obtain ⟨ib, e⟩ := p
  cases e with
  | none => rfl
  | some kv =>
    obtain ⟨k, v⟩ := kv
    simp only [run_bind, run_try, run_loadBlockP]
    congr 1
    funext r
    cases r <;> rfl

theorem run_advanceLoopP (fuel : Nat) : ∀ (it : TableIter),
    (it.advanceLoopP fuel).run = it.advanceLoop fuel := by
  induction fuel with
  | zero => intro it; rfl
  | succ fuel ih =>
    intro it
    have tail : ∀ (p : TableIter × Bool),
        (if p.2 = true then (pure (p.1, true) : Prog (TableIter × Bool))
          else do
            let __x ← ({ p.1 with currentBlock := none } : TableIter).skipToNextEntryP
            match __x.snd with
              | Except.ok true => __x.fst.advanceLoopP fuel
              | Except.ok false => pure (__x.fst.reset, false)
              | Except.error _ => __x.fst.advanceLoopP fuel).run
        = (if p.2 = true then (pure (p.1, true) : M (TableIter × Bool))
          else do
            let __x ← ({ p.1 with currentBlock := none } : TableIter).skipToNextEntry
            match __x.snd with
              | Except.ok true => __x.fst.advanceLoop fuel
              | Except.ok false => pure (__x.fst.reset, false)
              | Except.error _ => __x.fst.advanceLoop fuel) := by
      intro p
      obtain ⟨it1, ok⟩ := p
      cases ok with
      | true => rfl
      | false =>
        simp only [Bool.false_eq_true, if_false, run_bind, run_skipToNextEntryP]
        congr 1
        funext q
        obtain ⟨it2, r⟩ := q
        cases r with
        | error c => exact ih it2
        | ok b =>
          cases b with
          | true => exact ih it2
          | false => rfl
    unfold TableIter.advanceLoopP TableIter.advanceLoop
    cases it.currentBlock with
    | none => exact tail (it, false)
    | some cb =>
      simp only [run_bind, run_lift]
      congr 1
      funext p
      exact tail _

theorem run_advanceP (it : TableIter) : it.advanceP.run = it.advance :=
  run_advanceLoopP _ it

theorem run_currentP (it : TableIter) : it.currentP.run = it.current := by
  unfold TableIter.currentP TableIter.current
  cases it.currentBlock <;> rfl

theorem run_nextP (it : TableIter) : it.nextP.run = it.next := by
  unfold TableIter.nextP TableIter.next
  simp only [run_bind, run_advanceP]
  congr 1
  funext p
  obtain ⟨it1, ok⟩ := p
  cases ok with
  | false => rfl
  | true =>
    simp only [Bool.not_true, Bool.false_eq_true, if_false, run_bind, run_currentP]
    rfl

theorem run_seekToFirstP (it : TableIter) : it.seekToFirstP.run = it.seekToFirst := by
  unfold TableIter.seekToFirstP TableIter.seekToFirst
  simp only [run_bind, run_advanceP]
  congr 1

theorem run_seekP (it : TableIter) (to : Bytes) : (it.seekP to).run = it.seek to := by
  unfold TableIter.seekP TableIter.seek
  simp only [run_bind, run_lift, run_curKVP]
  congr 1
  funext ib
  congr 1
  funext c
  cases c with
  | none => rfl
  | some kv =>
    obtain ⟨pastBlock, handle⟩ := kv
    dsimp only
    split
    · simp only [run_bind, run_try, run_loadBlockP]
      congr 1
      funext r
      cases r with
      | error c => rfl
      | ok it1 =>
        dsimp only
        cases it1.currentBlock with
        | none => rfl
        | some cb =>
          dsimp only
          simp only [run_bind, run_lift]
          congr 1
          funext cb'
          split
          · simp only [run_bind, run_advanceP]
            congr 1
          · rfl
    · rfl

theorem run_prevP (it : TableIter) : it.prevP.run = it.prev := by
  have tail : ∀ (p : TableIter × Bool),
      (if p.2 = true then (pure (p.1, true) : Prog (TableIter × Bool))
        else do
          let __x ← Prog.lift p.1.indexBlock.prev
          if __x.snd = true then do
            let __y ← curKVP ({ p.1 with indexBlock := __x.fst } : TableIter).indexBlock
            match __y with
              | some (_, handle) => do
                let __z ← Prog.try' (({ p.1 with indexBlock := __x.fst } : TableIter).loadBlockP handle)
                match __z with
                  | .ok it =>
                    match it.currentBlock with
                    | none => Prog.lift (.panic "prev: current_block unwrap")
                    | some cb => do
                      let cb ← Prog.lift cb.seekToLast
                      pure ({ it with currentBlock := some cb }, cb.valid)
                  | .error _ => pure (({ p.1 with indexBlock := __x.fst } : TableIter).reset, false)
              | none => pure (({ p.1 with indexBlock := __x.fst } : TableIter), false)
          else pure (({ p.1 with indexBlock := __x.fst } : TableIter).reset, false)).run
      = (if p.2 = true then (pure (p.1, true) : M (TableIter × Bool))
        else do
          let __x ← M.lift p.1.indexBlock.prev
          if __x.snd = true then do
            let __y ← curKV ({ p.1 with indexBlock := __x.fst } : TableIter).indexBlock
            match __y with
              | some (_, handle) => do
                let __z ← M.try' (({ p.1 with indexBlock := __x.fst } : TableIter).loadBlock handle)
                match __z with
                  | .ok it =>
                    match it.currentBlock with
                    | none => M.lift (.panic "prev: current_block unwrap")
                    | some cb => do
                      let cb ← M.lift cb.seekToLast
                      pure ({ it with currentBlock := some cb }, cb.valid)
                  | .error _ => pure (({ p.1 with indexBlock := __x.fst } : TableIter).reset, false)
              | none => pure (({ p.1 with indexBlock := __x.fst } : TableIter), false)
          else pure (({ p.1 with indexBlock := __x.fst } : TableIter).reset, false)) := by
    intro p
    obtain ⟨it1, ok⟩ := p
    cases ok with
    | true => rfl
    | false =>
      simp only [Bool.false_eq_true, if_false, run_bind, run_lift]
      congr 1
      funext q
      obtain ⟨ib, ok2⟩ := q
      cases ok2 with
      | false => rfl
      | true =>
        simp only [if_true, run_bind, run_curKVP]
        congr 1
        funext c
        cases c with
        | none => rfl
        | some kv =>
          obtain ⟨k, handle⟩ := kv
          simp only [run_bind, run_try, run_loadBlockP]
          congr 1
          funext r
          cases r with
          | error c => rfl
          | ok it2 =>
            dsimp only
            cases it2.currentBlock with
            | none => rfl
            | some cb =>
              dsimp only
              simp only [run_bind, run_lift]
              rfl
  unfold TableIter.prevP TableIter.prev
  cases it.currentBlock with
  | none => exact tail (it, false)
  | some cb =>
    simp only [run_bind, run_lift]
    congr 1
    funext p
    exact tail _

open Spec in
theorem run_callP (it : TableIter) (op : IterOp) : (it.callP op).run = it.call op := by
  cases op <;> unfold TableIter.callP TableIter.call <;>
    simp only [run_bind, run_advanceP, run_nextP, run_prevP, run_seekToFirstP, run_seekP, run_currentP] <;> rfl

open Spec in
theorem run_runP (ops : List IterOp) : ∀ (it : TableIter), (it.runP ops).run = it.run ops := by
  induction ops with
  | nil => intro it; rfl
  | cons op ops ih =>
    intro it
    unfold TableIter.runP TableIter.run
    simp only [run_bind, run_callP, ih]
    rfl

end TableIter
namespace Table

theorem run_getP (t : Table) (key : Bytes) : (t.getP key).run = t.get key := by
  unfold Table.getP Table.get
  simp only [run_bind, run_lift, run_curKVP]
  congr 1
  funext it0
  congr 1
  funext it1
  congr 1
  funext c
  cases c with
  | none => rfl
  | some kv =>
    obtain ⟨lastInBlock, h⟩ := kv
    dsimp only
    split
    · rfl
    · cases BlockHandle.tryDecode h with
      | none => rfl
      | some hn =>
        obtain ⟨handle, n⟩ := hn
        dsimp only
        have tail : ∀ (pass : Bool),
            (if (!pass) = true then (pure none : Prog (Option Bytes))
              else do
                let tb ← Prog.readBlock t handle
                let it ← Prog.lift (Block.iter tb)
                let it ← Prog.lift (it.seek t.opt.cmp key)
                match ← curKVP it with
                | some (k, v) => if t.opt.cmp.cmp k key == .eq then pure (some v) else pure none
                | none => pure none).run
            = (if (!pass) = true then (pure none : M (Option Bytes))
              else do
                let tb ← t.readBlock handle
                let it ← M.lift (Block.iter tb)
                let it ← M.lift (it.seek t.opt.cmp key)
                match ← curKV it with
                | some (k, v) => if t.opt.cmp.cmp k key == .eq then pure (some v) else pure none
                | none => pure none) := by
          intro pass
          cases pass with
          | true =>
            simp only [Bool.not_true, Bool.false_eq_true, if_false, run_bind, run_readBlock,
              run_lift, run_curKVP]
            congr 1
            funext tb
            congr 1
            funext i0
            congr 1
            funext i1
            congr 1
            funext c
            cases c with
            | none => rfl
            | some kv =>
              obtain ⟨k, v⟩ := kv
              dsimp only
              split <;> rfl
          | false => rfl
        cases t.filters with
        | none => exact tail true
        | some f =>
          simp only [run_bind, run_lift]
          congr 1
          funext pass
          exact tail pass

end Table

/-- the number of critical sections of a sequential composition -/
theorem Prog.steps_bind {α β} (p : Prog α) (f : α → Prog β) (w : World) :
    (p >>= f).steps w =
      p.steps w + (match (p.run w).2 with
                   | .ok a => (f a).steps (p.run w).1
                   | _ => 0) := by
  induction p generalizing w with
  | ret r => cases r <;> simp [Prog.steps, Prog.run, M.lift, bind, Prog.bind']
  | rb t h k ih =>
    show ((k (t.readBlock h w).2).bind' f).steps (t.readBlock h w).1 + 1 = _
    have := ih (t.readBlock h w).2 (t.readBlock h w).1
    simp only [bind] at this
    rw [this]
    simp only [Prog.steps, Prog.run]
    omega

end Sst

#print axioms Sst.Prog.run_bind
#print axioms Sst.Prog.run_try
#print axioms Sst.TableIter.run_callP
#print axioms Sst.TableIter.run_runP
#print axioms Sst.Table.run_getP
