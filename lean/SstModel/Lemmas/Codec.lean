import SstModel.Model.Codec
/-
  Round-trip laws of the codec layer: varint, fixed32, BlockHandle, Footer, mask/unmask crc.
-/
namespace Sst

/-! ### varint: encoder -/

theorem encodeVarint_lt (n : Nat) (h : n < 128) : encodeVarint n = [UInt8.ofNat n] := by
  rw [encodeVarint.eq_1, if_pos h]

theorem encodeVarint_ge (n : Nat) (h : ¬ n < 128) :
    encodeVarint n = UInt8.ofNat (n % 128 + 128) :: encodeVarint (n / 128) := by
  rw [encodeVarint.eq_1, if_neg h]

theorem encodeVarint_length_pos (n : Nat) : 0 < (encodeVarint n).length := by
  by_cases h : n < 128
  · rw [encodeVarint_lt n h]; simp
  · rw [encodeVarint_ge n h]; simp

theorem encodeVarint_length_le_of_lt_pow (k : Nat) :
    ∀ n : Nat, n < 128 ^ (k + 1) → (encodeVarint n).length ≤ k + 1 := by
  induction k with
  | zero =>
    intro n h
    have h' : n < 128 := by simpa using h
    rw [encodeVarint_lt n h']; simp
  | succ k ih =>
    intro n h
    by_cases h' : n < 128
    · rw [encodeVarint_lt n h']; simp
    · rw [encodeVarint_ge n h']
      have : n / 128 < 128 ^ (k + 1) := by
        rw [Nat.div_lt_iff_lt_mul (by decide)]
        rw [Nat.pow_succ] at h
        exact h
      have := ih _ this
      simp only [List.length_cons]
      omega

theorem encodeVarint_length_le (n : Nat) (h : n < 2^64) : (encodeVarint n).length ≤ 10 := by
  apply encodeVarint_length_le_of_lt_pow 9 n
  have : (2:Nat)^64 ≤ 128 ^ (9 + 1) := by decide
  omega

/-! ### varint: decoder -/

theorem decodeVarintLoop_cons (b : UInt8) (rest : Bytes) (acc shift : Nat) :
    decodeVarintLoop (b :: rest) acc shift =
      if b.toNat < 128 then some ((acc + (b.toNat % 128) * 2 ^ shift) % 2 ^ 64, (shift + 7) / 7)
      else if shift + 7 > 63 then none
      else decodeVarintLoop rest ((acc + (b.toNat % 128) * 2 ^ shift) % 2 ^ 64) (shift + 7) := by
  rw [decodeVarintLoop]

theorem decodeVarintLoop_encodeVarint (n : Nat) :
    ∀ (acc shift : Nat) (rest : Bytes), acc + n * 2 ^ shift < 2 ^ 64 →
      decodeVarintLoop (encodeVarint n ++ rest) acc shift
        = some (acc + n * 2 ^ shift, shift / 7 + (encodeVarint n).length) := by
  induction n using Nat.strongRecOn with
  | _ n ih =>
    intro acc shift rest hlt
    by_cases h : n < 128
    · rw [encodeVarint_lt n h]
      simp only [List.singleton_append, List.length_singleton]
      rw [decodeVarintLoop_cons]
      have hb : (UInt8.ofNat n).toNat = n :=
        UInt8.toNat_ofNat_of_lt' (by simp [UInt8.size]; omega)
      rw [hb, if_pos h, Nat.mod_eq_of_lt h, Nat.mod_eq_of_lt hlt]
      congr 2
      omega
    · rw [encodeVarint_ge n h]
      simp only [List.cons_append, List.length_cons]
      rw [decodeVarintLoop_cons]
      have hb : (UInt8.ofNat (n % 128 + 128)).toNat = n % 128 + 128 :=
        UInt8.toNat_ofNat_of_lt' (by simp [UInt8.size]; omega)
      have hpos : 0 < 2 ^ shift := Nat.pow_pos (by decide)
      -- the shift guard is never hit
      have hshift : ¬ shift + 7 > 63 := by
        intro hs
        have h1 : 2 ^ 57 ≤ 2 ^ shift := Nat.pow_le_pow_right (by decide) (by omega)
        have h2 : 128 * 2 ^ 57 ≤ n * 2 ^ shift := Nat.mul_le_mul (by omega) h1
        have h3 : (128 : Nat) * 2 ^ 57 = 2 ^ 64 := by decide
        omega
      -- splitting n
      have hsplit : n * 2 ^ shift = (n % 128) * 2 ^ shift + (n / 128) * 2 ^ (shift + 7) := by
        have : n = 128 * (n / 128) + n % 128 := (Nat.div_add_mod n 128).symm
        conv => lhs; rw [this]
        rw [Nat.add_mul, Nat.pow_add, Nat.add_comm]
        congr 1
        rw [Nat.mul_comm 128, Nat.mul_assoc, Nat.mul_comm 128]
      have hlt1 : acc + (n % 128) * 2 ^ shift < 2 ^ 64 := by
        have : 0 ≤ (n / 128) * 2 ^ (shift + 7) := Nat.zero_le _
        omega
      have hmod : (n % 128 + 128) % 128 = n % 128 := by omega
      rw [hb, if_neg (by omega), if_neg hshift, hmod, Nat.mod_eq_of_lt hlt1]
      rw [ih (n / 128) (by omega) _ _ rest (by omega)]
      congr 2
      · omega
      · omega

/-- decoding what was encoded, followed by arbitrary bytes -/
theorem decodeVarint_encodeVarint (n : Nat) (h : n < 2^64) (rest : Bytes) :
    decodeVarint (encodeVarint n ++ rest) = some (n, (encodeVarint n).length) := by
  unfold decodeVarint
  rw [decodeVarintLoop_encodeVarint n 0 0 rest (by simpa using h)]
  simp

theorem decodeVarintLoop_some_len (bs : Bytes) :
    ∀ (acc shift v l : Nat), decodeVarintLoop bs acc shift = some (v, l) →
      shift / 7 + 1 ≤ l ∧ l ≤ shift / 7 + bs.length ∧ v < 2 ^ 64 ∧ (shift ≤ 63 → l ≤ 10) := by
  induction bs with
  | nil => intro acc shift v l h; simp [decodeVarintLoop] at h
  | cons b rest ih =>
    intro acc shift v l h
    rw [decodeVarintLoop_cons] at h
    have hpos : 0 < 2 ^ 64 := by decide
    split at h
    · simp only [Option.some.injEq, Prod.mk.injEq] at h
      obtain ⟨hv, hl⟩ := h
      subst hv; subst hl
      refine ⟨by omega, by simp, Nat.mod_lt _ hpos, by omega⟩
    · split at h
      · simp at h
      · have := ih _ _ _ _ h
        simp only [List.length_cons]
        omega

/-- whatever decodes consumed between 1 and 10 bytes, not more than available -/
theorem decodeVarint_some_len (bs : Bytes) (v l : Nat) (h : decodeVarint bs = some (v, l)) :
    1 ≤ l ∧ l ≤ 10 ∧ l ≤ bs.length ∧ v < 2^64 := by
  have := decodeVarintLoop_some_len bs 0 0 v l h
  omega

theorem decodeVarintLoop_prefix (bs : Bytes) :
    ∀ (acc shift v l : Nat), decodeVarintLoop bs acc shift = some (v, l) → ∀ ext : Bytes,
      decodeVarintLoop (bs.take (l - shift / 7) ++ ext) acc shift = some (v, l) := by
  induction bs with
  | nil => intro acc shift v l h; simp [decodeVarintLoop] at h
  | cons b rest ih =>
    intro acc shift v l h ext
    have hlen := decodeVarintLoop_some_len _ _ _ _ _ h
    obtain ⟨k, hk⟩ : ∃ k, l - shift / 7 = k + 1 := ⟨l - shift / 7 - 1, by omega⟩
    rw [hk, List.take_succ_cons, List.cons_append, decodeVarintLoop_cons]
    rw [decodeVarintLoop_cons] at h
    split
    · rename_i hb
      rw [if_pos hb] at h
      exact h
    · rename_i hb
      rw [if_neg hb] at h
      split
      · rename_i hs
        rw [if_pos hs] at h
        exact h
      · rename_i hs
        rw [if_neg hs] at h
        have := ih _ _ _ _ h ext
        have hk' : l - (shift + 7) / 7 = k := by omega
        rw [hk'] at this
        exact this

/-- decoding depends only on the bytes consumed -/
theorem decodeVarint_prefix (bs : Bytes) (v l : Nat) (h : decodeVarint bs = some (v, l))
    (ext : Bytes) : decodeVarint (bs.take l ++ ext) = some (v, l) := by
  have := decodeVarintLoop_prefix bs 0 0 v l h ext
  simpa [decodeVarint] using this

/-! ### fixed32 -/

theorem encodeFixed32_length (n : Nat) : (encodeFixed32 n).length = 4 := rfl

theorem u8_toNat_ofNat_mod (x : Nat) : (UInt8.ofNat (x % 256)).toNat = x % 256 :=
  UInt8.toNat_ofNat_of_lt' (by simp [UInt8.size]; omega)

theorem decodeFixed32_encodeFixed32 (n : Nat) (h : n < 2^32) :
    decodeFixed32 (encodeFixed32 n) = n := by
  simp only [encodeFixed32, decodeFixed32, u8_toNat_ofNat_mod]
  omega

theorem decodeFixed32_lt (b : Bytes) : decodeFixed32 b < 2^32 := by
  unfold decodeFixed32
  split
  · rename_i a b c d
    have := a.toNat_lt; have := b.toNat_lt; have := c.toNat_lt; have := d.toNat_lt
    omega
  · decide

/-- reading a fixed32 out of a concatenation -/
theorem fixed32At_append (pre post : Bytes) (n : Nat) (h : n < 2^32) :
    fixed32At (pre ++ encodeFixed32 n ++ post) pre.length = some n := by
  unfold fixed32At slice?
  have hlen : pre.length ≤ pre.length + 4 ∧
      pre.length + 4 ≤ (pre ++ encodeFixed32 n ++ post).length := by
    simp [encodeFixed32_length]
  rw [if_pos hlen, List.append_assoc, List.drop_left]
  have h4 : pre.length + 4 - pre.length = (encodeFixed32 n).length := by
    rw [encodeFixed32_length]; omega
  rw [h4, List.take_left]
  simp [decodeFixed32_encodeFixed32 n h]

theorem fixed32At_some_iff (b : Bytes) (i : Nat) : (fixed32At b i).isSome ↔ i + 4 ≤ b.length := by
  unfold fixed32At slice?
  by_cases h : i + 4 ≤ b.length
  · rw [if_pos ⟨by omega, h⟩]; simp [h]
  · rw [if_neg (by intro hh; exact h hh.2)]; simp [h]

/-! ### BlockHandle -/

theorem BlockHandle.tryDecode_encode (h : BlockHandle) (ho : h.offset < 2^64)
    (hs : h.size < 2^64) (rest : Bytes) :
    BlockHandle.tryDecode (h.encode ++ rest) = some (h, h.encode.length) := by
  unfold BlockHandle.tryDecode BlockHandle.encode
  rw [List.append_assoc, decodeVarint_encodeVarint _ ho]
  simp only [List.drop_left]
  rw [decodeVarint_encodeVarint _ hs]
  simp

theorem BlockHandle.encode_length_le (h : BlockHandle) (ho : h.offset < 2^64)
    (hs : h.size < 2^64) : h.encode.length ≤ 20 := by
  unfold BlockHandle.encode
  have := encodeVarint_length_le _ ho
  have := encodeVarint_length_le _ hs
  simp only [List.length_append]
  omega

/-! ### Footer -/

theorem magicFooterEncoded_length : Consts.magicFooterEncoded.length = 8 := rfl

theorem Footer.encode_length (f : Footer)
    (h : f.metaIndex.offset < 2^64 ∧ f.metaIndex.size < 2^64 ∧
         f.index.offset < 2^64 ∧ f.index.size < 2^64) : f.encode.length = 48 := by
  have := BlockHandle.encode_length_le _ h.1 h.2.1
  have := BlockHandle.encode_length_le _ h.2.2.1 h.2.2.2
  unfold Footer.encode
  simp only [List.length_append, List.length_replicate, magicFooterEncoded_length,
    Consts.footerLength]
  omega

theorem Footer.tryDecode_encode (f : Footer)
    (h : f.metaIndex.offset < 2^64 ∧ f.metaIndex.size < 2^64 ∧
         f.index.offset < 2^64 ∧ f.index.size < 2^64) : Footer.tryDecode f.encode = some f := by
  have hlen := Footer.encode_length f h
  have h1 := BlockHandle.encode_length_le _ h.1 h.2.1
  have h2 := BlockHandle.encode_length_le _ h.2.2.1 h.2.2.2
  unfold Footer.tryDecode
  rw [if_neg (by rw [hlen]; decide)]
  have hmagic : (f.encode.drop Consts.footerLength).take
      (Consts.fullFooterLength - Consts.footerLength) = Consts.magicFooterEncoded := by
    unfold Footer.encode
    have hl : ((f.metaIndex.encode ++ f.index.encode) ++ List.replicate
        (Consts.footerLength - (f.metaIndex.encode ++ f.index.encode).length) 0).length
        = Consts.footerLength := by
      simp only [List.length_append, List.length_replicate, Consts.footerLength]
      omega
    show List.take _ (List.drop Consts.footerLength (_ ++ Consts.magicFooterEncoded)) = _
    conv => lhs; arg 2; arg 1; rw [← hl]
    rw [List.drop_left]
    rfl
  rw [if_neg (by rw [hmagic]; simp)]
  have henc : f.encode = f.metaIndex.encode ++ (f.index.encode ++
      (List.replicate (Consts.footerLength - (f.metaIndex.encode ++ f.index.encode).length) 0
        ++ Consts.magicFooterEncoded)) := by
    unfold Footer.encode
    simp only [List.append_assoc]
  rw [henc, BlockHandle.tryDecode_encode _ h.1 h.2.1]
  simp only [List.drop_left]
  rw [BlockHandle.tryDecode_encode _ h.2.2.1 h.2.2.2]

/-- a footer whose last 8 bytes are not the magic is rejected; so is anything shorter than 48 bytes -/
theorem Footer.tryDecode_bad_magic (b : Bytes)
    (h : b.length < 48 ∨ (b.drop 40).take 8 ≠ Consts.magicFooterEncoded) :
    Footer.tryDecode b = none := by
  unfold Footer.tryDecode
  by_cases hl : b.length < Consts.fullFooterLength
  · rw [if_pos hl]
  · rw [if_neg hl]
    have hm : (b.drop 40).take 8 ≠ Consts.magicFooterEncoded := by
      cases h with
      | inl h => exact absurd h hl
      | inr h => exact h
    exact if_pos hm

/-! ### crc masking -/

/-- rotate right by 15 (on 32 bits) -/
theorem rotr15_lt (c : Nat) (h : c < 4294967296) :
    c / 32768 + c * 131072 % 4294967296 < 4294967296 := by
  omega

theorem rotl15_rotr15 (c : Nat) (h : c < 4294967296) :
    (c / 32768 + c * 131072 % 4294967296) / 131072
      + (c / 32768 + c * 131072 % 4294967296) * 32768 % 4294967296 = c := by
  have e1 : c * 131072 % 4294967296 = (c % 32768) * 131072 := by omega
  rw [e1]
  have hc : c = c / 32768 * 32768 + c % 32768 := by omega
  have hlo : c % 32768 < 32768 := by omega
  have hhi : c / 32768 < 131072 := by omega
  generalize c / 32768 = hi at *
  generalize c % 32768 = lo at *
  have e2 : (hi + lo * 131072) / 131072 = lo := by omega
  have e3 : (hi + lo * 131072) * 32768 = lo * 4294967296 + hi * 32768 := by omega
  rw [e2, e3, Nat.mul_add_mod_self_right, Nat.mod_eq_of_lt (by omega)]
  omega

theorem sub_add_delta (r : Nat) (h : r < 4294967296) :
    ((r + 2726488792) % 4294967296 + 4294967296 - 2726488792) % 4294967296 = r := by
  omega

theorem unmaskCrc_maskCrc (c : Nat) (h : c < 2^32) : unmaskCrc (maskCrc c) = c := by
  simp only [unmaskCrc, maskCrc, Consts.maskShr, Consts.maskShl, Consts.unmaskShr,
    Consts.unmaskShl, Consts.maskDelta, Nat.reducePow] at *
  have hr := rotr15_lt c h
  rw [Nat.mod_eq_of_lt hr, sub_add_delta _ hr, rotl15_rotr15 c h, Nat.mod_eq_of_lt h]

theorem maskCrc_injective (a b : Nat) (ha : a < 2^32) (hb : b < 2^32)
    (h : maskCrc a = maskCrc b) : a = b := by
  rw [← unmaskCrc_maskCrc a ha, ← unmaskCrc_maskCrc b hb, h]

end Sst

#print axioms Sst.decodeVarint_encodeVarint
#print axioms Sst.Footer.tryDecode_encode
#print axioms Sst.unmaskCrc_maskCrc
