import SstModel.Lemmas.FineGrained
/-
  The operations a thread executes in the fine-grained concurrency theorems (Props/C12Fine.lean):
  one iterator call, a whole session of calls on one iterator (the next call starts when the previous
  one has returned; the iterator state is threaded through), or a lookup — as a program (`Job.prog`,
  its critical sections explicit), as the atomic monadic model (`Job.alone`), and what the Spec says
  about the output (`Job.Spec`).
-/
set_option linter.unusedVariables false

namespace Sst.Fine
open Sst.CS Sst.Spec

/-- what a thread executes -/
inductive Job where
  /-- one call on an iterator -/
  | call (c : Client) (it : TableIter) (op : IterOp)
  /-- a sequence of calls on one iterator -/
  | session (c : Client) (it : TableIter) (ops : List IterOp)
  /-- a lookup -/
  | get (c : Client) (k : Bytes)

/-- what it returns -/
inductive JobOut where
  | call (it : TableIter) (out : IterOut)
  | session (it : TableIter) (outs : List IterOut)
  | got (v : Option Bytes)

namespace Job

def client : Job → Client
  | .call c _ _ => c
  | .session c _ _ => c
  | .get c _ => c

/-- the operation as a program: thread-local computation and critical sections -/
def prog : Job → Prog JobOut
  | .call _ it op => it.callP op >>= fun r => pure (.call r.1 r.2)
  | .session _ it ops => it.runP ops >>= fun r => pure (.session r.1 r.2)
  | .get c k => c.tb.getP k >>= fun v => pure (.got v)

/-- the operation as ONE atomic step on the world: the monadic model of Model/Table.lean -/
def alone : Job → M JobOut
  | .call _ it op => it.call op >>= fun r => pure (.call r.1 r.2)
  | .session _ it ops => it.run ops >>= fun r => pure (.session r.1 r.2)
  | .get c k => c.tb.get k >>= fun v => pure (.got v)

/-- hypotheses on a job, as in `C10_interleaving`: its table is one of the family; an iterator is in a
    state reachable by calls on a new iterator (`SimT` at some position); lookups need the filter
    hypotheses of `get_ok` -/
def OK (cls : List Client) : Job → Prop
  | .call c it _ => c ∈ cls ∧ ∃ pos, SimT c.t c.tb it pos
  | .session c it _ => c ∈ cls ∧ ∃ pos, SimT c.t c.tb it pos
  | .get c _ => c ∈ cls ∧ c.GetOK

/-- the Spec's verdict on an output: a step / a run of the Spec cursor over the table's entries, from
    whatever position the iterator stood at; the Spec map's answer -/
def Spec : Job → JobOut → Prop
  | .call c it op, .call it' out =>
    ∀ pos, SimT c.t c.tb it pos → ∃ pos',
      CursorStep c.cmp c.t.entries (c.t.flatPos pos) op (c.t.flatPos pos') out ∧ SimT c.t c.tb it' pos'
  | .session c it ops, .session it' outs =>
    ∀ pos, SimT c.t c.tb it pos → ∃ pos',
      CursorRun c.cmp c.t.entries (c.t.flatPos pos) ops (c.t.flatPos pos') outs ∧ SimT c.t c.tb it' pos'
  | .get c k, .got v => v = Spec.lookup c.cmp c.t.entries k
  | _, _ => False

/-- the program view IS the model: running the program alone is the atomic operation -/
theorem run_prog (j : Job) : j.prog.run = j.alone := by
  cases j with
  | call c it op =>
    simp only [prog, alone, Prog.run_bind, TableIter.run_callP]
    rfl
  | session c it ops =>
    simp only [prog, alone, Prog.run_bind, TableIter.run_runP]
    rfl
  | get c k =>
    simp only [prog, alone, Prog.run_bind, Table.run_getP]
    rfl

theorem client_mem {cls : List Client} {j : Job} (h : j.OK cls) : j.client ∈ cls := by
  cases j with
  | call c it op => exact h.1
  | session c it ops => exact h.1
  | get c k => exact h.1

/-- every critical section of a job is `read_block` of a data block of its own table -/
theorem runs (cls : List Client) (hok : ∀ c ∈ cls, c.OK) (j : Job) (hj : j.OK cls) :
    ∃ r n, Runs j.client.tb j.client.t j.prog r n := by
  cases j with
  | call c it op =>
    obtain ⟨hc, pos, hs⟩ := hj
    have ho := hok c hc
    obtain ⟨r, n, hr, _⟩ := Tri.bind (callP_tri ho.lawful ho.wf ho.opened it (Idx.of_simT hs) op)
      (fun r _ => Tri.pure (Q := fun _ => True) (JobOut.call r.1 r.2) trivial)
    exact ⟨r, n, hr⟩
  | session c it ops =>
    obtain ⟨hc, pos, hs⟩ := hj
    have ho := hok c hc
    obtain ⟨r, n, hr, _⟩ := Tri.bind (runP_tri ho.lawful ho.wf ho.opened ops it (Idx.of_simT hs))
      (fun r _ => Tri.pure (Q := fun _ => True) (JobOut.session r.1 r.2) trivial)
    exact ⟨r, n, hr⟩
  | get c k =>
    obtain ⟨hc, hg⟩ := hj
    have ho := hok c hc
    obtain ⟨r, n, hr, _⟩ := Tri.bind (getP_tri ho.lawful ho.wf ho.opened k)
      (fun v _ => Tri.pure (Q := fun _ => True) (JobOut.got v) trivial)
    exact ⟨r, n, hr⟩

/-- the atomic operation in a world satisfying the invariant returns `ok` and conforms to the Spec
    (`call_ok`, `reader_history`, `get_ok`) -/
theorem alone_ok (cls : List Client) (hok : ∀ c ∈ cls, c.OK) (j : Job) (hj : j.OK cls)
    (w : World) (hw : Inv cls w) : ∃ w' out, j.alone w = (w', .ok out) ∧ j.Spec out := by
  cases j with
  | call c it op =>
    obtain ⟨hc, pos, hs⟩ := hj
    have ho := hok c hc
    obtain ⟨w', it', pos', out, hcall, _, _, _, _⟩ :=
      call_ok c.cmp ho.lawful c.p c.t ho.wf c.fv c.tb ho.opened op w (hw c hc) it pos hs
    refine ⟨w', .call it' out, ?_, ?_⟩
    · show (it.call op >>= fun r => pure (JobOut.call r.1 r.2)) w = _
      rw [TI.bind_ok hcall]; rfl
    · intro pos2 hs2
      obtain ⟨w2, it2, pos2', out2, hcall2, hstep2, hsim2, _, _⟩ :=
        call_ok c.cmp ho.lawful c.p c.t ho.wf c.fv c.tb ho.opened op w (hw c hc) it pos2 hs2
      rw [hcall] at hcall2
      cases hcall2
      exact ⟨pos2', hstep2, hsim2⟩
  | session c it ops =>
    obtain ⟨hc, pos, hs⟩ := hj
    have ho := hok c hc
    obtain ⟨w', it', pos', outs, hrun, _, _, _, _⟩ :=
      reader_history c.cmp ho.lawful c.p c.t ho.wf c.fv c.tb ho.opened ops w (hw c hc) it pos hs
    refine ⟨w', .session it' outs, ?_, ?_⟩
    · show (it.run ops >>= fun r => pure (JobOut.session r.1 r.2)) w = _
      rw [TI.bind_ok hrun]; rfl
    · intro pos2 hs2
      obtain ⟨w2, it2, pos2', outs2, hrun2, hcr2, hsim2, _, _⟩ :=
        reader_history c.cmp ho.lawful c.p c.t ho.wf c.fv c.tb ho.opened ops w (hw c hc) it pos2 hs2
      rw [hrun] at hrun2
      cases hrun2
      exact ⟨pos2', hcr2, hsim2⟩
  | get c k =>
    obtain ⟨hc, hg⟩ := hj
    have ho := hok c hc
    obtain ⟨w', hget, _, _⟩ :=
      get_ok c.cmp ho.lawful c.p c.t ho.wf c.fv c.tb ho.opened hg.sound hg.fwf w (hw c hc) k
    refine ⟨w', .got (Spec.lookup c.cmp c.t.entries k), ?_, rfl⟩
    show (c.tb.get k >>= fun v => pure (JobOut.got v)) w = _
    rw [TI.bind_ok hget]; rfl

end Job

/-- the thread list of a job list: every thread follows the canonical path of its client's table -/
theorem jobs_threads (cls : List Client) (hok : ∀ c ∈ cls, c.OK) (jobs : List Job)
    (hjobs : ∀ j ∈ jobs, j.OK cls) :
    ∀ (i : Nat) (p : Prog JobOut), (jobs.map Job.prog)[i]? = some p →
      ∃ o ∈ cls, ∃ r n, Runs o.tb o.t p r n := by
  intro i p hp
  rw [List.getElem?_map] at hp
  cases hj : jobs[i]? with
  | none => rw [hj] at hp; cases hp
  | some j =>
    rw [hj] at hp
    cases hp
    have hmem := List.mem_of_getElem? hj
    exact ⟨j.client, Job.client_mem (hjobs j hmem), Job.runs cls hok j (hjobs j hmem)⟩

end Sst.Fine

#print axioms Sst.Fine.Job.run_prog
#print axioms Sst.Fine.Job.runs
#print axioms Sst.Fine.Job.alone_ok
