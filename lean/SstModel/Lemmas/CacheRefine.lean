import SstModel.Model.Cache
import SstModel.Spec.Lru
/-
  Refinement: the heap model of `cache.rs` (`Sst.HCache.Cache`) behaves like the abstract LRU
  (`Sst.Spec.Lru`) on every operation history, never panics, and keeps a representation invariant.
-/
set_option linter.unusedSimpArgs false
set_option linter.unusedVariables false

namespace Sst.HCache
open Sst.Spec

/-! ## successor / predecessor in a list of node ids -/

/-- the element after `x` -/
def nxt : List Nat → Nat → Option Nat
  | [], _ => none
  | a :: r, x => if x = a then r.head? else nxt r x

/-- the element before `x` -/
def prv : List Nat → Nat → Option Nat
  | [], _ => none
  | a :: r, x => if r.head? = some x then some a else prv r x

theorem nxt_mem {F : List Nat} {a b : Nat} (h : nxt F a = some b) : a ∈ F ∧ b ∈ F.tail := by
  induction F with
  | nil => simp [nxt] at h
  | cons x r ih =>
    simp only [nxt] at h
    by_cases hx : a = x
    · rw [if_pos hx] at h
      subst hx
      refine ⟨by simp, ?_⟩
      cases r with
      | nil => simp at h
      | cons y r' => simp at h; simp [h]
    · rw [if_neg hx] at h
      have := ih h
      refine ⟨by simp [this.1], ?_⟩
      simp only [List.tail_cons]
      exact List.mem_of_mem_tail this.2

theorem prv_mem {F : List Nat} {a b : Nat} (h : prv F a = some b) : b ∈ F ∧ a ∈ F.tail := by
  induction F with
  | nil => simp [prv] at h
  | cons x r ih =>
    simp only [prv] at h
    by_cases hx : r.head? = some a
    · rw [if_pos hx] at h
      simp at h; subst h
      refine ⟨by simp, ?_⟩
      simp only [List.tail_cons]
      exact List.mem_of_head? hx
    · rw [if_neg hx] at h
      have := ih h
      refine ⟨by simp [this.1], ?_⟩
      simp only [List.tail_cons]
      exact List.mem_of_mem_tail this.2

theorem prv_nxt {F : List Nat} (hn : F.Nodup) {a b : Nat} : prv F b = some a ↔ nxt F a = some b := by
  induction F with
  | nil => simp [prv, nxt]
  | cons x r ih =>
    have hn' : r.Nodup := (List.nodup_cons.mp hn).2
    have hx : x ∉ r := (List.nodup_cons.mp hn).1
    simp only [prv, nxt]
    by_cases h1 : r.head? = some b
    · rw [if_pos h1]
      by_cases h2 : a = x
      · rw [if_pos h2]; simp [h1, h2]
      · rw [if_neg h2]
        constructor
        · intro h; simp at h; exact absurd h.symm h2
        · intro h
          -- b is the head of r and also a successor inside r: contradicts Nodup r
          exfalso
          cases r with
          | nil => simp at h1
          | cons y r' =>
            simp at h1; subst h1
            have := (nxt_mem h).2
            simp at this
            exact (List.nodup_cons.mp hn').1 this
    · rw [if_neg h1]
      by_cases h2 : a = x
      · rw [if_pos h2]
        constructor
        · intro h
          have := (prv_mem h).1
          rw [h2] at this; exact absurd this hx
        · intro h; exact absurd h h1
      · rw [if_neg h2]; exact ih hn'

theorem prv_exists {F : List Nat} {a : Nat} (h : a ∈ F.tail) : ∃ p, prv F a = some p := by
  induction F with
  | nil => simp at h
  | cons x r ih =>
    simp only [List.tail_cons] at h
    simp only [prv]
    by_cases h1 : r.head? = some a
    · exact ⟨x, by rw [if_pos h1]⟩
    · rw [if_neg h1]
      apply ih
      cases r with
      | nil => simp at h
      | cons y r' =>
        simp at h1
        simp only [List.tail_cons]
        rcases List.mem_cons.mp h with h | h
        · exact absurd h.symm h1
        · exact h

theorem nxt_ne {F : List Nat} (hn : F.Nodup) {a b : Nat} (h : nxt F a = some b) : a ≠ b := by
  induction F with
  | nil => simp [nxt] at h
  | cons x r ih =>
    have hn' : r.Nodup := (List.nodup_cons.mp hn).2
    have hx : x ∉ r := (List.nodup_cons.mp hn).1
    simp only [nxt] at h
    by_cases h2 : a = x
    · rw [if_pos h2] at h
      have := List.mem_of_head? h
      intro e; rw [← e, h2] at this; exact hx this
    · rw [if_neg h2] at h; exact ih hn' h

theorem nxt_none_iff {F : List Nat} (hn : F.Nodup) {a : Nat} (ha : a ∈ F) :
    nxt F a = none ↔ F.getLast? = some a := by
  induction F with
  | nil => simp at ha
  | cons x r ih =>
    have hn' : r.Nodup := (List.nodup_cons.mp hn).2
    have hx : x ∉ r := (List.nodup_cons.mp hn).1
    simp only [nxt]
    cases r with
    | nil =>
      simp at ha
      simp [ha]
    | cons y r' =>
      rw [List.getLast?_cons_cons]
      by_cases h2 : a = x
      · rw [if_pos h2]
        simp
        intro h
        have := List.mem_of_getLast? h
        rw [h2] at this; exact hx this
      · rw [if_neg h2]
        apply ih hn'
        rcases List.mem_cons.mp ha with h | h
        · exact absurd h h2
        · exact h


theorem prv_none_of_not_mem {F : List Nat} {a : Nat} (h : a ∉ F.tail) : prv F a = none := by
  cases hp : prv F a with
  | none => rfl
  | some b => exact absurd (prv_mem hp).2 h

theorem nxt_none_of_not_mem {F : List Nat} {a : Nat} (h : a ∉ F) : nxt F a = none := by
  cases hp : nxt F a with
  | none => rfl
  | some b => exact absurd (nxt_mem hp).1 h

theorem nxt_ne_of_not_mem {F : List Nat} {a h : Nat} (hh : h ∉ F) : nxt F a ≠ some h := by
  intro e; exact hh (List.mem_of_mem_tail (nxt_mem e).2)

theorem nxt_no_cycle {F : List Nat} (hn : F.Nodup) {a b : Nat} (h : nxt F a = some b) :
    nxt F b ≠ some a := by
  induction F with
  | nil => simp [nxt] at h
  | cons x r ih =>
    have hn' : r.Nodup := (List.nodup_cons.mp hn).2
    have hx : x ∉ r := (List.nodup_cons.mp hn).1
    simp only [nxt] at h ⊢
    by_cases h2 : a = x
    · rw [if_pos h2] at h
      have hb : b ∈ r := List.mem_of_head? h
      have hbx : b ≠ x := fun e => hx (e ▸ hb)
      rw [if_neg hbx, h2]
      exact nxt_ne_of_not_mem hx
    · rw [if_neg h2] at h
      have hb : b ∈ r := List.mem_of_mem_tail (nxt_mem h).2
      have hbx : b ≠ x := fun e => hx (e ▸ hb)
      rw [if_neg hbx]
      exact ih hn' h

theorem prv_ne_of_not_mem {F : List Nat} {a h : Nat} (hh : h ∉ F) : prv F a ≠ some h := by
  intro e; exact hh (prv_mem e).1

theorem filter_ne_self {F : List Nat} {h : Nat} (hh : h ∉ F) : F.filter (· ≠ h) = F := by
  rw [List.filter_eq_self]
  intro a ha
  simp only [ne_eq, decide_eq_true_eq]
  intro e; exact hh (e ▸ ha)

theorem head?_filter_ne {r : List Nat} (hn : r.Nodup) (h : Nat) :
    (r.filter (· ≠ h)).head? = if r.head? = some h then nxt r h else r.head? := by
  cases r with
  | nil => simp
  | cons y r' =>
    have hy : y ∉ r' := (List.nodup_cons.mp hn).1
    by_cases e : y = h
    · subst e
      have : (y :: r').filter (· ≠ y) = r' := by
        rw [List.filter_cons]
        simp only [ne_eq, not_true_eq_false, decide_false, Bool.false_eq_true, if_false]
        exact filter_ne_self hy
      rw [this]
      simp [nxt]
    · have e' : ¬ h = y := fun x => e x.symm
      simp [List.filter_cons, e]

theorem nxt_filter {F : List Nat} (hn : F.Nodup) {a h : Nat} (hah : a ≠ h) :
    nxt (F.filter (· ≠ h)) a = if nxt F a = some h then nxt F h else nxt F a := by
  induction F with
  | nil => simp [nxt]
  | cons x r ih =>
    have hn' : r.Nodup := (List.nodup_cons.mp hn).2
    have hx : x ∉ r := (List.nodup_cons.mp hn).1
    by_cases e : x = h
    · subst e
      simp only [List.filter_cons, ne_eq, not_true_eq_false, decide_false, Bool.false_eq_true,
        if_false, filter_ne_self hx, nxt, if_neg hah]
      rw [if_neg (nxt_ne_of_not_mem hx)]
    · have e' : ¬ h = x := fun y => e y.symm
      simp only [List.filter_cons, ne_eq, e, not_false_eq_true, decide_true, if_true, nxt, if_neg e']
      by_cases hax : a = x
      · simp only [if_pos hax]
        exact head?_filter_ne hn' h
      · simp only [if_neg hax]
        exact ih hn'

theorem prv_filter {F : List Nat} (hn : F.Nodup) {a h : Nat} (hah : a ≠ h) :
    prv (F.filter (· ≠ h)) a = if prv F a = some h then prv F h else prv F a := by
  induction F with
  | nil => simp [prv]
  | cons x r ih =>
    have hn' : r.Nodup := (List.nodup_cons.mp hn).2
    have hx : x ∉ r := (List.nodup_cons.mp hn).1
    by_cases e : x = h
    · subst e
      have hh : r.head? ≠ some x := fun c => hx (List.mem_of_head? c)
      simp only [List.filter_cons, ne_eq, not_true_eq_false, decide_false, Bool.false_eq_true,
        if_false, filter_ne_self hx, prv, if_neg hh]
      by_cases c : r.head? = some a
      · simp only [if_pos c, if_true]
        rw [prv_none_of_not_mem (fun m => hx (List.mem_of_mem_tail m))]
        apply prv_none_of_not_mem
        cases r with
        | nil => simp
        | cons y r' =>
          simp at c; subst c
          simpa using (List.nodup_cons.mp hn').1
      · simp only [if_neg c]
        rw [if_neg (prv_ne_of_not_mem hx)]
    · have e' : ¬ h = x := fun y => e y.symm
      simp only [List.filter_cons, ne_eq, e, not_false_eq_true, decide_true, if_true, prv]
      rw [head?_filter_ne hn' h]
      cases r with
      | nil => simp [prv, nxt, e]
      | cons y r' =>
        have hy : y ∉ r' := (List.nodup_cons.mp hn').1
        have ih' := ih hn'
        by_cases c : y = h
        · subst c
          have hay : ¬ y = a := fun c => hah c.symm
          simp only [List.head?_cons, if_true, nxt, Option.some.injEq, hay, if_false]
          simp only [prv, List.head?_cons, if_true] at ih' ⊢
          by_cases d : r'.head? = some a
          · simp [d]
          · simp only [if_neg d, if_neg (prv_ne_of_not_mem (a := a) hy)]
            simp only [if_neg d, if_neg (prv_ne_of_not_mem (a := a) hy)] at ih'
            rw [ih']
        · have c' : ¬ h = y := fun z => c z.symm
          simp only [List.head?_cons, Option.some.injEq, c, if_false]
          by_cases d : y = a
          · simp [d, e]
          · simp only [if_neg d]
            rw [ih']


/-! ## the list representation -/

/-- the heap determined by the abstract list: `ids` most recent first, `kf` the key carried by each
    node, `hp` the head's `prev` -/
def canon (ids : List Nat) (kf : Nat → Key) (hp : Option Nat) (a : Nat) : Option Node :=
  if a = 0 then some { next := ids.head?, prev := hp, data := none }
  else if a ∈ ids then
    some { next := nxt (0 :: ids) a, prev := prv (0 :: ids) a, data := some (kf a) }
  else none

structure ListRep (l : LruList) (ids : List Nat) (kf : Nat → Key) (hp : Option Nat) : Prop where
  nodup : (0 :: ids).Nodup
  lt : ∀ a ∈ ids, a < l.fresh
  fresh_pos : 0 < l.fresh
  count : l.count = ids.length
  hpok : hp = (0 :: ids).getLast? ∨ (ids = [] ∧ hp = none)
  heap : ∀ a, l.heap a = canon ids kf hp a

namespace LruList

@[simp] theorem store_heap (l : LruList) (p : Nat) (n : Node) (i : Nat) :
    (l.store p n).heap i = if i = p then some n else l.heap i := rfl
@[simp] theorem free_heap (l : LruList) (p : Nat) (i : Nat) :
    (l.free p).heap i = if i = p then none else l.heap i := rfl
@[simp] theorem store_fresh (l : LruList) (p : Nat) (n : Node) : (l.store p n).fresh = l.fresh := rfl
@[simp] theorem store_count (l : LruList) (p : Nat) (n : Node) : (l.store p n).count = l.count := rfl
@[simp] theorem free_fresh (l : LruList) (p : Nat) : (l.free p).fresh = l.fresh := rfl
@[simp] theorem free_count (l : LruList) (p : Nat) : (l.free p).count = l.count := rfl

theorem deref_eq (l : LruList) (p : Nat) {n : Node} (h : l.heap p = some n) : l.deref p = .ok n := by
  simp [deref, h]

end LruList

theorem list_insert {l : LruList} {ids kf hp} (R : ListRep l ids kf hp) (k : Key) :
    ∃ l' hp', l.insert k = .ok (l', l.fresh) ∧
      ListRep l' (l.fresh :: ids) (fun a => if a = l.fresh then k else kf a) hp' := by
  have hf0 : l.fresh ≠ 0 := Nat.pos_iff_ne_zero.mp R.fresh_pos
  have hfn : l.fresh ∉ ids := fun m => Nat.lt_irrefl _ (R.lt _ m)
  have h0 := R.heap 0
  simp only [canon, if_true] at h0
  cases ids with
  | nil =>
    simp [LruList.insert, LruList.deref, h0, hf0, Ne.symm hf0]
    refine ⟨some l.fresh, ⟨?_, ?_, ?_, ?_, ?_, ?_⟩⟩
    · simp [Ne.symm hf0]
    · simp
    · simp
    · simp [R.count]
    · simp
    · intro a
      have ha := R.heap a
      simp only [canon] at ha
      by_cases a0 : a = 0
      · subst a0; simp [canon]
      · by_cases af : a = l.fresh
        · subst af; simp [canon, a0, nxt, prv]
        · simp [canon, a0, af, ha]
  | cons first rest =>
    have hn := R.nodup
    have hfirst0 : first ≠ 0 := by
      intro e; subst e; simp at hn
    have hff : first ≠ l.fresh := by
      intro e; apply hfn; simp [e]
    have h1 := R.heap first
    simp only [canon, if_neg hfirst0, List.mem_cons, true_or, if_true] at h1
    simp [LruList.insert, LruList.deref, h0, h1, hf0, Ne.symm hf0, hfirst0, Ne.symm hfirst0, hff, Ne.symm hff]
    have hpe : hp = (0 :: first :: rest).getLast? := by
      rcases R.hpok with h | h
      · exact h
      · simp at h
    refine ⟨hp, ⟨?_, ?_, ?_, ?_, ?_, ?_⟩⟩
    · rw [List.nodup_cons] at hn ⊢
      refine ⟨?_, ?_⟩
      · intro m
        rcases List.mem_cons.mp m with e | m
        · exact hf0 e.symm
        · exact hn.1 m
      · exact List.nodup_cons.mpr ⟨hfn, hn.2⟩
    · intro a m
      rcases List.mem_cons.mp m with e | m
      · simp [e]
      · have := R.lt a m; simp; omega
    · simp
    · simp [R.count]
    · left; rw [hpe]; simp [List.getLast?_cons_cons]
    · intro a
      have ha := R.heap a
      simp only [canon] at ha
      by_cases a0 : a = 0
      · subst a0; simp [canon]
      · by_cases af : a = l.fresh
        · subst af; simp [canon, a0, nxt, prv]
        · by_cases a1 : a = first
          · subst a1; simp [canon, a0, af, nxt, prv, Ne.symm af]
          · simp [canon, a0, af, a1, ha, nxt, prv, Ne.symm a1, Ne.symm af]


theorem length_filter_ne {ids : List Nat} (hn : ids.Nodup) {h : Nat} (hm : h ∈ ids) :
    (ids.filter (· ≠ h)).length + 1 = ids.length := by
  induction ids with
  | nil => simp at hm
  | cons x r ih =>
    have hn' : r.Nodup := (List.nodup_cons.mp hn).2
    have hx : x ∉ r := (List.nodup_cons.mp hn).1
    by_cases e : x = h
    · subst e
      rw [List.filter_cons]
      simp only [ne_eq, not_true_eq_false, decide_false, Bool.false_eq_true, if_false]
      rw [filter_ne_self hx]; simp
    · rw [List.filter_cons]
      simp only [ne_eq, e, not_false_eq_true, decide_true, if_true, List.length_cons]
      rcases List.mem_cons.mp hm with c | c
      · exact absurd c.symm e
      · rw [ih hn' c]

theorem cons_filter_ne {ids : List Nat} {h : Nat} (h0 : h ≠ 0) :
    0 :: ids.filter (· ≠ h) = (0 :: ids).filter (· ≠ h) := by
  rw [List.filter_cons]
  simp [Ne.symm h0]

theorem head?_eq_nxt (r : List Nat) : r.head? = nxt (0 :: r) 0 := by simp [nxt]

/-- facts about a member `h` of the list used by `remove` / `reinsert_front` -/
theorem member_facts {l : LruList} {ids kf hp} (R : ListRep l ids kf hp) {h : Nat} (hm : h ∈ ids) :
    h ≠ 0 ∧ ∃ p, prv (0 :: ids) h = some p ∧ nxt (0 :: ids) p = some h ∧ p ≠ h ∧ p ∈ 0 :: ids ∧
      (∀ a, nxt (0 :: ids) a = some h ↔ a = p) ∧
      (∀ a, prv (0 :: ids) a = some h ↔ nxt (0 :: ids) h = some a) ∧
      hp = (0 :: ids).getLast? := by
  have hn := R.nodup
  have h0 : h ≠ 0 := by
    intro e; subst e; exact (List.nodup_cons.mp hn).1 hm
  obtain ⟨p, hp⟩ := prv_exists (F := 0 :: ids) (a := h) (by simpa using hm)
  have hpn := (prv_nxt hn).mp hp
  refine ⟨h0, p, hp, hpn, nxt_ne hn hpn, (nxt_mem hpn).1, ?_, ?_, ?_⟩
  · intro a
    rw [← prv_nxt hn, hp]
    constructor
    · intro e; simp at e; exact e.symm
    · intro e; rw [e]
  · intro a; exact prv_nxt hn
  · rcases R.hpok with e | e
    · exact e
    · rw [e.1] at hm; simp at hm

/-- the canonical heap of the list without `h`: pointers to `h` are bypassed -/
theorem filter_facts {l : LruList} {ids kf hp} (R : ListRep l ids kf hp) {h p : Nat} (hm : h ∈ ids)
    (h0 : h ≠ 0) (hpv : prv (0 :: ids) h = some p) :
    (0 :: ids.filter (· ≠ h)).Nodup ∧
    (∀ a ∈ ids.filter (· ≠ h), a ∈ ids) ∧
    (ids.filter (· ≠ h)).length = ids.length - 1 ∧
    ((0 :: ids.filter (· ≠ h)).getLast? = if nxt (0 :: ids) h = none then some p else hp) ∧
    (∀ hp' a, canon (ids.filter (· ≠ h)) kf hp' a =
      if a = 0 then some { next := if p = 0 then nxt (0 :: ids) h else ids.head?, prev := hp', data := none }
      else if a = h then none
      else if a ∈ ids then
        some { next := if a = p then nxt (0 :: ids) h else nxt (0 :: ids) a,
               prev := if nxt (0 :: ids) h = some a then some p else prv (0 :: ids) a,
               data := some (kf a) }
      else none) := by
  obtain ⟨_, p', hpv', hpn, hph, hpm, e1, e2, hpe⟩ := member_facts R hm
  have : p' = p := by rw [hpv] at hpv'; simpa using hpv'.symm
  subst this
  have hn := R.nodup
  have hF := cons_filter_ne (ids := ids) h0
  have hn' : (0 :: ids.filter (· ≠ h)).Nodup := by
    rw [hF]; exact hn.filter _
  have hpm' : p' ∈ 0 :: ids.filter (· ≠ h) := by
    rw [hF]; exact List.mem_filter.mpr ⟨hpm, by simpa using hph⟩
  refine ⟨hn', fun a ha => (List.mem_filter.mp ha).1, ?_, ?_, ?_⟩
  · have := length_filter_ne (List.nodup_cons.mp hn).2 hm
    omega
  · cases hN : nxt (0 :: ids) h with
    | none =>
      rw [if_pos rfl, ← nxt_none_iff hn' hpm', hF, nxt_filter hn hph, if_pos hpn, hN]
    | some nx =>
      rw [if_neg (by simp)]
      have hne : (0 :: ids) ≠ [] := by simp
      obtain ⟨z, hz⟩ : ∃ z, (0 :: ids).getLast? = some z := ⟨_, List.getLast?_eq_some_getLast hne⟩
      have hzm : z ∈ 0 :: ids := List.mem_of_getLast? hz
      have hzn := (nxt_none_iff hn hzm).mpr hz
      have hzh : z ≠ h := by
        intro e; rw [e, hN] at hzn; simp at hzn
      have hzm' : z ∈ 0 :: ids.filter (· ≠ h) := by
        rw [hF]; exact List.mem_filter.mpr ⟨hzm, by simpa using hzh⟩
      rw [hpe, hz, ← nxt_none_iff hn' hzm', hF, nxt_filter hn hzh, hzn]
      simp
  · intro hp' a
    unfold canon
    by_cases a0 : a = 0
    · subst a0
      rw [if_pos rfl, if_pos rfl, head?_eq_nxt, hF, nxt_filter hn (Ne.symm h0)]
      simp only [e1]
      by_cases c : 0 = p'
      · subst c; simp
      · simp [c, Ne.symm c, nxt]
    · rw [if_neg a0, if_neg a0]
      by_cases ah : a = h
      · subst ah; simp
      · rw [if_neg ah]
        have : a ∈ ids.filter (· ≠ h) ↔ a ∈ ids := by
          rw [List.mem_filter]; simp [ah]
        simp only [this]
        by_cases am : a ∈ ids
        · rw [if_pos am, if_pos am, hF, nxt_filter hn ah, prv_filter hn ah]
          simp only [e1, e2, hpv]
        · rw [if_neg am, if_neg am]

theorem list_remove {l : LruList} {ids kf hp} (R : ListRep l ids kf hp) {h : Nat} (hm : h ∈ ids) :
    ∃ l' hp', l.remove h = .ok (l', kf h) ∧ ListRep l' (ids.filter (· ≠ h)) kf hp'
      ∧ l'.fresh = l.fresh := by
  obtain ⟨h0, p, hpv, hpn, hph, hpm, e1, e2, hpe⟩ := member_facts R hm
  obtain ⟨hn', hsub, hlen, hlast, hcan⟩ := filter_facts R hm h0 hpv
  have hn := R.nodup
  have hcount : l.count ≠ 0 := by
    rw [R.count]; intro e; rw [List.length_eq_zero_iff] at e; rw [e] at hm; simp at hm
  have hh := R.heap h
  simp only [canon, if_neg h0, hm, if_true, hpv] at hh
  have h00 := R.heap 0
  simp only [canon, if_true] at h00
  generalize ids.filter (· ≠ h) = ids' at *
  -- the parts of the invariant that do not depend on the shape
  have common : ∀ (l' : LruList) (hp' : Option Nat), l'.fresh = l.fresh → l'.count = l.count - 1 →
      (hp' = (0 :: ids').getLast?) → (∀ a, l'.heap a = canon ids' kf hp' a) →
      ListRep l' ids' kf hp' := by
    intro l' hp' hf hc hl hheap
    refine ⟨hn', ?_, ?_, ?_, Or.inl hl, hheap⟩
    · intro a ha; rw [hf]; exact R.lt a (hsub a ha)
    · rw [hf]; exact R.fresh_pos
    · rw [hc, R.count, hlen]
  by_cases p0 : p = 0
  · -- `h` is the first node
    subst p0
    have hhead : ids.head? = some h := by simpa [nxt] using hpn
    rw [hhead] at h00
    cases hN : nxt (0 :: ids) h with
    | none =>
      rw [hN] at hh
      simp [LruList.remove, LruList.deref, LruList.unwrap, hh, h00, h0, Ne.symm h0, hcount]
      refine ⟨some 0, common _ _ rfl rfl ?_ ?_⟩
      · rw [hlast, hN]; simp
      · intro a
        rw [hcan]
        have ha := R.heap a
        simp only [canon] at ha
        by_cases a0 : a = 0
        · subst a0; simp [hN, Ne.symm h0]
        · by_cases ah : a = h
          · subst ah; simp [a0]
          · simp [a0, ah, ha, hN]
    | some nx =>
      rw [hN] at hh
      have hnxm : nx ∈ ids := by simpa using (nxt_mem hN).2
      have hnx0 : nx ≠ 0 := by
        intro e; subst e; exact (List.nodup_cons.mp hn).1 hnxm
      have hnxh : nx ≠ h := Ne.symm (nxt_ne hn hN)
      have hx := R.heap nx
      simp only [canon, if_neg hnx0, hnxm, if_true, (e2 nx).mpr hN] at hx
      simp [LruList.remove, LruList.deref, LruList.unwrap, hh, h00, hx, h0, Ne.symm h0, hcount,
        hnx0, Ne.symm hnx0, hnxh, Ne.symm hnxh]
      refine ⟨hp, common _ _ rfl rfl ?_ ?_⟩
      · rw [hlast, hN]; simp
      · intro a
        rw [hcan]
        have ha := R.heap a
        simp only [canon] at ha
        by_cases a0 : a = 0
        · subst a0; simp [hN, Ne.symm h0, Ne.symm hnx0]
        · by_cases ah : a = h
          · subst ah; simp [a0]
          · by_cases ax : a = nx
            · subst ax; simp [a0, ah, hN, hnxm]
            · simp [a0, ah, ax, Ne.symm ax, ha, hN]
  · -- `h` has a predecessor node `p`
    have hpm' : p ∈ ids := by
      rcases List.mem_cons.mp hpm with e | e
      · exact absurd e p0
      · exact e
    have hpp := R.heap p
    simp only [canon, if_neg p0, hpm', if_true, hpn] at hpp
    cases hN : nxt (0 :: ids) h with
    | none =>
      rw [hN] at hh
      simp [LruList.remove, LruList.deref, LruList.unwrap, hh, h00, hpp, h0, Ne.symm h0, hcount,
        p0, Ne.symm p0, hph, Ne.symm hph]
      refine ⟨some p, common _ _ rfl rfl ?_ ?_⟩
      · rw [hlast, hN]; simp
      · intro a
        rw [hcan]
        have ha := R.heap a
        simp only [canon] at ha
        by_cases a0 : a = 0
        · subst a0; simp [hN, Ne.symm h0, Ne.symm p0, p0]
        · by_cases ah : a = h
          · subst ah; simp [a0]
          · by_cases ap : a = p
            · subst ap; simp [a0, ah, hN, hpm']
            · simp [a0, ah, ap, ha, hN]
    | some nx =>
      rw [hN] at hh
      have hnxm : nx ∈ ids := by simpa using (nxt_mem hN).2
      have hnx0 : nx ≠ 0 := by
        intro e; subst e; exact (List.nodup_cons.mp hn).1 hnxm
      have hnxh : nx ≠ h := Ne.symm (nxt_ne hn hN)
      have hnxp : nx ≠ p := by
        intro e; rw [e] at hN
        exact nxt_no_cycle hn hN hpn
      have hx := R.heap nx
      simp only [canon, if_neg hnx0, hnxm, if_true, (e2 nx).mpr hN] at hx
      simp [LruList.remove, LruList.deref, LruList.unwrap, hh, h00, hx, hpp, h0, Ne.symm h0, hcount,
        hnx0, Ne.symm hnx0, hnxh, Ne.symm hnxh, p0, Ne.symm p0, hph, Ne.symm hph, hnxp, Ne.symm hnxp]
      refine ⟨hp, common _ _ rfl rfl ?_ ?_⟩
      · rw [hlast, hN]; simp
      · intro a
        rw [hcan]
        have ha := R.heap a
        simp only [canon] at ha
        by_cases a0 : a = 0
        · subst a0; simp [hN, Ne.symm h0, Ne.symm hnx0, Ne.symm p0, p0, h00]
        · by_cases ah : a = h
          · subst ah; simp [a0]
          · by_cases ax : a = nx
            · subst ax; simp [a0, ah, hN, hnxm, hnxp]
            · by_cases ap : a = p
              · subst ap; simp [a0, ah, hN, hpm', ax, Ne.symm ax]
              · simp [a0, ah, ax, Ne.symm ax, ap, ha, hN]


theorem list_removeLast {l : LruList} {ids kf hp} (R : ListRep l ids kf hp) (hne : ids ≠ []) :
    ∃ h l' hp', ids.getLast? = some h ∧ l.removeLast = .ok (l', some (kf h)) ∧
      ListRep l' (ids.filter (· ≠ h)) kf hp' ∧ l'.fresh = l.fresh := by
  obtain ⟨h, hlst⟩ : ∃ z, ids.getLast? = some z := ⟨_, List.getLast?_eq_some_getLast hne⟩
  have hm : h ∈ ids := List.mem_of_getLast? hlst
  obtain ⟨h0, p, hpv, hpn, hph, hpm, e1, e2, hpe⟩ := member_facts R hm
  obtain ⟨hn', hsub, hlen, hlast, hcan⟩ := filter_facts R hm h0 hpv
  have hn := R.nodup
  have hFl : (0 :: ids).getLast? = some h := by
    cases ids with
    | nil => exact absurd rfl hne
    | cons x r => rw [List.getLast?_cons_cons]; exact hlst
  have hN : nxt (0 :: ids) h = none := (nxt_none_iff hn (List.mem_cons_of_mem _ hm)).mpr hFl
  rw [hFl] at hpe
  subst hpe
  have hcount : l.count ≠ 0 := by
    rw [R.count]; intro e; rw [List.length_eq_zero_iff] at e; exact hne e
  have hh := R.heap h
  simp only [canon, if_neg h0, hm, if_true, hpv, hN] at hh
  have h00 := R.heap 0
  simp only [canon, if_true] at h00
  refine ⟨h, ?_⟩
  generalize ids.filter (· ≠ h) = ids' at *
  have common : ∀ (l' : LruList) (hp' : Option Nat), l'.fresh = l.fresh → l'.count = l.count - 1 →
      (hp' = (0 :: ids').getLast?) → (∀ a, l'.heap a = canon ids' kf hp' a) →
      ListRep l' ids' kf hp' := by
    intro l' hp' hf hc hl hheap
    refine ⟨hn', ?_, ?_, ?_, Or.inl hl, hheap⟩
    · intro a ha; rw [hf]; exact R.lt a (hsub a ha)
    · rw [hf]; exact R.fresh_pos
    · rw [hc, R.count, hlen]
  by_cases p0 : p = 0
  · subst p0
    have hhead : ids.head? = some h := by simpa [nxt] using hpn
    rw [hhead] at h00
    simp [LruList.removeLast, LruList.deref, LruList.unwrap, hh, h00, h0, Ne.symm h0, hcount, hlst]
    refine ⟨some 0, common _ _ rfl rfl ?_ ?_⟩
    · rw [hlast, hN]; simp
    · intro a
      rw [hcan]
      have ha := R.heap a
      simp only [canon] at ha
      by_cases a0 : a = 0
      · subst a0; simp [hN, Ne.symm h0]
      · by_cases ah : a = h
        · subst ah; simp [a0]
        · simp [a0, ah, ha, hN]
  · have hpm' : p ∈ ids := by
      rcases List.mem_cons.mp hpm with e | e
      · exact absurd e p0
      · exact e
    have hpp := R.heap p
    simp only [canon, if_neg p0, hpm', if_true, hpn] at hpp
    simp [LruList.removeLast, LruList.deref, LruList.unwrap, hh, h00, hpp, h0, Ne.symm h0, hcount,
      p0, Ne.symm p0, hph, Ne.symm hph, hlst]
    refine ⟨some p, common _ _ rfl rfl ?_ ?_⟩
    · rw [hlast, hN]; simp
    · intro a
      rw [hcan]
      have ha := R.heap a
      simp only [canon] at ha
      by_cases a0 : a = 0
      · subst a0; simp [hN, Ne.symm h0, Ne.symm p0, p0, h00]
      · by_cases ah : a = h
        · subst ah; simp [a0]
        · by_cases ap : a = p
          · subst ap; simp [a0, ah, hN, hpm']
          · simp [a0, ah, ap, ha, hN]


theorem canon_cons {ids' : List Nat} {kf hp' h} (hn : (0 :: h :: ids').Nodup) (a : Nat) :
    canon (h :: ids') kf hp' a =
      if a = 0 then some { next := some h, prev := hp', data := none }
      else if a = h then some { next := ids'.head?, prev := some 0, data := some (kf h) }
      else (canon ids' kf hp' a).map
        (fun n => { n with prev := if ids'.head? = some a then some h else n.prev }) := by
  have hh0 : h ≠ 0 := by
    intro e; subst e; simp at hn
  unfold canon
  by_cases a0 : a = 0
  · subst a0; simp
  · by_cases ah : a = h
    · subst ah; simp [a0, nxt, prv]
    · by_cases am : a ∈ ids'
      · simp only [if_neg a0, if_neg ah, List.mem_cons, ah, false_or, if_pos am, Option.map_some]
        simp only [nxt, prv, if_neg a0, if_neg ah, List.head?_cons, Option.some.injEq, Ne.symm ah,
          if_false]
        by_cases c : ids'.head? = some a
        · simp [c]
        · simp [c]
      · simp [a0, ah, am]

theorem getLast?_cons_cons_head (h : Nat) (ids' : List Nat) :
    (0 :: h :: ids').getLast? = match ids'.head? with
      | none => some h
      | some _ => (0 :: ids').getLast? := by
  cases ids' with
  | nil => simp
  | cons x r => simp [List.getLast?_cons_cons]

theorem list_reinsertFront {l : LruList} {ids kf hp} (R : ListRep l ids kf hp) {h : Nat} (hm : h ∈ ids) :
    ∃ l' hp', l.reinsertFront h = .ok l' ∧ ListRep l' (h :: ids.filter (· ≠ h)) kf hp'
      ∧ l'.fresh = l.fresh ∧ l'.count = l.count := by
  obtain ⟨h0, p, hpv, hpn, hph, hpm, e1, e2, hpe⟩ := member_facts R hm
  obtain ⟨hn', hsub, hlen, hlast, hcan⟩ := filter_facts R hm h0 hpv
  have hn := R.nodup
  have hh := R.heap h
  simp only [canon, if_neg h0, hm, if_true, hpv] at hh
  have h00 := R.heap 0
  simp only [canon, if_true] at h00
  have hnotin : h ∉ ids.filter (· ≠ h) := by
    intro m; simpa using (List.mem_filter.mp m).2
  have hlen2 : (ids.filter (· ≠ h)).length + 1 = ids.length := length_filter_ne (List.nodup_cons.mp hn).2 hm
  generalize ids.filter (· ≠ h) = ids' at *
  have hn2 : (0 :: h :: ids').Nodup := by
    rw [List.nodup_cons] at hn' ⊢
    refine ⟨?_, List.nodup_cons.mpr ⟨hnotin, hn'.2⟩⟩
    intro m
    rcases List.mem_cons.mp m with e | e
    · exact h0 e.symm
    · exact hn'.1 e
  have hhd : ids'.head? = if p = 0 then nxt (0 :: ids) h else ids.head? := by
    have := hcan none 0
    simpa [canon] using this
  have common : ∀ (l' : LruList) (hp' : Option Nat), l'.fresh = l.fresh → l'.count = l.count →
      (hp' = (0 :: h :: ids').getLast?) → (∀ a, l'.heap a = canon (h :: ids') kf hp' a) →
      ListRep l' (h :: ids') kf hp' := by
    intro l' hp' hf hc hl hheap
    refine ⟨hn2, ?_, ?_, ?_, Or.inl hl, hheap⟩
    · intro a ha; rw [hf]
      rcases List.mem_cons.mp ha with e | e
      · rw [e]; exact R.lt h hm
      · exact R.lt a (hsub a e)
    · rw [hf]; exact R.fresh_pos
    · rw [hc, R.count, List.length_cons, hlen2]
  have hcan2 : ∀ hp' a, canon (h :: ids') kf hp' a =
      if a = 0 then some { next := some h, prev := hp', data := none }
      else if a = h then some { next := ids'.head?, prev := some 0, data := some (kf h) }
      else if a ∈ ids then
        some { next := if a = p then nxt (0 :: ids) h else nxt (0 :: ids) a,
               prev := if ids'.head? = some a then some h else
                  if nxt (0 :: ids) h = some a then some p else prv (0 :: ids) a,
               data := some (kf a) }
      else none := by
    intro hp' a
    rw [canon_cons hn2, hcan]
    by_cases a0 : a = 0
    · simp [a0]
    · by_cases ah : a = h
      · simp [a0, ah]
      · by_cases am : a ∈ ids
        · simp [a0, ah, am]
        · simp [a0, ah, am]
  rw [getLast?_cons_cons_head, hlast] at common
  by_cases p0 : p = 0
  · -- `h` is already the first node
    subst p0
    have hhead : ids.head? = some h := by simpa [nxt] using hpn
    rw [hhead] at h00
    simp only [if_true] at hhd
    cases hN : nxt (0 :: ids) h with
    | none =>
      rw [hN] at hh hhd
      simp [LruList.reinsertFront, LruList.swapNext, LruList.deref, LruList.unwrap, assert, hh, h00, h0,
        Ne.symm h0]
      refine ⟨some h, common _ _ rfl rfl ?_ ?_⟩
      · simp [hhd]
      · intro a
        rw [hcan2]
        have ha := R.heap a
        simp only [canon] at ha
        by_cases a0 : a = 0
        · subst a0; simp [hN, Ne.symm h0]
        · by_cases ah : a = h
          · subst ah; simp [a0, hhd]
          · simp [a0, ah, ha, hN, hhd]
    | some nx =>
      rw [hN] at hh hhd
      have hnxm : nx ∈ ids := by simpa using (nxt_mem hN).2
      have hnx0 : nx ≠ 0 := by
        intro e; subst e; exact (List.nodup_cons.mp hn).1 hnxm
      have hnxh : nx ≠ h := Ne.symm (nxt_ne hn hN)
      have hx := R.heap nx
      simp only [canon, if_neg hnx0, hnxm, if_true, (e2 nx).mpr hN] at hx
      simp [LruList.reinsertFront, LruList.swapNext, LruList.deref, LruList.unwrap, assert, hh, h00, hx,
        h0, Ne.symm h0, hnx0, Ne.symm hnx0, hnxh, Ne.symm hnxh]
      have hpsome : hp.isSome = true := by rw [hpe]; simp
      simp [hpsome]
      refine ⟨hp, common _ _ rfl rfl ?_ ?_⟩
      · simp [hhd, hN]
      · intro a
        rw [hcan2]
        have ha := R.heap a
        simp only [canon] at ha
        by_cases a0 : a = 0
        · subst a0; simp [hN, Ne.symm h0, Ne.symm hnx0]
        · by_cases ah : a = h
          · subst ah; simp [a0, hhd, hnxh, Ne.symm hnxh]
          · by_cases ax : a = nx
            · subst ax; simp [a0, ah, hN, hnxm, hhd]
            · simp [a0, ah, ax, Ne.symm ax, ha, hN, hhd]
  · -- `h` has a predecessor node `p`; `first` is the current first node
    have hpm' : p ∈ ids := by
      rcases List.mem_cons.mp hpm with e | e
      · exact absurd e p0
      · exact e
    have hpp := R.heap p
    simp only [canon, if_neg p0, hpm', if_true, hpn] at hpp
    simp only [if_neg p0] at hhd
    obtain ⟨first, hfirst⟩ : ∃ f, ids.head? = some f := by
      cases ids with
      | nil => simp at hm
      | cons x r => exact ⟨x, rfl⟩
    have hf0n : nxt (0 :: ids) 0 = some first := by simpa [nxt] using hfirst
    have hfm : first ∈ ids := List.mem_of_head? hfirst
    have hf0 : first ≠ 0 := by
      intro e; subst e; exact (List.nodup_cons.mp hn).1 hfm
    have hfh : first ≠ h := by
      intro e; rw [e] at hf0n; exact p0 ((e1 0).mp hf0n).symm
    have hfpv : prv (0 :: ids) first = some 0 := (prv_nxt hn).mpr hf0n
    rw [hfirst] at h00 hhd
    have hhsome : hp.isSome = true := by rw [hpe]; simp
    cases hN : nxt (0 :: ids) h with
    | none =>
      rw [hN] at hh
      by_cases fp : first = p
      · subst fp
        simp [LruList.reinsertFront, LruList.swapNext, LruList.deref, LruList.unwrap, assert, hh, h00,
          hpp, h0, Ne.symm h0, p0, Ne.symm p0, hph, Ne.symm hph, hfpv]
        refine ⟨some first, common _ _ rfl rfl ?_ ?_⟩
        · simp [hhd, hN]
        · intro a
          rw [hcan2]
          have ha := R.heap a
          simp only [canon] at ha
          by_cases a0 : a = 0
          · subst a0; simp [hN, Ne.symm h0, Ne.symm p0]
          · by_cases ah : a = h
            · subst ah; simp [a0, hhd, hph, Ne.symm hph]
            · by_cases ap : a = first
              · subst ap; simp [a0, ah, hN, hpm', hhd]
              · simp [a0, ah, ap, Ne.symm ap, ha, hN, hhd]
      · have hfx := R.heap first
        simp only [canon, if_neg hf0, hfm, if_true, hfpv] at hfx
        simp [LruList.reinsertFront, LruList.swapNext, LruList.deref, LruList.unwrap, assert, hh, h00,
          hpp, hfx, h0, Ne.symm h0, p0, Ne.symm p0, hph, Ne.symm hph, hf0, Ne.symm hf0, hfh, Ne.symm hfh,
          fp, Ne.symm fp]
        refine ⟨some p, common _ _ rfl rfl ?_ ?_⟩
        · simp [hhd, hN]
        · intro a
          rw [hcan2]
          have ha := R.heap a
          simp only [canon] at ha
          by_cases a0 : a = 0
          · subst a0; simp [hN, Ne.symm h0, Ne.symm p0, Ne.symm hf0]
          · by_cases ah : a = h
            · subst ah; simp [a0, hhd, hph, Ne.symm hph, hfh, Ne.symm hfh]
            · by_cases ap : a = p
              · subst ap; simp [a0, ah, hN, hpm', hhd, fp, Ne.symm fp]
              · by_cases af : a = first
                · subst af; simp [a0, ah, hN, hfm, hhd, ap]
                · simp [a0, ah, ap, Ne.symm ap, af, Ne.symm af, ha, hN, hhd]
    | some nx =>
      rw [hN] at hh
      have hnxm : nx ∈ ids := by simpa using (nxt_mem hN).2
      have hnx0 : nx ≠ 0 := by
        intro e; subst e; exact (List.nodup_cons.mp hn).1 hnxm
      have hnxh : nx ≠ h := Ne.symm (nxt_ne hn hN)
      have hnxp : nx ≠ p := by
        intro e; rw [e] at hN
        exact nxt_no_cycle hn hN hpn
      have hnxpv : prv (0 :: ids) nx = some h := (e2 nx).mpr hN
      have hnxf : nx ≠ first := by
        intro e; rw [e, hfpv] at hnxpv; simp at hnxpv; exact h0 hnxpv.symm
      have hx := R.heap nx
      simp only [canon, if_neg hnx0, hnxm, if_true, hnxpv] at hx
      by_cases fp : first = p
      · subst fp
        simp [LruList.reinsertFront, LruList.swapNext, LruList.deref, LruList.unwrap, assert, hh, h00,
          hpp, hx, h0, Ne.symm h0, p0, Ne.symm p0, hph, Ne.symm hph, hfpv, hnx0, Ne.symm hnx0, hnxh,
          Ne.symm hnxh, hnxp, Ne.symm hnxp, hhsome]
        refine ⟨hp, common _ _ rfl rfl ?_ ?_⟩
        · simp [hhd, hN]
        · intro a
          rw [hcan2]
          have ha := R.heap a
          simp only [canon] at ha
          by_cases a0 : a = 0
          · subst a0; simp [hN, Ne.symm h0, Ne.symm p0, Ne.symm hnx0]
          · by_cases ah : a = h
            · subst ah; simp [a0, hhd, hph, Ne.symm hph, hnxh, Ne.symm hnxh]
            · by_cases ap : a = first
              · subst ap; simp [a0, ah, hN, hpm', hhd, hnxp, Ne.symm hnxp]
              · by_cases ax : a = nx
                · subst ax; simp [a0, ah, ap, hN, hnxm, hhd, Ne.symm ap]
                · simp [a0, ah, ap, Ne.symm ap, ax, Ne.symm ax, ha, hN, hhd]
      · have hfx := R.heap first
        simp only [canon, if_neg hf0, hfm, if_true, hfpv] at hfx
        simp [LruList.reinsertFront, LruList.swapNext, LruList.deref, LruList.unwrap, assert, hh, h00,
          hpp, hfx, hx, h0, Ne.symm h0, p0, Ne.symm p0, hph, Ne.symm hph, hf0, Ne.symm hf0, hfh,
          Ne.symm hfh, fp, Ne.symm fp, hnx0, Ne.symm hnx0, hnxh, Ne.symm hnxh, hnxp, Ne.symm hnxp,
          hnxf, Ne.symm hnxf, hhsome]
        refine ⟨hp, common _ _ rfl rfl ?_ ?_⟩
        · simp [hhd, hN]
        · intro a
          rw [hcan2]
          have ha := R.heap a
          simp only [canon] at ha
          by_cases a0 : a = 0
          · subst a0; simp [hN, Ne.symm h0, Ne.symm p0, Ne.symm hf0, Ne.symm hnx0]
          · by_cases ah : a = h
            · subst ah; simp [a0, hhd, hph, Ne.symm hph, hfh, Ne.symm hfh, hnxh, Ne.symm hnxh]
            · by_cases ap : a = p
              · subst ap; simp [a0, ah, hN, hpm', hhd, fp, Ne.symm fp, hnxp, Ne.symm hnxp]
              · by_cases af : a = first
                · subst af; simp [a0, ah, hN, hfm, hhd, ap, hnxf, Ne.symm hnxf]
                · by_cases ax : a = nx
                  · subst ax; simp [a0, ah, ap, af, hN, hnxm, hhd, Ne.symm ap, Ne.symm af]
                  · simp [a0, ah, ap, Ne.symm ap, af, Ne.symm af, ax, Ne.symm ax, ha, hN, hhd]


/-! ## association lists with distinct keys -/

theorem find?_of_nodup {β : Type} {l : List (Nat × β)} (hn : (l.map (·.1)).Nodup) {k : Nat} {v : β}
    (hm : (k, v) ∈ l) : l.find? (·.1 = k) = some (k, v) := by
  induction l with
  | nil => simp at hm
  | cons x r ih =>
    simp only [List.map_cons, List.nodup_cons] at hn
    rcases List.mem_cons.mp hm with e | e
    · subst e; simp
    · have : x.1 ≠ k := by
        intro c; apply hn.1; rw [c]
        exact List.mem_map.mpr ⟨(k, v), e, rfl⟩
      rw [List.find?_cons_of_neg (by simpa using this)]
      exact ih hn.2 e

theorem find?_none_of_not_mem {β : Type} {l : List (Nat × β)} {k : Nat} (h : k ∉ l.map (·.1)) :
    l.find? (·.1 = k) = none := by
  rw [List.find?_eq_none]
  intro x hx
  simp only [decide_eq_true_eq]
  intro c; apply h; rw [← c]; exact List.mem_map.mpr ⟨x, hx, rfl⟩

theorem value_unique {β : Type} {l : List (Nat × β)} (hn : (l.map (·.1)).Nodup) {k : Nat} {v v' : β}
    (h1 : (k, v) ∈ l) (h2 : (k, v') ∈ l) : v = v' := by
  have a := find?_of_nodup hn h1
  have b := find?_of_nodup hn h2
  rw [a] at b; simpa using b

theorem inj_of_nodup_map {f : Nat → Nat} {l : List Nat} (hn : (l.map f).Nodup) {a b : Nat}
    (ha : a ∈ l) (hb : b ∈ l) (e : f a = f b) : a = b := by
  induction l with
  | nil => simp at ha
  | cons x r ih =>
    simp only [List.map_cons, List.nodup_cons] at hn
    rcases List.mem_cons.mp ha with ea | ea <;> rcases List.mem_cons.mp hb with eb | eb
    · rw [ea, eb]
    · exfalso; apply hn.1; rw [← ea, e]; exact List.mem_map.mpr ⟨b, eb, rfl⟩
    · exfalso; apply hn.1; rw [← eb, ← e]; exact List.mem_map.mpr ⟨a, ea, rfl⟩
    · exact ih hn.2 ea eb

theorem nodup_filter_keys {β : Type} {l : List (Nat × β)} (hn : (l.map (·.1)).Nodup) (p : Nat × β → Bool) :
    ((l.filter p).map (·.1)).Nodup :=
  hn.sublist (List.filter_sublist.map _)

theorem filter_ne_last {β : Type} {l : List (Nat × β)} (hn : (l.map (·.1)).Nodup) {k : Nat}
    (hl : (l.map (·.1)).getLast? = some k) : l.filter (·.1 ≠ k) = l.dropLast := by
  induction l with
  | nil => simp at hl
  | cons y r ih =>
    simp only [List.map_cons, List.nodup_cons] at hn
    cases r with
    | nil =>
      simp at hl
      simp [hl]
    | cons z r' =>
      simp only [List.map_cons, List.getLast?_cons_cons] at hl
      have hk : k ∈ (z :: r').map (·.1) := by
        simpa using List.mem_of_getLast? hl
      have hy : y.1 ≠ k := by
        intro c; apply hn.1; rw [c]; exact hk
      rw [List.filter_cons]
      simp only [ne_eq, hy, not_false_eq_true, decide_true, if_true, List.dropLast_cons_cons]
      rw [ih hn.2 (by simpa using hl)]


/-! ## the cache representation -/

abbrev Op := Spec.Lru.Op

/-- one model step: new cache and the returned value -/
def stepM (c : Cache) : Op → Res (Cache × Option Nat)
  | .insert k v => do let c ← c.insert k v; pure (c, none)
  | .get k => c.get k
  | .remove k => c.remove k

def runFrom (c : Cache) : List Op → Res (Cache × List (Option Nat))
  | [] => pure (c, [])
  | op :: ops => do
    let (c', o) ← stepM c op
    let (c'', os) ← runFrom c' ops
    pure (c'', o :: os)

def runM (cap : Nat) (ops : List Op) : Res (Cache × List (Option Nat)) := do
  let c ← Cache.new cap
  runFrom c ops

/-- `Rep` with the witnesses exposed: `ids` the node ids most recent first, `kf` the key carried by a
    node, `hp` the head's `prev` -/
structure RepWith (c : Cache) (s : Lru.State) (ids : List Nat) (kf : Nat → Key) (hp : Option Nat) :
    Prop where
  list : ListRep c.list ids kf hp
  keys : s.items.map (·.1) = ids.map kf
  knodup : (s.items.map (·.1)).Nodup
  mnodup : (c.map.map (·.1)).Nodup
  mapok : ∀ k v h, (k, (v, h)) ∈ c.map ↔ ((k, v) ∈ s.items ∧ h ∈ ids ∧ kf h = k)
  cap : c.cap = s.cap

/-- representation invariant + abstraction -/
def Rep (c : Cache) (s : Lru.State) : Prop := ∃ ids kf hp, RepWith c s ids kf hp

theorem RepWith.count {c s ids kf hp} (R : RepWith c s ids kf hp) : c.list.count = s.items.length := by
  rw [R.list.count]
  have := congrArg List.length R.keys
  simpa using this.symm

theorem RepWith.kf_inj {c s ids kf hp} (R : RepWith c s ids kf hp) {a b : Nat} (ha : a ∈ ids)
    (hb : b ∈ ids) (e : kf a = kf b) : a = b :=
  inj_of_nodup_map (f := kf) (by rw [← R.keys]; exact R.knodup) ha hb e

theorem keys_filter {c s ids kf hp} (R : RepWith c s ids kf hp) {h : Nat} (hm : h ∈ ids) :
    (Lru.without s.items (kf h)).map (·.1) = (ids.filter (· ≠ h)).map kf := by
  have e1 : (Lru.without s.items (kf h)).map (·.1) = (s.items.map (·.1)).filter (· ≠ kf h) := by
    rw [Lru.without, List.filter_map]; rfl
  have e2 : (ids.filter (· ≠ h)).map kf = (ids.map kf).filter (· ≠ kf h) := by
    rw [List.filter_map]
    congr 1
    apply List.filter_congr
    intro a ha
    simp only [ne_eq, Function.comp, decide_eq_decide]
    constructor
    · intro c e; exact c (R.kf_inj ha hm e)
    · intro c e; exact c (by rw [e])
  rw [e1, e2, R.keys]

theorem mem_without {items : List (Nat × Nat)} {k k' v : Nat} :
    (k', v) ∈ Lru.without items k ↔ (k', v) ∈ items ∧ k' ≠ k := by
  simp [Lru.without, List.mem_filter]

/-- removing the node `h` from the list and its key from the map -/
theorem rep_delete {c s ids kf hp} (R : RepWith c s ids kf hp) {h : Nat} (hm : h ∈ ids)
    {l' : LruList} {hp' : Option Nat} (L : ListRep l' (ids.filter (· ≠ h)) kf hp') :
    RepWith { c with list := l', map := c.map.filter (·.1 ≠ kf h) }
      { s with items := Lru.without s.items (kf h) } (ids.filter (· ≠ h)) kf hp' := by
  refine ⟨L, keys_filter R hm, nodup_filter_keys R.knodup _, nodup_filter_keys R.mnodup _, ?_, R.cap⟩
  intro k v h'
  simp only [List.mem_filter, mem_without, R.mapok, ne_eq, decide_eq_true_eq]
  constructor
  · rintro ⟨⟨a, b, c⟩, d⟩
    refine ⟨⟨a, d⟩, ⟨b, ?_⟩, c⟩
    intro e; apply d; rw [← c, e]
  · rintro ⟨⟨a, d⟩, ⟨b, _⟩, c⟩
    exact ⟨⟨a, b, c⟩, d⟩


theorem key_mem_of_mem {items : List (Nat × Nat)} {k v : Nat} (h : (k, v) ∈ items) :
    k ∈ items.map (·.1) := List.mem_map.mpr ⟨(k, v), h, rfl⟩

/-- adding a fresh node `new` carrying a key that is not present -/
theorem rep_insertNew {c s ids kf hp} (R : RepWith c s ids kf hp) {key elem new : Nat}
    (hk : key ∉ s.items.map (·.1)) (hnew : new ∉ ids)
    {l' : LruList} {hp' : Option Nat}
    (L : ListRep l' (new :: ids) (fun a => if a = new then key else kf a) hp') :
    RepWith { c with list := l', map := (key, (elem, new)) :: c.map.filter (·.1 ≠ key) }
      { s with items := (key, elem) :: s.items } (new :: ids)
      (fun a => if a = new then key else kf a) hp' := by
  have hcongr : ids.map (fun a => if a = new then key else kf a) = ids.map kf := by
    apply List.map_congr_left
    intro a ha
    have : a ≠ new := fun e => hnew (e ▸ ha)
    simp [this]
  refine ⟨L, ?_, ?_, ?_, ?_, R.cap⟩
  · simp only [List.map_cons, if_true, hcongr, R.keys]
  · simp only [List.map_cons, List.nodup_cons]; exact ⟨hk, R.knodup⟩
  · simp only [List.map_cons, List.nodup_cons]
    refine ⟨?_, nodup_filter_keys R.mnodup _⟩
    intro m
    obtain ⟨x, hx, e⟩ := List.mem_map.mp m
    have := (List.mem_filter.mp hx).2
    simp at this; exact this e
  · intro k v h'
    simp only [List.mem_cons, List.mem_filter, R.mapok, ne_eq, decide_eq_true_eq, Prod.mk.injEq]
    constructor
    · rintro (⟨a, b, c⟩ | ⟨⟨a, b, c⟩, d⟩)
      · subst a b c; simp
      · have : h' ≠ new := fun e => hnew (e ▸ b)
        exact ⟨Or.inr a, Or.inr b, by simp [this, c]⟩
    · rintro ⟨a, b, c⟩
      rcases b with b | b
      · subst b
        simp only [if_true] at c
        subst c
        rcases a with a | a
        · left; exact ⟨rfl, a.2, rfl⟩
        · exact absurd (key_mem_of_mem a) hk
      · have hne : h' ≠ new := fun e => hnew (e ▸ b)
        simp only [if_neg hne] at c
        have hkk : k ≠ key := by
          intro e; apply hk; rw [← e, ← c, R.keys]; exact List.mem_map.mpr ⟨h', b, rfl⟩
        rcases a with a | a
        · exact absurd a.1 hkk
        · right; exact ⟨⟨a, b, c⟩, hkk⟩

/-- moving the node `h` to the front -/
theorem rep_touch {c s ids kf hp} (R : RepWith c s ids kf hp) {h v : Nat} (hm : h ∈ ids)
    (hv : (kf h, v) ∈ s.items) {l' : LruList} {hp' : Option Nat}
    (L : ListRep l' (h :: ids.filter (· ≠ h)) kf hp') :
    RepWith { c with list := l' } { s with items := (kf h, v) :: Lru.without s.items (kf h) }
      (h :: ids.filter (· ≠ h)) kf hp' := by
  refine ⟨L, ?_, ?_, R.mnodup, ?_, R.cap⟩
  · simp only [List.map_cons, keys_filter R hm]
  · simp only [List.map_cons, List.nodup_cons]
    refine ⟨?_, nodup_filter_keys R.knodup _⟩
    intro m
    obtain ⟨x, hx, e⟩ := List.mem_map.mp m
    have := (List.mem_filter.mp hx).2
    simp at this; exact this e
  · intro k v' h'
    simp only [List.mem_cons, List.mem_filter, mem_without, R.mapok, ne_eq, decide_eq_true_eq,
      Prod.mk.injEq]
    constructor
    · rintro ⟨a, b, c⟩
      by_cases e : h' = h
      · subst e
        subst c
        exact ⟨Or.inl ⟨rfl, value_unique R.knodup a hv⟩, Or.inl rfl, rfl⟩
      · refine ⟨Or.inr ⟨a, ?_⟩, Or.inr ⟨b, e⟩, c⟩
        intro ek; apply e; apply R.kf_inj b hm; rw [c, ek]
    · rintro ⟨a, b, c⟩
      have hb : h' ∈ ids := by
        rcases b with b | b
        · rw [b]; exact hm
        · exact b.1
      rcases a with a | a
      · rw [a.1, a.2]; exact ⟨hv, hb, by rw [c, a.1]⟩
      · exact ⟨a.1, hb, c⟩


theorem filter_key_ne_self {β : Type} {l : List (Nat × β)} {k : Nat} (h : k ∉ l.map (·.1)) :
    l.filter (·.1 ≠ k) = l := by
  rw [List.filter_eq_self]
  intro x hx
  simp only [ne_eq, decide_eq_true_eq]
  intro c; apply h; rw [← c]; exact List.mem_map.mpr ⟨x, hx, rfl⟩

theorem RepWith.map_key_iff {c s ids kf hp} (R : RepWith c s ids kf hp) (k : Nat) :
    k ∈ c.map.map (·.1) ↔ k ∈ s.items.map (·.1) := by
  constructor
  · intro m
    obtain ⟨⟨k', v, h⟩, hx, e⟩ := List.mem_map.mp m
    simp only at e; subst e
    exact key_mem_of_mem ((R.mapok _ _ _).mp hx).1
  · intro m
    obtain ⟨⟨k', v⟩, hx, e⟩ := List.mem_map.mp m
    simp only at e; subst e
    have : k' ∈ ids.map kf := by rw [← R.keys]; exact key_mem_of_mem hx
    obtain ⟨h, hm, e⟩ := List.mem_map.mp this
    exact List.mem_map.mpr ⟨(k', (v, h)), (R.mapok _ _ _).mpr ⟨hx, hm, e⟩, rfl⟩

/-- a present key: its value, its node -/
theorem RepWith.present {c s ids kf hp} (R : RepWith c s ids kf hp) {k : Nat}
    (hk : k ∈ s.items.map (·.1)) :
    ∃ v h, h ∈ ids ∧ kf h = k ∧ (k, v) ∈ s.items ∧ s.items.find? (·.1 = k) = some (k, v) ∧
      c.map.find? (·.1 = k) = some (k, (v, h)) := by
  obtain ⟨⟨k', v⟩, hx, e⟩ := List.mem_map.mp hk
  simp only at e; subst e
  have : k' ∈ ids.map kf := by rw [← R.keys]; exact key_mem_of_mem hx
  obtain ⟨h, hm, e⟩ := List.mem_map.mp this
  exact ⟨v, h, hm, e, hx, find?_of_nodup R.knodup hx,
    find?_of_nodup R.mnodup ((R.mapok _ _ _).mpr ⟨hx, hm, e⟩)⟩

theorem rep_new (cap : Nat) (h : 0 < cap) :
    ∃ c, Cache.new cap = .ok c ∧ Rep c { cap := cap, items := [] } := by
  refine ⟨{ list := LruList.new, map := [], cap := cap }, ?_, [], fun _ => 0, none, ?_⟩
  · simp [Cache.new, assert, h]
  · refine ⟨⟨by simp, by simp, by simp [LruList.new], by simp [LruList.new], Or.inr ⟨rfl, rfl⟩, ?_⟩,
      rfl, by simp, by simp, by simp, rfl⟩
    intro a
    by_cases a0 : a = 0 <;> simp [LruList.new, canon, a0]

theorem cache_remove {c s ids kf hp} (R : RepWith c s ids kf hp) (k : Nat) :
    ∃ c', c.remove k = .ok (c', (s.items.find? (·.1 = k)).map (·.2)) ∧
      Rep c' { s with items := Lru.without s.items k } ∧ c'.cap = c.cap := by
  by_cases hk : k ∈ s.items.map (·.1)
  · obtain ⟨v, h, hm, e, hx, hfi, hfm⟩ := R.present hk
    subst e
    obtain ⟨l', hp', hrem, L, _⟩ := list_remove R.list hm
    refine ⟨_, ?_, ⟨_, kf, hp', rep_delete R hm L⟩, rfl⟩
    simp [Cache.remove, Cache.mapRemove, hfm, hfi, hrem]
  · have hfi := find?_none_of_not_mem hk
    have hk' : k ∉ c.map.map (·.1) := fun m => hk ((R.map_key_iff k).mp m)
    have hfm := find?_none_of_not_mem hk'
    refine ⟨c, ?_, ⟨ids, kf, hp, ?_⟩, rfl⟩
    · simp [Cache.remove, Cache.mapRemove, hfm, hfi]
      have : List.filter (fun x => !decide (x.fst = k)) c.map = c.map := by
        rw [List.filter_eq_self]
        intro x hx
        simp only [Bool.not_eq_true', decide_eq_false_iff_not]
        intro e; apply hk'; rw [← e]; exact List.mem_map.mpr ⟨x, hx, rfl⟩
      rw [this]
    · have : Lru.without s.items k = s.items := filter_key_ne_self hk
      rw [this]; exact R


theorem cache_get {c s ids kf hp} (R : RepWith c s ids kf hp) (k : Nat) :
    ∃ c', c.get k = .ok (c', (Lru.step s (.get k)).2) ∧ Rep c' (Lru.step s (.get k)).1 := by
  by_cases hk : k ∈ s.items.map (·.1)
  · obtain ⟨v, h, hm, e, hx, hfi, hfm⟩ := R.present hk
    subst e
    obtain ⟨l', hp', hre, L, _⟩ := list_reinsertFront R.list hm
    refine ⟨{ c with list := l' }, ?_, ?_⟩
    · simp [Cache.get, hfm, hre, Lru.step, hfi]
    · simp only [Lru.step, hfi]
      exact ⟨_, kf, hp', rep_touch R hm hx L⟩
  · have hfi := find?_none_of_not_mem hk
    have hk' : k ∉ c.map.map (·.1) := fun m => hk ((R.map_key_iff k).mp m)
    have hfm := find?_none_of_not_mem hk'
    refine ⟨c, ?_, ?_⟩
    · simp [Cache.get, hfm, Lru.step, hfi]
    · simp only [Lru.step, hfi]
      exact ⟨ids, kf, hp, R⟩

/-- the eviction stage of `Cache.insert` -/
def evict (c : Cache) : Res Cache :=
  if c.list.count ≥ c.cap then do
    let (l, r) ← c.list.removeLast
    match r with
    | some rk =>
      let (m, o) := Cache.mapRemove c.map rk
      assert o.isSome "insert: evicted key must be in the map"
      pure { c with list := l, map := m }
    | none => .panic "could not remove_last(); bug!"
  else pure c

/-- the final stage of `Cache.insert` -/
def insertNew (c : Cache) (key elem : Nat) : Res Cache := do
  let (l, h) ← c.list.insert key
  let (m, _) := Cache.mapRemove c.map key
  pure { c with list := l, map := (key, (elem, h)) :: m }

theorem insert_eq (c : Cache) (key elem : Nat) :
    c.insert key elem = (do let r ← c.remove key; let c ← evict r.1; insertNew c key elem) := by
  have tail : ∀ c1 : Cache,
      ((if c1.cap ≤ c1.list.count then do
          let x ← c1.list.removeLast
          match x.2 with
          | some rk => do
            assert (Cache.mapRemove c1.map rk).2.isSome "insert: evicted key must be in the map"
            let y ← x.1.insert key
            Res.ok { list := y.1, map := (key, elem, y.2) ::
              (Cache.mapRemove (Cache.mapRemove c1.map rk).1 key).1, cap := c1.cap, id := c1.id }
          | none => Res.panic "could not remove_last(); bug!"
        else do
          let y ← c1.list.insert key
          Res.ok { list := y.1, map := (key, elem, y.2) ::
              (Cache.mapRemove c1.map key).1, cap := c1.cap, id := c1.id }) : Res Cache) =
      (do let c ← evict c1; insertNew c key elem) := by
    intro c1
    simp only [evict, insertNew]
    by_cases hc : c1.cap ≤ c1.list.count
    · simp only [if_pos hc, ge_iff_le]
      cases hrl : c1.list.removeLast with
      | ok a =>
        obtain ⟨l, r⟩ := a
        cases r with
        | none => simp
        | some rk =>
          simp
          cases hb : (Cache.mapRemove c1.map rk).2.isSome <;> simp [assert, hb]
      | err e => simp
      | panic e => simp
      | diverge => simp
    · simp [hc]
  simp only [Cache.insert, Cache.remove]
  cases hf : (Cache.mapRemove c.map key).2 with
  | none =>
    simp [hf]
    exact tail { c with map := (Cache.mapRemove c.map key).1 }
  | some x =>
    obtain ⟨v, h⟩ := x
    simp [hf]
    cases hr : c.list.remove h with
    | ok a => simp; exact tail { c with map := (Cache.mapRemove c.map key).1, list := a.1 }
    | err e => simp
    | panic e => simp
    | diverge => simp


theorem cache_evict {c s ids kf hp} (R : RepWith c s ids kf hp) (hcap : 0 < s.cap) :
    ∃ c', evict c = .ok c' ∧
      Rep c' { s with items := if s.items.length ≥ s.cap then s.items.dropLast else s.items } ∧
      c'.cap = c.cap := by
  by_cases hc : s.items.length ≥ s.cap
  · have hne : ids ≠ [] := by
      intro e
      have := congrArg List.length R.keys
      rw [e] at this; simp at this
      rw [this] at hc; simp at hc; omega
    obtain ⟨h, l', hp', hlast, hrl, L, _⟩ := list_removeLast R.list hne
    have hm : h ∈ ids := List.mem_of_getLast? hlast
    have hk : kf h ∈ s.items.map (·.1) := by rw [R.keys]; exact List.mem_map.mpr ⟨h, hm, rfl⟩
    obtain ⟨v, h', hm', e, hx, hfi, hfm⟩ := R.present hk
    have hlk : (s.items.map (·.1)).getLast? = some (kf h) := by
      rw [R.keys, List.getLast?_map, hlast]; rfl
    have hdl : Lru.without s.items (kf h) = s.items.dropLast := filter_ne_last R.knodup hlk
    refine ⟨{ c with list := l', map := c.map.filter (·.1 ≠ kf h) }, ?_,
      ⟨ids.filter (· ≠ h), kf, hp', ?_⟩, ?_⟩
    · simp only [evict]
      rw [if_pos (by rw [R.count, R.cap]; exact hc)]
      simp [hrl, Cache.mapRemove, hfm, assert]
    · rw [if_pos hc, ← hdl]
      exact rep_delete R hm L
    · rfl
  · refine ⟨c, ?_, ⟨ids, kf, hp, ?_⟩, rfl⟩
    · simp only [evict]
      rw [if_neg (by rw [R.count, R.cap]; exact hc)]
      rfl
    · rw [if_neg hc]; exact R

theorem cache_insertNew {c s ids kf hp} (R : RepWith c s ids kf hp) {k : Nat} (v : Nat)
    (hk : k ∉ s.items.map (·.1)) :
    ∃ c', insertNew c k v = .ok c' ∧ Rep c' { s with items := (k, v) :: s.items } ∧
      c'.cap = c.cap := by
  obtain ⟨l', hp', hins, L⟩ := list_insert R.list k
  have hnew : c.list.fresh ∉ ids := fun m => Nat.lt_irrefl _ (R.list.lt _ m)
  refine ⟨{ c with list := l', map := (k, (v, c.list.fresh)) :: c.map.filter (·.1 ≠ k) }, ?_,
    ⟨_, _, hp', rep_insertNew (elem := v) R hk hnew L⟩, rfl⟩
  simp [insertNew, hins, Cache.mapRemove]


theorem cache_insert {c s ids kf hp} (R : RepWith c s ids kf hp) (hcap : 0 < s.cap) (k v : Nat) :
    ∃ c', c.insert k v = .ok c' ∧ Rep c' (Lru.step s (.insert k v)).1 := by
  obtain ⟨c1, h1, ⟨ids1, kf1, hp1, R1⟩, _⟩ := cache_remove R k
  obtain ⟨c2, h2, ⟨ids2, kf2, hp2, R2⟩, _⟩ := cache_evict R1 hcap
  have hk : k ∉ (if (Lru.without s.items k).length ≥ s.cap then (Lru.without s.items k).dropLast
      else Lru.without s.items k).map (·.1) := by
    intro m
    obtain ⟨⟨k', v'⟩, hx, e⟩ := List.mem_map.mp m
    simp only at e; subst e
    have : (k', v') ∈ Lru.without s.items k' := by
      split at hx
      · exact (List.dropLast_sublist _).subset hx
      · exact hx
    exact (mem_without.mp this).2 rfl
  obtain ⟨c3, h3, R3, _⟩ := cache_insertNew R2 v hk
  refine ⟨c3, ?_, ?_⟩
  · rw [insert_eq, h1]
    simp only [Res.bind_ok]
    rw [h2]
    simp only [Res.bind_ok]
    exact h3
  · exact R3

/-! ## the spec keeps its own invariant -/

theorem Lru.step_inv (s : Lru.State) (op : Lru.Op) (hcap : 0 < s.cap) (hlen : s.items.length ≤ s.cap)
    (hnd : (s.items.map (·.1)).Nodup) :
    (Lru.step s op).1.cap = s.cap ∧ (Lru.step s op).1.items.length ≤ s.cap ∧
      ((Lru.step s op).1.items.map (·.1)).Nodup := by
  have hwl : ∀ k, (Lru.without s.items k).length ≤ s.items.length := fun k => List.length_filter_le _ _
  have hwn : ∀ k, ((Lru.without s.items k).map (·.1)).Nodup := fun k => nodup_filter_keys hnd _
  have hwk : ∀ k, k ∉ (Lru.without s.items k).map (·.1) := by
    intro k m
    obtain ⟨⟨k', v'⟩, hx, e⟩ := List.mem_map.mp m
    simp only at e; subst e
    exact (mem_without.mp hx).2 rfl
  cases op with
  | insert k v =>
    simp only [Lru.step]
    refine ⟨by trivial, ?_, ?_⟩
    · simp only [List.length_cons]
      split
      · rw [List.length_dropLast]; have := hwl k; omega
      · omega
    · simp only [List.map_cons, List.nodup_cons]
      split
      · refine ⟨fun m => hwk k ((List.dropLast_sublist _).map _ |>.subset m), ?_⟩
        exact (hwn k).sublist ((List.dropLast_sublist _).map _)
      · exact ⟨hwk k, hwn k⟩
  | get k =>
    simp only [Lru.step]
    cases hf : s.items.find? (·.1 = k) with
    | none => exact ⟨by trivial, hlen, hnd⟩
    | some e =>
      have hem : e ∈ s.items := List.mem_of_find?_eq_some hf
      have hek : e.1 = k := by simpa using List.find?_some hf
      refine ⟨by trivial, ?_, ?_⟩
      · simp only [List.length_cons]
        have : (Lru.without s.items k).length < s.items.length := by
          rw [Lru.without, List.length_filter_lt_length_iff_exists]
          exact ⟨e, hem, by simp [hek]⟩
        omega
      · simp only [List.map_cons, List.nodup_cons]
        rw [hek]; exact ⟨hwk k, hwn k⟩
  | remove k =>
    simp only [Lru.step]
    cases hf : s.items.find? (·.1 = k) with
    | none => exact ⟨by trivial, hlen, hnd⟩
    | some e => exact ⟨by trivial, Nat.le_trans (hwl k) hlen, hwn k⟩

theorem step_refines (c : Cache) (s : Spec.Lru.State) (op : Op) (hcap : 0 < s.cap)
    (hlen : s.items.length ≤ s.cap) (h : Rep c s) :
    ∃ c', stepM c op = .ok (c', (Spec.Lru.step s op).2) ∧ Rep c' (Spec.Lru.step s op).1 := by
  obtain ⟨ids, kf, hp, R⟩ := h
  cases op with
  | insert k v =>
    obtain ⟨c', h1, h2⟩ := cache_insert R hcap k v
    exact ⟨c', by simp [stepM, h1, Lru.step], h2⟩
  | get k => exact cache_get R k
  | remove k =>
    obtain ⟨c', h1, h2, _⟩ := cache_remove R k
    refine ⟨c', ?_, ?_⟩
    · simp only [stepM, h1, Lru.step]
      cases s.items.find? (·.1 = k) <;> rfl
    · simp only [Lru.step]
      cases hf : s.items.find? (·.1 = k) with
      | some e => exact h2
      | none =>
        have : Lru.without s.items k = s.items := by
          apply filter_key_ne_self
          intro m
          obtain ⟨x, hx, e⟩ := List.mem_map.mp m
          have := List.find?_eq_none.mp hf x hx
          simp at this; exact this e
        rw [this] at h2; exact h2


theorem Rep.knodup {c s} (h : Rep c s) : (s.items.map (·.1)).Nodup := by
  obtain ⟨_, _, _, R⟩ := h; exact R.knodup

theorem Rep.count {c s} (h : Rep c s) : c.count = s.items.length := by
  obtain ⟨_, _, _, R⟩ := h; exact R.count

theorem runFrom_refines (ops : List Op) (c : Cache) (s : Spec.Lru.State) (hcap : 0 < s.cap)
    (hlen : s.items.length ≤ s.cap) (h : Rep c s) :
    ∃ c' outs, runFrom c ops = .ok (c', outs) ∧ outs = (Spec.Lru.run s ops).2 ∧
      Rep c' (Spec.Lru.run s ops).1 ∧ (Spec.Lru.run s ops).1.cap = s.cap ∧
      (Spec.Lru.run s ops).1.items.length ≤ s.cap := by
  induction ops generalizing c s with
  | nil => exact ⟨c, [], rfl, rfl, h, rfl, hlen⟩
  | cons op ops ih =>
    obtain ⟨c1, h1, R1⟩ := step_refines c s op hcap hlen h
    obtain ⟨e1, e2, _⟩ := Lru.step_inv s op hcap hlen h.knodup
    obtain ⟨c2, outs, h2, ho, R2, hc2, hl2⟩ :=
      ih c1 (Lru.step s op).1 (by rw [e1]; exact hcap) (by rw [e1]; exact e2) R1
    refine ⟨c2, (Lru.step s op).2 :: outs, ?_, ?_, ?_, ?_, ?_⟩
    · simp only [runFrom, h1, Res.bind_ok, h2]; rfl
    · simp only [Lru.run, ho]
    · simpa only [Lru.run] using R2
    · simp only [Lru.run]; rw [hc2, e1]
    · simp only [Lru.run]; rw [← e1]; exact hl2

/-- all histories -/
theorem run_refines (cap : Nat) (hcap : 0 < cap) (ops : List Op) :
    ∃ c outs, runM cap ops = .ok (c, outs) ∧ outs = (Spec.Lru.run { cap := cap } ops).2
      ∧ Rep c (Spec.Lru.run { cap := cap } ops).1 ∧ c.count ≤ cap := by
  obtain ⟨c0, h0, R0⟩ := rep_new cap hcap
  obtain ⟨c, outs, h1, ho, R, hc, hl⟩ :=
    runFrom_refines ops c0 { cap := cap, items := [] } hcap (by simp) R0
  refine ⟨c, outs, ?_, ho, R, ?_⟩
  · simp only [runM, h0, Res.bind_ok, h1]
  · rw [R.count]; exact hl

#print axioms Sst.HCache.rep_new
#print axioms Sst.HCache.step_refines
#print axioms Sst.HCache.run_refines

end Sst.HCache
