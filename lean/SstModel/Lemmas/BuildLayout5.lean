import SstModel.Lemmas.BuildLayout4
/-
  C05 (writer side), part 5: the finished file is a well-formed table image.
-/
namespace Sst
namespace BL

/-! ### size of the uncompressed index block (needed when compressing) -/

theorem costs_ix_le {opt : WOpts} (hok : WOptsOK opt) (h1 : opt.compression = 1) : ∀ fl : List Fl,
    (∀ f ∈ fl, f.kvs ≠ [] ∧ (∃ nxt, f.sep = opt.cmp.sep (lastKey f.kvs) nxt) ∧ f.off < 2 ^ 32
        ∧ (f.data opt).length < 2 ^ 32) →
    wts (allKvs fl) < 2 ^ 32 → costs (ixEntries opt fl) ≤ wts (allKvs fl)
  | [], _, _ => by simp [costs, ixEntries]
  | f :: r, h, hw => by
    have hk : allKvs (f :: r) = f.kvs ++ allKvs r := by simp [allKvs]
    have hi : ixEntries opt (f :: r) = (f.sep, (f.handle opt).encode) :: ixEntries opt r := by
      simp [ixEntries]
    have hc : costs ((f.sep, (f.handle opt).encode) :: ixEntries opt r)
        = cost (f.sep, (f.handle opt).encode) + costs (ixEntries opt r) := by simp [costs]
    rw [hk, wts_append] at hw ⊢
    rw [hi, hc]
    have ih := costs_ix_le hok h1 r (fun g hg => h g (by simp [hg])) (by omega)
    obtain ⟨hne, ⟨nxt, hsep⟩, hoff, hsize⟩ := h f (by simp)
    obtain ⟨lv, hlast⟩ := lastKey_mem f.kvs hne
    have hwt := le_sum_of_mem wt f.kvs _ hlast
    have hwt' : 2 * (lastKey f.kvs).length + lv.length + 64 ≤ wts f.kvs := hwt
    have hsl := hok.sepLen h1 (lastKey f.kvs) nxt
    rw [← hsep] at hsl
    have := cost_ix f.sep (f.handle opt).encode (by omega)
      (encode_len_le10 _ hoff hsize)
    omega

/-! ### the file -/

theorem fileImg_length (opt : WOpts) (fl : List Fl) (F : Bytes) (mb ib : BlockBuilder) :
    (fileImg opt fl F mb ib).length = (image opt fl).length + (F.length + 5)
      + ((stored opt mb.finish).length + 5) + ((stored opt ib.finish).length + 5)
      + (Footer.mk (mHandle opt fl F mb) (iHandle opt fl F mb ib)).encode.length := by
  simp only [fileImg, List.length_append, physicalBlock_length]

theorem footer_len (opt : WOpts) (fl : List Fl) (F : Bytes) (mb ib : BlockBuilder)
    (h : (fileImg opt fl F mb ib).length < 2 ^ 64) :
    (Footer.mk (mHandle opt fl F mb) (iHandle opt fl F mb ib)).encode.length = 48 := by
  have hl := fileImg_length opt fl F mb ib
  apply Footer.encode_length
  simp only [mHandle, iHandle, iOff, mOff, fOff]
  omega

/-- the reported size is the length of the file (as long as the numbers fit the footer) -/
theorem nOf_eq (opt : WOpts) (fl : List Fl) (F : Bytes) (mb ib : BlockBuilder)
    (h : (fileImg opt fl F mb ib).length < 2 ^ 64) :
    nOf opt fl F mb ib = (fileImg opt fl F mb ib).length := by
  rw [fileImg_length, footer_len opt fl F mb ib h]
  simp only [nOf, iOff, mOff, fOff]
  omega

/-- the data block record built from a ghost block and its parse -/
def mkD (opt : WOpts) (q : Fl × PBlock) : DBlock := ⟨q.1.sep, (q.1.handle opt).encode, q.1.handle opt, q.2⟩

theorem kvOf_keys (b : Bytes) (es : List EInfo) : (kvOf b es).map Prod.fst = es.map (·.key) := by
  simp [kvOf]

/-- stage 5: assembling the table image -/
theorem assemble {opt : WOpts} (hok : WOptsOK opt) {t1 : TableBuilder} {fl : List Fl}
    {fb : FilterBlockBuilder} {mb ib : BlockBuilder}
    (hinv : BInv opt t1 fl []) (hfb : t1.filterBlock = some fb) (hib : t1.indexBlock = some ib)
    (hmbinv : BlockBuild.Inv opt.restartInterval mb (metaEntries opt fl (fb.finish opt.filter)))
    (hmbsz : SzB mb (metaEntries opt fl (fb.finish opt.filter)))
    (hn : (fileImg opt fl (fb.finish opt.filter) mb ib).length < 2 ^ 32)
    (hsb : opt.compression = 1 → sizeBound opt (allKvs fl) < 2 ^ 32) :
    ∃ t : TableImg, t.img = fileImg opt fl (fb.finish opt.filter) mb ib ∧ t.WF opt.cmp
      ∧ t.entries = allKvs fl
      ∧ (∃ fh, t.metaix.kvs = [(Table.filterName opt.filter, fh)])
      ∧ (∃ fbk, FilterView opt.filter t (some fbk) ∧ FilterSound opt.filter t fbk)
      ∧ (∀ (i : Nat) (di dj : DBlock), t.blocks[i]? = some di → t.blocks[i+1]? = some dj →
           di.handle.offset + di.handle.size + 5 ≤ dj.handle.offset)
      ∧ (∀ d ∈ t.blocks, d.handle.offset + d.handle.size + 5 ≤ t.metaHandle.offset)
      ∧ (∀ d, t.blocks[0]? = some d → d.handle.offset = 0)
      ∧ SpecExtras t := by
  have hl := hok.lawful
  -- abbreviations
  generalize hF : fb.finish opt.filter = F at *
  have hlen := fileImg_length opt fl F mb ib
  have hfoot := footer_len opt fl F mb ib (by omega)
  rw [hfoot] at hlen
  -- the builder state
  obtain ⟨ib', hib', hibinv, hibsz⟩ := hinv.ib
  rw [hib] at hib'; injection hib' with hib'; subst hib'
  obtain ⟨fb', hfb', hfbrun, _⟩ := hinv.fb
  rw [hfb] at hfb'; injection hfb' with hfb'; subst hfb'
  have hfbrun' : fbRun opt.filter {} (events opt fl) = .ok fb := by
    simpa [evKeys] using hfbrun
  have hsorted : Spec.StrictSorted opt.cmp (allKvs fl) := by simpa using hinv.sorted
  -- positions of the data blocks
  have hpos := offs_pos opt fl 0 hinv.offs
  have hfl_lt : ∀ f ∈ fl, f.off < 2 ^ 32 ∧ (f.data opt).length < 2 ^ 32 := by
    intro f hf
    obtain ⟨pre, post, h1, h2⟩ := hpos f hf
    have : (image opt fl).length = pre.length + ((f.data opt).length + 5) + post.length := by
      rw [h1]; simp only [List.length_append, phys_length]
    omega
  -- uncompressed sizes
  have hwts : opt.compression = 1 → wts (allKvs fl) + (TableBuilder.filterKey opt.filter).length + 1024 < 2 ^ 32 :=
    fun h => by have := hsb h; rwa [sizeBound_eq] at this
  have hlenD : ∀ f ∈ fl, f.bb.finish.length < 2 ^ 32 := by
    intro f hf
    rcases hok.ctype with h0 | h1
    · have := (hfl_lt f hf).2
      unfold Fl.data at this
      rwa [stored_none h0] at this
    · have hw := hwts h1
      have h2 := finish_length_le (hinv.blk f hf).2.2.1
      have h3 : wts f.kvs ≤ wts (allKvs fl) := by
        rw [wts_allKvs]
        exact le_sum_of_mem (fun f => wts f.kvs) fl f hf
      have h4 := costs_le_wts f.kvs (by omega)
      omega
  have hlenI : ib.finish.length < 2 ^ 32 := by
    rcases hok.ctype with h0 | h1
    · have : (stored opt ib.finish).length < 2 ^ 32 := by omega
      rwa [stored_none h0] at this
    · have hw := hwts h1
      have h2 := finish_length_le hibsz
      have h3 := costs_ix_le hok h1 fl (fun f hf =>
        ⟨(hinv.blk f hf).1, (hinv.blk f hf).2.2.2, (hfl_lt f hf).1, (hfl_lt f hf).2⟩) (by omega)
      omega
  have hlenM : mb.finish.length < 2 ^ 32 := by
    rcases hok.ctype with h0 | h1
    · have : (stored opt mb.finish).length < 2 ^ 32 := by omega
      rwa [stored_none h0] at this
    · have hw := hwts h1
      have h2 := finish_length_le hmbsz
      have h3 : costs (metaEntries opt fl F) = cost (TableBuilder.filterKey opt.filter, (fHandle opt fl F).encode) := by
        simp [costs, metaEntries]
      have h4 := cost_ix (TableBuilder.filterKey opt.filter) (fHandle opt fl F).encode (by omega)
        (encode_len_le10 _ (by show (image opt fl).length < _; omega) (by show F.length < _; omega))
      omega
  -- the image, split around each block
  have himgI : fileImg opt fl F mb ib =
      (image opt fl ++ physicalBlock F (UInt8.ofNat 0) ++ physicalBlock (stored opt mb.finish) (ty opt))
        ++ physicalBlock (stored opt ib.finish) (ty opt)
        ++ (Footer.mk (mHandle opt fl F mb) (iHandle opt fl F mb ib)).encode := rfl
  have himgM : fileImg opt fl F mb ib =
      (image opt fl ++ physicalBlock F (UInt8.ofNat 0)) ++ physicalBlock (stored opt mb.finish) (ty opt)
        ++ (physicalBlock (stored opt ib.finish) (ty opt)
            ++ (Footer.mk (mHandle opt fl F mb) (iHandle opt fl F mb ib)).encode) := by
    simp [fileImg, List.append_assoc]
  have himgF : fileImg opt fl F mb ib =
      image opt fl ++ physicalBlock F (UInt8.ofNat 0) ++ (physicalBlock (stored opt mb.finish) (ty opt)
        ++ (physicalBlock (stored opt ib.finish) (ty opt)
            ++ (Footer.mk (mHandle opt fl F mb) (iHandle opt fl F mb ib)).encode)) := by
    simp [fileImg, List.append_assoc]
  have hIoff : (image opt fl ++ physicalBlock F (UInt8.ofNat 0)
      ++ physicalBlock (stored opt mb.finish) (ty opt)).length = iOff opt fl F mb := by
    simp only [List.length_append, physicalBlock_length, iOff, mOff, fOff]; omega
  have hMoff : (image opt fl ++ physicalBlock F (UInt8.ofNat 0)).length = mOff opt fl F := by
    simp only [List.length_append, physicalBlock_length, mOff, fOff]; omega
  -- index block
  obtain ⟨pI, hpIc, hpIwf, hpIkvs, hpIread, hpIb⟩ := parse_block hok hibinv hlenI
    (image opt fl ++ physicalBlock F (UInt8.ofNat 0) ++ physicalBlock (stored opt mb.finish) (ty opt))
    (Footer.mk (mHandle opt fl F mb) (iHandle opt fl F mb ib)).encode (by rw [← himgI]; omega)
  rw [← himgI, hIoff] at hpIread hpIb
  -- metaindex block
  obtain ⟨pM, hpMc, hpMwf, hpMkvs, hpMread, hpMb⟩ := parse_block hok hmbinv hlenM
    (image opt fl ++ physicalBlock F (UInt8.ofNat 0))
    (physicalBlock (stored opt ib.finish) (ty opt)
      ++ (Footer.mk (mHandle opt fl F mb) (iHandle opt fl F mb ib)).encode) (by rw [← himgM]; omega)
  rw [← himgM, hMoff] at hpMread hpMb
  -- data blocks
  have hdata : ∀ f ∈ fl, ∃ p : PBlock, p.contents = f.bb.finish ∧ p.WF ∧ p.kvs = f.kvs ∧
      tableBlockAt (fileImg opt fl F mb ib) (f.handle opt) = .ok f.bb.finish ∧
      InBounds (f.handle opt) (fileImg opt fl F mb ib).length ∧
      Spec.Format.parseBlock p.contents = some { entries := p.kvs, restarts := p.rs } := by
    intro f hf
    obtain ⟨pre, post, h1, h2⟩ := hpos f hf
    have himgD : fileImg opt fl F mb ib = pre ++ physicalBlock (stored opt f.bb.finish) (ty opt)
        ++ (post ++ physicalBlock F (UInt8.ofNat 0) ++ physicalBlock (stored opt mb.finish) (ty opt)
          ++ physicalBlock (stored opt ib.finish) (ty opt)
          ++ (Footer.mk (mHandle opt fl F mb) (iHandle opt fl F mb ib)).encode) := by
      unfold fileImg
      rw [h1]
      simp [Fl.phys, Fl.data, List.append_assoc]
    obtain ⟨p, hp1, hp2, hp3, hp4, hp5⟩ := parse_block hok (hinv.blk f hf).2.1 (hlenD f hf) pre
      (post ++ physicalBlock F (UInt8.ofNat 0) ++ physicalBlock (stored opt mb.finish) (ty opt)
          ++ physicalBlock (stored opt ib.finish) (ty opt)
          ++ (Footer.mk (mHandle opt fl F mb) (iHandle opt fl F mb ib)).encode)
      (by rw [← himgD]; omega)
    rw [← himgD] at hp4 hp5
    have hh : f.handle opt = ⟨pre.length, (stored opt f.bb.finish).length⟩ := by
      simp [Fl.handle, Fl.data, h2]
    rw [hh]
    exact ⟨p, hp1, hp2, hp3, hp4, hp5,
      parse_block_spec (hinv.blk f hf).2.1 (hinv.blk f hf).2.2.1 (hlenD f hf) p hp1 hp2⟩
  obtain ⟨ps, hps, hR⟩ := exists_pairs _ fl hdata
  -- facts about the list of data block records
  have hmem : ∀ d ∈ ps.map (mkD opt), ∃ q ∈ ps, d = mkD opt q ∧ q.1 ∈ fl := by
    intro d hd
    obtain ⟨q, hq, rfl⟩ := List.mem_map.1 hd
    exact ⟨q, hq, rfl, by rw [← hps]; exact List.mem_map.2 ⟨q, hq, rfl⟩⟩
  have hget : ∀ (i : Nat) (d : DBlock), (ps.map (mkD opt))[i]? = some d →
      ∃ q ∈ ps, d = mkD opt q ∧ fl[i]? = some q.1 := by
    intro i d hd
    rw [List.getElem?_map] at hd
    cases hq : ps[i]? with
    | none => rw [hq] at hd; cases hd
    | some q =>
      rw [hq] at hd
      simp only [Option.map_some, Option.some.injEq] at hd
      refine ⟨q, List.mem_of_getElem? hq, hd.symm, ?_⟩
      rw [← hps, List.getElem?_map, hq]; rfl
  have hkeys : ∀ q ∈ ps, (mkD opt q).keys = q.1.kvs.map Prod.fst := by
    intro q hq
    have := (hR q hq).2.2.1
    show q.2.es.map (·.key) = _
    rw [← this, PBlock.kvs, kvOf_keys]
  have hpair := offs_pairwise opt fl 0 hinv.offs
  -- the table image
  refine ⟨⟨fileImg opt fl F mb ib, mHandle opt fl F mb, iHandle opt fl F mb ib, pI, pM, ps.map (mkD opt)⟩,
    rfl, ?_, ?_, ?_, ?_, ?_, ?_, ?_, ?_⟩
  · -- WF
    exact {
      size := by
        show 48 ≤ (fileImg opt fl F mb ib).length ∧ (fileImg opt fl F mb ib).length < 2 ^ 64
        omega
      footer := by
        show Footer.tryDecode ((fileImg opt fl F mb ib).drop ((fileImg opt fl F mb ib).length - 48)) = _
        have hd : (fileImg opt fl F mb ib).drop ((fileImg opt fl F mb ib).length - 48)
            = (Footer.mk (mHandle opt fl F mb) (iHandle opt fl F mb ib)).encode := by
          rw [himgI]
          apply List.drop_left'
          rw [← himgI]
          simp only [List.length_append, physicalBlock_length]
          omega
        rw [hd]
        apply Footer.tryDecode_encode
        simp only [mHandle, iHandle, iOff, mOff, fOff]
        omega
      metaBounds := hpMb
      indexBounds := hpIb
      indexRead := by rw [hpIc]; exact hpIread
      indexWF := hpIwf
      indexKVs := by
        show pI.kvs = (ps.map (mkD opt)).map (fun d => (d.sep, d.hval))
        rw [hpIkvs, ixEntries, ← hps, List.map_map, List.map_map]
        rfl
      metaRead := by rw [hpMc]; exact hpMread
      metaWF := hpMwf
      metaSorted := by
        show KeysSorted opt.cmp (pM.es.map (·.key))
        have h1 : pM.es.map (·.key) = [TableBuilder.filterKey opt.filter] := by
          rw [← kvOf_keys pM.contents, ← PBlock.kvs, hpMkvs]; rfl
        rw [h1]
        exact List.pairwise_singleton _ _
      hval := by
        intro d hd
        obtain ⟨q, hq, rfl, hqf⟩ := hmem d hd
        have := BlockHandle.tryDecode_encode (q.1.handle opt)
          (by show q.1.off < _; have := (hfl_lt _ hqf).1; omega)
          (by show (q.1.data opt).length < _; have := (hfl_lt _ hqf).2; omega) []
        rw [List.append_nil] at this
        exact ⟨_, this⟩
      dataBounds := by
        intro d hd
        obtain ⟨q, hq, rfl, _⟩ := hmem d hd
        exact (hR q hq).2.2.2.2.1
      dataRead := by
        intro d hd
        obtain ⟨q, hq, rfl, _⟩ := hmem d hd
        show tableBlockAt _ (q.1.handle opt) = .ok q.2.contents
        rw [(hR q hq).1]
        exact (hR q hq).2.2.2.1
      dataWF := by
        intro d hd
        obtain ⟨q, hq, rfl, _⟩ := hmem d hd
        exact (hR q hq).2.1
      dataNonempty := by
        intro d hd
        obtain ⟨q, hq, rfl, hqf⟩ := hmem d hd
        show q.2.es ≠ []
        intro he
        have := (hR q hq).2.2.1
        rw [PBlock.kvs, he] at this
        exact (hinv.blk _ hqf).1 this.symm
      offsetsDistinct := by
        intro i j di dj hi hj hoff
        obtain ⟨qi, _, rfl, hfi⟩ := hget i di hi
        obtain ⟨qj, _, rfl, hfj⟩ := hget j dj hj
        have hoff' : qi.1.off = qj.1.off := hoff
        rcases Nat.lt_trichotomy i j with h | h | h
        · have := pairwise_getElem? hpair hfi hfj h
          omega
        · exact h
        · have := pairwise_getElem? hpair hfj hfi h
          omega
      sorted := by
        show KeysSorted opt.cmp ((ps.map (mkD opt)).map (·.keys)).flatten
        have h1 : (ps.map (mkD opt)).map (·.keys) = (fl.map (·.kvs)).map (List.map Prod.fst) := by
          rw [← hps, List.map_map, List.map_map, List.map_map]
          apply List.map_congr_left
          intro q hq
          exact hkeys q hq
        rw [h1, ← List.map_flatten]
        show List.Pairwise _ ((allKvs fl).map Prod.fst)
        rw [List.pairwise_map]
        exact pairwise_of_strictSorted hl _ hsorted
      sepGe := by
        intro d hd k hk
        obtain ⟨q, hq, rfl, hqf⟩ := hmem d hd
        rw [hkeys q hq] at hk
        obtain ⟨e, he, rfl⟩ := List.mem_map.1 hk
        exact hinv.sepGe _ hqf e he
      sepLt := by
        intro i j di dj hij hi hj k hk
        obtain ⟨qi, _, rfl, hfi⟩ := hget i di hi
        obtain ⟨qj, hqj, rfl, hfj⟩ := hget j dj hj
        rw [hkeys qj hqj] at hk
        obtain ⟨e, he, rfl⟩ := List.mem_map.1 hk
        exact pairwise_getElem? hinv.sepLt hfi hfj hij e he }
  · -- entries
    show ((ps.map (mkD opt)).map (·.blk.kvs)).flatten = allKvs fl
    have h1 : (ps.map (mkD opt)).map (·.blk.kvs) = fl.map (·.kvs) := by
      rw [← hps, List.map_map, List.map_map]
      apply List.map_congr_left
      intro q hq
      exact (hR q hq).2.2.1
    rw [h1]; rfl
  · exact ⟨_, hpMkvs⟩
  · -- filter
    have hFsize : F.length < 2 ^ 32 := by omega
    have hFwf := filter_finish_wf opt.filter fb (by rw [hF]; exact hFsize)
    rw [hF] at hFwf
    refine ⟨F, ?_, ?_⟩
    · refine FilterView.present (fHandle opt fl F).encode (fHandle opt fl F)
        (fHandle opt fl F).encode.length F ?_ ?_ ?_ ?_ ?_ hFwf.1
      · show (Table.filterName opt.filter, _) ∈ pM.kvs
        rw [hpMkvs]; exact List.mem_singleton.2 rfl
      · have := BlockHandle.tryDecode_encode (fHandle opt fl F)
          (by show (image opt fl).length < _; omega) (by show F.length < _; omega) []
        rw [List.append_nil] at this
        exact this
      · show F.length > 0
        have := hFwf.2; omega
      · show InBounds ⟨(image opt fl).length, F.length⟩ (fileImg opt fl F mb ib).length
        rw [himgF]
        apply inBounds_phys
        rw [← himgF]; omega
      · show blockAt (fileImg opt fl F mb ib) ⟨(image opt fl).length, F.length⟩ = .ok F
        rw [himgF]
        exact blockAt_phys_zero _ _ _
    · intro d hd k hk r hr
      obtain ⟨q, hq, rfl, hqf⟩ := hmem d hd
      rw [hkeys q hq] at hk
      have hadded := fbAdded_events opt fl 0 hinv.offs q.1 hqf k hk
      obtain ⟨r', hr', hmatch⟩ := filter_block_no_false_neg_bounded opt.filter hok.filterSound (events opt fl) fb
        hfbrun' (by rw [hF]; exact hFsize) q.1.off k hadded
      rw [hF, hr] at hr'
      injection hr' with hr'
      subst hr'
      exact hmatch
  · -- file order
    intro i di dj hi hj
    obtain ⟨qi, _, rfl, hfi⟩ := hget i di hi
    obtain ⟨qj, _, rfl, hfj⟩ := hget (i + 1) dj hj
    exact pairwise_getElem? hpair hfi hfj (Nat.lt_succ_self i)
  · -- data blocks lie before the metaindex block
    intro d hd
    obtain ⟨q, _, rfl, hqf⟩ := hmem d hd
    obtain ⟨pre, post, h1, h2⟩ := hpos q.1 hqf
    have h3 : (image opt fl).length = pre.length + ((q.1.data opt).length + 5) + post.length := by
      rw [h1]; simp only [List.length_append, phys_length]
    show q.1.off + (q.1.data opt).length + 5 ≤ mOff opt fl F
    unfold mOff fOff
    omega
  · -- the first data block starts the file
    intro d hd
    obtain ⟨q, _, rfl, hf0⟩ := hget 0 d hd
    show q.1.off = 0
    cases hfl : fl with
    | nil => rw [hfl] at hf0; cases hf0
    | cons f r =>
      rw [hfl] at hf0
      simp only [List.getElem?_cons_zero, Option.some.injEq] at hf0
      have := hinv.offs
      rw [hfl] at this
      simp only [Offs] at this
      rw [← hf0]; exact this.1
  · -- what the bridge to the independent decoder needs
    exact {
      dataParse := by
        intro d hd
        obtain ⟨q, hq, rfl, _⟩ := hmem d hd
        exact (hR q hq).2.2.2.2.2
      indexParse := parse_block_spec hibinv hibsz hlenI pI hpIc hpIwf
      metaParse := parse_block_spec hmbinv hmbsz hlenM pM hpMc hpMwf
      hvalEnc := by
        intro d hd
        obtain ⟨q, hq, rfl, _⟩ := hmem d hd
        rfl
      footerEnc := by
        show (fileImg opt fl F mb ib).drop ((fileImg opt fl F mb ib).length - 48)
            = (Footer.mk (mHandle opt fl F mb) (iHandle opt fl F mb ib)).encode
        rw [himgI]
        apply List.drop_left'
        rw [← himgI]
        simp only [List.length_append, physicalBlock_length]
        omega
      metaValEnc := by
        intro e he
        have he' : e ∈ pM.kvs := he
        rw [hpMkvs] at he'
        have := List.mem_singleton.1 he'
        subst this
        refine ⟨fHandle opt fl F, rfl, ?_, ?_⟩
        · show (image opt fl).length + F.length ≤ (fileImg opt fl F mb ib).length
          omega
        · intro c hc
          have hF : blockAt (fileImg opt fl F mb ib) ⟨(image opt fl).length, F.length⟩ = .ok F := by
            rw [himgF]
            exact blockAt_phys_zero _ _ _
          have hc' : blockAt (fileImg opt fl F mb ib) ⟨(image opt fl).length, F.length⟩ = .ok c := hc
          rw [hF] at hc'
          injection hc' with hc'
          rw [← hc']
          rfl }

end BL
end Sst
