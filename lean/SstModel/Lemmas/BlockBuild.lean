import SstModel.Model.BlockBuilder
import SstModel.Lemmas.BlockSpec
import SstModel.Lemmas.Codec
/-
  The block builder produces a well-formed block (`BlockWF`) holding exactly the entries added.
-/
namespace Sst

/-- add a list of entries, stopping at the first failure -/
def BlockBuilder.addAll (cmp : Cmp) (b : BlockBuilder) : List (Bytes × Bytes) → Res BlockBuilder
  | [] => .ok b
  | (k, v) :: rest => match b.add cmp k v with
    | .ok b => addAll cmp b rest
    | .err c => .err c | .panic s => .panic s | .diverge => .diverge

namespace BlockBuild
open BlockBuilder

/-! ### shared prefix length -/

theorem sharedLen_le_left (a : Bytes) : ∀ b : Bytes, sharedLen a b ≤ a.length := by
  induction a with
  | nil => intro b; simp [sharedLen]
  | cons x as ih =>
    intro b
    cases b with
    | nil => simp [sharedLen]
    | cons y bs =>
      simp only [sharedLen]
      split
      · have := ih bs; simp only [List.length_cons]; omega
      · simp

theorem sharedLen_le_right (a : Bytes) : ∀ b : Bytes, sharedLen a b ≤ b.length := by
  induction a with
  | nil => intro b; simp [sharedLen]
  | cons x as ih =>
    intro b
    cases b with
    | nil => simp [sharedLen]
    | cons y bs =>
      simp only [sharedLen]
      split
      · have := ih bs; simp only [List.length_cons]; omega
      · simp

theorem sharedLen_take (a : Bytes) : ∀ b : Bytes,
    b.take (sharedLen a b) = a.take (sharedLen a b) := by
  induction a with
  | nil => intro b; simp [sharedLen]
  | cons x as ih =>
    intro b
    cases b with
    | nil => simp [sharedLen]
    | cons y bs =>
      simp only [sharedLen]
      split
      · rename_i h
        subst h
        simp only [List.take_succ_cons, ih bs]
      · simp

/-! ### header of an encoded entry -/

theorem parseHeader_encode (s n v : Nat) (hs : s < 2^64) (hn : n < 2^64) (hv : v < 2^64)
    (rest : Bytes) :
    Block.parseHeader (encodeVarint s ++ encodeVarint n ++ encodeVarint v ++ rest)
      = some (s, n, v, (encodeVarint s).length + (encodeVarint n).length
                        + (encodeVarint v).length) := by
  unfold Block.parseHeader
  rw [List.append_assoc, List.append_assoc, decodeVarint_encodeVarint s hs]
  simp only [List.drop_left]
  rw [decodeVarint_encodeVarint n hn]
  simp only
  rw [← List.drop_drop, List.drop_left, List.drop_left, decodeVarint_encodeVarint v hv]

/-! ### restart array -/

theorem flatten_fixed32_length (l : List Nat) : (l.map encodeFixed32).flatten.length = 4 * l.length := by
  induction l with
  | nil => rfl
  | cons a l ih =>
    simp only [List.map_cons, List.flatten_cons, List.length_append, encodeFixed32_length, ih,
      List.length_cons]
    omega

theorem fixed32At_flatten (l : List Nat) : ∀ (pre post : Bytes) (i : Nat) (h : i < l.length),
    l[i] < 2^32 →
    fixed32At (pre ++ (l.map encodeFixed32).flatten ++ post) (pre.length + 4 * i) = some l[i] := by
  induction l with
  | nil => intro pre post i h; simp at h
  | cons a l ih =>
    intro pre post i h hl
    cases i with
    | zero =>
      simp only [List.map_cons, List.flatten_cons, Nat.mul_zero, Nat.add_zero,
        List.getElem_cons_zero] at hl ⊢
      have := fixed32At_append pre ((l.map encodeFixed32).flatten ++ post) a hl
      simpa [List.append_assoc] using this
    | succ j =>
      simp only [List.getElem_cons_succ] at hl ⊢
      have hj : j < l.length := by simpa using h
      have := ih (pre ++ encodeFixed32 a) post j hj hl
      have hpos : (pre ++ encodeFixed32 a).length + 4 * j = pre.length + 4 * (j + 1) := by
        simp only [List.length_append, encodeFixed32_length]; omega
      rw [hpos] at this
      simpa [List.append_assoc] using this

/-! ### partial chains -/

/-- the key the next entry shares its prefix with -/
def lastK : Bytes → List EInfo → Bytes
  | prev, [] => prev
  | _, e :: es => lastK e.key es

theorem chain_off_lt (blk : Bytes) (roff : Nat) : ∀ (es : List EInfo) (prev : Bytes) (off : Nat),
    Chain blk roff prev off es → ∀ e ∈ es, e.off < roff := by
  intro es
  induction es with
  | nil => intro _ _ _ e he; simp at he
  | cons e0 es ih =>
    intro prev off h e he
    simp only [Chain] at h
    rcases List.mem_cons.1 he with rfl | he
    · omega
    · exact ih _ _ h.2.2.2.2.2.2 e he

/-- appending one encoded entry `ent` to the entries area `buf` extends the chain -/
theorem chain_snoc (buf ent : Bytes) (e : EInfo)
    (hoff : e.off = buf.length) (hpos : 0 < ent.length)
    (hhdr : ∀ tail, Block.parseHeader (ent ++ tail)
              = some (e.shared, e.nonShared, e.valLen, e.headLen))
    (hnext : e.next = buf.length + ent.length) :
    ∀ (es : List EInfo) (prev : Bytes) (off : Nat),
      (∀ tail, Chain (buf ++ tail) buf.length prev off es) →
      e.shared ≤ (lastK prev es).length →
      (∀ tail, e.key = (lastK prev es).take e.shared
                  ++ ((ent ++ tail).drop e.headLen).take e.nonShared) →
      ∀ tail, Chain (buf ++ ent ++ tail) (buf ++ ent).length prev off (es ++ [e]) := by
  intro es
  induction es with
  | nil =>
    intro prev off h hsh hkey tail
    have ho : off = buf.length := by simpa [Chain] using h []
    subst ho
    simp only [List.nil_append, Chain, lastK] at hsh hkey ⊢
    refine ⟨hoff, ?_, ?_, hsh, ?_, ?_, ?_⟩
    · simp only [List.length_append]; omega
    · rw [List.append_assoc, List.drop_left]; exact hhdr tail
    · simp only [List.length_append]; omega
    · rw [List.append_assoc, List.drop_length_add_append]; exact hkey tail
    · simp only [List.length_append]; omega
  | cons e0 es ih =>
    intro prev off h hsh hkey tail
    simp only [lastK] at hsh hkey
    have h0 := h (ent ++ tail)
    simp only [Chain] at h0
    obtain ⟨a1, a2, a3, a4, a5, a6, _⟩ := h0
    have hrest : ∀ tail, Chain (buf ++ tail) buf.length e0.key e0.next es := by
      intro t
      have := h t
      simp only [Chain] at this
      exact this.2.2.2.2.2.2
    simp only [List.cons_append, Chain, List.append_assoc]
    refine ⟨a1, ?_, a3, a4, ?_, a6, ?_⟩
    · simp only [List.length_append]; omega
    · simp only [List.length_append]; omega
    · have := ih e0.key e0.next hrest hsh hkey tail
      simpa only [List.append_assoc] using this

theorem kvOf_snoc (blk : Bytes) (es : List EInfo) (e : EInfo) :
    kvOf blk (es ++ [e]) = kvOf blk es ++ [(e.key, (blk.drop e.valOff).take e.valLen)] := by
  simp [kvOf]

theorem kvOf_length (blk : Bytes) (es : List EInfo) : (kvOf blk es).length = es.length := by
  simp [kvOf]

theorem lastK_snoc (e : EInfo) : ∀ (es : List EInfo) (prev : Bytes), lastK prev (es ++ [e]) = e.key := by
  intro es
  induction es with
  | nil => intro _; rfl
  | cons e0 es ih => intro _; simp only [List.cons_append, lastK]; exact ih _

/-! ### the builder invariant -/

/-- bytes appended for one entry -/
def entBytes (shared : Nat) (key val : Bytes) : Bytes :=
  encodeVarint shared ++ encodeVarint (key.length - shared) ++ encodeVarint val.length
    ++ key.drop shared ++ val

theorem entBytes_length (shared : Nat) (key val : Bytes) :
    (entBytes shared key val).length
      = (encodeVarint shared).length + (encodeVarint (key.length - shared)).length
        + (encodeVarint val.length).length + (key.length - shared) + val.length := by
  simp only [entBytes, List.length_append, List.length_drop]

/-- state of a builder created by `new ri` after the entries `kvs` were added -/
structure Inv (ri : Nat) (b : BlockBuilder) (kvs : List (Bytes × Bytes)) : Prop where
  ri_eq : b.restartInterval = ri
  counter : b.counter = kvs.length
  rc_le : b.restartCounter ≤ ri
  rc_pos : kvs ≠ [] → 1 ≤ b.restartCounter
  rc_zero : kvs = [] → b.restartCounter = 0
  lastKey : b.lastKey = (kvs.getLast?.map (·.1)).getD []
  empty : kvs = [] → b.buffer = []
  lk_len : b.lastKey.length ≤ b.buffer.length
  body : b.buffer.length < 2 ^ 32 → ∃ es : List EInfo,
      (∀ tail, Chain (b.buffer ++ tail) b.buffer.length [] 0 es)
      ∧ (∀ tail, kvOf (b.buffer ++ tail) es = kvs)
      ∧ lastK [] es = b.lastKey
      ∧ b.restarts[0]? = some 0
      ∧ b.restarts.Pairwise (· < ·)
      ∧ (∀ r ∈ b.restarts, (∃ e ∈ es, e.off = r ∧ e.shared = 0) ∨ (es = [] ∧ r = 0))

theorem inv_new (ri : Nat) : Inv ri (BlockBuilder.new ri) [] where
  ri_eq := rfl
  counter := rfl
  rc_le := Nat.zero_le _
  rc_pos := fun h => absurd rfl h
  rc_zero := fun _ => rfl
  lastKey := rfl
  empty := fun _ => rfl
  lk_len := Nat.le_refl _
  body := fun _ => ⟨[], by
    refine ⟨fun tail => ?_, fun tail => rfl, rfl, rfl, ?_, ?_⟩
    · simp [Chain, BlockBuilder.new]
    · simp [BlockBuilder.new]
    · intro r hr
      simp [BlockBuilder.new] at hr
      exact Or.inr ⟨rfl, hr⟩⟩

theorem inv_step (ri : Nat) (b : BlockBuilder) (kvs : List (Bytes × Bytes)) (key val : Bytes)
    (shared : Nat) (restarts' : List Nat) (rc' : Nat)
    (hinv : Inv ri b kvs)
    (hsh1 : shared ≤ b.lastKey.length) (hsh2 : shared ≤ key.length)
    (hpre : key.take shared = b.lastKey.take shared)
    (hrc : rc' + 1 ≤ ri)
    (hrs : restarts' = b.restarts
            ∨ (restarts' = b.restarts ++ [b.buffer.length % 2 ^ 32] ∧ shared = 0 ∧ kvs ≠ [])) :
    Inv ri { b with buffer := b.buffer ++ entBytes shared key val, restarts := restarts',
                    lastKey := key, restartCounter := rc' + 1, counter := b.counter + 1 }
      (kvs ++ [(key, val)]) := by
  have hl1 := encodeVarint_length_pos shared
  have hl2 := encodeVarint_length_pos (key.length - shared)
  have hl3 := encodeVarint_length_pos val.length
  have hentlen := entBytes_length shared key val
  refine ⟨hinv.ri_eq, by simp [hinv.counter], hrc, fun _ => by simp, by simp, by simp, by simp, ?_, ?_⟩
  · simp only [List.length_append]
    have := hinv.lk_len
    omega
  · intro hlen
    simp only [List.length_append] at hlen
    have hold : b.buffer.length < 2 ^ 32 := by omega
    obtain ⟨es, hch, hkv, hlk, hfirst, hincr, hstart⟩ := hinv.body hold
    have hlkl := hinv.lk_len
    let e : EInfo := { off := b.buffer.length, shared := shared, nonShared := key.length - shared,
                       valLen := val.length,
                       headLen := (encodeVarint shared).length
                         + (encodeVarint (key.length - shared)).length
                         + (encodeVarint val.length).length,
                       key := key }
    have hbig : (2:Nat) ^ 32 < 2 ^ 64 := by decide
    have hhdr : ∀ tail, Block.parseHeader (entBytes shared key val ++ tail)
        = some (e.shared, e.nonShared, e.valLen, e.headLen) := by
      intro tail
      have := parseHeader_encode shared (key.length - shared) val.length (by omega) (by omega)
        (by omega) (key.drop shared ++ val ++ tail)
      simpa [entBytes, List.append_assoc] using this
    have hdropk : ∀ tail, ((entBytes shared key val ++ tail).drop e.headLen).take e.nonShared
        = key.drop shared := by
      intro tail
      have e1 : entBytes shared key val ++ tail
          = (encodeVarint shared ++ encodeVarint (key.length - shared) ++ encodeVarint val.length)
            ++ (key.drop shared ++ (val ++ tail)) := by
        simp [entBytes, List.append_assoc]
      have e2 : e.headLen = (encodeVarint shared ++ encodeVarint (key.length - shared)
          ++ encodeVarint val.length).length := by
        simp only [e, List.length_append]
      have e3 : e.nonShared = (key.drop shared).length := by simp [e, List.length_drop]
      rw [e1, e2, List.drop_left, e3, List.take_left]
    have hkeyeq : ∀ tail, e.key = (lastK [] es).take e.shared
        ++ ((entBytes shared key val ++ tail).drop e.headLen).take e.nonShared := by
      intro tail
      rw [hdropk tail, hlk]
      show key = b.lastKey.take shared ++ key.drop shared
      rw [← hpre, List.take_append_drop]
    have hchain := chain_snoc b.buffer (entBytes shared key val) e rfl (by omega) hhdr
      (by simp only [EInfo.next, EInfo.valOff, e]; omega) es [] 0 hch (by rw [hlk]; exact hsh1) hkeyeq
    refine ⟨es ++ [e], hchain, ?_, lastK_snoc e es [], ?_, ?_, ?_⟩
    · intro tail
      rw [kvOf_snoc, List.append_assoc, hkv]
      congr 2
      show (key, _) = (key, val)
      congr 1
      have e1 : b.buffer ++ (entBytes shared key val ++ tail)
          = (b.buffer ++ (encodeVarint shared ++ encodeVarint (key.length - shared)
              ++ encodeVarint val.length) ++ key.drop shared) ++ (val ++ tail) := by
        simp [entBytes, List.append_assoc]
      have e2 : e.valOff = (b.buffer ++ (encodeVarint shared ++ encodeVarint (key.length - shared)
              ++ encodeVarint val.length) ++ key.drop shared).length := by
        simp only [EInfo.valOff, e, List.length_append, List.length_drop]
      rw [e1, e2, List.drop_left]
      exact List.take_left
    · rcases hrs with h | ⟨h, _, _⟩
      · rw [h]; exact hfirst
      · rw [h]
        cases hb : b.restarts with
        | nil => rw [hb] at hfirst; simp at hfirst
        | cons r rs => rw [hb] at hfirst; simpa using hfirst
    · rcases hrs with h | ⟨h, _, hne⟩
      · rw [h]; exact hincr
      · rw [h, List.pairwise_append]
        refine ⟨hincr, by simp, ?_⟩
        intro r hr x hx
        simp only [List.mem_singleton] at hx
        subst hx
        rw [Nat.mod_eq_of_lt hold]
        rcases hstart r hr with ⟨e', he', ho, _⟩ | ⟨hnil, _⟩
        · rw [← ho]
          exact chain_off_lt _ _ es [] 0 (hch []) e' he'
        · exfalso
          have := hkv []
          rw [hnil] at this
          exact hne this.symm
    · have hold_start : ∀ r ∈ b.restarts,
          (∃ e' ∈ es ++ [e], e'.off = r ∧ e'.shared = 0) ∨ (es ++ [e] = [] ∧ r = 0) := by
        intro r hr
        rcases hstart r hr with ⟨e', he', ho, hs⟩ | ⟨hnil, hr0⟩
        · exact Or.inl ⟨e', List.mem_append_left _ he', ho, hs⟩
        · refine Or.inl ⟨e, by simp, ?_, ?_⟩
          · have := hch []
            rw [hnil] at this
            simp only [Chain] at this
            show b.buffer.length = r
            omega
          · show shared = 0
            rw [← hlk, hnil] at hsh1
            simpa [lastK] using hsh1
      rcases hrs with h | ⟨h, hs0, _⟩
      · rw [h]; exact hold_start
      · rw [h]
        intro r hr
        rcases List.mem_append.1 hr with hr | hr
        · exact hold_start r hr
        · simp only [List.mem_singleton] at hr
          refine Or.inl ⟨e, by simp, ?_, hs0⟩
          rw [hr, Nat.mod_eq_of_lt hold]

/-! ### `add` preserves the invariant -/

theorem add_inv (cmp : Cmp) (ri : Nat) (hri : 1 ≤ ri) (b : BlockBuilder)
    (kvs : List (Bytes × Bytes)) (key val : Bytes) (hinv : Inv ri b kvs)
    (hlt : kvs = [] ∨ cmp.cmp b.lastKey key = .lt) :
    ∃ b', b.add cmp key val = .ok b' ∧ Inv ri b' (kvs ++ [(key, val)]) := by
  have ha1 : decide (b.restartCounter ≤ b.restartInterval) = true := by
    rw [hinv.ri_eq]; exact decide_eq_true hinv.rc_le
  have ha2 : (b.buffer.isEmpty || cmp.cmp b.lastKey key == .lt) = true := by
    rcases hlt with h | h
    · simp [hinv.empty h]
    · simp [h]
  by_cases hc : b.restartCounter < b.restartInterval
  · refine ⟨_, ?_, inv_step ri b kvs key val (sharedLen b.lastKey key) b.restarts b.restartCounter
      hinv (sharedLen_le_left _ _) (sharedLen_le_right _ _) (sharedLen_take _ _)
      (by have := hinv.ri_eq; omega) (Or.inl rfl)⟩
    unfold BlockBuilder.add
    simp only [assert, ha1, ha2, if_pos hc, if_true, Res.pure_eq, bind, Res.bind,
      List.take_append_drop, entBytes, List.append_assoc]
  · have hne : kvs ≠ [] := by
      intro h
      have := hinv.rc_le
      have := hinv.ri_eq
      have := hinv.rc_zero h
      omega
    refine ⟨_, ?_, inv_step ri b kvs key val 0 (b.restarts ++ [b.buffer.length % 2 ^ 32]) 0
      hinv (Nat.zero_le _) (Nat.zero_le _) (by simp) (by omega) (Or.inr ⟨rfl, rfl, hne⟩)⟩
    unfold BlockBuilder.add
    simp only [assert, ha1, ha2, if_neg hc, if_true, Res.pure_eq, bind, Res.bind,
      List.take_append_drop, entBytes, List.append_assoc]

/-! ### `addAll` -/

theorem strictSorted_tail (cmp : Cmp) (a : Spec.Entry) (l : List Spec.Entry)
    (h : Spec.StrictSorted cmp (a :: l)) : Spec.StrictSorted cmp l := by
  cases l with
  | nil => trivial
  | cons b r => exact h.2

theorem getLast?_snoc_key (kvs : List (Bytes × Bytes)) (k v : Bytes) :
    ((kvs ++ [(k, v)]).getLast?.map (·.1)).getD [] = k := by
  simp

theorem addAll_inv (cmp : Cmp) (ri : Nat) (hri : 1 ≤ ri) :
    ∀ (kvs : List (Bytes × Bytes)) (b : BlockBuilder) (kvs0 : List (Bytes × Bytes)),
      Inv ri b kvs0 → Spec.StrictSorted cmp kvs →
      (kvs0 = [] ∨ ∀ kv, kvs.head? = some kv → cmp.cmp b.lastKey kv.1 = .lt) →
      ∃ bb, BlockBuilder.addAll cmp b kvs = .ok bb ∧ Inv ri bb (kvs0 ++ kvs) := by
  intro kvs
  induction kvs with
  | nil =>
    intro b kvs0 hinv _ _
    exact ⟨b, rfl, by simpa using hinv⟩
  | cons kv rest ih =>
    intro b kvs0 hinv hs hlink
    obtain ⟨k, v⟩ := kv
    have hlt : kvs0 = [] ∨ cmp.cmp b.lastKey k = .lt := by
      rcases hlink with h | h
      · exact Or.inl h
      · exact Or.inr (h (k, v) rfl)
    obtain ⟨b', hadd, hinv'⟩ := add_inv cmp ri hri b kvs0 k v hinv hlt
    have hlk : b'.lastKey = k := by rw [hinv'.lastKey]; exact getLast?_snoc_key kvs0 k v
    have hlink' : kvs0 ++ [(k, v)] = [] ∨
        ∀ kv, rest.head? = some kv → cmp.cmp b'.lastKey kv.1 = .lt := by
      right
      intro kv hkv
      cases rest with
      | nil => simp at hkv
      | cons kv2 r =>
        simp only [List.head?_cons, Option.some.injEq] at hkv
        subst hkv
        rw [hlk]
        have := hs.1
        simpa [Spec.keyLt] using this
    obtain ⟨bb, hall, hinvbb⟩ := ih b' (kvs0 ++ [(k, v)]) hinv' (strictSorted_tail cmp _ _ hs) hlink'
    refine ⟨bb, ?_, by simpa [List.append_assoc] using hinvbb⟩
    simp only [BlockBuilder.addAll, hadd]
    exact hall

/-! ### `finish` -/

theorem finish_length (b : BlockBuilder) :
    b.finish.length = b.buffer.length + 4 * b.restarts.length + 4 := by
  simp only [BlockBuilder.finish, List.length_append, flatten_fixed32_length, encodeFixed32_length]

theorem finish_wf (ri : Nat) (b : BlockBuilder) (kvs : List (Bytes × Bytes)) (hinv : Inv ri b kvs)
    (hlen : b.finish.length < 2 ^ 32) :
    ∃ es rs, BlockWF b.finish es rs ∧ kvOf b.finish es = kvs := by
  have hfl := finish_length b
  have hold : b.buffer.length < 2 ^ 32 := by omega
  obtain ⟨es, hch, hkv, _, hfirst, hincr, hstart⟩ := hinv.body hold
  have hne : 1 ≤ b.restarts.length := by
    cases hb : b.restarts with
    | nil => rw [hb] at hfirst; simp at hfirst
    | cons r rs => simp
  have hfin : b.finish = b.buffer ++ ((b.restarts.map encodeFixed32).flatten
      ++ encodeFixed32 b.restarts.length) := by
    simp [BlockBuilder.finish, List.append_assoc]
  have hroff : b.finish.length - 4 - 4 * b.restarts.length = b.buffer.length := by omega
  have hrlt : ∀ r ∈ b.restarts, r < 2 ^ 32 := by
    intro r hr
    rcases hstart r hr with ⟨e, he, ho, _⟩ | ⟨_, h0⟩
    · have := chain_off_lt _ _ es [] 0 (hch []) e he
      omega
    · rw [h0]; decide
  refine ⟨es, b.restarts, ?_, ?_⟩
  · refine ⟨by omega, hne, by omega, ?_, ?_, ?_, hfirst, hincr, hstart⟩
    · have h4 : b.finish.length - 4 = (b.buffer ++ (b.restarts.map encodeFixed32).flatten).length := by
        simp only [List.length_append, flatten_fixed32_length]; omega
      rw [h4]
      unfold BlockBuilder.finish
      rw [List.drop_left]
      exact decodeFixed32_encodeFixed32 _ (by omega)
    · intro i hi
      have hpos : b.finish.length - 4 - 4 * b.restarts.length + 4 * i = b.buffer.length + 4 * i := by
        omega
      rw [hpos]
      unfold BlockBuilder.finish
      exact fixed32At_flatten b.restarts b.buffer _ i hi (hrlt _ (List.getElem_mem hi))
    · rw [hroff, hfin]
      exact hch _
  · rw [hfin]
    exact hkv _

end BlockBuild

theorem blockBuilder_wf (cmp : Cmp) (ri : Nat) (hri : 1 ≤ ri) (kvs : List (Bytes × Bytes))
    (hs : Spec.StrictSorted cmp kvs) :
    ∃ bb, BlockBuilder.addAll cmp (BlockBuilder.new ri) kvs = .ok bb
      ∧ bb.counter = kvs.length
      ∧ bb.lastKey = (kvs.getLast?.map (·.1)).getD []
      ∧ (bb.finish.length < 2 ^ 32 →
          ∃ es rs, BlockWF bb.finish es rs ∧ kvOf bb.finish es = kvs) := by
  obtain ⟨bb, hall, hinv⟩ := BlockBuild.addAll_inv cmp ri hri kvs (BlockBuilder.new ri) []
    (BlockBuild.inv_new ri) hs (Or.inl rfl)
  rw [List.nil_append] at hinv
  exact ⟨bb, hall, hinv.counter, hinv.lastKey, BlockBuild.finish_wf ri bb kvs hinv⟩

end Sst

#print axioms Sst.blockBuilder_wf
