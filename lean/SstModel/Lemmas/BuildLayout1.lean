import SstModel.Lemmas.Sink
import SstModel.Lemmas.Builder
import SstModel.Lemmas.BlockBuild
import SstModel.Lemmas.BlockValidateComplete
import SstModel.Lemmas.BlockVerify
import SstModel.Lemmas.Bloom
import SstModel.Lemmas.Codec
import SstModel.Lemmas.TableSpec
import SstModel.Lemmas.CmpLaws
import SstModel.Lemmas.SpecBlockComplete
/-
  C05 (writer side), part 1: basic facts used by the layout proof.
  * `writeBlock` on a perfect sink, phrased with `physicalBlock`
  * reading a physical block back out of an image (`blockAt`)
  * `Spec.StrictSorted` versus `List.Pairwise`
  * a size bound for block builders
  * the filter block builder: runs over appended event lists, success of `startBlock`
-/
namespace Sst
namespace BL

/-! ### perfect sink -/

/-- the bytes `write_block` stores for (uncompressed) `blk` under compression tag `ct` -/
def sdata (o : WOpts) (blk : Bytes) (ct : Nat) : Bytes :=
  if ct = Consts.compressionSnappy then o.compress blk else blk

theorem sdata_zero (o : WOpts) (blk : Bytes) : sdata o blk Consts.compressionNone = blk := by
  simp [sdata, Consts.compressionNone, Consts.compressionSnappy]

/-- stage 1: `write_block` on a perfect sink -/
theorem writeBlock_perfect' (b : TableBuilder) (blk : Bytes) (ct : Nat) (hs : b.sink.sched = []) :
    ∃ s', b.writeBlock blk ct =
        ({ b with sink := s', offset := b.offset + (sdata b.opt blk ct).length + 5 },
          .ok ⟨b.offset, (sdata b.opt blk ct).length⟩) ∧
      s'.sched = [] ∧
      s'.received = b.sink.received ++ physicalBlock (sdata b.opt blk ct) (UInt8.ofNat ct) :=
  TableBuilder.writeBlock_perfect b blk ct hs

theorem physicalBlock_length (data : Bytes) (ty : UInt8) :
    (physicalBlock data ty).length = data.length + 5 := by
  simp [physicalBlock, encodeFixed32]

/-! ### reading back -/

theorem cleanBuf_mid (pre mid post : Bytes) :
    cleanBuf (pre ++ mid ++ post) pre.length mid.length = mid := by
  unfold cleanBuf
  have h1 : ((pre ++ mid ++ post).drop pre.length).take mid.length = mid := by
    rw [List.append_assoc, List.drop_left, List.take_left]
  rw [h1]
  have h2 : mid.length - min mid.length ((pre ++ mid ++ post).length - pre.length) = 0 := by
    simp only [List.length_append]; omega
  rw [h2]; simp

/-- stage 4: the block written at `pre.length` is read back by a fault-free reader -/
theorem blockAt_phys (pre data : Bytes) (ty : UInt8) (post : Bytes) :
    blockAt (pre ++ physicalBlock data ty ++ post) ⟨pre.length, data.length⟩ =
      (if ty.toNat = 0 then .ok data
       else if ty.toNat = 1 then
         (match Snappy.decode data with
          | some d => .ok d
          | none => .err .compressionError)
       else .err .invalidData) := by
  unfold blockAt
  have hl : data.length + Consts.tableBlockCksumLen + Consts.tableBlockCompressLen
      = (physicalBlock data ty).length := by
    rw [physicalBlock_length]; rfl
  show verifyBlock (cleanBuf _ pre.length (data.length + Consts.tableBlockCksumLen
    + Consts.tableBlockCompressLen)) data.length = _
  rw [hl, cleanBuf_mid]
  have := verifyBlock_physical data ty []
  rwa [List.append_nil] at this

theorem blockAt_phys_zero (pre data post : Bytes) :
    blockAt (pre ++ physicalBlock data (UInt8.ofNat 0) ++ post) ⟨pre.length, data.length⟩ = .ok data := by
  rw [blockAt_phys]; rfl

theorem inBounds_phys (pre data : Bytes) (ty : UInt8) (post : Bytes)
    (h : (pre ++ physicalBlock data ty ++ post).length < 2 ^ 64) :
    InBounds ⟨pre.length, data.length⟩ (pre ++ physicalBlock data ty ++ post).length := by
  unfold InBounds
  simp only [List.length_append, physicalBlock_length, Consts.tableBlockCompressLen,
    Consts.tableBlockCksumLen] at h ⊢
  omega

/-! ### sortedness -/

theorem strictSorted_cons {cmp : Cmp} {a : Spec.Entry} {l : List Spec.Entry} :
    Spec.StrictSorted cmp (a :: l) ↔
      (∀ b, l.head? = some b → cmp.cmp a.1 b.1 = .lt) ∧ Spec.StrictSorted cmp l := by
  cases l with
  | nil => simp [Spec.StrictSorted]
  | cons b r => simp [Spec.StrictSorted, Spec.keyLt]

theorem pairwise_of_strictSorted {cmp : Cmp} (hl : cmp.Lawful) :
    ∀ l : List Spec.Entry, Spec.StrictSorted cmp l → l.Pairwise (fun a b => cmp.cmp a.1 b.1 = .lt)
  | [], _ => List.Pairwise.nil
  | [a], _ => by simp
  | a :: b :: r, h => by
    have hab : cmp.cmp a.1 b.1 = .lt := by simpa [Spec.keyLt] using h.1
    have ih := pairwise_of_strictSorted hl (b :: r) h.2
    refine List.pairwise_cons.2 ⟨?_, ih⟩
    intro c hc
    rcases List.mem_cons.1 hc with rfl | hc
    · exact hab
    · exact hl.trans _ _ _ hab ((List.pairwise_cons.1 ih).1 c hc)

theorem strictSorted_of_pairwise {cmp : Cmp} :
    ∀ l : List Spec.Entry, l.Pairwise (fun a b => cmp.cmp a.1 b.1 = .lt) → Spec.StrictSorted cmp l
  | [], _ => trivial
  | [a], _ => trivial
  | a :: b :: r, h => by
    rw [List.pairwise_cons] at h
    exact ⟨by simp [Spec.keyLt, h.1 b (by simp)], strictSorted_of_pairwise (b :: r) h.2⟩

theorem strictSorted_iff {cmp : Cmp} (hl : cmp.Lawful) (l : List Spec.Entry) :
    Spec.StrictSorted cmp l ↔ l.Pairwise (fun a b => cmp.cmp a.1 b.1 = .lt) :=
  ⟨pairwise_of_strictSorted hl l, strictSorted_of_pairwise l⟩

/-- the last key of an entry list, as `BlockBuild.Inv.lastKey` phrases it -/
def lastKey (kvs : List (Bytes × Bytes)) : Bytes := (kvs.getLast?.map (·.1)).getD []

theorem lastKey_snoc (l : List (Bytes × Bytes)) (k v : Bytes) : lastKey (l ++ [(k, v)]) = k := by
  simp [lastKey]

theorem exists_snoc_of_ne_nil {α} (l : List α) (h : l ≠ []) : ∃ l' a, l = l' ++ [a] :=
  ⟨l.dropLast, l.getLast h, (List.dropLast_concat_getLast h).symm⟩

theorem lastKey_mem (l : List (Bytes × Bytes)) (h : l ≠ []) : ∃ v, (lastKey l, v) ∈ l := by
  obtain ⟨l', ⟨k, v⟩, rfl⟩ := exists_snoc_of_ne_nil l h
  exact ⟨v, by simp [lastKey_snoc]⟩

/-- in a sorted list every key is ≤ the last key -/
theorem le_lastKey {cmp : Cmp} (hl : cmp.Lawful) (l : List Spec.Entry) (hs : Spec.StrictSorted cmp l)
    (e : Spec.Entry) (he : e ∈ l) : cmp.cmp e.1 (lastKey l) ≠ .gt := by
  have hne : l ≠ [] := by intro h; rw [h] at he; cases he
  obtain ⟨l', ⟨k, v⟩, rfl⟩ := exists_snoc_of_ne_nil l hne
  rw [lastKey_snoc]
  have hp := pairwise_of_strictSorted hl _ hs
  rw [List.pairwise_append] at hp
  rcases List.mem_append.1 he with h | h
  · rw [hp.2.2 e h (k, v) (by simp)]; simp
  · simp only [List.mem_singleton] at h
    subst h
    rw [hl.refl]; simp

/-! ### varint lengths and block builder sizes -/

/-- length of the varint encoding -/
def vlen (n : Nat) : Nat := (encodeVarint n).length

theorem vlen_pos (n : Nat) : 0 < vlen n := encodeVarint_length_pos n

theorem vlen_mono : ∀ (b a : Nat), a ≤ b → vlen a ≤ vlen b := by
  intro b
  induction b using Nat.strongRecOn with
  | _ b ih =>
    intro a hab
    unfold vlen
    by_cases ha : a < 128
    · rw [encodeVarint_lt a ha]
      have := encodeVarint_length_pos b
      simp only [List.length_cons, List.length_nil]
      omega
    · have hb : ¬ b < 128 := by omega
      rw [encodeVarint_ge a ha, encodeVarint_ge b hb]
      simp only [List.length_cons]
      have := ih (b / 128) (by omega) (a / 128) (Nat.div_le_div_right hab)
      unfold vlen at this
      omega

theorem vlen_le5 (n : Nat) (h : n < 2 ^ 32) : vlen n ≤ 5 :=
  TableBuilder.encodeVarint_length_le 4 n (by omega)

theorem vlen_le1 (n : Nat) (h : n < 128) : vlen n = 1 := by
  unfold vlen; rw [encodeVarint_lt n h]; rfl

/-- an upper bound on what one entry adds to a block (entry bytes plus a possible restart) -/
def cost (e : Bytes × Bytes) : Nat := 2 * vlen e.1.length + vlen e.2.length + e.1.length + e.2.length + 4

def costs (kvs : List (Bytes × Bytes)) : Nat := (kvs.map cost).sum

theorem costs_append (a b : List (Bytes × Bytes)) : costs (a ++ b) = costs a + costs b := by
  simp [costs]

/-- size invariant of a builder holding `kvs`; and (for the Spec bridge of C05) the entry headers of
    the buffer are exact (`SBC.ExactBody`: the independent decoder reads the same header numbers) -/
def SzB (b : BlockBuilder) (kvs : List (Bytes × Bytes)) : Prop :=
  b.buffer.length + 4 * b.restarts.length ≤ costs kvs + 4 ∧ SBC.ExactBody b

theorem szB_new (ri : Nat) : SzB (BlockBuilder.new ri) [] :=
  ⟨by simp [BlockBuilder.new, costs], SBC.exact_new ri⟩

theorem szB_add {cmp : Cmp} {b b' : BlockBuilder} {kvs : List (Bytes × Bytes)} {key val : Bytes}
    (h : b.add cmp key val = .ok b') (hsz : SzB b kvs) : SzB b' (kvs ++ [(key, val)]) := by
  refine ⟨?_, SBC.add_exact cmp b b' key val h hsz.2⟩
  replace hsz := hsz.1
  rw [costs_append]
  have hc : costs [(key, val)] = cost (key, val) := by simp [costs]
  rw [hc]
  unfold BlockBuilder.add at h
  simp only [assert] at h
  split at h
  · split at h
    · simp only [Res.bind_ok, Res.pure_eq] at h
      split at h
      · rename_i hlt
        simp only [Res.ok.injEq] at h
        subst h
        have h1 := vlen_mono key.length (BlockBuilder.sharedLen b.lastKey key)
          (BlockBuild.sharedLen_le_right _ _)
        have h2 := vlen_mono key.length (key.length - BlockBuilder.sharedLen b.lastKey key) (by omega)
        simp only [List.length_append, List.length_drop, cost]
        unfold vlen at h1 h2 ⊢
        omega
      · simp only [Res.ok.injEq] at h
        subst h
        have h0 : vlen 0 = 1 := vlen_le1 0 (by omega)
        have h1 := vlen_pos key.length
        simp only [List.length_append, List.length_drop, cost, List.length_cons, List.length_nil,
          Nat.sub_zero]
        unfold vlen at h0 h1 ⊢
        omega
    · simp at h
  · simp at h

theorem finish_length_le {b : BlockBuilder} {kvs : List (Bytes × Bytes)} (h : SzB b kvs) :
    b.finish.length ≤ costs kvs + 8 := by
  rw [BlockBuild.finish_length]; have := h.1; omega

/-- `add` onto a builder in state `Inv`: success, invariant, size -/
theorem bb_add (cmp : Cmp) (ri : Nat) (hri : 1 ≤ ri) (b : BlockBuilder)
    (kvs : List (Bytes × Bytes)) (key val : Bytes) (hinv : BlockBuild.Inv ri b kvs) (hsz : SzB b kvs)
    (hlt : kvs = [] ∨ cmp.cmp (lastKey kvs) key = .lt) :
    ∃ b', b.add cmp key val = .ok b' ∧ BlockBuild.Inv ri b' (kvs ++ [(key, val)])
      ∧ SzB b' (kvs ++ [(key, val)]) := by
  have hlt' : kvs = [] ∨ cmp.cmp b.lastKey key = .lt := by
    rcases hlt with h | h
    · exact .inl h
    · right; rw [hinv.lastKey]; exact h
  obtain ⟨b', hadd, hinv'⟩ := BlockBuild.add_inv cmp ri hri b kvs key val hinv hlt'
  exact ⟨b', hadd, hinv', szB_add hadd hsz⟩

/-! ### filter block builder -/

theorem fbRun_append (p : FilterPolicy) : ∀ (e1 e2 : List FbEvent) (b : FilterBlockBuilder),
    fbRun p b (e1 ++ e2) = (fbRun p b e1 >>= fun b' => fbRun p b' e2)
  | [], e2, b => rfl
  | .key k :: e1, e2, b => by
    simp only [List.cons_append, fbRun]
    exact fbRun_append p e1 e2 _
  | .start o :: e1, e2, b => by
    simp only [List.cons_append, fbRun]
    cases b.startBlock p o with
    | ok b1 => simp only [Res.bind_ok]; exact fbRun_append p e1 e2 b1
    | err c => rfl
    | panic s => rfl
    | diverge => rfl

theorem fbRun_snoc_key (p : FilterPolicy) (evs : List FbEvent) (b0 b : FilterBlockBuilder) (k : Bytes)
    (h : fbRun p b0 evs = .ok b) : fbRun p b0 (evs ++ [.key k]) = .ok (b.addKey k) := by
  rw [fbRun_append, h]; rfl

theorem fbRun_snoc_start (p : FilterPolicy) (evs : List FbEvent) (b0 b b' : FilterBlockBuilder) (o : Nat)
    (h : fbRun p b0 evs = .ok b) (hs : b.startBlock p o = .ok b') :
    fbRun p b0 (evs ++ [.start o]) = .ok b' := by
  rw [fbRun_append, h]
  simp only [Res.bind_ok, fbRun, hs]

open FilterBlockBuilder in
theorem generateUntil_len_ub (p : FilterPolicy) (ix : Nat) (hix : ix < 2 ^ 32) :
    ∀ (fuel : Nat) (b : FilterBlockBuilder), b.filterOffsets.length ≤ ix →
      (generateUntil p ix fuel b).filterOffsets.length ≤ ix
  | 0, _, h => h
  | fuel + 1, b, h => by
    unfold generateUntil
    split
    · rename_i hc
      rw [Nat.mod_eq_of_lt (by omega)] at hc
      exact generateUntil_len_ub p ix hix fuel _ (by rw [generateFilter_len]; omega)
    · exact h

/-- `start_block` succeeds as long as the offset is below 2^43 (no wrap of the u32 filter index)
    and the number of filters generated so far is at most the filter index of an earlier offset -/
theorem startBlock_succeeds (p : FilterPolicy) (b : FilterBlockBuilder) (off0 off : Nat)
    (h0 : b.filterOffsets.length ≤ off0 / 2048) (hle : off0 ≤ off) (hoff : off < 2 ^ 43) :
    ∃ b', b.startBlock p off = .ok b' ∧ b'.filterOffsets.length ≤ off / 2048 := by
  have hix : FilterBlockBuilder.filterIndex off Consts.filterBaseLog2 = off / 2048 := by
    unfold FilterBlockBuilder.filterIndex
    have : (2:Nat) ^ Consts.filterBaseLog2 = 2048 := by decide
    rw [this, Nat.mod_eq_of_lt (by omega)]
  have hmono : off0 / 2048 ≤ off / 2048 := Nat.div_le_div_right hle
  have hlt : off / 2048 < 2 ^ 32 := by omega
  unfold FilterBlockBuilder.startBlock assert
  simp only [hix]
  rw [if_pos (by rw [decide_eq_true_iff, Nat.mod_eq_of_lt (by omega)]; omega)]
  exact ⟨_, rfl, generateUntil_len_ub p _ hlt _ _ (by omega)⟩

/-- the finished filter block passes the reader's validation -/
theorem filter_finish_wf (p : FilterPolicy) (b : FilterBlockBuilder)
    (hsize : (b.finish p).length < 2 ^ 32) :
    FilterBlockReader.isWellFormed (b.finish p) = true ∧ 5 ≤ (b.finish p).length := by
  have key : ∀ (A X : Bytes), (A ++ X ++ encodeFixed32 A.length ++ [UInt8.ofNat Consts.filterBaseLog2]).length < 2 ^ 32 →
      FilterBlockReader.isWellFormed (A ++ X ++ encodeFixed32 A.length ++ [UInt8.ofNat Consts.filterBaseLog2]) = true
      ∧ 5 ≤ (A ++ X ++ encodeFixed32 A.length ++ [UInt8.ofNat Consts.filterBaseLog2]).length := by
    intro A X hlen
    have hl : (A ++ X ++ encodeFixed32 A.length ++ [UInt8.ofNat Consts.filterBaseLog2]).length
        = A.length + X.length + 5 := by
      simp [encodeFixed32]; omega
    refine ⟨?_, by omega⟩
    unfold FilterBlockReader.isWellFormed
    rw [if_neg (by omega)]
    have hlast : ((A ++ X ++ encodeFixed32 A.length ++ [UInt8.ofNat Consts.filterBaseLog2]).getD
        ((A ++ X ++ encodeFixed32 A.length ++ [UInt8.ofNat Consts.filterBaseLog2]).length - 1) 0).toNat
        = Consts.filterBaseLog2 := by
      have e : (A ++ X ++ encodeFixed32 A.length ++ [UInt8.ofNat Consts.filterBaseLog2]).length - 1
          = (A ++ X ++ encodeFixed32 A.length).length := by
        simp [encodeFixed32]
      rw [e, List.getD_eq_getElem?_getD, List.getElem?_concat_length]; rfl
    have hoo : decodeFixed32 (((A ++ X ++ encodeFixed32 A.length ++ [UInt8.ofNat Consts.filterBaseLog2]).drop
        ((A ++ X ++ encodeFixed32 A.length ++ [UInt8.ofNat Consts.filterBaseLog2]).length - 5)).take 4)
        = A.length := by
      have := drop_take_mid (A ++ X) (encodeFixed32 A.length) [UInt8.ofNat Consts.filterBaseLog2]
        (A.length + X.length + 5 - 5) 4 (by simp) rfl
      rw [hl, this]
      apply decode_encodeFixed32_of_lt; omega
    rw [hlast, hoo, hl]
    simp [Consts.filterBaseLog2]
  unfold FilterBlockBuilder.finish at hsize ⊢
  exact key _ _ hsize

end BL
end Sst
