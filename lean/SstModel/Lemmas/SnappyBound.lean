import SstModel.Model.Snappy
import SstModel.Generated.Consts
/-
  The snappy decoder cannot expand its input by more than a constant factor, and a successful
  decode produces exactly the declared length. Hence the guard of fix D20
  (`declared > buf.len() * SNAPPY_MAX_EXPANSION` ⇒ CompressionError) never rejects a stream that
  `decompress_vec` would have accepted.
-/
namespace Sst.Snappy
open Sst

theorem leNat_some_length : ∀ (bs : Bytes) (n : Nat) {v : Nat}, leNat bs n = some v → n ≤ bs.length
  | _, 0, _, _ => Nat.zero_le _
  | [], _ + 1, _, h => by simp [leNat] at h
  | b :: rest, n + 1, v, h => by
    simp only [leNat, Option.map_eq_some_iff] at h
    obtain ⟨v', hv', _⟩ := h
    have := leNat_some_length rest n hv'
    simp only [List.length_cons]; omega

theorem copyBack_length_eq (offset : Nat) (h0 : offset ≠ 0) :
    ∀ (len : Nat) (outRev : Bytes), offset ≤ outRev.length →
      (copyBack outRev offset len).length = outRev.length + len
  | 0, outRev, _ => by simp [copyBack]
  | len + 1, outRev, h => by
    have hlt : offset - 1 < outRev.length := by omega
    simp only [copyBack, List.getElem?_eq_getElem hlt]
    rw [copyBack_length_eq offset h0 len _ (by simp only [List.length_cons]; omega)]
    simp only [List.length_cons]; omega

/-- invariant of the element loop: the result has exactly `total` bytes, and every element
    produces at most 22 bytes per byte it consumes -/
theorem elements_inv : ∀ (fuel : Nat) (src outRev : Bytes) (produced total : Nat) (d : Bytes),
    elements fuel src outRev produced total = some d → produced = outRev.length →
    d.length = total ∧ d.length ≤ outRev.length + 22 * src.length := by
  intro fuel
  induction fuel with
  | zero => intro src outRev produced total d h; unfold elements at h; cases h
  | succ fuel ih =>
    intro src outRev produced total d h hp
    unfold elements at h
    cases src with
    | nil =>
      simp only at h
      split at h
      · rename_i hpt; injection h with h; subst h
        simp only [List.length_reverse, List.length_nil]; omega
      · cases h
    | cons tag rest =>
      simp only at h
      have htag : tag.toNat < 256 := UInt8.toNat_lt tag
      split at h
      · -- literal
        split at h
        · cases h
        · rename_i len rest' hlr
          split at h
          · cases h
          · rename_i hnot
            have hlen : len ≤ rest'.length ∧ len ≤ total - produced := by omega
            have := ih _ _ _ _ _ h (by simp [hp, List.length_take, Nat.min_eq_left hlen.1]; omega)
            have hrest' : rest'.length ≤ rest.length := by
              split at hlr
              · injection hlr with hlr; injection hlr with h1 h2; subst h2; exact Nat.le_refl _
              · split at hlr
                · cases hlr
                · injection hlr with hlr; injection hlr with h1 h2; subst h2; simp
            simp only [List.length_append, List.length_reverse, List.length_take, List.length_drop,
              List.length_cons, Nat.min_eq_left hlen.1] at this ⊢
            omega
      · -- copy
        split at h
        · cases h
        · rename_i len offset rest' hc
          split at h
          · cases h
          · rename_i hnot
            have hoff : offset ≠ 0 ∧ offset ≤ produced ∧ len ≤ total - produced := by omega
            have hcl := copyBack_length_eq offset hoff.1 len outRev (by omega)
            have := ih _ _ _ _ _ h (by rw [hcl]; omega)
            have hb : len + 22 * rest'.length ≤ 22 * (rest.length + 1) := by
              split at hc
              · split at hc
                · injection hc with hc; injection hc with h1 hc; injection hc with h2 h3
                  subst h3; subst h1; simp only [List.length_cons]; omega
                · cases hc
              · split at hc
                · split at hc
                  · rename_i v hv
                    have := leNat_some_length _ _ hv
                    injection hc with hc; injection hc with h1 hc; injection hc with h2 h3
                    subst h3; subst h1; simp only [List.length_drop]; omega
                  · cases hc
                · split at hc
                  · rename_i v hv
                    have := leNat_some_length _ _ hv
                    injection hc with hc; injection hc with h1 hc; injection hc with h2 h3
                    subst h3; subst h1; simp only [List.length_drop]; omega
                  · cases hc
            simp only [List.length_cons] at this ⊢
            rw [hcl] at this
            omega

/-- a successful decode produces exactly the declared number of bytes -/
theorem decode_declared {input d : Bytes} (h : decode input = some d) :
    declaredLen input = some d.length := by
  unfold decode at h
  split at h
  · cases h
  · rename_i hne
    split at h
    · cases h
    · rename_i total hlen hh
      have := (elements_inv _ _ _ _ _ _ h rfl).1
      unfold declaredLen
      split
      · exact absurd rfl (hne)
      · simp [hh, this]

/-- the decoder expands its input at most 22-fold (a copy with a 2-byte offset: 64 bytes from 3) -/
theorem decode_length_le {input d : Bytes} (h : decode input = some d) :
    d.length ≤ 22 * input.length := by
  unfold decode at h
  split at h
  · cases h
  · split at h
    · cases h
    · rename_i total hlen hh
      have := (elements_inv _ _ _ _ _ _ h rfl).2
      simp only [List.length_nil, List.length_drop, Nat.zero_add] at this
      omega

/-- streams the decoder accepts pass the guard of fix D20 -/
theorem decode_passes_guard {input d : Bytes} (h : decode input = some d) :
    ∃ n, declaredLen input = some n ∧ n ≤ Consts.snappyMaxExpansion * input.length := by
  refine ⟨d.length, decode_declared h, ?_⟩
  have := decode_length_le h
  show d.length ≤ 32 * input.length
  omega

/-- when `decompress_len` fails, so does `decompress_vec` (same header parsing) -/
theorem declaredLen_none_decode {input : Bytes} (h : declaredLen input = none) :
    decode input = none := by
  unfold declaredLen at h
  unfold decode
  split
  · rfl
  · split at h
    · cases h
    · rename_i hne _
      cases hh : header input 0 0 0 with
      | none => rfl
      | some p => simp [hh] at h

end Sst.Snappy

#print axioms Sst.Snappy.decode_declared
#print axioms Sst.Snappy.decode_length_le
#print axioms Sst.Snappy.decode_passes_guard
#print axioms Sst.Snappy.declaredLen_none_decode
