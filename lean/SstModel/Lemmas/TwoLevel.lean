import SstModel.Lemmas.CmpLaws
import SstModel.Spec.Map
/-
  Two-level (block index, index within block) positions versus positions in the flattened entry
  list: translation lemmas for the cursor, `lowerBound` and `lookup` of `Sst.Spec`.
-/
namespace Sst.TwoLevel
open Sst Sst.Spec

/-- flat index of position (bi, li) -/
def flatIdx {α} (bs : List (List α)) (bi li : Nat) : Nat := ((bs.take bi).map List.length).sum + li

/-! ### basic facts about `flatIdx` -/

theorem flatIdx_nil {α} (bi li : Nat) : flatIdx ([] : List (List α)) bi li = li := by
  simp [flatIdx]

theorem flatIdx_zero {α} (bs : List (List α)) (li : Nat) : flatIdx bs 0 li = li := by
  simp [flatIdx]

theorem flatIdx_cons_succ {α} (a : List α) (rest : List (List α)) (n li : Nat) :
    flatIdx (a :: rest) (n + 1) li = a.length + flatIdx rest n li := by
  simp [flatIdx]; omega

theorem flatIdx_eq_add {α} (bs : List (List α)) (bi li : Nat) :
    flatIdx bs bi li = flatIdx bs bi 0 + li := by
  simp [flatIdx]

theorem flatIdx_eq_length_take {α} (bs : List (List α)) (bi li : Nat) :
    flatIdx bs bi li = (bs.take bi).flatten.length + li := by
  simp [flatIdx, List.length_flatten]

theorem flat_getElem {α} (bs : List (List α)) (bi li : Nat) (b : List α) (hb : bs[bi]? = some b)
    (hl : li < b.length) : bs.flatten[flatIdx bs bi li]? = b[li]? := by
  induction bs generalizing bi with
  | nil => simp at hb
  | cons a rest ih =>
    cases bi with
    | zero =>
      simp at hb; subst hb
      rw [flatIdx_zero, List.flatten_cons, List.getElem?_append_left hl]
    | succ n =>
      simp at hb
      rw [flatIdx_cons_succ, List.flatten_cons, List.getElem?_append_right (by omega)]
      simpa using ih n hb

theorem flatIdx_lt {α} (bs : List (List α)) (bi li : Nat) (b : List α) (hb : bs[bi]? = some b)
    (hl : li < b.length) : flatIdx bs bi li < bs.flatten.length := by
  have h := flat_getElem bs bi li b hb hl
  rw [List.getElem?_eq_getElem hl] at h
  obtain ⟨h', _⟩ := List.getElem?_eq_some_iff.mp h
  exact h'

/-- step inside a block -/
theorem flatIdx_succ {α} (bs : List (List α)) (bi li : Nat) :
    flatIdx bs bi (li + 1) = flatIdx bs bi li + 1 := by
  simp [flatIdx]; omega

/-- one more block -/
theorem flatIdx_block_succ {α} (bs : List (List α)) (bi : Nat) :
    flatIdx bs (bi + 1) 0 = flatIdx bs bi 0 + (bs[bi]?.toList.map List.length).sum := by
  simp [flatIdx, List.take_add_one]

/-- step over a block boundary -/
theorem flatIdx_next_block {α} (bs : List (List α)) (bi : Nat) (b : List α) (hb : bs[bi]? = some b) :
    flatIdx bs (bi + 1) 0 = flatIdx bs bi b.length := by
  rw [flatIdx_block_succ, flatIdx_eq_add bs bi b.length, hb]; simp

/-- the position after the last entry of the last block is the end -/
theorem flatIdx_end {α} (bs : List (List α)) : flatIdx bs bs.length 0 = bs.flatten.length := by
  simp [flatIdx, List.length_flatten]

theorem flatIdx_zero_mono {α} (bs : List (List α)) {i j : Nat} (h : i ≤ j) :
    flatIdx bs i 0 ≤ flatIdx bs j 0 := by
  induction h with
  | refl => exact Nat.le_refl _
  | step _ ih => rw [flatIdx_block_succ]; omega

/-- positions in an earlier block come before positions in a later block -/
theorem flatIdx_lt_of_block_lt {α} (bs : List (List α)) (bi li bi' li' : Nat) (b : List α)
    (hb : bs[bi]? = some b) (hl : li < b.length) (h : bi < bi') :
    flatIdx bs bi li < flatIdx bs bi' li' := by
  have h1 := flatIdx_next_block bs bi b hb
  have h2 := flatIdx_zero_mono bs (show bi + 1 ≤ bi' by omega)
  rw [flatIdx_eq_add bs bi li, flatIdx_eq_add bs bi' li']
  rw [flatIdx_eq_add bs bi b.length] at h1
  omega

/-- every flat index decomposes (blocks non-empty; the hypothesis `hne` is in fact not needed) -/
theorem flat_decompose {α} (bs : List (List α)) (hne : ∀ b ∈ bs, b ≠ []) (g : Nat)
    (hg : g < bs.flatten.length) :
    ∃ bi li b, bs[bi]? = some b ∧ li < b.length ∧ g = flatIdx bs bi li := by
  induction bs generalizing g with
  | nil => simp at hg
  | cons a rest ih =>
    by_cases hga : g < a.length
    · exact ⟨0, g, a, by simp, hga, by rw [flatIdx_zero]⟩
    · have hg' : g - a.length < rest.flatten.length := by
        rw [List.flatten_cons, List.length_append] at hg; omega
      obtain ⟨bi, li, b, hb, hl, he⟩ :=
        ih (fun b hb => hne b (List.mem_cons_of_mem _ hb)) _ hg'
      exact ⟨bi + 1, li, b, by simpa using hb, hl, by rw [flatIdx_cons_succ]; omega⟩

/-- the decomposition is unique -/
theorem flatIdx_inj {α} (bs : List (List α)) (bi li bi' li' : Nat) (b b' : List α)
    (hb : bs[bi]? = some b) (hl : li < b.length) (hb' : bs[bi']? = some b') (hl' : li' < b'.length)
    (h : flatIdx bs bi li = flatIdx bs bi' li') : bi = bi' ∧ li = li' := by
  rcases Nat.lt_trichotomy bi bi' with hlt | heq | hgt
  · have := flatIdx_lt_of_block_lt bs bi li bi' li' b hb hl hlt; omega
  · subst heq
    rw [flatIdx_eq_add bs bi li, flatIdx_eq_add bs bi li'] at h
    exact ⟨rfl, by omega⟩
  · have := flatIdx_lt_of_block_lt bs bi' li' bi li b' hb' hl' hgt; omega

/-- bs.flatten splits around block `bi` -/
theorem flatten_split {α} (bs : List (List α)) (bi : Nat) (b : List α) (hb : bs[bi]? = some b) :
    bs.flatten = (bs.take bi).flatten ++ (b ++ (bs.drop (bi + 1)).flatten) := by
  obtain ⟨hlt, hbe⟩ := List.getElem?_eq_some_iff.mp hb
  conv => lhs; rw [← List.take_append_drop bi bs]
  rw [List.flatten_append, List.drop_eq_getElem_cons hlt, List.flatten_cons, hbe]

/-! ### Spec cursor steps in two-level form -/

theorem advance_inside (bs : List (List Entry)) (bi li : Nat) (b) (hb : bs[bi]? = some b)
    (hl : li + 1 < b.length) :
    Spec.advance bs.flatten (some (flatIdx bs bi li)) = (some (flatIdx bs bi (li + 1)), true) := by
  have h := flatIdx_lt bs bi (li + 1) b hb hl
  rw [flatIdx_succ] at h ⊢
  simp only [Spec.advance]; rw [if_pos h]

theorem advance_cross (bs : List (List Entry)) (hne : ∀ b ∈ bs, b ≠ []) (bi li : Nat) (b nb)
    (hb : bs[bi]? = some b) (hl : li + 1 = b.length) (hn : bs[bi + 1]? = some nb) :
    Spec.advance bs.flatten (some (flatIdx bs bi li)) = (some (flatIdx bs (bi + 1) 0), true) := by
  have hnb : 0 < nb.length := List.length_pos_iff.mpr (hne nb (List.mem_of_getElem? hn))
  have h := flatIdx_lt bs (bi + 1) 0 nb hn hnb
  have he : flatIdx bs (bi + 1) 0 = flatIdx bs bi li + 1 := by
    rw [flatIdx_next_block bs bi b hb, ← hl, flatIdx_succ]
  rw [he] at h ⊢
  simp only [Spec.advance]; rw [if_pos h]

theorem advance_last (bs : List (List Entry)) (bi li : Nat) (b) (hb : bs[bi]? = some b)
    (hl : li + 1 = b.length) (hn : bs[bi + 1]? = none) :
    Spec.advance bs.flatten (some (flatIdx bs bi li)) = (none, false) := by
  obtain ⟨hlt, _⟩ := List.getElem?_eq_some_iff.mp hb
  have hle : bs.length ≤ bi + 1 := List.getElem?_eq_none_iff.mp hn
  have hlen : bi + 1 = bs.length := by omega
  have he : flatIdx bs bi li + 1 = bs.flatten.length := by
    rw [← flatIdx_end, ← hlen, flatIdx_next_block bs bi b hb, ← hl, flatIdx_succ]
  simp only [Spec.advance]; rw [if_neg (by omega)]

theorem advance_none (bs : List (List Entry)) (hne : ∀ b ∈ bs, b ≠ []) :
    Spec.advance bs.flatten none =
      (if bs = [] then (none, false) else (some (flatIdx bs 0 0), true)) := by
  cases bs with
  | nil => simp [Spec.advance]
  | cons a rest =>
    have ha : a ≠ [] := hne a (by simp)
    simp [Spec.advance, flatIdx_zero, ha]

theorem prev_inside (bs : List (List Entry)) (bi li : Nat) (hl : 0 < li) :
    Spec.prevValid (flatIdx bs bi li) = (some (flatIdx bs bi (li - 1)), true) := by
  obtain ⟨n, rfl⟩ : ∃ n, li = n + 1 := ⟨li - 1, by omega⟩
  rw [flatIdx_succ]
  simp [Spec.prevValid]

theorem prev_cross (bs : List (List Entry)) (hne : ∀ b ∈ bs, b ≠ []) (bi : Nat) (pb)
    (hp : bs[bi]? = some pb) :
    Spec.prevValid (flatIdx bs (bi + 1) 0) = (some (flatIdx bs bi (pb.length - 1)), true) := by
  have hpb : 0 < pb.length := List.length_pos_iff.mpr (hne pb (List.mem_of_getElem? hp))
  rw [flatIdx_next_block bs bi pb hp]
  exact prev_inside bs bi pb.length hpb

theorem prev_first (bs : List (List Entry)) : Spec.prevValid (flatIdx bs 0 0) = (none, false) := by
  simp [Spec.prevValid, flatIdx_zero]

/-! ### characterisation of `lowerBound` and `lookup` -/

theorem keyLt_iff (cmp : Cmp) (a b : Bytes) : keyLt cmp a b = true ↔ cmp.cmp a b = .lt := by
  simp [keyLt]

theorem lowerBound_nil (cmp : Cmp) (t : Bytes) : lowerBound cmp [] t = none := by
  simp [lowerBound]

theorem lowerBound_cons (cmp : Cmp) (a : Entry) (l : List Entry) (t : Bytes) :
    lowerBound cmp (a :: l) t =
      if keyLt cmp a.1 t = true then (lowerBound cmp l t).map (· + 1) else some 0 := by
  unfold lowerBound
  by_cases hp : keyLt cmp a.1 t = true
  · simp only [List.takeWhile_cons, hp, if_true, List.length_cons]
    by_cases hq : (List.takeWhile (fun e => keyLt cmp e.1 t) l).length < l.length
    · simp [hq]
    · simp [hq]
  · simp [hp]

/-- `lowerBound` is `none` iff every key is below `t` (no sortedness needed) -/
theorem lowerBound_eq_none_iff (cmp : Cmp) (es : List Entry) (t : Bytes) :
    lowerBound cmp es t = none ↔ ∀ e ∈ es, cmp.cmp e.1 t = .lt := by
  induction es with
  | nil => simp [lowerBound_nil]
  | cons a l ih =>
    rw [lowerBound_cons]
    by_cases hp : keyLt cmp a.1 t = true
    · rw [if_pos hp]
      have hp' := (keyLt_iff _ _ _).mp hp
      simp [ih, hp']
    · rw [if_neg hp]
      have hp' : ¬ cmp.cmp a.1 t = .lt := fun h => hp ((keyLt_iff _ _ _).mpr h)
      simp [hp']

/-- `lowerBound` is `some i` iff `i` is the first index whose key is not below `t`
    (this form needs neither sortedness nor lawfulness) -/
theorem lowerBound_eq_some_iff' (cmp : Cmp) (es : List Entry) (t : Bytes) (i : Nat) :
    lowerBound cmp es t = some i ↔
      i < es.length ∧ (∀ j e, j < i → es[j]? = some e → cmp.cmp e.1 t = .lt) ∧
        (∀ e, es[i]? = some e → cmp.cmp e.1 t ≠ .lt) := by
  induction es generalizing i with
  | nil => simp [lowerBound_nil]
  | cons a l ih =>
    rw [lowerBound_cons]
    by_cases hp : keyLt cmp a.1 t = true
    · rw [if_pos hp]
      have hp' := (keyLt_iff _ _ _).mp hp
      cases i with
      | zero =>
        constructor
        · intro h; cases hl : lowerBound cmp l t <;> simp [hl] at h
        · rintro ⟨_, _, h3⟩; exact absurd hp' (h3 a (by simp))
      | succ n =>
        have : Option.map (· + 1) (lowerBound cmp l t) = some (n + 1) ↔ lowerBound cmp l t = some n := by
          cases hl : lowerBound cmp l t <;> simp
        rw [this, ih n]
        constructor
        · rintro ⟨h1, h2, h3⟩
          refine ⟨by simpa using h1, ?_, ?_⟩
          · intro j e hj he
            cases j with
            | zero => simp at he; subst he; exact hp'
            | succ j' => exact h2 j' e (by omega) (by simpa using he)
          · intro e he; exact h3 e (by simpa using he)
        · rintro ⟨h1, h2, h3⟩
          refine ⟨by simpa using h1, ?_, ?_⟩
          · intro j e hj he
            exact h2 (j + 1) e (by omega) (by simpa using he)
          · intro e he; exact h3 e (by simpa using he)
    · rw [if_neg hp]
      have hp' : ¬ cmp.cmp a.1 t = .lt := fun h => hp ((keyLt_iff _ _ _).mpr h)
      cases i with
      | zero =>
        simp only [true_iff]
        refine ⟨by simp, ?_, ?_⟩
        · intro j e hj; omega
        · intro e he; simp at he; subst he; exact hp'
      | succ n =>
        constructor
        · intro h; simp at h
        · rintro ⟨_, h2, _⟩; exact absurd (h2 0 a (by omega) (by simp)) hp'

/-- the same with `getElem` -/
theorem lowerBound_eq_some_iff (cmp : Cmp) (es : List Entry) (t : Bytes) (i : Nat) :
    lowerBound cmp es t = some i ↔
      ∃ h : i < es.length, (∀ j (hj : j < i), cmp.cmp (es[j]'(by omega)).1 t = .lt) ∧
        cmp.cmp es[i].1 t ≠ .lt := by
  rw [lowerBound_eq_some_iff']
  constructor
  · rintro ⟨h1, h2, h3⟩
    exact ⟨h1, fun j hj => h2 j _ hj (List.getElem?_eq_getElem (by omega)),
      h3 _ (List.getElem?_eq_getElem h1)⟩
  · rintro ⟨h1, h2, h3⟩
    refine ⟨h1, ?_, ?_⟩
    · intro j e hj he
      obtain ⟨hj', rfl⟩ := List.getElem?_eq_some_iff.mp he
      exact h2 j hj
    · intro e he
      obtain ⟨_, rfl⟩ := List.getElem?_eq_some_iff.mp he
      exact h3

theorem lowerBound_lt_length (cmp : Cmp) (es : List Entry) (t : Bytes) (i : Nat)
    (h : lowerBound cmp es t = some i) : i < es.length :=
  ((lowerBound_eq_some_iff' cmp es t i).mp h).1

/-- in a sorted list everything from the lower bound on is not below `t` -/
theorem lowerBound_ge_of_sorted (cmp : Cmp) (hc : cmp.Lawful) (es : List Entry)
    (hs : KeysSorted cmp (es.map (·.1))) (t : Bytes) (i : Nat) (h : lowerBound cmp es t = some i)
    (j : Nat) (hij : i ≤ j) (e : Entry) (he : es[j]? = some e) : cmp.cmp e.1 t ≠ .lt := by
  obtain ⟨hi, _, h3⟩ := (lowerBound_eq_some_iff cmp es t i).mp h
  obtain ⟨hj, rfl⟩ := List.getElem?_eq_some_iff.mp he
  rcases Nat.lt_or_ge i j with hlt | hge
  · have hp := List.pairwise_iff_getElem.mp hs i j (by simpa using hi) (by simpa using hj) hlt
    simp only [List.getElem_map] at hp
    intro hjt
    exact h3 (hc.trans _ _ _ hp hjt)
  · have : i = j := by omega
    subst this; exact h3

/-- for a strictly sorted list, it suffices to check the immediate predecessor -/
theorem lowerBound_eq_some_iff_sorted (cmp : Cmp) (hc : cmp.Lawful) (es : List Entry)
    (hs : KeysSorted cmp (es.map (·.1))) (t : Bytes) (i : Nat) :
    lowerBound cmp es t = some i ↔
      ∃ h : i < es.length, (∀ (hi : 0 < i), cmp.cmp (es[i - 1]'(by omega)).1 t = .lt) ∧
        cmp.cmp es[i].1 t ≠ .lt := by
  rw [lowerBound_eq_some_iff]
  constructor
  · rintro ⟨h1, h2, h3⟩
    exact ⟨h1, fun hi => h2 (i - 1) (by omega), h3⟩
  · rintro ⟨h1, h2, h3⟩
    refine ⟨h1, ?_, h3⟩
    intro j hj
    rcases Nat.lt_or_ge j (i - 1) with hlt | hge
    · have hp := List.pairwise_iff_getElem.mp hs j (i - 1) (by simp; omega) (by simp; omega) hlt
      simp only [List.getElem_map] at hp
      exact hc.trans _ _ _ hp (h2 (by omega))
    · have : j = i - 1 := by omega
      subst this; exact h2 (by omega)

theorem lowerBound_append_of_all (cmp : Cmp) (l1 l2 : List Entry) (t : Bytes)
    (h : ∀ e ∈ l1, cmp.cmp e.1 t = .lt) :
    lowerBound cmp (l1 ++ l2) t = (lowerBound cmp l2 t).map (l1.length + ·) := by
  induction l1 with
  | nil => simp
  | cons a l ih =>
    rw [List.cons_append, lowerBound_cons, if_pos ((keyLt_iff _ _ _).mpr (h a (by simp))),
      ih (fun e he => h e (by simp [he]))]
    cases lowerBound cmp l2 t with
    | none => simp
    | some n => simp; omega

theorem lowerBound_append_of_some (cmp : Cmp) (l1 l2 : List Entry) (t : Bytes) (i : Nat)
    (h : lowerBound cmp l1 t = some i) : lowerBound cmp (l1 ++ l2) t = some i := by
  induction l1 generalizing i with
  | nil => simp [lowerBound_nil] at h
  | cons a l ih =>
    rw [lowerBound_cons] at h
    rw [List.cons_append, lowerBound_cons]
    by_cases hp : keyLt cmp a.1 t = true
    · rw [if_pos hp] at h ⊢
      cases hl : lowerBound cmp l t with
      | none => simp [hl] at h
      | some n => rw [ih n hl]; simpa [hl] using h
    · rw [if_neg hp] at h ⊢
      exact h

theorem lookup_nil (cmp : Cmp) (k : Bytes) : lookup cmp [] k = none := by simp [lookup]

theorem lookup_cons (cmp : Cmp) (a : Entry) (l : List Entry) (k : Bytes) :
    lookup cmp (a :: l) k = if cmp.cmp a.1 k = .eq then some a.2 else lookup cmp l k := by
  unfold lookup
  by_cases h : cmp.cmp a.1 k = .eq
  · simp [h]
  · simp [h]

theorem lookup_eq_none_of_all_ne (cmp : Cmp) (l : List Entry) (k : Bytes)
    (h : ∀ e ∈ l, cmp.cmp e.1 k ≠ .eq) : lookup cmp l k = none := by
  induction l with
  | nil => exact lookup_nil cmp k
  | cons a l ih =>
    rw [lookup_cons, if_neg (h a (by simp))]
    exact ih (fun e he => h e (by simp [he]))

theorem lookup_append_of_left_ne (cmp : Cmp) (l1 l2 : List Entry) (k : Bytes)
    (h : ∀ e ∈ l1, cmp.cmp e.1 k ≠ .eq) : lookup cmp (l1 ++ l2) k = lookup cmp l2 k := by
  induction l1 with
  | nil => simp
  | cons a l ih =>
    rw [List.cons_append, lookup_cons, if_neg (h a (by simp))]
    exact ih (fun e he => h e (by simp [he]))

theorem lookup_append_of_right_ne (cmp : Cmp) (l1 l2 : List Entry) (k : Bytes)
    (h : ∀ e ∈ l2, cmp.cmp e.1 k ≠ .eq) : lookup cmp (l1 ++ l2) k = lookup cmp l1 k := by
  induction l1 with
  | nil => simpa [lookup_nil] using lookup_eq_none_of_all_ne cmp l2 k h
  | cons a l ih => rw [List.cons_append, lookup_cons, lookup_cons, ih]

/-- within one sorted block, lookup is "seek, then compare": -/
theorem lookup_via_lowerBound (cmp : Cmp) (hc : cmp.Lawful) (b : List Entry)
    (hs : KeysSorted cmp (b.map (·.1))) (k : Bytes) :
    Spec.lookup cmp b k = match Spec.lowerBound cmp b k with
      | some i => (match b[i]? with
          | some e => if cmp.cmp e.1 k = .eq then some e.2 else none
          | none => none)
      | none => none := by
  induction b with
  | nil => simp [lookup_nil, lowerBound_nil]
  | cons a l ih =>
    have hs' : (∀ x ∈ l, cmp.cmp a.1 x.1 = .lt) ∧ KeysSorted cmp (l.map (·.1)) := by
      simpa [KeysSorted, List.pairwise_cons] using hs
    rw [lookup_cons, lowerBound_cons]
    by_cases hp : keyLt cmp a.1 k = true
    · have hp' := (keyLt_iff _ _ _).mp hp
      rw [if_pos hp, if_neg (by rw [hp']; simp), ih hs'.2]
      cases lowerBound cmp l k with
      | none => simp
      | some n => simp
    · rw [if_neg hp]
      have hp' : ¬ cmp.cmp a.1 k = .lt := fun h => hp ((keyLt_iff _ _ _).mpr h)
      by_cases he : cmp.cmp a.1 k = .eq
      · simp [he]
      · simp only [List.getElem?_cons_zero, if_neg he]
        apply lookup_eq_none_of_all_ne
        intro x hx hxe
        have hax := hs'.1 x hx
        rw [hc.eq_imp _ _ hxe] at hax
        rcases hc.not_lt_iff.mp hp' with h1 | h1
        · exact hc.lt_asymm h1 hax
        · exact he (h1 ▸ hc.refl _)

/-! ### ordered tables -/

/-- table ordering hypotheses -/
structure Ordered (cmp : Cmp) (bs : List (List Entry)) (seps : List Bytes) : Prop where
  len : seps.length = bs.length
  nonempty : ∀ b ∈ bs, b ≠ []
  sorted : KeysSorted cmp (bs.flatten.map (·.1))
  sepGe : ∀ (i : Nat) (b : List Entry) (s : Bytes), bs[i]? = some b → seps[i]? = some s → ∀ e ∈ b, cmp.cmp e.1 s ≠ .gt
  sepLt : ∀ (i j : Nat) (s : Bytes) (b : List Entry), i < j → seps[i]? = some s → bs[j]? = some b → ∀ e ∈ b, cmp.cmp s e.1 = .lt

/-- the index keys themselves strictly increase -/
theorem Ordered.seps_sorted {cmp bs seps} (hc : cmp.Lawful) (h : Ordered cmp bs seps) :
    KeysSorted cmp seps := by
  unfold KeysSorted
  rw [List.pairwise_iff_getElem]
  intro i j hi hj hij
  have hjb : j < bs.length := h.len ▸ hj
  obtain ⟨e, he⟩ := List.exists_mem_of_ne_nil _ (h.nonempty bs[j] (List.getElem_mem hjb))
  have h1 := h.sepLt i j seps[i] bs[j] hij (List.getElem?_eq_getElem hi)
    (List.getElem?_eq_getElem hjb) e he
  have h2 := h.sepGe j bs[j] seps[j] (List.getElem?_eq_getElem hjb)
    (List.getElem?_eq_getElem hj) e he
  exact hc.lt_of_lt_of_le h1 h2

/-- each block is sorted -/
theorem Ordered.block_sorted {cmp bs seps} (h : Ordered cmp bs seps) (i : Nat) (b : List Entry)
    (hb : bs[i]? = some b) : KeysSorted cmp (b.map (·.1)) := by
  have hs := List.sublist_flatten_of_mem (List.mem_of_getElem? hb)
  exact List.Pairwise.sublist (hs.map _) h.sorted

/-- every key in a block before `bi` is at most that block's index key -/
theorem Ordered.mem_take {cmp bs seps} (h : Ordered cmp bs seps) (bi : Nat) (e : Entry)
    (he : e ∈ (bs.take bi).flatten) :
    ∃ j s, j < bi ∧ seps[j]? = some s ∧ cmp.cmp e.1 s ≠ .gt := by
  obtain ⟨b, hbm, heb⟩ := List.mem_flatten.mp he
  obtain ⟨j, hj, rfl⟩ := List.mem_take_iff_getElem.mp hbm
  have hjb : j < bs.length := by omega
  have hjs : j < seps.length := h.len ▸ hjb
  exact ⟨j, seps[j], by omega, List.getElem?_eq_getElem hjs,
    h.sepGe j _ _ (List.getElem?_eq_getElem hjb) (List.getElem?_eq_getElem hjs) e heb⟩

/-- every key in a block after `bi` is above the index key of block `bi` -/
theorem Ordered.mem_drop {cmp bs seps} (h : Ordered cmp bs seps) (bi : Nat) (s : Bytes)
    (hs : seps[bi]? = some s) (e : Entry) (he : e ∈ (bs.drop (bi + 1)).flatten) :
    cmp.cmp s e.1 = .lt := by
  obtain ⟨b, hbm, heb⟩ := List.mem_flatten.mp he
  obtain ⟨j, hj, rfl⟩ := List.mem_drop_iff_getElem.mp hbm
  exact h.sepLt bi (bi + 1 + j) s _ (by omega) hs (List.getElem?_eq_getElem (by omega)) e heb

/-- `lowerBound` over the index keys -/
theorem sep_lowerBound_none (cmp : Cmp) (seps : List Bytes) (t : Bytes)
    (h : lowerBound cmp (seps.map (fun s => (s, ([] : Bytes)))) t = none) :
    ∀ s ∈ seps, cmp.cmp s t = .lt := by
  intro s hs
  exact (lowerBound_eq_none_iff _ _ _).mp h (s, []) (List.mem_map.mpr ⟨s, hs, rfl⟩)

theorem sep_lowerBound_some (cmp : Cmp) (seps : List Bytes) (t : Bytes) (bi : Nat)
    (h : lowerBound cmp (seps.map (fun s => (s, ([] : Bytes)))) t = some bi) :
    bi < seps.length ∧ (∀ j s, j < bi → seps[j]? = some s → cmp.cmp s t = .lt) ∧
      (∀ s, seps[bi]? = some s → cmp.cmp s t ≠ .lt) := by
  obtain ⟨h1, h2, h3⟩ := (lowerBound_eq_some_iff' _ _ _ _).mp h
  refine ⟨by simpa using h1, ?_, ?_⟩
  · intro j s hj hs; exact h2 j (s, []) hj (by simp [hs])
  · intro s hs; exact h3 (s, []) (by simp [hs])

/-- seek in two levels: find the first block whose index key is not below t; in that block find the
    first entry not below t; if the block has none (t lies between the block's last key and its
    index key) the answer is the first entry of the next block -/
theorem lowerBound_two_level (cmp : Cmp) (hc : cmp.Lawful) (bs seps) (h : Ordered cmp bs seps)
    (t : Bytes) :
    Spec.lowerBound cmp bs.flatten t =
      match Spec.lowerBound cmp (seps.map (fun s => (s, ([] : Bytes)))) t with
      | none => none
      | some bi =>
        match Spec.lowerBound cmp (bs.getD bi []) t with
        | some li => some (flatIdx bs bi li)
        | none => if bi + 1 < bs.length then some (flatIdx bs (bi + 1) 0) else none := by
  cases hS : lowerBound cmp (seps.map fun s => (s, ([] : Bytes))) t with
  | none =>
    simp only
    rw [lowerBound_eq_none_iff]
    intro e he
    have hall := sep_lowerBound_none cmp seps t hS
    rw [← List.take_length (l := bs)] at he
    obtain ⟨j, s, _, hs, hle⟩ := h.mem_take bs.length e he
    exact hc.lt_of_le_of_lt hle (hall s (List.mem_of_getElem? hs))
  | some bi =>
    simp only
    obtain ⟨hbi, hlt, hge⟩ := sep_lowerBound_some cmp seps t bi hS
    have hbi' : bi < bs.length := h.len ▸ hbi
    have hb : bs[bi]? = some bs[bi] := List.getElem?_eq_getElem hbi'
    have hgetD : bs.getD bi [] = bs[bi] := by simp [hb]
    have hsep : seps[bi]? = some seps[bi] := List.getElem?_eq_getElem hbi
    have hpre : ∀ e ∈ (bs.take bi).flatten, cmp.cmp e.1 t = .lt := by
      intro e he
      obtain ⟨j, s, hj, hs, hle⟩ := h.mem_take bi e he
      exact hc.lt_of_le_of_lt hle (hlt j s hj hs)
    rw [hgetD, flatten_split bs bi _ hb, lowerBound_append_of_all _ _ _ _ hpre]
    cases hB : lowerBound cmp bs[bi] t with
    | some li =>
      rw [lowerBound_append_of_some _ _ _ _ _ hB]
      simp [flatIdx_eq_length_take]
    | none =>
      simp only
      rw [lowerBound_eq_none_iff] at hB
      rw [lowerBound_append_of_all _ _ _ _ hB]
      by_cases hnext : bi + 1 < bs.length
      · rw [if_pos hnext, List.drop_eq_getElem_cons hnext, List.flatten_cons]
        have hmem := List.getElem_mem hnext
        obtain ⟨e0, r, hnb⟩ := List.exists_cons_of_ne_nil (h.nonempty _ hmem)
        have he0 : ¬ keyLt cmp e0.1 t = true := by
          intro hk
          have hk' := (keyLt_iff _ _ _).mp hk
          have h1 := h.sepLt bi (bi + 1) _ _ (by omega) hsep (List.getElem?_eq_getElem hnext) e0
            (by rw [hnb]; simp)
          exact hge _ hsep (hc.trans _ _ _ h1 hk')
        rw [hnb, List.cons_append, lowerBound_cons, if_neg he0]
        simp [flatIdx_next_block bs bi _ hb, flatIdx_eq_length_take bs bi]
      · rw [if_neg hnext, List.drop_of_length_le (by omega)]
        simp [lowerBound_nil]

/-- point lookup in two levels -/
theorem lookup_two_level (cmp : Cmp) (hc : cmp.Lawful) (bs seps) (h : Ordered cmp bs seps)
    (k : Bytes) :
    Spec.lookup cmp bs.flatten k =
      match Spec.lowerBound cmp (seps.map (fun s => (s, ([] : Bytes)))) k with
      | none => none
      | some bi => Spec.lookup cmp (bs.getD bi []) k := by
  cases hS : lowerBound cmp (seps.map fun s => (s, ([] : Bytes))) k with
  | none =>
    simp only
    apply lookup_eq_none_of_all_ne
    intro e he
    have hall := sep_lowerBound_none cmp seps k hS
    rw [← List.take_length (l := bs)] at he
    obtain ⟨j, s, _, hs, hle⟩ := h.mem_take bs.length e he
    rw [hc.lt_of_le_of_lt hle (hall s (List.mem_of_getElem? hs))]; simp
  | some bi =>
    simp only
    obtain ⟨hbi, hlt, hge⟩ := sep_lowerBound_some cmp seps k bi hS
    have hbi' : bi < bs.length := h.len ▸ hbi
    have hb : bs[bi]? = some bs[bi] := List.getElem?_eq_getElem hbi'
    have hgetD : bs.getD bi [] = bs[bi] := by simp [hb]
    have hsep : seps[bi]? = some seps[bi] := List.getElem?_eq_getElem hbi
    have hpre : ∀ e ∈ (bs.take bi).flatten, cmp.cmp e.1 k ≠ .eq := by
      intro e he
      obtain ⟨j, s, hj, hs, hle⟩ := h.mem_take bi e he
      rw [hc.lt_of_le_of_lt hle (hlt j s hj hs)]; simp
    have hpost : ∀ e ∈ (bs.drop (bi + 1)).flatten, cmp.cmp e.1 k ≠ .eq := by
      intro e he heq
      have h1 := h.mem_drop bi _ hsep e he
      rw [hc.eq_imp _ _ heq] at h1
      exact hge _ hsep h1
    rw [hgetD, flatten_split bs bi _ hb, lookup_append_of_left_ne _ _ _ _ hpre,
      lookup_append_of_right_ne _ _ _ _ hpost]

end Sst.TwoLevel

#print axioms Sst.TwoLevel.lowerBound_two_level
#print axioms Sst.TwoLevel.lookup_two_level
#print axioms Sst.TwoLevel.lookup_via_lowerBound
