import SstModel.Spec.Lru
import SstModel.Props.ReaderWF
/-
  Helpers for C10 (the shared block cache is invisible):
  * the deterministic part of the Spec cursor (`Spec.NoBlindPrev`, `CS.detStep`, `CS.cursorRun_det`);
  * a `Frame` of table A keeps `WorldOK` of every table B with another cache id (`CS.worldOK_of_frame`);
  * `Table::read_block` on a data block, with the resulting world made explicit (`CS.readBlock_world`);
  * the list cache `LruCache` is the Spec LRU map (`CS.abs`, `CS.get_sim`, `CS.insert_sim`, `CS.run_sim`);
  * an injective pairing `ℕ × ℕ → ℕ` (`CS.pair`), so that the encoding hypothesis is not vacuous.
-/
namespace Sst.Spec

/-- the only nondeterministic call of the Spec cursor: `prev` issued at the invalid position -/
def blindPrev : Pos → IterOp → Bool
  | none, .prev => true
  | _, _ => false

/-- what a call does to the Spec cursor when it is not a blind `prev` (for a blind `prev` the value
    is irrelevant; `none` is chosen) -/
def detStep (cmp : Cmp) (es : List Entry) (p : Pos) : IterOp → Pos × IterOut
  | .advance => ((Spec.advance es p).1, .flag (Spec.advance es p).2)
  | .next => ((Spec.advance es p).1, .entry (entryAt es (Spec.advance es p).1))
  | .prev =>
    match p with
    | some i => ((prevValid i).1, .flag (prevValid i).2)
    | none => (none, .flag false)
  | .reset => (none, .unit)
  | .seekToFirst => (Spec.seekToFirst es, .unit)
  | .seek t => (lowerBound cmp es t, .unit)
  | .valid => (p, .flag p.isSome)
  | .current => (p, .entry (entryAt es p))
  | .currentKey => (p, .key ((entryAt es p).map (·.1)))

/-- along the run of `ops` from `p` no `prev` is issued at the invalid position (`none`) -/
def NoBlindPrev (cmp : Cmp) (es : List Entry) : Pos → List IterOp → Prop
  | _, [] => True
  | p, op :: ops => blindPrev p op = false ∧ NoBlindPrev cmp es (detStep cmp es p op).1 ops

/-- the outputs of the deterministic run -/
def detRun (cmp : Cmp) (es : List Entry) : Pos → List IterOp → Pos × List IterOut
  | p, [] => (p, [])
  | p, op :: ops =>
    ((detRun cmp es (detStep cmp es p op).1 ops).1,
     (detStep cmp es p op).2 :: (detRun cmp es (detStep cmp es p op).1 ops).2)

end Sst.Spec

namespace Sst.CS
open Spec

/-! ### the Spec cursor is deterministic away from blind `prev` -/

theorem step_det (cmp : Cmp) (es : List Entry) (p q : Pos) (op : IterOp) (out : IterOut)
    (h : CursorStep cmp es p op q out) (hn : blindPrev p op = false) :
    (q, out) = detStep cmp es p op := by
  cases h with
  | prevInvalid p' _ => simp [blindPrev] at hn
  | _ => rfl

theorem cursorRun_det (cmp : Cmp) (es : List Entry) (ops : List IterOp) :
    ∀ (p q : Pos) (outs : List IterOut), CursorRun cmp es p ops q outs → NoBlindPrev cmp es p ops →
      (q, outs) = detRun cmp es p ops := by
  induction ops with
  | nil =>
    intro p q outs h _
    cases h
    rfl
  | cons op ops ih =>
    intro p q outs h hn
    have hn' : blindPrev p op = false ∧ NoBlindPrev cmp es (detStep cmp es p op).1 ops := hn
    cases h with
    | @cons _ q1 _ _ out1 _ outs1 hs hr =>
      have e := step_det cmp es p q1 op out1 hs hn'.1
      have hn2 := hn'.2
      rw [← e] at hn2
      have e2 := ih q1 q outs1 hr hn2
      show (q, out1 :: outs1) = ((detRun cmp es (detStep cmp es p op).1 ops).1,
        (detStep cmp es p op).2 :: (detRun cmp es (detStep cmp es p op).1 ops).2)
      rw [← e, ← e2]

/-- a deterministic run exists (so `NoBlindPrev` histories are inhabited as `CursorRun`s) -/
theorem detStep_step (cmp : Cmp) (es : List Entry) (p : Pos) (op : IterOp)
    (hn : blindPrev p op = false) :
    CursorStep cmp es p op (detStep cmp es p op).1 (detStep cmp es p op).2 := by
  cases op with
  | prev =>
    cases p with
    | none => simp [blindPrev] at hn
    | some i => exact CursorStep.prevValid i
  | advance => exact CursorStep.advance _
  | next => exact CursorStep.next _
  | reset => exact CursorStep.reset _
  | seekToFirst => exact CursorStep.seekToFirst _
  | seek t => exact CursorStep.seek _ _
  | valid => exact CursorStep.valid _
  | current => exact CursorStep.current _
  | currentKey => exact CursorStep.currentKey _

theorem detRun_run (cmp : Cmp) (es : List Entry) (ops : List IterOp) :
    ∀ (p : Pos), NoBlindPrev cmp es p ops →
      CursorRun cmp es p ops (detRun cmp es p ops).1 (detRun cmp es p ops).2 := by
  induction ops with
  | nil => intro p _; exact CursorRun.nil p
  | cons op ops ih =>
    intro p hn
    exact CursorRun.cons (detStep_step cmp es p op hn.1) (ih _ hn.2)

/-! ### frames and other tables -/

/-- whatever table A does within its `Frame`, table B (another cache id, any image, the same or another
    file) keeps its world invariant -/
theorem worldOK_of_frame {w w' : World} {tbA tbB : Table} {tB : TableImg} (hfr : Frame w w' tbA)
    (hid : tbB.cacheId ≠ tbA.cacheId) (hwB : WorldOK w tbB tB) : WorldOK w' tbB tB :=
  ⟨⟨by rw [hfr.files]; exact hwB.clean.file, by rw [hfr.sched]; exact hwB.clean.sched⟩,
   hfr.others tbB.cacheId tB hid hwB.coh⟩

/-! ### `Table::read_block` with the resulting world made explicit -/

theorem readBlockContents_clean_eq (w : World) (file : Nat) (img : Bytes) (h : BlockHandle)
    (hc : CleanWorld w file img) :
    readBlockContents file h w =
      ({ w with sched := [],
                readLog := (file, h.offset, h.size + Consts.tableBlockCksumLen + Consts.tableBlockCompressLen) :: w.readLog,
                allocs := blockAllocs img h ++ w.allocs },
       blockAt img h) := by
  have hr := readBytes_clean_eq file
    ⟨h.offset, h.size + Consts.tableBlockCksumLen + Consts.tableBlockCompressLen⟩ w hc.sched
  rw [readBlockContents_eq, hr, hc.file]
  simp only [blockAllocs, blockAt, List.append_assoc, List.cons_append, List.nil_append]

theorem readTableBlock_clean_eq (w : World) (file : Nat) (img : Bytes) (h : BlockHandle)
    (hc : CleanWorld w file img) :
    readTableBlock file h w =
      ({ w with sched := [],
                readLog := (file, h.offset, h.size + Consts.tableBlockCksumLen + Consts.tableBlockCompressLen) :: w.readLog,
                allocs := blockAllocs img h ++ w.allocs },
       tableBlockAt img h) := by
  have hr := readBlockContents_clean_eq w file img h hc
  unfold readTableBlock tableBlockAt
  show M.bind' (readBlockContents file h) _ w = _
  unfold M.bind'
  rw [hr]
  cases hb : blockAt img h with
  | ok c =>
    simp only []
    by_cases hwf : Block.isWellFormed c = true
    · have hlen := isWellFormed_length c hwf
      have hlen' : decide (c.length > 4) = true := by simp; omega
      simp only [hwf, Bool.not_true, Bool.false_eq_true, if_false, if_true, bind, M.bind', M.lift,
        hlen', assert, pure, M.pure']
    · simp only [hwf, Bool.not_false, if_true, M.fail]
      simp at hwf
      simp
  | err c => rfl
  | panic s => rfl
  | diverge => rfl

/-- `Table::read_block` on a data block of a well-formed table: the whole resulting world. On a hit
    only the cache order and the event log change; on a miss there is exactly one `read_at`, of the
    block's region of this table's file, and the contents are inserted under this table's key. -/
theorem readBlock_world (cmp : Cmp) (t : TableImg) (hwf : t.WF cmp) (tb : Table) (w : World)
    (hfile : CleanWorld w tb.file t.img) (hsize : tb.fileSize = t.img.length)
    (d : DBlock) (hd : d ∈ t.blocks) :
    tb.readBlock d.handle w =
      (match (w.cache.get (tb.cacheId, d.handle.offset % 2 ^ 64)).2 with
       | some b =>
         ({ w with cache := (w.cache.get (tb.cacheId, d.handle.offset % 2 ^ 64)).1,
                   events := ⟨tb.cacheId, d.handle.offset, true⟩ :: w.events }, .ok b)
       | none =>
         ({ w with sched := [],
                   readLog := (tb.file, d.handle.offset,
                     d.handle.size + Consts.tableBlockCksumLen + Consts.tableBlockCompressLen) :: w.readLog,
                   allocs := blockAllocs t.img d.handle ++ w.allocs,
                   cache := (w.cache.get (tb.cacheId, d.handle.offset % 2 ^ 64)).1.insert
                     (tb.cacheId, d.handle.offset % 2 ^ 64) d.blk.contents,
                   events := ⟨tb.cacheId, d.handle.offset, false⟩ :: w.events }, .ok d.blk.contents)) := by
  have hb : InBounds d.handle tb.fileSize := hsize ▸ hwf.dataBounds d hd
  have hchk := (checkBlockBounds_iff d.handle tb.fileSize w).1 hb
  unfold Table.readBlock
  simp only [bind, M.bind', hchk, pure]
  cases hg : (w.cache.get (tb.cacheId, d.handle.offset % 2 ^ 64)).2 with
  | some b => rfl
  | none =>
    show M.bind' (readTableBlock tb.file d.handle) _ _ = _
    unfold M.bind'
    have hclean1 : CleanWorld ({ w with
        cache := (w.cache.get (tb.cacheId, d.handle.offset % 2 ^ 64)).1,
        events := ⟨tb.cacheId, d.handle.offset, false⟩ :: w.events } : World) tb.file t.img :=
      ⟨hfile.file, hfile.sched⟩
    simp only [Option.isSome_none]
    rw [readTableBlock_clean_eq _ tb.file t.img d.handle hclean1, hwf.dataRead d hd]
    rfl

/-! ### the list cache is the Spec LRU map -/

/-- abstraction: the Spec LRU state with the same capacity and the same items in the same order, keys
    and values encoded as naturals -/
def abs {α} (enc : Nat × Nat → Nat) (encV : α → Nat) (c : LruCache α) : Spec.Lru.State :=
  { cap := c.cap, items := c.entries.map (fun e => (enc e.1, encV e.2)) }

private theorem filter_enc {α} (enc : Nat × Nat → Nat) (henc : ∀ a b, enc a = enc b → a = b)
    (encV : α → Nat) (k : Nat × Nat) (l : List ((Nat × Nat) × α)) :
    Spec.Lru.without (l.map (fun e => (enc e.1, encV e.2))) (enc k)
      = (l.filter (·.1 ≠ k)).map (fun e => (enc e.1, encV e.2)) := by
  unfold Spec.Lru.without
  rw [List.filter_map]
  congr 1
  apply List.filter_congr
  intro x _
  simp only [Function.comp]
  by_cases hx : x.1 = k
  · simp [hx]
  · have : enc x.1 ≠ enc k := fun h => hx (henc _ _ h)
    simp [hx, this]

private theorem find_enc {α} (enc : Nat × Nat → Nat) (henc : ∀ a b, enc a = enc b → a = b)
    (encV : α → Nat) (k : Nat × Nat) (l : List ((Nat × Nat) × α)) :
    (l.map (fun e => (enc e.1, encV e.2))).find? (·.1 = enc k)
      = (l.find? (·.1 = k)).map (fun e => (enc e.1, encV e.2)) := by
  induction l with
  | nil => rfl
  | cons x xs ih =>
    by_cases hx : x.1 = k
    · simp [hx]
    · have : enc x.1 ≠ enc k := fun h => hx (henc _ _ h)
      simp only [List.map_cons, List.find?_cons, hx, this, decide_false]
      exact ih

/-- `LruCache.get` is `Spec.Lru.step (.get _)` -/
theorem get_sim {α} (enc : Nat × Nat → Nat) (henc : ∀ a b, enc a = enc b → a = b) (encV : α → Nat)
    (c : LruCache α) (k : Nat × Nat) :
    Spec.Lru.step (abs enc encV c) (.get (enc k)) = (abs enc encV (c.get k).1, (c.get k).2.map encV) := by
  unfold Spec.Lru.step abs LruCache.get
  simp only [find_enc enc henc encV, filter_enc enc henc encV]
  cases c.entries.find? (·.1 = k) with
  | none => rfl
  | some e => rfl

/-- `LruCache.insert` is `Spec.Lru.step (.insert _ _)` -/
theorem insert_sim {α} (enc : Nat × Nat → Nat) (henc : ∀ a b, enc a = enc b → a = b) (encV : α → Nat)
    (c : LruCache α) (k : Nat × Nat) (v : α) :
    Spec.Lru.step (abs enc encV c) (.insert (enc k) (encV v)) = (abs enc encV (c.insert k v), none) := by
  unfold Spec.Lru.step abs LruCache.insert
  simp only [filter_enc enc henc encV, List.length_map, List.map_cons]
  split
  · rw [List.map_dropLast]
  · rfl

/-- the calls the table reader makes on the cache -/
inductive COp (α : Type) where
  | get (k : Nat × Nat)
  | insert (k : Nat × Nat) (v : α)

def COp.enc {α} (enc : Nat × Nat → Nat) (encV : α → Nat) : COp α → Spec.Lru.Op
  | .get k => .get (enc k)
  | .insert k v => .insert (enc k) (encV v)

def cstep {α} (c : LruCache α) : COp α → LruCache α × Option α
  | .get k => c.get k
  | .insert k v => (c.insert k v, none)

def crun {α} (c : LruCache α) : List (COp α) → LruCache α × List (Option α)
  | [] => (c, [])
  | op :: ops => ((crun (cstep c op).1 ops).1, (cstep c op).2 :: (crun (cstep c op).1 ops).2)

theorem step_sim {α} (enc : Nat × Nat → Nat) (henc : ∀ a b, enc a = enc b → a = b) (encV : α → Nat)
    (c : LruCache α) (op : COp α) :
    Spec.Lru.step (abs enc encV c) (op.enc enc encV)
      = (abs enc encV (cstep c op).1, (cstep c op).2.map encV) := by
  cases op with
  | get k => exact get_sim enc henc encV c k
  | insert k v => exact insert_sim enc henc encV c k v

theorem run_sim {α} (enc : Nat × Nat → Nat) (henc : ∀ a b, enc a = enc b → a = b) (encV : α → Nat)
    (ops : List (COp α)) : ∀ (c : LruCache α),
    Spec.Lru.run (abs enc encV c) (ops.map (COp.enc enc encV))
      = (abs enc encV (crun c ops).1, (crun c ops).2.map (·.map encV)) := by
  induction ops with
  | nil => intro c; rfl
  | cons op ops ih =>
    intro c
    simp only [List.map_cons, Spec.Lru.run, step_sim enc henc encV c op, ih, crun]

/-! ### an injective pairing (Cantor) -/

def tri (n : Nat) : Nat := n * (n + 1) / 2

theorem tri_succ (n : Nat) : tri (n + 1) = tri n + (n + 1) := by
  unfold tri
  have : (n + 1) * (n + 1 + 1) = n * (n + 1) + 2 * (n + 1) := by
    rw [Nat.mul_comm n (n + 1), Nat.mul_comm 2 (n + 1)]
    exact Nat.mul_add (n + 1) n 2
  rw [this, Nat.add_mul_div_left _ _ (by decide : 0 < 2)]

theorem tri_lt {m n : Nat} (h : m < n) : tri m + m + 1 ≤ tri n := by
  induction n with
  | zero => omega
  | succ n ih =>
    rw [tri_succ]
    by_cases hm : m = n
    · subst hm; omega
    · have := ih (by omega); omega

def pair (k : Nat × Nat) : Nat := tri (k.1 + k.2) + k.2

theorem pair_inj (a b : Nat × Nat) (h : pair a = pair b) : a = b := by
  obtain ⟨a1, a2⟩ := a
  obtain ⟨b1, b2⟩ := b
  unfold pair at h
  simp only at h
  have hs : a1 + a2 = b1 + b2 := by
    rcases Nat.lt_trichotomy (a1 + a2) (b1 + b2) with hlt | heq | hgt
    · have := tri_lt hlt; omega
    · exact heq
    · have := tri_lt hgt; omega
  rw [hs] at h
  have h2 : a2 = b2 := by omega
  have h1 : a1 = b1 := by omega
  rw [h1, h2]

end Sst.CS

/-! ### any number of tables, iterators and lookups interleaved on one cache -/

namespace Sst.CS
open Spec

/-- a table opened on the shared cache: comparator, reader filter policy, image, the filter block the
    policy sees, and the handle -/
structure Client where
  cmp : Cmp
  p : FilterPolicy
  t : TableImg
  fv : Option Bytes
  tb : Table

/-- the standing hypotheses of the reader theorems for one client -/
structure Client.OK (c : Client) : Prop where
  lawful : c.cmp.Lawful
  wf : c.t.WF c.cmp
  opened : Opened c.tb c.t c.cmp c.p c.fv

/-- what `get_ok` needs in addition (only for clients on which lookups are issued) -/
structure Client.GetOK (c : Client) : Prop where
  sound : ∀ fb, c.fv = some fb → FilterSound c.p c.t fb
  fwf : ∀ fb, c.fv = some fb → FilterBlockReader.isWellFormed fb = true

/-- one client operation: a call on iterator handle `i`, or a lookup on a table -/
inductive Ev where
  | call (i : Nat) (op : IterOp)
  | get (c : Client) (k : Bytes)

inductive EvOut where
  | call (i : Nat) (o : IterOut)
  | got (v : Option Bytes)

/-- one operation of the system: iterator handles are `its : ℕ → TableIter`, all on one `World` -/
def sysStep (its : Nat → TableIter) : Ev → M ((Nat → TableIter) × EvOut)
  | .call i op => (its i).call op >>= fun r => pure (fun j => if j = i then r.1 else its j, .call i r.2)
  | .get c k => c.tb.get k >>= fun v => pure (its, .got v)

/-- an interleaving, performed in order; stops at the first operation that does not return `ok` -/
def sysRun : (Nat → TableIter) → List Ev → M ((Nat → TableIter) × List EvOut)
  | its, [] => pure (its, [])
  | its, ev :: evs => sysStep its ev >>= fun r => sysRun r.1 evs >>= fun s => pure (s.1, r.2 :: s.2)

/-- the calls issued through handle `i`, in order -/
def callsOf (i : Nat) : List Ev → List IterOp
  | [] => []
  | .call j op :: evs => if j = i then op :: callsOf i evs else callsOf i evs
  | .get _ _ :: evs => callsOf i evs

/-- what those calls returned -/
def outsOf (i : Nat) : List EvOut → List IterOut
  | [] => []
  | .call j o :: outs => if j = i then o :: outsOf i outs else outsOf i outs
  | .got _ :: outs => outsOf i outs

/-- what the lookups of the interleaving must return: the Spec map's answer -/
def specGets : List Ev → List (Option Bytes)
  | [] => []
  | .call _ _ :: evs => specGets evs
  | .get c k :: evs => Spec.lookup c.cmp c.t.entries k :: specGets evs

def getsOf : List EvOut → List (Option Bytes)
  | [] => []
  | .call _ _ :: outs => getsOf outs
  | .got v :: outs => v :: getsOf outs

/-- tables sharing the cache have different cache ids (clients with equal ids are the same handle on
    the same image) -/
def IdsDistinct (cls : List Client) : Prop :=
  ∀ c ∈ cls, ∀ c' ∈ cls, c.tb.cacheId = c'.tb.cacheId → c.tb = c'.tb ∧ c.t = c'.t

theorem worldOK_all {cls : List Client} (hids : IdsDistinct cls) {w w' : World} {c : Client}
    (hc : c ∈ cls) (hfr : Frame w w' c.tb) (hwc : WorldOK w' c.tb c.t)
    (hw : ∀ c' ∈ cls, WorldOK w c'.tb c'.t) : ∀ c' ∈ cls, WorldOK w' c'.tb c'.t := by
  intro c' hc'
  by_cases hid : c'.tb.cacheId = c.tb.cacheId
  · obtain ⟨h1, h2⟩ := hids c' hc' c hc hid
    rw [h1, h2]; exact hwc
  · exact worldOK_of_frame hfr hid (hw c' hc')

theorem sysStep_ok (cls : List Client) (hok : ∀ c ∈ cls, c.OK) (hids : IdsDistinct cls)
    (owner : Nat → Client) (hown : ∀ i, owner i ∈ cls) (ev : Ev)
    (hget : ∀ c k, ev = .get c k → c ∈ cls ∧ c.GetOK)
    (w : World) (hw : ∀ c ∈ cls, WorldOK w c.tb c.t)
    (its : Nat → TableIter) (pos : Nat → Option (Nat × Nat))
    (hsim : ∀ i, SimT (owner i).t (owner i).tb (its i) (pos i)) :
    ∃ (w' : World) (its' : Nat → TableIter) (pos' : Nat → Option (Nat × Nat)) (out : EvOut), sysStep its ev w = (w', .ok (its', out))
      ∧ (∀ c ∈ cls, WorldOK w' c.tb c.t)
      ∧ (∀ i, SimT (owner i).t (owner i).tb (its' i) (pos' i))
      ∧ w'.cache.cap = w.cache.cap ∧ w'.cache.nextId = w.cache.nextId
      ∧ (1 ≤ w.cache.cap → w.cache.count ≤ w.cache.cap → w'.cache.count ≤ w'.cache.cap)
      ∧ (match ev with
         | .call i op => ∃ o, out = .call i o
             ∧ CursorStep (owner i).cmp (owner i).t.entries ((owner i).t.flatPos (pos i)) op
                 ((owner i).t.flatPos (pos' i)) o
             ∧ ∀ j, j ≠ i → pos' j = pos j
         | .get c k => out = .got (Spec.lookup c.cmp c.t.entries k) ∧ pos' = pos) := by
  cases ev with
  | call i op =>
    have hi := hown i
    have ho := hok _ hi
    obtain ⟨w', it', p', out, hcall, hstep, hs', hw', hfr⟩ :=
      call_ok (owner i).cmp ho.lawful (owner i).p (owner i).t ho.wf (owner i).fv (owner i).tb ho.opened op
        w (hw _ hi) (its i) (pos i) (hsim i)
    refine ⟨w', fun j => if j = i then it' else its j, fun j => if j = i then p' else pos j,
      .call i out, ?_, worldOK_all hids hi hfr hw' hw, ?_, hfr.cap, hfr.nextId, hfr.bound, ?_⟩
    · show ((its i).call op >>= fun r => pure (fun j => if j = i then r.1 else its j, EvOut.call i r.2)) w = _
      rw [TI.bind_ok hcall]; rfl
    · intro j
      by_cases hj : j = i
      · subst hj; simp only [if_true]; exact hs'
      · simp only [hj, if_false]; exact hsim j
    · refine ⟨out, rfl, ?_, ?_⟩
      · simp only [if_true]; exact hstep
      · intro j hj; simp only [hj, if_false]
  | get c k =>
    obtain ⟨hc, hg⟩ := hget c k rfl
    have ho := hok _ hc
    obtain ⟨w', hrun, hw', hfr⟩ :=
      get_ok c.cmp ho.lawful c.p c.t ho.wf c.fv c.tb ho.opened hg.sound hg.fwf w (hw _ hc) k
    refine ⟨w', its, pos, .got (Spec.lookup c.cmp c.t.entries k), ?_, worldOK_all hids hc hfr hw' hw,
      hsim, hfr.cap, hfr.nextId, hfr.bound, rfl, rfl⟩
    show (c.tb.get k >>= fun v => pure (its, EvOut.got v)) w = _
    rw [TI.bind_ok hrun]; rfl

theorem sysRun_cons {its its1 its2 : Nat → TableIter} {ev : Ev} {evs : List Ev} {w w1 w2 : World}
    {out : EvOut} {outs : List EvOut} (h1 : sysStep its ev w = (w1, .ok (its1, out)))
    (h2 : sysRun its1 evs w1 = (w2, .ok (its2, outs))) :
    sysRun its (ev :: evs) w = (w2, .ok (its2, out :: outs)) := by
  show (sysStep its ev >>= fun r => sysRun r.1 evs >>= fun s => pure (s.1, r.2 :: s.2)) w = _
  rw [TI.bind_ok h1]
  show (sysRun its1 evs >>= fun s => pure (s.1, out :: s.2)) w1 = _
  rw [TI.bind_ok h2]
  rfl

theorem sysRun_ok (cls : List Client) (hok : ∀ c ∈ cls, c.OK) (hids : IdsDistinct cls)
    (owner : Nat → Client) (hown : ∀ i, owner i ∈ cls) (evs : List Ev) :
    (∀ c k, Ev.get c k ∈ evs → c ∈ cls ∧ c.GetOK) →
    ∀ (w : World), (∀ c ∈ cls, WorldOK w c.tb c.t) →
    ∀ (its : Nat → TableIter) (pos : Nat → Option (Nat × Nat)),
    (∀ i, SimT (owner i).t (owner i).tb (its i) (pos i)) →
    ∃ (w' : World) (its' : Nat → TableIter) (pos' : Nat → Option (Nat × Nat)) (outs : List EvOut), sysRun its evs w = (w', .ok (its', outs))
      ∧ (∀ i, CursorRun (owner i).cmp (owner i).t.entries ((owner i).t.flatPos (pos i)) (callsOf i evs)
                ((owner i).t.flatPos (pos' i)) (outsOf i outs))
      ∧ getsOf outs = specGets evs
      ∧ (∀ c ∈ cls, WorldOK w' c.tb c.t)
      ∧ (∀ i, SimT (owner i).t (owner i).tb (its' i) (pos' i))
      ∧ w'.cache.cap = w.cache.cap ∧ w'.cache.nextId = w.cache.nextId
      ∧ (1 ≤ w.cache.cap → w.cache.count ≤ w.cache.cap → w'.cache.count ≤ w'.cache.cap) := by
  induction evs with
  | nil =>
    intro _ w hw its pos hsim
    exact ⟨w, its, pos, [], rfl, fun i => CursorRun.nil _, rfl, hw, hsim, rfl, rfl, fun _ h => h⟩
  | cons ev evs ih =>
    intro hget w hw its pos hsim
    obtain ⟨w1, its1, pos1, out, hstep, hw1, hsim1, hcap1, hnid1, hb1, hev⟩ :=
      sysStep_ok cls hok hids owner hown ev
        (fun c k h => hget c k (h ▸ List.mem_cons_self)) w hw its pos hsim
    obtain ⟨w2, its2, pos2, outs, hrun, hcr, hgets, hw2, hsim2, hcap2, hnid2, hb2⟩ :=
      ih (fun c k h => hget c k (List.mem_cons_of_mem _ h)) w1 hw1 its1 pos1 hsim1
    refine ⟨w2, its2, pos2, out :: outs, sysRun_cons hstep hrun, ?_, ?_, hw2, hsim2,
      hcap2.trans hcap1, hnid2.trans hnid1, fun h1 h2 => hb2 (hcap1 ▸ h1) (hb1 h1 h2)⟩
    · intro j
      cases ev with
      | call i op =>
        obtain ⟨o, rfl, hcs, hoth⟩ := hev
        by_cases hj : i = j
        · subst hj
          simp only [callsOf, outsOf, if_true]
          exact CursorRun.cons hcs (hcr i)
        · simp only [callsOf, outsOf, hj, if_false]
          have := hcr j
          rw [hoth j (fun h => hj h.symm)] at this
          exact this
      | get c k =>
        obtain ⟨rfl, hp⟩ := hev
        simp only [callsOf, outsOf]
        have := hcr j
        rw [hp] at this
        exact this
    · cases ev with
      | call i op =>
        obtain ⟨o, rfl, _, _⟩ := hev
        simp only [getsOf, specGets]; exact hgets
      | get c k =>
        obtain ⟨rfl, _⟩ := hev
        simp only [getsOf, specGets, hgets]

end Sst.CS
