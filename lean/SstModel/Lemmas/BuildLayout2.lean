import SstModel.Lemmas.BuildLayout1
/-
  C05 (writer side), part 2: the ghost record of a build on a perfect sink, the invariant `BInv`, and
  its preservation by `write_data_block` / `add` / `addAll`.
-/
namespace Sst

/-- hypotheses on the writer configuration -/
structure WOptsOK (opt : WOpts) : Prop where
  lawful : opt.cmp.Lawful
  ri : 1 ≤ opt.restartInterval
  ctype : opt.compression = 0 ∨ opt.compression = 1
  /-- the (unmodelled) snappy compressor is inverted by the modelled decoder (on inputs that fit the
      32-bit length preamble of the format) -/
  lossless : opt.compression = 1 → ∀ b : Bytes, b.length < 2 ^ 32 → Snappy.decode (opt.compress b) = some b
  /-- the filter policy has no false negatives, on filters that can be part of a table file (shorter
      than 4 GiB).  The unbounded form would exclude the crate's own bloom policy, whose bit count
      wraps at 2^64 (`Consts.bloomBitsWidth`); see `wOptsOK_bloom`. -/
  filterSound : ∀ ks k, k ∈ ks → (opt.filter.createFilter ks).length < 2 ^ 32 →
    opt.filter.keyMayMatch k (opt.filter.createFilter ks) = true
  /-- the separator written for the last block is not below the last key -/
  lastSep : ∀ a, opt.cmp.cmp a (opt.cmp.sep a (opt.cmp.succ a)) ≠ .gt
  /-- separators are short (needed only to bound the uncompressed index block when compressing) -/
  sepLen : opt.compression = 1 → ∀ a b : Bytes, (opt.cmp.sep a b).length ≤ a.length + 1

namespace BL

/-- ghost record of one flushed data block -/
structure Fl where
  /-- the entries of the block -/
  kvs : List (Bytes × Bytes)
  /-- its index key -/
  sep : Bytes
  /-- its file offset -/
  off : Nat
  /-- the block builder at the time of the flush (the contents are `bb.finish`) -/
  bb : BlockBuilder

/-- the compression tag byte -/
def ty (opt : WOpts) : UInt8 := UInt8.ofNat opt.compression
/-- stored form of a block with contents `c` -/
def stored (opt : WOpts) (c : Bytes) : Bytes := sdata opt c opt.compression
def Fl.data (opt : WOpts) (f : Fl) : Bytes := stored opt f.bb.finish
def Fl.handle (opt : WOpts) (f : Fl) : BlockHandle := ⟨f.off, (f.data opt).length⟩
def Fl.phys (opt : WOpts) (f : Fl) : Bytes := physicalBlock (f.data opt) (ty opt)
def image (opt : WOpts) (fl : List Fl) : Bytes := (fl.map (Fl.phys opt)).flatten
def ixEntries (opt : WOpts) (fl : List Fl) : List (Bytes × Bytes) :=
  fl.map (fun f => (f.sep, (f.handle opt).encode))
def allKvs (fl : List Fl) : List (Bytes × Bytes) := (fl.map (·.kvs)).flatten
def evKeys (kvs : List (Bytes × Bytes)) : List FbEvent := kvs.map (fun e => FbEvent.key e.1)
def Fl.events (opt : WOpts) (f : Fl) : List FbEvent :=
  evKeys f.kvs ++ [FbEvent.start (f.off + (f.data opt).length + 5)]
def events (opt : WOpts) (fl : List Fl) : List FbEvent := (fl.map (Fl.events opt)).flatten

/-- the recorded offsets are the prefix sums of the physical block lengths -/
def Offs (opt : WOpts) : Nat → List Fl → Prop
  | _, [] => True
  | o, f :: r => f.off = o ∧ Offs opt (o + (f.data opt).length + 5) r

theorem image_snoc (opt : WOpts) (fl : List Fl) (g : Fl) : image opt (fl ++ [g]) = image opt fl ++ g.phys opt := by
  simp [image]

theorem image_cons (opt : WOpts) (f : Fl) (fl : List Fl) : image opt (f :: fl) = f.phys opt ++ image opt fl := by
  simp [image]

theorem phys_length (opt : WOpts) (f : Fl) : (f.phys opt).length = (f.data opt).length + 5 :=
  physicalBlock_length _ _

theorem ixEntries_snoc (opt : WOpts) (fl : List Fl) (g : Fl) :
    ixEntries opt (fl ++ [g]) = ixEntries opt fl ++ [(g.sep, (g.handle opt).encode)] := by
  simp [ixEntries]

theorem allKvs_snoc (fl : List Fl) (g : Fl) : allKvs (fl ++ [g]) = allKvs fl ++ g.kvs := by
  simp [allKvs]

theorem events_snoc (opt : WOpts) (fl : List Fl) (g : Fl) :
    events opt (fl ++ [g]) = events opt fl ++ g.events opt := by
  simp [events]

theorem evKeys_snoc (l : List (Bytes × Bytes)) (k v : Bytes) : evKeys (l ++ [(k, v)]) = evKeys l ++ [.key k] := by
  simp [evKeys]

theorem offs_snoc (opt : WOpts) : ∀ (fl : List Fl) (o : Nat) (g : Fl),
    Offs opt o (fl ++ [g]) ↔ Offs opt o fl ∧ g.off = o + (image opt fl).length
  | [], o, g => by simp [Offs, image]
  | f :: r, o, g => by
    simp only [List.cons_append, Offs, image_cons, List.length_append, phys_length]
    rw [offs_snoc opt r _ g]
    constructor
    · rintro ⟨h1, h2, h3⟩; exact ⟨⟨h1, h2⟩, by omega⟩
    · rintro ⟨⟨h1, h2⟩, h3⟩; exact ⟨h1, h2, by omega⟩

/-- the invariant of a build on a perfect sink: `fl` are the data blocks flushed so far, `pend` the
    entries of the pending data block -/
structure BInv (opt : WOpts) (t : TableBuilder) (fl : List Fl) (pend : List (Bytes × Bytes)) : Prop where
  opt_eq : t.opt = opt
  sched : t.sink.sched = []
  recv : t.sink.received = image opt fl
  off : t.offset = (image opt fl).length
  offs : Offs opt 0 fl
  db : ∃ db, t.dataBlock = some db ∧ BlockBuild.Inv opt.restartInterval db pend ∧ SzB db pend
  ib : ∃ ib, t.indexBlock = some ib ∧ BlockBuild.Inv opt.restartInterval ib (ixEntries opt fl)
        ∧ SzB ib (ixEntries opt fl)
  fb : ∃ fb, t.filterBlock = some fb ∧ fbRun opt.filter {} (events opt fl ++ evKeys pend) = .ok fb
        ∧ (t.offset < 2 ^ 43 → fb.filterOffsets.length ≤ t.offset / 2048)
  num : t.numEntries = (allKvs fl ++ pend).length
  sorted : Spec.StrictSorted opt.cmp (allKvs fl ++ pend)
  blk : ∀ f ∈ fl, f.kvs ≠ [] ∧ BlockBuild.Inv opt.restartInterval f.bb f.kvs ∧ SzB f.bb f.kvs
        ∧ ∃ nxt, f.sep = opt.cmp.sep (lastKey f.kvs) nxt
  sepGe : ∀ f ∈ fl, ∀ e ∈ f.kvs, opt.cmp.cmp e.1 f.sep ≠ .gt
  sepLt : fl.Pairwise (fun f g => ∀ e ∈ g.kvs, opt.cmp.cmp f.sep e.1 = .lt)
  sepLtP : ∀ f ∈ fl, ∀ e ∈ pend, opt.cmp.cmp f.sep e.1 = .lt

theorem binv_new (opt : WOpts) : BInv opt (TableBuilder.new opt {}) [] [] where
  opt_eq := rfl
  sched := rfl
  recv := rfl
  off := rfl
  offs := trivial
  db := ⟨_, rfl, BlockBuild.inv_new _, szB_new _⟩
  ib := ⟨_, rfl, BlockBuild.inv_new _, szB_new _⟩
  fb := ⟨_, rfl, rfl, fun _ => Nat.zero_le _⟩
  num := rfl
  sorted := trivial
  blk := fun f hf => by cases hf
  sepGe := fun f hf => by cases hf
  sepLt := List.Pairwise.nil
  sepLtP := fun f hf => by cases hf

theorem lastKey_ixEntries_snoc (opt : WOpts) (fl : List Fl) (g : Fl) :
    lastKey (ixEntries opt (fl ++ [g])) = g.sep := by
  rw [ixEntries_snoc, lastKey_snoc]

/-- the builder after the write and index steps of `write_data_block` -/
def flushedT (t : TableBuilder) (s' : Sink) (db ib' : BlockBuilder) : TableBuilder :=
  { t with sink := s', offset := t.offset + (stored t.opt db.finish).length + 5, prevBlockLastKey := db.lastKey, dataBlock := some (BlockBuilder.new t.opt.restartInterval), indexBlock := some ib' }

/-- the equation for `write_data_block` on a perfect sink, up to the `start_block` call -/
theorem writeDataBlock_eq {t : TableBuilder} {db ib ib' : BlockBuilder} {fb : FilterBlockBuilder} (nextKey : Bytes)
    (hs : t.sink.sched = []) (hdb : t.dataBlock = some db) (hib : t.indexBlock = some ib)
    (hfb : t.filterBlock = some fb)
    (hadd : ib.add t.opt.cmp (t.opt.cmp.sep db.lastKey nextKey)
      (BlockHandle.encode ⟨t.offset, (stored t.opt db.finish).length⟩) = .ok ib') :
    ∃ s', s'.sched = [] ∧
      s'.received = t.sink.received ++ physicalBlock (stored t.opt db.finish) (ty t.opt) ∧
      t.writeDataBlock nextKey =
        (match fb.startBlock t.opt.filter (t.offset + (stored t.opt db.finish).length + 5) with
         | .ok fb' => ({ flushedT t s' db ib' with filterBlock := some fb' }, .ok ())
         | .panic m => (flushedT t s' db ib', .panic m)
         | .err c => (flushedT t s' db ib', .err c)
         | .diverge => (flushedT t s' db ib', .diverge)) := by
  obtain ⟨s', hwb, hs', hr'⟩ := writeBlock_perfect'
    { t with dataBlock := none, prevBlockLastKey := db.lastKey } db.finish t.opt.compression hs
  refine ⟨s', hs', hr', ?_⟩
  unfold TableBuilder.writeDataBlock
  rw [hdb]
  simp only []
  rw [hwb]
  simp only [hib]
  unfold stored at hadd
  rw [hadd]
  simp only [hfb]
  unfold flushedT stored
  simp only [hfb]
  cases fb.startBlock t.opt.filter (t.offset + (sdata t.opt db.finish t.opt.compression).length + 5) <;> rfl

theorem le_trans' {c : Cmp} (h : c.Lawful) {a b d : Bytes} (h1 : c.cmp a b ≠ .gt) (h2 : c.cmp b d ≠ .gt) :
    c.cmp a d ≠ .gt := by
  rcases h.le_iff.mp h1 with h3 | h3
  · exact h.le_iff.mpr (.inl (h.lt_of_lt_of_le h3 h2))
  · subst h3; exact h2

/-- "the file got too big": the only way a build on a perfect sink fails is the wrap-around of the
    32-bit filter index at file offsets ≥ 2^43 -/
def Big (t : TableBuilder) : Prop := 2 ^ 43 ≤ t.sink.received.length

/-- stage 2, the flush: `write_data_block` appends one ghost block -/
theorem flush_step {opt : WOpts} (hok : WOptsOK opt) {t : TableBuilder} {fl : List Fl}
    {pend : List (Bytes × Bytes)} (hinv : BInv opt t fl pend) (hne : pend ≠ []) (nextKey : Bytes)
    (hge : opt.cmp.cmp (lastKey pend) (opt.cmp.sep (lastKey pend) nextKey) ≠ .gt) :
    ∃ t' r db, t.dataBlock = some db ∧ t.writeDataBlock nextKey = (t', r) ∧
      ((r = .ok () ∧ BInv opt t' (fl ++ [⟨pend, opt.cmp.sep (lastKey pend) nextKey, t.offset, db⟩]) [])
        ∨ (r ≠ .ok () ∧ Big t')) := by
  have hopt := hinv.opt_eq
  subst hopt
  have hl := hok.lawful
  obtain ⟨db, hdb, hdbinv, hdbsz⟩ := hinv.db
  obtain ⟨ib, hib, hibinv, hibsz⟩ := hinv.ib
  obtain ⟨fb, hfb, hfbrun, hfblen⟩ := hinv.fb
  have hlk : db.lastKey = lastKey pend := hdbinv.lastKey
  obtain ⟨lv, hlast⟩ := lastKey_mem pend hne
  have hsP := pairwise_of_strictSorted hl _ hinv.sorted
  have hsPend : Spec.StrictSorted t.opt.cmp pend :=
    strictSorted_of_pairwise _ (List.pairwise_append.1 hsP).2.1
  have hixlt : ixEntries t.opt fl = [] ∨
      t.opt.cmp.cmp (lastKey (ixEntries t.opt fl)) (t.opt.cmp.sep (lastKey pend) nextKey) = .lt := by
    by_cases hfl : fl = []
    · left; simp [hfl, ixEntries]
    · right
      obtain ⟨fl', f, rfl⟩ := exists_snoc_of_ne_nil fl hfl
      rw [lastKey_ixEntries_snoc]
      exact hl.lt_of_lt_of_le (hinv.sepLtP f (by simp) _ hlast) hge
  obtain ⟨ib', hibadd, hibinv', hibsz'⟩ := bb_add t.opt.cmp _ hok.ri ib _
    (t.opt.cmp.sep (lastKey pend) nextKey)
    (BlockHandle.encode ⟨t.offset, (stored t.opt db.finish).length⟩) hibinv hibsz hixlt
  have hibadd' := hibadd
  rw [← hlk] at hibadd'
  obtain ⟨s', hs', hr', heq⟩ := writeDataBlock_eq nextKey hinv.sched hdb hib hfb hibadd'
  have hrecvlen : s'.received.length = t.offset + (stored t.opt db.finish).length + 5 := by
    rw [hr', List.length_append, physicalBlock_length, hinv.recv, hinv.off]; omega
  cases hsb : fb.startBlock t.opt.filter (t.offset + (stored t.opt db.finish).length + 5) with
  | ok fb' =>
    rw [hsb] at heq
    refine ⟨_, _, db, hdb, heq, Or.inl ⟨rfl, ?_⟩⟩
    have hfblen' : t.offset + (stored t.opt db.finish).length + 5 < 2 ^ 43 →
        fb'.filterOffsets.length ≤ (t.offset + (stored t.opt db.finish).length + 5) / 2048 := by
      intro hlt
      obtain ⟨fb'', h1, h2⟩ := startBlock_succeeds t.opt.filter fb t.offset
        (t.offset + (stored t.opt db.finish).length + 5) (hfblen (by omega)) (by omega) hlt
      rw [hsb] at h1
      injection h1 with h1
      rw [h1]; exact h2
    exact {
      opt_eq := rfl
      sched := hs'
      recv := by
        show s'.received = _
        rw [image_snoc, hr', hinv.recv]; rfl
      off := by
        show t.offset + (stored t.opt db.finish).length + 5 = _
        rw [image_snoc, List.length_append, phys_length, ← hinv.off]; rfl
      offs := (offs_snoc _ _ _ _).2 ⟨hinv.offs, by simp [hinv.off]⟩
      db := ⟨_, rfl, BlockBuild.inv_new _, szB_new _⟩
      ib := ⟨ib', rfl, by rw [ixEntries_snoc]; exact hibinv', by rw [ixEntries_snoc]; exact hibsz'⟩
      fb := ⟨fb', rfl, by
        rw [events_snoc]
        show fbRun _ _ (events t.opt fl ++ (evKeys pend ++ [FbEvent.start _]) ++ []) = _
        rw [List.append_nil, ← List.append_assoc]
        exact fbRun_snoc_start _ _ _ _ _ _ hfbrun hsb, hfblen'⟩
      num := by
        show t.numEntries = _
        rw [allKvs_snoc, List.append_nil]; exact hinv.num
      sorted := by rw [allKvs_snoc, List.append_nil]; exact hinv.sorted
      blk := by
        intro f hf
        rcases List.mem_append.1 hf with h | h
        · exact hinv.blk f h
        · simp only [List.mem_singleton] at h
          subst h
          exact ⟨hne, hdbinv, hdbsz, nextKey, rfl⟩
      sepGe := by
        intro f hf
        rcases List.mem_append.1 hf with h | h
        · exact hinv.sepGe f h
        · simp only [List.mem_singleton] at h
          subst h
          intro e he
          exact le_trans' hl (le_lastKey hl pend hsPend e he) hge
      sepLt := by
        refine List.pairwise_append.2 ⟨hinv.sepLt, by simp, ?_⟩
        intro f hf g hg
        simp only [List.mem_singleton] at hg
        subst hg
        exact hinv.sepLtP f hf
      sepLtP := by intro f _ e he; cases he }
  | panic m =>
    rw [hsb] at heq
    refine ⟨_, _, db, hdb, heq, Or.inr ⟨by simp, ?_⟩⟩
    show 2 ^ 43 ≤ s'.received.length
    rw [hrecvlen]
    apply Classical.byContradiction
    intro hlt
    obtain ⟨fb'', h1, _⟩ := startBlock_succeeds t.opt.filter fb t.offset
      (t.offset + (stored t.opt db.finish).length + 5) (hfblen (by omega)) (by omega) (by omega)
    rw [hsb] at h1; cases h1
  | err c =>
    rw [hsb] at heq
    refine ⟨_, _, db, hdb, heq, Or.inr ⟨by simp, ?_⟩⟩
    show 2 ^ 43 ≤ s'.received.length
    rw [hrecvlen]
    apply Classical.byContradiction
    intro hlt
    obtain ⟨fb'', h1, _⟩ := startBlock_succeeds t.opt.filter fb t.offset
      (t.offset + (stored t.opt db.finish).length + 5) (hfblen (by omega)) (by omega) (by omega)
    rw [hsb] at h1; cases h1
  | diverge =>
    rw [hsb] at heq
    refine ⟨_, _, db, hdb, heq, Or.inr ⟨by simp, ?_⟩⟩
    show 2 ^ 43 ≤ s'.received.length
    rw [hrecvlen]
    apply Classical.byContradiction
    intro hlt
    obtain ⟨fb'', h1, _⟩ := startBlock_succeeds t.opt.filter fb t.offset
      (t.offset + (stored t.opt db.finish).length + 5) (hfblen (by omega)) (by omega) (by omega)
    rw [hsb] at h1; cases h1

/-! ### `add` -/

theorem add_of_flush_fail {t t1 : TableBuilder} {db : BlockBuilder} {k v : Bytes} {r : Res Unit}
    (hdb : t.dataBlock = some db)
    (hord : (if t.numEntries > 0 then
        t.opt.cmp.cmp (if db.entries > 0 then db.lastKey else t.prevBlockLastKey) k == Ordering.lt
        else true) = true)
    (hfl : t.flushStep db k = (t1, r)) (hr : r ≠ .ok ()) : t.add k v = (t1, r) := by
  unfold TableBuilder.add
  rw [hdb]
  simp only [hord, Bool.not_true, Bool.false_eq_true, if_false]
  unfold TableBuilder.flushStep at hfl
  rw [hfl]
  cases r with
  | ok u => cases u; exact absurd rfl hr
  | _ => rfl

theorem add_of_flush_ok {t t1 : TableBuilder} {db db1 db2 : BlockBuilder} {k v : Bytes}
    (hdb : t.dataBlock = some db)
    (hord : (if t.numEntries > 0 then
        t.opt.cmp.cmp (if db.entries > 0 then db.lastKey else t.prevBlockLastKey) k == Ordering.lt
        else true) = true)
    (hfl : t.flushStep db k = (t1, .ok ())) (hdb1 : t1.dataBlock = some db1)
    (hadd : db1.add t1.opt.cmp k v = .ok db2) :
    t.add k v = ({ t1 with filterBlock := t1.filterBlock.map (·.addKey k),
                           numEntries := t1.numEntries + 1, dataBlock := some db2 }, .ok ()) := by
  unfold TableBuilder.add
  rw [hdb]
  simp only [hord, Bool.not_true, Bool.false_eq_true, if_false]
  unfold TableBuilder.flushStep at hfl
  rw [hfl]
  simp only [hdb1, hadd]

/-- the part of `add` after the flush decision -/
theorem add_tail {opt : WOpts} (hok : WOptsOK opt) {t1 : TableBuilder} {fl : List Fl}
    {pend : List (Bytes × Bytes)} (hinv : BInv opt t1 fl pend) (k v : Bytes)
    (hs : Spec.StrictSorted opt.cmp (allKvs fl ++ pend ++ [(k, v)]))
    (hsep : ∀ f ∈ fl, opt.cmp.cmp f.sep k = .lt) :
    ∃ db1 db2, t1.dataBlock = some db1 ∧ db1.add t1.opt.cmp k v = .ok db2 ∧
      BInv opt { t1 with filterBlock := t1.filterBlock.map (·.addKey k),
                         numEntries := t1.numEntries + 1, dataBlock := some db2 } fl (pend ++ [(k, v)]) := by
  have hopt := hinv.opt_eq
  subst hopt
  have hl := hok.lawful
  obtain ⟨db, hdb, hdbinv, hdbsz⟩ := hinv.db
  obtain ⟨fb, hfb, hfbrun, hfblen⟩ := hinv.fb
  have hP := pairwise_of_strictSorted hl _ hs
  have hlt : pend = [] ∨ t1.opt.cmp.cmp (lastKey pend) k = .lt := by
    by_cases hp : pend = []
    · exact .inl hp
    · right
      obtain ⟨lv, hlast⟩ := lastKey_mem pend hp
      exact (List.pairwise_append.1 hP).2.2 (lastKey pend, lv) (by simp [hlast]) (k, v) (by simp)
  obtain ⟨db2, hadd, hinv2, hsz2⟩ := bb_add t1.opt.cmp _ hok.ri db pend k v hdbinv hdbsz hlt
  refine ⟨db, db2, hdb, hadd, ?_⟩
  exact {
    opt_eq := rfl
    sched := hinv.sched
    recv := hinv.recv
    off := hinv.off
    offs := hinv.offs
    db := ⟨db2, rfl, hinv2, hsz2⟩
    ib := hinv.ib
    fb := ⟨fb.addKey k, by show Option.map _ t1.filterBlock = _; rw [hfb]; rfl, by
      rw [evKeys_snoc, ← List.append_assoc]
      exact fbRun_snoc_key _ _ _ _ _ hfbrun, hfblen⟩
    num := by
      show t1.numEntries + 1 = _
      rw [← List.append_assoc, List.length_append, ← hinv.num]; rfl
    sorted := by rw [← List.append_assoc]; exact hs
    blk := hinv.blk
    sepGe := hinv.sepGe
    sepLt := hinv.sepLt
    sepLtP := by
      intro f hf e he
      rcases List.mem_append.1 he with h | h
      · exact hinv.sepLtP f hf e h
      · simp only [List.mem_singleton] at h
        subst h
        exact hsep f hf }

/-- stage 2: `add` of a key above everything added so far preserves the invariant (or the file is
    already too big) -/
theorem add_step {opt : WOpts} (hok : WOptsOK opt) {t : TableBuilder} {fl : List Fl}
    {pend : List (Bytes × Bytes)} (hinv : BInv opt t fl pend) (pne : fl ≠ [] → pend ≠ []) (k v : Bytes)
    (hs : Spec.StrictSorted opt.cmp (allKvs fl ++ pend ++ [(k, v)])) :
    ∃ t' r, t.add k v = (t', r) ∧
      ((r = .ok () ∧ ∃ fl' pend', BInv opt t' fl' pend' ∧ (fl' ≠ [] → pend' ≠ []) ∧
          allKvs fl' ++ pend' = allKvs fl ++ pend ++ [(k, v)])
        ∨ (r ≠ .ok () ∧ Big t')) := by
  have hopt := hinv.opt_eq
  have hl := hok.lawful
  obtain ⟨db, hdb, hdbinv, hdbsz⟩ := hinv.db
  have hP := pairwise_of_strictSorted hl _ hs
  have hall : ∀ e ∈ allKvs fl ++ pend, opt.cmp.cmp e.1 k = .lt := fun e he =>
    (List.pairwise_append.1 hP).2.2 e he (k, v) (by simp)
  have hlastlt : pend ≠ [] → opt.cmp.cmp (lastKey pend) k = .lt := by
    intro hp
    obtain ⟨lv, hlast⟩ := lastKey_mem pend hp
    exact hall _ (List.mem_append_right _ hlast)
  have hcnt : db.entries = pend.length := hdbinv.counter
  have hord : (if t.numEntries > 0 then
        t.opt.cmp.cmp (if db.entries > 0 then db.lastKey else t.prevBlockLastKey) k == Ordering.lt
        else true) = true := by
    by_cases hn : t.numEntries > 0
    · have hp : pend ≠ [] := by
        intro hp
        have hfl : fl = [] := Classical.byContradiction (fun h => pne h hp)
        rw [hinv.num, hfl, hp] at hn
        simp [allKvs] at hn
      have hpos : db.entries > 0 := by
        rw [hcnt]; exact List.length_pos_iff.mpr hp
      rw [if_pos hn, if_pos hpos, hdbinv.lastKey, hopt]
      show (opt.cmp.cmp (lastKey pend) k == Ordering.lt) = true
      rw [hlastlt hp]; rfl
    · rw [if_neg hn]
  have hsepOld : ∀ f ∈ fl, opt.cmp.cmp f.sep k = .lt := by
    intro f hf
    have hp : pend ≠ [] := pne (by intro h; rw [h] at hf; cases hf)
    obtain ⟨lv, hlast⟩ := lastKey_mem pend hp
    exact hl.trans _ _ _ (hinv.sepLtP f hf _ hlast) (hlastlt hp)
  by_cases hc : db.entries > 0 ∧ db.sizeEstimate > t.opt.blockSize
  · have hp : pend ≠ [] := by
      intro hp; rw [hcnt, hp] at hc; simp at hc
    have hlt := hlastlt hp
    obtain ⟨t1, r, db', hdb', hwd, hcase⟩ := flush_step hok hinv hp k (hl.sep_ge _ _ hlt)
    have hfl : t.flushStep db k = (t1, r) := by
      unfold TableBuilder.flushStep
      rw [if_pos hc]; exact hwd
    rcases hcase with ⟨rfl, hinv1⟩ | ⟨hr, hbig⟩
    · rw [hdb] at hdb'
      injection hdb' with hdb'
      subst hdb'
      have hs1 : Spec.StrictSorted opt.cmp
          (allKvs (fl ++ [⟨pend, opt.cmp.sep (lastKey pend) k, t.offset, db⟩]) ++ [] ++ [(k, v)]) := by
        rw [allKvs_snoc, List.append_nil]; exact hs
      have hsep1 : ∀ f ∈ fl ++ [(⟨pend, opt.cmp.sep (lastKey pend) k, t.offset, db⟩ : Fl)],
          opt.cmp.cmp f.sep k = .lt := by
        intro f hf
        rcases List.mem_append.1 hf with h | h
        · exact hsepOld f h
        · simp only [List.mem_singleton] at h
          subst h
          exact hl.sep_lt _ _ hlt
      obtain ⟨db1, db2, hdb1, hadd, hinv2⟩ := add_tail hok hinv1 k v hs1 hsep1
      refine ⟨_, _, add_of_flush_ok hdb hord hfl hdb1 hadd, Or.inl ⟨rfl, _, _, hinv2, fun _ => by simp, ?_⟩⟩
      rw [allKvs_snoc]; simp
    · exact ⟨_, _, add_of_flush_fail hdb hord hfl hr, Or.inr ⟨hr, hbig⟩⟩
  · have hfl : t.flushStep db k = (t, .ok ()) := by
      unfold TableBuilder.flushStep
      rw [if_neg hc]
    obtain ⟨db1, db2, hdb1, hadd, hinv2⟩ := add_tail hok hinv k v hs hsepOld
    exact ⟨_, _, add_of_flush_ok hdb hord hfl hdb1 hadd,
      Or.inl ⟨rfl, _, _, hinv2, fun _ => by simp, by simp⟩⟩

/-- stage 2: `addAll` of a list continuing the entries added so far in strictly increasing order -/
theorem addAll_step {opt : WOpts} (hok : WOptsOK opt) : ∀ (rest : List (Bytes × Bytes)) (t : TableBuilder)
    (fl : List Fl) (pend : List (Bytes × Bytes)), BInv opt t fl pend → (fl ≠ [] → pend ≠ []) →
    Spec.StrictSorted opt.cmp (allKvs fl ++ pend ++ rest) →
    ∃ t' r, t.addAll rest = (t', r) ∧
      ((r = .ok () ∧ ∃ fl' pend', BInv opt t' fl' pend' ∧ (fl' ≠ [] → pend' ≠ []) ∧
          allKvs fl' ++ pend' = allKvs fl ++ pend ++ rest)
        ∨ (r ≠ .ok () ∧ Big t'))
  | [], t, fl, pend, hinv, pne, _ =>
    ⟨t, .ok (), rfl, Or.inl ⟨rfl, fl, pend, hinv, pne, by simp⟩⟩
  | (k, v) :: rest, t, fl, pend, hinv, pne, hs => by
    have hl := hok.lawful
    have hs1 : Spec.StrictSorted opt.cmp (allKvs fl ++ pend ++ [(k, v)]) := by
      have hP := pairwise_of_strictSorted hl _ hs
      have : allKvs fl ++ pend ++ (k, v) :: rest = (allKvs fl ++ pend ++ [(k, v)]) ++ rest := by simp
      rw [this] at hP
      exact strictSorted_of_pairwise _ (List.pairwise_append.1 hP).1
    obtain ⟨t1, r, hadd, hcase⟩ := add_step hok hinv pne k v hs1
    rcases hcase with ⟨rfl, fl1, pend1, hinv1, pne1, heq1⟩ | ⟨hr, hbig⟩
    · have hs2 : Spec.StrictSorted opt.cmp (allKvs fl1 ++ pend1 ++ rest) := by
        rw [heq1]; simpa using hs
      obtain ⟨t', r', hall, hcase'⟩ := addAll_step hok rest t1 fl1 pend1 hinv1 pne1 hs2
      refine ⟨t', r', ?_, ?_⟩
      · simp only [TableBuilder.addAll, hadd]; exact hall
      · rcases hcase' with ⟨rfl, fl', pend', hinv', pne', heq'⟩ | h
        · exact Or.inl ⟨rfl, fl', pend', hinv', pne', by rw [heq', heq1]; simp⟩
        · exact Or.inr h
    · refine ⟨t1, r, ?_, Or.inr ⟨hr, hbig⟩⟩
      simp only [TableBuilder.addAll, hadd]
      cases r with
      | ok u => cases u; exact absurd rfl hr
      | _ => rfl

end BL
end Sst
