import SstModel.Spec.Judge
import SstModel.Spec.Cursor
import SstModel.Props.C17
import SstModel.Lemmas.BuildLayout1
/-
  The executable judges of `Spec/Judge.lean` decide the relational Specs the property theorems are
  stated against (helper lemmas; the headline statements are in `Props/Judges.lean`).
  * C17: `c17` is the conjunction of the separator and successor clauses over `LexLt`/`LexLe`.
  * C05: `c05 … = "ok"` iff the independent decoder accepts the file and the clauses `C05OK` hold.
  * C04: `c04 … = "ok"` iff the observed answers are a run of `Spec.CursorRun` (under the harness
    protocol: every `prev` is followed by `current`).
-/
namespace Sst.Judge
open Sst Sst.Spec

/-! ### C17 -/

theorem c17_iff (a b s u : Bytes) :
    c17 a b (some s) (some u) = true ↔
      ((LexLt a b → LexLe a s ∧ LexLt s b ∧ s.length ≤ a.length + 1) ∧ LexLe a u) := by
  unfold c17
  by_cases hab : blt a b
  · simp only [hab, decide_true, if_true, Bool.and_eq_true, decide_eq_true_eq,
      model_le_is_lex, model_order_is_lex]
    have hab' := (model_order_is_lex a b).mp hab
    constructor
    · rintro ⟨⟨⟨h1, h2⟩, h3⟩, h4⟩; exact ⟨fun _ => ⟨h1, h2, h3⟩, h4⟩
    · rintro ⟨h, h4⟩; obtain ⟨h1, h2, h3⟩ := h hab'; exact ⟨⟨⟨h1, h2⟩, h3⟩, h4⟩
  · have hab' : ¬ LexLt a b := fun h => hab ((model_order_is_lex a b).mpr h)
    simp only [hab, decide_false, Bool.false_eq_true, if_false, Bool.true_and, decide_eq_true_eq,
      model_le_is_lex]
    constructor
    · intro h; exact ⟨fun h' => absurd h' hab', h⟩
    · intro h; exact h.2

theorem c17_succ_none (a b : Bytes) (sep : Option Bytes) : c17 a b sep none = false := by
  unfold c17; simp

theorem c17_sep_none (a b : Bytes) (succ : Option Bytes) (h : LexLt a b) :
    c17 a b none succ = false := by
  unfold c17; simp [(model_order_is_lex a b).mpr h]

/-- the general form: a missing separator (for `a < b`) or successor means the implementation
    panicked and is rejected -/
theorem c17_true_iff (a b : Bytes) (sep succ : Option Bytes) :
    c17 a b sep succ = true ↔
      ((LexLt a b → ∃ s, sep = some s ∧ LexLe a s ∧ LexLt s b ∧ s.length ≤ a.length + 1)
        ∧ ∃ u, succ = some u ∧ LexLe a u) := by
  cases succ with
  | none => simp [c17_succ_none]
  | some u =>
    cases sep with
    | some s => simp [c17_iff]
    | none =>
      by_cases hab : LexLt a b
      · simp [c17_sep_none a b _ hab, hab]
      · have hab' : ¬ blt a b := fun h => hab ((model_order_is_lex a b).mp h)
        simp [c17, hab, hab', model_le_is_lex]

/-! ### C05 -/

theorem mem_zip_tail_iff {α} (l : List α) (a b : α) :
    (a, b) ∈ l.zip l.tail ↔ ∃ i, l[i]? = some a ∧ l[i + 1]? = some b := by
  rw [List.mem_iff_getElem?]
  constructor
  · rintro ⟨i, hi⟩
    rw [List.getElem?_zip_eq_some] at hi
    exact ⟨i, hi.1, by simpa using hi.2⟩
  · rintro ⟨i, h1, h2⟩
    exact ⟨i, by rw [List.getElem?_zip_eq_some]; exact ⟨h1, by simpa using h2⟩⟩

/-- the clauses `c05` enforces, as a proposition over the decoded table -/
structure C05OK (cmp : Cmp) (img : Bytes) (es : List Entry) (filterName : String) (isBloom : Bool)
    (d : Format.Decoded) : Prop where
  decodes : Format.decodeTable img = some d
  entries : d.entries = es
  nonempty : ∀ b ∈ d.blocks, b.entries ≠ []
  lastLeIndex : ∀ b ∈ d.blocks, ∀ e, b.entries.getLast? = some e → cmp.cmp e.1 b.indexKey ≠ .gt
  indexLtNext : ∀ i b nb, d.blocks[i]? = some b → d.blocks[i + 1]? = some nb →
      ∀ e, nb.entries.head? = some e → cmp.cmp b.indexKey e.1 = .lt
  filter : ∃ k hv fh r fb, d.metaEntries.find? (·.1 = ("filter." ++ filterName).toUTF8.toList) = some (k, hv)
      ∧ Format.handle hv = some (fh, r) ∧ Format.block img ⟨fh.offset, fh.size⟩ = some fb
      ∧ (isBloom = true → ∀ b ∈ d.blocks, ∀ e ∈ b.entries,
            Format.filterBlockMayMatch fb b.handle.offset e.1 = true)
  ordered : ∀ i b nb, d.blocks[i]? = some b → d.blocks[i + 1]? = some nb →
      b.handle.offset + b.handle.size + 5 ≤ nb.handle.offset

theorem c05_ok_iff (cmp : Cmp) (img : Bytes) (es : List Entry) (name : String) (isBloom : Bool) :
    c05 cmp img es name isBloom = "ok" ↔ ∃ d, C05OK cmp img es name isBloom d := by
  unfold c05
  constructor
  · intro h
    split at h
    · simp at h
    · rename_i d hd
      refine ⟨d, ?_⟩
      split at h
      · simp at h
      rename_i hes
      split at h
      · simp at h
      rename_i hne
      simp only at h
      split at h
      · simp at h
      rename_i h1
      split at h
      · simp at h
      rename_i h2
      split at h
      · simp at h
      rename_i k hv hfind
      split at h
      · simp at h
      rename_i fh r hh
      split at h
      · simp at h
      rename_i fb hfb
      split at h
      · simp at h
      rename_i h3
      split at h
      · simp at h
      rename_i h4
      simp only [Bool.not_eq_true', Bool.not_eq_false, ne_eq, Decidable.not_not,
        List.all_eq_true, List.any_eq_true, not_exists, not_and, List.isEmpty_iff,
        decide_eq_true_eq] at hes hne h1 h2 h3 h4
      refine ⟨hd, hes, fun b hb he => hne b hb he, ?_, ?_, ⟨k, hv, fh, r, fb, hfind, hh, hfb, ?_⟩, ?_⟩
      · intro b hb e he
        have := h1 b hb
        rw [he] at this
        simpa using this
      · intro i b nb hb hnb e he
        have := h2 (b, nb) ((mem_zip_tail_iff _ _ _).mpr ⟨i, hb, hnb⟩)
        rw [he] at this
        simpa using this
      · intro hbl b hb e he
        exact h3 hbl b hb e he
      · intro i b nb hb hnb
        exact h4 (b, nb) ((mem_zip_tail_iff _ _ _).mpr ⟨i, hb, hnb⟩)
  · rintro ⟨d, hd, hes, hne, h1, h2, ⟨k, hv, fh, r, fb, hfind, hh, hfb, h3⟩, h4⟩
    simp only [hd]
    rw [if_neg (by simpa using hes)]
    split
    · rename_i h; exfalso
      obtain ⟨b, hb, he⟩ := List.any_eq_true.mp h
      exact hne b hb (List.isEmpty_iff.mp he)
    split
    · rename_i h; exfalso
      simp only [Bool.not_eq_true', ← Bool.not_eq_true, List.all_eq_true] at h
      apply h; intro b hb
      split
      · rename_i e he; simpa using h1 b hb e he
      · rfl
    split
    · rename_i h; exfalso
      simp only [Bool.not_eq_true', ← Bool.not_eq_true, List.all_eq_true] at h
      apply h; rintro ⟨b, nb⟩ hb
      obtain ⟨i, hi1, hi2⟩ := (mem_zip_tail_iff _ _ _).mp hb
      split
      · rename_i e he; simpa using h2 i b nb hi1 hi2 e he
      · rfl
    simp only [hfind, hh, hfb]
    split
    · rename_i h; exfalso
      obtain ⟨hb, h⟩ := h
      simp only [Bool.not_eq_true', ← Bool.not_eq_true, List.all_eq_true] at h
      exact h (h3 hb)
    split
    · rename_i h; exfalso
      simp only [Bool.not_eq_true', ← Bool.not_eq_true, List.all_eq_true] at h
      apply h; rintro ⟨b, nb⟩ hb
      obtain ⟨i, hi1, hi2⟩ := (mem_zip_tail_iff _ _ _).mp hb
      simpa using h4 i b nb hi1 hi2
    · rfl
/-- with sorted input entries the two index-key clauses extend from the last / first key to every key:
    an index key is not below any key of its own block and is below every key of the next block -/
theorem C05OK.bracket {cmp : Cmp} {img es name isBloom d} (h : C05OK cmp img es name isBloom d)
    (hl : cmp.Lawful) (hs : StrictSorted cmp es) :
    (∀ b ∈ d.blocks, ∀ e ∈ b.entries, cmp.cmp e.1 b.indexKey ≠ .gt) ∧
    (∀ i b nb, d.blocks[i]? = some b → d.blocks[i + 1]? = some nb →
        ∀ e ∈ nb.entries, cmp.cmp b.indexKey e.1 = .lt) := by
  have hsb : ∀ b ∈ d.blocks, StrictSorted cmp b.entries := by
    intro b hb
    have hp := BL.pairwise_of_strictSorted hl es hs
    rw [← h.entries] at hp
    exact BL.strictSorted_of_pairwise _
      (hp.sublist (List.sublist_flatten_of_mem (List.mem_map_of_mem hb)))
  constructor
  · intro b hb e he
    have hne := h.nonempty b hb
    have h1 := BL.le_lastKey hl b.entries (hsb b hb) e he
    obtain ⟨l', a, hla⟩ := BL.exists_snoc_of_ne_nil _ hne
    have hlast : b.entries.getLast? = some a := by rw [hla]; simp
    have h2 := h.lastLeIndex b hb a hlast
    have hk : BL.lastKey b.entries = a.1 := by simp [BL.lastKey, hlast]
    rw [hk] at h1
    rcases hl.le_iff.mp h1 with h3 | h3
    · have := hl.lt_of_lt_of_le h3 h2; rw [this]; simp
    · rw [h3]; exact h2
  · intro i b nb hb hnb e he
    have hnbm : nb ∈ d.blocks := List.mem_of_getElem? hnb
    cases hent : nb.entries with
    | nil => rw [hent] at he; cases he
    | cons a l =>
      have h1 := h.indexLtNext i b nb hb hnb a (by rw [hent]; rfl)
      rw [hent] at he
      rcases List.mem_cons.mp he with rfl | he
      · exact h1
      · have hp := BL.pairwise_of_strictSorted hl _ (hsb nb hnbm)
        rw [hent, List.pairwise_cons] at hp
        exact hl.trans _ _ _ h1 (hp.1 e he)

/-! ### C04: failure strings are never "ok" -/

def IsFail (s : String) : Prop := ∃ r, s.toList = 'f' :: r

theorem isFail_lit : IsFail (toString "fail ") := ⟨['a', 'i', 'l', ' '], by decide⟩

theorem IsFail.append {s : String} (h : IsFail s) (t : String) : IsFail (s ++ t) := by
  obtain ⟨r, hr⟩ := h
  exact ⟨r ++ t.toList, by rw [String.toList_append, hr]; rfl⟩

theorem IsFail.ne_ok {s : String} (h : IsFail s) : s ≠ "ok" := by
  rintro rfl
  obtain ⟨r, hr⟩ := h
  have h2 : "ok".toList = ['o', 'k'] := by decide
  rw [h2] at hr; cases hr

macro "fail_ne_ok" : tactic =>
  `(tactic| (apply IsFail.ne_ok; (repeat (with_reducible refine IsFail.append ?_ _)); with_reducible exact isFail_lit))

theorem toString_bool_inj {a b : Bool} (h : toString a = toString b) : a = b := by
  cases a <;> cases b <;> first | rfl | (revert h; decide)

theorem toString_eq_false {b : Bool} : toString b = "false" ↔ b = false := by
  cases b <;> decide
theorem toString_eq_true {b : Bool} : toString b = "true" ↔ b = true := by
  cases b <;> decide

variable (cmp : Cmp) (es : List Entry) (hex : Bytes → String)

theorem c04_nil (p : Pos) (i : Nat) : c04 cmp es hex [] p i = "ok" := by
  rw [c04.eq_def]

theorem c04_adv (o : Obs) (rest : List Obs) (p : Pos) (i : Nat) (h : o.op = "adv") :
    c04 cmp es hex (o :: rest) p i = "ok" ↔
      o.out = toString (advance es p).2 ∧ c04 cmp es hex rest (advance es p).1 (i + 1) = "ok" := by
  rw [c04.eq_def]; simp only [h]
  split
  · rename_i h1; simp [h1]
  · rename_i h1; simp only [h1, false_and, iff_false]; fail_ne_ok


theorem c04_next (o : Obs) (rest : List Obs) (p : Pos) (i : Nat) (h : o.op = "next") :
    c04 cmp es hex (o :: rest) p i = "ok" ↔
      o.out = showKV (entryAt es (advance es p).1) hex
        ∧ c04 cmp es hex rest (advance es p).1 (i + 1) = "ok" := by
  rw [c04.eq_def]; simp only [h]
  split
  · rename_i h1; simp [h1]
  · rename_i h1; simp only [h1, false_and, iff_false]; fail_ne_ok

theorem c04_prev_some (o : Obs) (rest : List Obs) (j : Nat) (i : Nat) (h : o.op = "prev") :
    c04 cmp es hex (o :: rest) (some j) i = "ok" ↔
      o.out = toString (prevValid j).2 ∧ c04 cmp es hex rest (prevValid j).1 (i + 1) = "ok" := by
  rw [c04.eq_def]; simp only [h]
  split
  · rename_i h1; simp [h1]
  · rename_i h1; simp only [h1, false_and, iff_false]; fail_ne_ok

theorem c04_prev_none_nil (o : Obs) (i : Nat) (h : o.op = "prev") :
    c04 cmp es hex [o] none i = "ok" := by
  rw [c04.eq_def]; simp only [h]

theorem c04_prev_none_cons (o c : Obs) (rest : List Obs) (i : Nat) (h : o.op = "prev") :
    c04 cmp es hex (o :: c :: rest) none i = "ok" ↔
      c.op = "cur" ∧
        ((c.out = "none" ∧ o.out = "false" ∧ c04 cmp es hex rest none (i + 2) = "ok") ∨
         (c.out ≠ "none" ∧ ∃ j, (List.range es.length).find? (fun j => showKV es[j]? hex = c.out) = some j
            ∧ o.out = "true" ∧ c04 cmp es hex rest (some j) (i + 2) = "ok")) := by
  rw [c04.eq_def]; simp only [h]
  split
  · rename_i h1
    have h1 : ¬ c.op = "cur" := h1
    simp only [h1, false_and, iff_false]; fail_ne_ok
  rename_i h1
  have h1 : c.op = "cur" := Decidable.not_not.mp h1
  simp only [h1, true_and]
  split
  · rename_i h2
    simp only [h2, true_and, ne_eq, not_true_eq_false, false_and, or_false]
    split
    · rename_i h3; simp [h3]
    · rename_i h3; simp only [h3, false_and, iff_false]; fail_ne_ok
  · rename_i h2
    simp only [h2, false_and, false_or, ne_eq, not_false_eq_true, true_and]
    split
    · rename_i j hj
      simp only [hj, Option.some.injEq, exists_eq_left']
      split
      · rename_i h3; simp [h3]
      · rename_i h3; simp only [h3, false_and, iff_false]; fail_ne_ok
    · rename_i hj
      simp only [hj, reduceCtorEq, false_and, exists_false, iff_false]; fail_ne_ok

theorem c04_reset (o : Obs) (rest : List Obs) (p : Pos) (i : Nat) (h : o.op = "reset") :
    c04 cmp es hex (o :: rest) p i = c04 cmp es hex rest none (i + 1) := by
  rw [c04.eq_def]; simp only [h]

theorem c04_first (o : Obs) (rest : List Obs) (p : Pos) (i : Nat) (h : o.op = "first") :
    c04 cmp es hex (o :: rest) p i = c04 cmp es hex rest (seekToFirst es) (i + 1) := by
  rw [c04.eq_def]; simp only [h]

theorem c04_seek (o : Obs) (rest : List Obs) (p : Pos) (i : Nat) (h : o.op = "seek") :
    c04 cmp es hex (o :: rest) p i = c04 cmp es hex rest (lowerBound cmp es o.arg) (i + 1) := by
  rw [c04.eq_def]; simp only [h]

theorem c04_valid (o : Obs) (rest : List Obs) (p : Pos) (i : Nat) (h : o.op = "valid") :
    c04 cmp es hex (o :: rest) p i = "ok" ↔
      o.out = toString p.isSome ∧ c04 cmp es hex rest p (i + 1) = "ok" := by
  rw [c04.eq_def]; simp only [h]
  split
  · rename_i h1; simp [h1]
  · rename_i h1; simp only [h1, false_and, iff_false]; fail_ne_ok

theorem c04_cur (o : Obs) (rest : List Obs) (p : Pos) (i : Nat) (h : o.op = "cur") :
    c04 cmp es hex (o :: rest) p i = "ok" ↔
      o.out = showKV (entryAt es p) hex ∧ c04 cmp es hex rest p (i + 1) = "ok" := by
  rw [c04.eq_def]; simp only [h]
  split
  · rename_i h1; simp [h1]
  · rename_i h1; simp only [h1, false_and, iff_false]; fail_ne_ok

/-- how the harness prints the answer of `current_key` -/
def showKey (k : Option Bytes) (hex : Bytes → String) : String :=
  match k with
  | some k => hex k
  | none => "none"

theorem c04_key (o : Obs) (rest : List Obs) (p : Pos) (i : Nat) (h : o.op = "key") :
    c04 cmp es hex (o :: rest) p i = "ok" ↔
      o.out = showKey ((entryAt es p).map (·.1)) hex ∧ c04 cmp es hex rest p (i + 1) = "ok" := by
  rw [c04.eq_def]; simp only [h]
  cases entryAt es p with
  | none =>
    simp only [Option.map_none, showKey]
    split
    · rename_i h1; simp [h1]
    · rename_i h1; simp only [h1, false_and, iff_false]; fail_ne_ok
  | some e =>
    obtain ⟨k, v⟩ := e
    simp only [Option.map_some, showKey]
    split
    · rename_i h1; simp [h1]
    · rename_i h1; simp only [h1, false_and, iff_false]; fail_ne_ok


/-! ### C04: observations, protocol -/

/-- what the judge needs from the byte printer: printed entries determine the entry and are never
    the word "none"; printed keys are never "none" -/
structure HexOK (hex : Bytes → String) : Prop where
  kv_inj : ∀ e e' : Entry, showKV (some e) hex = showKV (some e') hex → e = e'
  kv_ne_none : ∀ e : Entry, showKV (some e) hex ≠ "none"
  key_ne_none : ∀ k : Bytes, hex k ≠ "none"

namespace HexOK
variable {hex} (hx : HexOK hex)
include hx

theorem key_inj {a b : Bytes} (h : hex a = hex b) : a = b := by
  have := hx.kv_inj (a, []) (b, []) (by simp only [showKV, h])
  exact congrArg Prod.fst this

theorem showKV_inj {e e' : Option Entry} (h : showKV e hex = showKV e' hex) : e = e' := by
  cases e with
  | none =>
    cases e' with
    | none => rfl
    | some b => exact absurd h.symm (hx.kv_ne_none b)
  | some a =>
    cases e' with
    | none => exact absurd h (hx.kv_ne_none a)
    | some b => rw [hx.kv_inj a b h]

theorem showKV_eq_none {e : Option Entry} (h : showKV e hex = "none") : e = none :=
  hx.showKV_inj (e' := none) h

theorem showKey_inj {k k' : Option Bytes} (h : showKey k hex = showKey k' hex) : k = k' := by
  cases k with
  | none =>
    cases k' with
    | none => rfl
    | some b => exact absurd h.symm (hx.key_ne_none b)
  | some a =>
    cases k' with
    | none => exact absurd h (hx.key_ne_none a)
    | some b => rw [hx.key_inj (a := a) (b := b) h]

end HexOK

/-- `o` is an observation of the call `op` to which the implementation answered `out`.
    The harness sends an (ignored) argument with every call and an (ignored) answer for the calls
    that return nothing; both are arbitrary here. -/
inductive Renders (hex : Bytes → String) : IterOp → IterOut → Obs → Prop where
  | advance (b : Bool) (arg : Bytes) : Renders hex .advance (.flag b) ⟨"adv", arg, toString b⟩
  | next (e : Option Entry) (arg : Bytes) : Renders hex .next (.entry e) ⟨"next", arg, showKV e hex⟩
  | prev (b : Bool) (arg : Bytes) : Renders hex .prev (.flag b) ⟨"prev", arg, toString b⟩
  | reset (arg : Bytes) (s : String) : Renders hex .reset .unit ⟨"reset", arg, s⟩
  | seekToFirst (arg : Bytes) (s : String) : Renders hex .seekToFirst .unit ⟨"first", arg, s⟩
  | seek (t : Bytes) (s : String) : Renders hex (.seek t) .unit ⟨"seek", t, s⟩
  | valid (b : Bool) (arg : Bytes) : Renders hex .valid (.flag b) ⟨"valid", arg, toString b⟩
  | current (e : Option Entry) (arg : Bytes) : Renders hex .current (.entry e) ⟨"cur", arg, showKV e hex⟩
  | currentKey (k : Option Bytes) (arg : Bytes) :
      Renders hex .currentKey (.key k) ⟨"key", arg, showKey k hex⟩

/-- an observation list for a call history and the answers the implementation gave -/
inductive RendersAll (hex : Bytes → String) : List IterOp → List IterOut → List Obs → Prop where
  | nil : RendersAll hex [] [] []
  | cons {op out o ops outs obs} : Renders hex op out o → RendersAll hex ops outs obs →
      RendersAll hex (op :: ops) (out :: outs) (o :: obs)

/-- harness protocol, syntactically: every `prev` is immediately followed by `current` -/
def PrevThenCur : List IterOp → Prop
  | [] => True
  | .prev :: rest => (∃ r, rest = .current :: r) ∧ PrevThenCur rest
  | _ :: rest => PrevThenCur rest

/-- a run of the Spec cursor in which every `prev` issued at an invalid position is immediately
    followed by `current` (the part of the harness protocol the judge relies on) -/
inductive ProtoRun (cmp : Cmp) (es : List Entry) : Pos → List IterOp → Pos → List IterOut → Prop where
  | nil (p : Pos) : ProtoRun cmp es p [] p []
  | cons {p q r : Pos} {op : IterOp} {out : IterOut} {ops : List IterOp} {outs : List IterOut} :
      CursorStep cmp es p op q out →
      (p = none → op = .prev → ∃ ops', ops = .current :: ops') →
      ProtoRun cmp es q ops r outs →
      ProtoRun cmp es p (op :: ops) r (out :: outs)

variable {cmp es hex}

theorem ProtoRun.run {p ops q outs} (h : ProtoRun cmp es p ops q outs) : CursorRun cmp es p ops q outs := by
  induction h with
  | nil p => exact .nil p
  | cons hs _ _ ih => exact .cons hs ih

theorem PrevThenCur.tail {op : IterOp} {ops : List IterOp} (h : PrevThenCur (op :: ops)) :
    PrevThenCur ops := by
  cases op <;> first | exact h | exact h.2

theorem proto_of_run {p ops q outs} (h : CursorRun cmp es p ops q outs) (hp : PrevThenCur ops) :
    ProtoRun cmp es p ops q outs := by
  induction h with
  | nil p => exact .nil p
  | cons hs _ ih =>
    refine .cons hs ?_ (ih hp.tail)
    intro _ hop; subst hop; exact hp.1

theorem PrevThenCur.getLast {ops : List IterOp} (h : PrevThenCur ops) : ops.getLast? ≠ some .prev := by
  induction ops with
  | nil => simp
  | cons op ops ih =>
    cases ops with
    | nil =>
      cases op <;> simp
      · obtain ⟨⟨r, hr⟩, _⟩ := h; cases hr
    | cons a l =>
      rw [List.getLast?_cons_cons]; exact ih h.tail


theorem getLast?_tail_ne {op : IterOp} {ops : List IterOp} (h : (op :: ops).getLast? ≠ some .prev) :
    ops.getLast? ≠ some .prev := by
  cases ops with
  | nil => simp
  | cons a l => rwa [List.getLast?_cons_cons] at h

/-- SOUNDNESS (core): whatever the implementation answered, if the judge accepts the observation list
    then those answers are a run of the Spec cursor (one that follows the protocol) -/
theorem c04_sound_proto (hx : HexOK hex) {ops outs obs} (hr : RendersAll hex ops outs obs) :
    ∀ (p : Pos) (i : Nat), ops.getLast? ≠ some .prev → c04 cmp es hex obs p i = "ok" →
      ∃ q, ProtoRun cmp es p ops q outs := by
  induction hr with
  | nil => intro p _ _ _; exact ⟨p, .nil p⟩
  | @cons op out o ops outs obs hro hra ih =>
    intro p i hlast hok
    have hlast' := getLast?_tail_ne hlast
    cases hro with
    | advance b arg =>
      obtain ⟨h1, h2⟩ := (c04_adv cmp es hex _ _ p i rfl).mp hok
      obtain ⟨q, hq⟩ := ih _ _ hlast' h2
      rw [toString_bool_inj h1]
      exact ⟨q, .cons (.advance p) (fun _ h => nomatch h) hq⟩
    | next e arg =>
      obtain ⟨h1, h2⟩ := (c04_next cmp es hex _ _ p i rfl).mp hok
      obtain ⟨q, hq⟩ := ih _ _ hlast' h2
      rw [hx.showKV_inj h1]
      exact ⟨q, .cons (.next p) (fun _ h => nomatch h) hq⟩
    | prev b arg =>
      cases p with
      | some j =>
        obtain ⟨h1, h2⟩ := (c04_prev_some cmp es hex _ _ j i rfl).mp hok
        obtain ⟨q, hq⟩ := ih _ _ hlast' h2
        rw [toString_bool_inj h1]
        exact ⟨q, .cons (.prevValid j) (fun h => nomatch h) hq⟩
      | none =>
        cases hra with
        | nil => exact absurd rfl hlast
        | @cons op2 out2 c ops2 outs2 rest hrc hra2 =>
          obtain ⟨hc, hcases⟩ := (c04_prev_none_cons cmp es hex _ c rest i rfl).mp hok
          have hop2 : op2 = .current := by cases hrc <;> first | rfl | (simp at hc)
          subst hop2
          -- the position the judge adopts, and the judge accepting the rest from there
          have key : ∃ p' : Pos, (∀ j, p' = some j → j < es.length) ∧ b = p'.isSome
              ∧ c04 cmp es hex (c :: rest) p' (i + 1) = "ok" := by
            rcases hcases with ⟨h1, h2, h3⟩ | ⟨h1, j, hj, h2, h3⟩
            · exact ⟨none, (fun _ h => nomatch h), toString_eq_false.mp h2,
                (c04_cur cmp es hex c rest none (i + 1) hc).mpr ⟨h1, h3⟩⟩
            · have hjlt : j < es.length := List.mem_range.mp (List.mem_of_find?_eq_some hj)
              have hjp := List.find?_some hj
              simp only [decide_eq_true_eq] at hjp
              exact ⟨some j, (fun _ h => by cases h; exact hjlt), toString_eq_true.mp h2,
                (c04_cur cmp es hex c rest (some j) (i + 1) hc).mpr ⟨hjp.symm, h3⟩⟩
          obtain ⟨p', hval, hb, hok'⟩ := key
          obtain ⟨q, hq⟩ := ih p' (i + 1) hlast' hok'
          subst hb
          exact ⟨q, .cons (.prevInvalid p' hval) (fun _ _ => ⟨_, rfl⟩) hq⟩
    | reset arg s =>
      rw [c04_reset cmp es hex _ _ p i rfl] at hok
      obtain ⟨q, hq⟩ := ih _ _ hlast' hok
      exact ⟨q, .cons (.reset p) (fun _ h => nomatch h) hq⟩
    | seekToFirst arg s =>
      rw [c04_first cmp es hex _ _ p i rfl] at hok
      obtain ⟨q, hq⟩ := ih _ _ hlast' hok
      exact ⟨q, .cons (.seekToFirst p) (fun _ h => nomatch h) hq⟩
    | seek t s =>
      rw [c04_seek cmp es hex _ _ p i rfl] at hok
      obtain ⟨q, hq⟩ := ih _ _ hlast' hok
      exact ⟨q, .cons (.seek p t) (fun _ h => nomatch h) hq⟩
    | valid b arg =>
      obtain ⟨h1, h2⟩ := (c04_valid cmp es hex _ _ p i rfl).mp hok
      obtain ⟨q, hq⟩ := ih _ _ hlast' h2
      rw [toString_bool_inj h1]
      exact ⟨q, .cons (.valid p) (fun _ h => nomatch h) hq⟩
    | current e arg =>
      obtain ⟨h1, h2⟩ := (c04_cur cmp es hex _ _ p i rfl).mp hok
      obtain ⟨q, hq⟩ := ih _ _ hlast' h2
      rw [hx.showKV_inj h1]
      exact ⟨q, .cons (.current p) (fun _ h => nomatch h) hq⟩
    | currentKey k arg =>
      obtain ⟨h1, h2⟩ := (c04_key cmp es hex _ _ p i rfl).mp hok
      obtain ⟨q, hq⟩ := ih _ _ hlast' h2
      rw [hx.showKey_inj h1]
      exact ⟨q, .cons (.currentKey p) (fun _ h => nomatch h) hq⟩


theorem find?_range_unique (n : Nat) (P : Nat → Bool) (j : Nat) (hj : j < n) (hP : P j = true)
    (huniq : ∀ j', j' < n → P j' = true → j' = j) : (List.range n).find? P = some j := by
  cases hf : (List.range n).find? P with
  | none => exact absurd hP (by simpa using List.find?_eq_none.mp hf j (List.mem_range.mpr hj))
  | some j' =>
    rw [huniq j' (List.mem_range.mp (List.mem_of_find?_eq_some hf)) (List.find?_some hf)]

theorem nodup_getElem_inj {α} {l : List α} (h : l.Nodup) {i j : Nat} (hi : i < l.length)
    (hj : j < l.length) (e : l[i] = l[j]) : i = j := by
  have hp := List.pairwise_iff_getElem.mp h
  rcases Nat.lt_trichotomy i j with h1 | h1 | h1
  · exact absurd e (hp i j hi hj h1)
  · exact h1
  · exact absurd e.symm (hp j i hj hi h1)

/-- COMPLETENESS (core): the judge accepts every protocol-following run of the Spec cursor, provided
    the stored entries are pairwise distinct (so that a printed entry identifies its position) -/
theorem c04_complete_proto (hx : HexOK hex) (hnd : es.Nodup) {p ops q outs}
    (hrun : ProtoRun cmp es p ops q outs) :
    ∀ (obs : List Obs) (i : Nat), RendersAll hex ops outs obs → c04 cmp es hex obs p i = "ok" := by
  induction hrun with
  | nil p => intro obs i hr; cases hr; exact c04_nil cmp es hex p i
  | @cons p q r op out ops outs hs hproto _ ih =>
    intro obs i hr
    cases hr with
    | @cons _ _ o _ _ obs' hro hra =>
    cases hs with
    | advance =>
      cases hro; exact (c04_adv cmp es hex _ _ p i rfl).mpr ⟨rfl, ih _ _ hra⟩
    | next =>
      cases hro; exact (c04_next cmp es hex _ _ p i rfl).mpr ⟨rfl, ih _ _ hra⟩
    | prevValid j =>
      cases hro; exact (c04_prev_some cmp es hex _ _ j i rfl).mpr ⟨rfl, ih _ _ hra⟩
    | prevInvalid p' hval =>
      cases hro with
      | prev _ arg =>
      obtain ⟨ops', hops⟩ := hproto rfl rfl
      subst hops
      cases hra with
      | @cons _ out2 c _ outs2 rest hrc hra2 =>
      have hc : c.op = "cur" := by cases hrc; rfl
      obtain ⟨h1, h2⟩ := (c04_cur cmp es hex c rest q (i + 1) hc).mp (ih _ (i + 1) (.cons hrc hra2))
      refine (c04_prev_none_cons cmp es hex _ c rest i rfl).mpr ⟨hc, ?_⟩
      cases q with
      | none => exact .inl ⟨h1, rfl, h2⟩
      | some j =>
        have hj : j < es.length := hval j rfl
        have hcout : c.out = showKV es[j]? hex := h1
        refine .inr ⟨?_, j, ?_, rfl, h2⟩
        · rw [hcout, List.getElem?_eq_getElem hj]; exact hx.kv_ne_none _
        · apply find?_range_unique _ _ j hj
          · simp [hcout]
          · intro j' hj' hP
            simp only [decide_eq_true_eq, hcout] at hP
            have := hx.showKV_inj hP
            rw [List.getElem?_eq_getElem hj, List.getElem?_eq_getElem hj', Option.some.injEq] at this
            exact nodup_getElem_inj hnd hj' hj this
    | reset =>
      cases hro; rw [c04_reset cmp es hex _ _ p i rfl]; exact ih _ _ hra
    | seekToFirst =>
      cases hro; rw [c04_first cmp es hex _ _ p i rfl]; exact ih _ _ hra
    | seek _ t =>
      cases hro; rw [c04_seek cmp es hex _ _ p i rfl]; exact ih _ _ hra
    | valid =>
      cases hro; exact (c04_valid cmp es hex _ _ p i rfl).mpr ⟨rfl, ih _ _ hra⟩
    | current =>
      cases hro; exact (c04_cur cmp es hex _ _ p i rfl).mpr ⟨rfl, ih _ _ hra⟩
    | currentKey =>
      cases hro; exact (c04_key cmp es hex _ _ p i rfl).mpr ⟨rfl, ih _ _ hra⟩


theorem nodup_of_strictSorted (hl : cmp.Lawful) (hs : StrictSorted cmp es) : es.Nodup :=
  (BL.pairwise_of_strictSorted hl es hs).imp (fun h e => by subst e; exact hl.lt_irrefl _ h)

/-- for observation lists produced under the harness protocol the judge decides `CursorRun` -/
theorem c04_iff (hx : HexOK hex) (hl : cmp.Lawful) (hs : StrictSorted cmp es) {ops outs obs}
    (hr : RendersAll hex ops outs obs) (hp : PrevThenCur ops) (p : Pos) (i : Nat) :
    c04 cmp es hex obs p i = "ok" ↔ ∃ q, CursorRun cmp es p ops q outs := by
  constructor
  · intro h
    obtain ⟨q, hq⟩ := c04_sound_proto hx hr p i hp.getLast h
    exact ⟨q, hq.run⟩
  · rintro ⟨q, hq⟩
    exact c04_complete_proto hx (nodup_of_strictSorted hl hs) (proto_of_run hq hp) obs i hr

/-! ### C04 with a rendering *function* (the formulation over `renderAll ops outs`) -/

/-- the observation the harness produces for a call and the answer it got (ignored fields empty) -/
def render (hex : Bytes → String) : IterOp → IterOut → Obs
  | .advance, .flag b => { op := "adv", out := toString b }
  | .next, .entry e => { op := "next", out := showKV e hex }
  | .prev, .flag b => { op := "prev", out := toString b }
  | .reset, .unit => { op := "reset", out := "" }
  | .seekToFirst, .unit => { op := "first", out := "" }
  | .seek t, .unit => { op := "seek", arg := t, out := "" }
  | .valid, .flag b => { op := "valid", out := toString b }
  | .current, .entry e => { op := "cur", out := showKV e hex }
  | .currentKey, .key k => { op := "key", out := showKey k hex }
  | _, _ => { op := "?", out := "" }

def renderAll (hex : Bytes → String) (ops : List IterOp) (outs : List IterOut) : List Obs :=
  List.zipWith (render hex) ops outs

/-- the answer has the type the call returns -/
def Shaped : IterOp → IterOut → Prop
  | .advance, .flag _ | .prev, .flag _ | .valid, .flag _ => True
  | .next, .entry _ | .current, .entry _ => True
  | .currentKey, .key _ => True
  | .reset, .unit | .seekToFirst, .unit | .seek _, .unit => True
  | _, _ => False

theorem renders_render (hex : Bytes → String) {op : IterOp} {out : IterOut} (h : Shaped op out) :
    Renders hex op out (render hex op out) := by
  cases op <;> cases out <;> first | exact absurd h id | constructor

/-- same length, and every answer has the type its call returns -/
def ShapedAll : List IterOp → List IterOut → Prop
  | [], [] => True
  | op :: ops, out :: outs => Shaped op out ∧ ShapedAll ops outs
  | _, _ => False

theorem rendersAll_renderAll (hex : Bytes → String) :
    ∀ {ops : List IterOp} {outs : List IterOut}, ShapedAll ops outs →
      RendersAll hex ops outs (renderAll hex ops outs)
  | [], [], _ => .nil
  | _ :: _, _ :: _, h => .cons (renders_render hex h.1) (rendersAll_renderAll hex h.2)
  | [], _ :: _, h => absurd h id
  | _ :: _, [], h => absurd h id

theorem shaped_of_step {p op q out} (h : CursorStep cmp es p op q out) : Shaped op out := by
  cases h <;> trivial

theorem shapedAll_of_run {p ops q outs} (h : CursorRun cmp es p ops q outs) : ShapedAll ops outs := by
  induction h with
  | nil => trivial
  | cons hs _ ih => exact ⟨shaped_of_step hs, ih⟩


/-! ### C04: no well-formedness assumption on the observation list -/

theorem c04_known_op (o : Obs) (rest : List Obs) (p : Pos) (i : Nat)
    (hok : c04 cmp es hex (o :: rest) p i = "ok") :
    o.op = "adv" ∨ o.op = "next" ∨ o.op = "prev" ∨ o.op = "reset" ∨ o.op = "first" ∨ o.op = "seek"
      ∨ o.op = "valid" ∨ o.op = "cur" ∨ o.op = "key" := by
  rw [c04.eq_def] at hok
  simp only at hok
  split at hok
  all_goals first
    | (rename_i h; simp [h]; done)
    | (exfalso; revert hok; fail_ne_ok)


/-- SOUNDNESS without assuming anything about how the observation list was produced: an accepted list
    (not ending in a `prev`, whose result the judge could not resolve) IS the rendering of a
    protocol-following run of the Spec cursor. In particular malformed lists (unknown op names,
    answers of the wrong type) are rejected. No hypothesis on `hex`. -/
theorem c04_sound_any : ∀ (obs : List Obs) (p : Pos) (i : Nat),
    (∀ o, obs.getLast? = some o → o.op ≠ "prev") → c04 cmp es hex obs p i = "ok" →
      ∃ ops outs q, RendersAll hex ops outs obs ∧ ProtoRun cmp es p ops q outs
  | [], p, _, _, _ => ⟨[], [], p, .nil, .nil p⟩
  | o :: rest, p, i, hlast, hok => by
    have hlast' : ∀ o', rest.getLast? = some o' → o'.op ≠ "prev" := by
      intro o' ho'
      cases rest with
      | nil => cases ho'
      | cons a l => exact hlast o' (by rw [List.getLast?_cons_cons]; exact ho')
    have ih := fun p' i' h => c04_sound_any rest p' i' hlast' h
    obtain ⟨op, arg, out⟩ := o
    rcases c04_known_op _ rest p i hok with h | h | h | h | h | h | h | h | h <;>
      simp only at h <;> subst h
    · obtain ⟨h1, h2⟩ := (c04_adv cmp es hex _ _ p i rfl).mp hok
      obtain ⟨ops, outs, q, hr, hq⟩ := ih _ _ h2
      simp only at h1; subst h1
      exact ⟨_, _, q, .cons (.advance _ arg) hr, .cons (.advance p) (fun _ h => nomatch h) hq⟩
    · obtain ⟨h1, h2⟩ := (c04_next cmp es hex _ _ p i rfl).mp hok
      obtain ⟨ops, outs, q, hr, hq⟩ := ih _ _ h2
      simp only at h1; subst h1
      exact ⟨_, _, q, .cons (.next _ arg) hr, .cons (.next p) (fun _ h => nomatch h) hq⟩
    · cases p with
      | some j =>
        obtain ⟨h1, h2⟩ := (c04_prev_some cmp es hex _ _ j i rfl).mp hok
        obtain ⟨ops, outs, q, hr, hq⟩ := ih _ _ h2
        simp only at h1; subst h1
        exact ⟨_, _, q, .cons (.prev _ arg) hr, .cons (.prevValid j) (fun h => nomatch h) hq⟩
      | none =>
        cases rest with
        | nil => exact absurd rfl (hlast _ rfl)
        | cons c rest' =>
          obtain ⟨hc, hcases⟩ := (c04_prev_none_cons cmp es hex _ c rest' i rfl).mp hok
          have key : ∃ p' : Pos, (∀ j, p' = some j → j < es.length) ∧ out = toString p'.isSome
              ∧ c04 cmp es hex (c :: rest') p' (i + 1) = "ok" := by
            rcases hcases with ⟨h1, h2, h3⟩ | ⟨h1, j, hj, h2, h3⟩
            · exact ⟨none, (fun _ h => nomatch h), h2,
                (c04_cur cmp es hex c rest' none (i + 1) hc).mpr ⟨h1, h3⟩⟩
            · have hjlt : j < es.length := List.mem_range.mp (List.mem_of_find?_eq_some hj)
              have hjp := List.find?_some hj
              simp only [decide_eq_true_eq] at hjp
              exact ⟨some j, (fun _ h => by cases h; exact hjlt), h2,
                (c04_cur cmp es hex c rest' (some j) (i + 1) hc).mpr ⟨hjp.symm, h3⟩⟩
          obtain ⟨p', hval, hb, hok'⟩ := key
          obtain ⟨ops, outs, q, hr, hq⟩ := ih p' (i + 1) hok'
          subst hb
          have hcur : ∃ ops', ops = .current :: ops' := by
            cases hr with
            | cons hrc _ => cases hrc <;> first | exact ⟨_, rfl⟩ | (simp at hc)
          exact ⟨_, _, q, .cons (.prev _ arg) hr, .cons (.prevInvalid p' hval) (fun _ _ => hcur) hq⟩
    · rw [c04_reset cmp es hex _ _ p i rfl] at hok
      obtain ⟨ops, outs, q, hr, hq⟩ := ih _ _ hok
      exact ⟨_, _, q, .cons (.reset arg out) hr, .cons (.reset p) (fun _ h => nomatch h) hq⟩
    · rw [c04_first cmp es hex _ _ p i rfl] at hok
      obtain ⟨ops, outs, q, hr, hq⟩ := ih _ _ hok
      exact ⟨_, _, q, .cons (.seekToFirst arg out) hr, .cons (.seekToFirst p) (fun _ h => nomatch h) hq⟩
    · rw [c04_seek cmp es hex _ _ p i rfl] at hok
      obtain ⟨ops, outs, q, hr, hq⟩ := ih _ _ hok
      exact ⟨_, _, q, .cons (.seek arg out) hr, .cons (.seek p arg) (fun _ h => nomatch h) hq⟩
    · obtain ⟨h1, h2⟩ := (c04_valid cmp es hex _ _ p i rfl).mp hok
      obtain ⟨ops, outs, q, hr, hq⟩ := ih _ _ h2
      simp only at h1; subst h1
      exact ⟨_, _, q, .cons (.valid _ arg) hr, .cons (.valid p) (fun _ h => nomatch h) hq⟩
    · obtain ⟨h1, h2⟩ := (c04_cur cmp es hex _ _ p i rfl).mp hok
      obtain ⟨ops, outs, q, hr, hq⟩ := ih _ _ h2
      simp only at h1; subst h1
      exact ⟨_, _, q, .cons (.current _ arg) hr, .cons (.current p) (fun _ h => nomatch h) hq⟩
    · obtain ⟨h1, h2⟩ := (c04_key cmp es hex _ _ p i rfl).mp hok
      obtain ⟨ops, outs, q, hr, hq⟩ := ih _ _ h2
      simp only at h1; subst h1
      exact ⟨_, _, q, .cons (.currentKey _ arg) hr, .cons (.currentKey p) (fun _ h => nomatch h) hq⟩

end Sst.Judge
