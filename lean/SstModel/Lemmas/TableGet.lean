import SstModel.Lemmas.TableOpsSpec
import SstModel.Lemmas.TableRead
import SstModel.Lemmas.TwoLevel
import SstModel.Lemmas.BlockAdvance
import SstModel.Lemmas.BlockSeek
/-
  `Table::get` (C02 on the model), the "filtered lookups touch no block" structure fact (C18) and
  `Table::approx_offset_of` (C19 on the model).
-/
namespace Sst
open Sst.Spec Sst.TwoLevel

/-! ### the table image is `Ordered` -/

theorem kvOf_keys (b : Bytes) (es : List EInfo) : (kvOf b es).map (·.1) = es.map (·.key) := by
  unfold kvOf; rw [List.map_map]; rfl

theorem PBlock.kvs_keys (p : PBlock) : p.kvs.map (·.1) = p.es.map (·.key) := kvOf_keys _ _

theorem mem_kvs_key {p : PBlock} {e : Spec.Entry} (h : e ∈ p.kvs) : e.1 ∈ p.es.map (·.key) := by
  rw [← p.kvs_keys]; exact List.mem_map.mpr ⟨e, h, rfl⟩

theorem TableImg.kvBlocks_keys (t : TableImg) : t.kvBlocks.flatten.map (·.1) = t.allKeys := by
  unfold TableImg.kvBlocks TableImg.allKeys
  rw [List.map_flatten, List.map_map]
  congr 1
  apply List.map_congr_left
  intro d _
  exact d.blk.kvs_keys

theorem TableImg.kvBlocks_getElem? (t : TableImg) (i : Nat) :
    t.kvBlocks[i]? = t.blocks[i]?.map (·.blk.kvs) := by
  unfold TableImg.kvBlocks; rw [List.getElem?_map]

theorem TableImg.seps_getElem? (t : TableImg) (i : Nat) :
    t.seps[i]? = t.blocks[i]?.map (·.sep) := by
  unfold TableImg.seps; rw [List.getElem?_map]

/-- a well-formed table image is `Ordered` in the sense of the two-level lemmas -/
theorem TableImg.WF.ordered {cmp : Cmp} {t : TableImg} (hwf : t.WF cmp) :
    TwoLevel.Ordered cmp t.kvBlocks t.seps where
  len := by simp [TableImg.kvBlocks, TableImg.seps]
  nonempty := by
    intro b hb
    obtain ⟨d, hd, rfl⟩ := List.mem_map.mp hb
    have := hwf.dataNonempty d hd
    intro h
    apply this
    have hl : (d.blk.kvs).length = 0 := by rw [h]; rfl
    rw [PBlock.kvs, kvOf_length] at hl
    exact List.length_eq_zero_iff.mp hl
  sorted := by rw [t.kvBlocks_keys]; exact hwf.sorted
  sepGe := by
    intro i b s hb hs e he
    rw [t.kvBlocks_getElem?] at hb
    rw [t.seps_getElem?] at hs
    cases hd : t.blocks[i]? with
    | none => rw [hd] at hb; cases hb
    | some d =>
      rw [hd] at hb hs
      simp only [Option.map_some, Option.some.injEq] at hb hs
      subst hb hs
      exact hwf.sepGe d (List.mem_of_getElem? hd) e.1 (mem_kvs_key he)
  sepLt := by
    intro i j s b hij hs hb e he
    rw [t.kvBlocks_getElem?] at hb
    rw [t.seps_getElem?] at hs
    cases hdi : t.blocks[i]? with
    | none => rw [hdi] at hs; cases hs
    | some di =>
      cases hdj : t.blocks[j]? with
      | none => rw [hdj] at hb; cases hb
      | some dj =>
        rw [hdi] at hs; rw [hdj] at hb
        simp only [Option.map_some, Option.some.injEq] at hb hs
        subst hb hs
        exact hwf.sepLt i j di dj hij hdi hdj e.1 (mem_kvs_key he)

/-- the index block's keys are the separators -/
theorem TableImg.WF.index_keys {cmp : Cmp} {t : TableImg} (hwf : t.WF cmp) :
    t.index.es.map (·.key) = t.seps := by
  rw [← t.index.kvs_keys, hwf.indexKVs, List.map_map]; rfl

/-- the index block's keys are sorted (needed for `simB_seek` on the index) -/
theorem TableImg.WF.index_sorted {cmp : Cmp} {t : TableImg} (hc : cmp.Lawful) (hwf : t.WF cmp) :
    KeysSorted cmp (t.index.es.map (·.key)) := by
  rw [hwf.index_keys]; exact hwf.ordered.seps_sorted hc

/-- each data block's keys are sorted -/
theorem TableImg.WF.block_sorted {cmp : Cmp} {t : TableImg} (hwf : t.WF cmp) (d : DBlock)
    (hd : d ∈ t.blocks) : KeysSorted cmp (d.blk.es.map (·.key)) := by
  obtain ⟨i, hi⟩ := List.mem_iff_getElem?.mp hd
  rw [← d.blk.kvs_keys]
  exact hwf.ordered.block_sorted i d.blk.kvs (by rw [t.kvBlocks_getElem?, hi]; rfl)

/-! ### `lowerBound` only looks at keys -/

theorem lowerBound_keys (cmp : Cmp) (t : Bytes) : ∀ (l1 l2 : List Spec.Entry),
    l1.map (·.1) = l2.map (·.1) → Spec.lowerBound cmp l1 t = Spec.lowerBound cmp l2 t
  | [], [], _ => rfl
  | [], _ :: _, h => by simp at h
  | _ :: _, [], h => by simp at h
  | a :: l1, b :: l2, h => by
    simp only [List.map_cons, List.cons.injEq] at h
    rw [lowerBound_cons, lowerBound_cons, h.1, lowerBound_keys cmp t l1 l2 h.2]

/-- the lower bound in the index block is the lower bound among the separators -/
theorem TableImg.WF.index_lowerBound {cmp : Cmp} {t : TableImg} (hwf : t.WF cmp) (k : Bytes) :
    Spec.lowerBound cmp t.index.kvs k
      = Spec.lowerBound cmp (t.seps.map (fun s => (s, ([] : Bytes)))) k := by
  apply lowerBound_keys
  rw [t.index.kvs_keys, hwf.index_keys, List.map_map]
  exact (List.map_id' _).symm

/-! ### iter / seek / current on a well-formed sorted block -/

theorem seek_current {b es rs} (cmp : Cmp) (hc : cmp.Lawful) (wf : BlockWF b es rs)
    (hsmall : b.length < 2 ^ 64) (hsorted : KeysSorted cmp (es.map (·.key))) (k : Bytes) :
    ∃ it it', Block.iter b = .ok it ∧ it.seek cmp k = .ok it'
      ∧ it'.current = .ok (Spec.entryAt (kvOf b es) (Spec.lowerBound cmp (kvOf b es) k)) := by
  obtain ⟨it, hit, hs⟩ := simB_iter wf
  obtain ⟨it', hit', hs'⟩ := simB_seek cmp hc wf hsmall hsorted hs k
  exact ⟨it, it', hit, hit', simB_current wf hs'⟩

/-! ### the filter block reader never panics on a well-formed filter block -/

theorem fixed32At_isSome (b : Bytes) (a : Nat) (h : a + 4 ≤ b.length) : ∃ v, fixed32At b a = some v := by
  unfold fixed32At
  rw [slice?_add h]
  exact ⟨_, rfl⟩

theorem keyMayMatch_total (p : FilterPolicy) (fb : Bytes) (r : FilterBlockReader)
    (hw : FilterBlockReader.isWellFormed fb = true) (hn : FilterBlockReader.new fb = .ok r)
    (off : Nat) (k : Bytes) : ∃ b, r.keyMayMatch p off k = .ok b := by
  unfold FilterBlockReader.isWellFormed at hw
  split at hw
  · cases hw
  · rename_i hlen
    simp only [Bool.and_eq_true, decide_eq_true_eq] at hw
    obtain ⟨hb, ho⟩ := hw
    have ha : assert (decide (fb.length ≥ 5)) "FilterBlockReader::new: len >= 5" = .ok () := by
      unfold assert; rw [if_pos (by simp; omega)]
    unfold FilterBlockReader.new at hn
    simp only [ha, Res.bind_ok, Res.pure_eq] at hn
    have hr := Res.ok.inj hn
    subst hr
    generalize decodeFixed32 ((fb.drop (fb.length - 5)).take 4) = oo at ho
    generalize (fb.getD (fb.length - 1) 0).toNat = lg at hb
    unfold FilterBlockReader.keyMayMatch
    simp only []
    rw [if_neg (by omega)]
    have hnum : FilterBlockReader.num ⟨fb, oo, lg⟩ = .ok (((fb.length - oo - 5) / 4) % 2 ^ 32) := by
      unfold FilterBlockReader.num
      simp only []
      rw [if_neg (by omega)]
    rw [hnum]
    simp only [Res.bind_ok]
    split
    · exact ⟨true, rfl⟩
    · rename_i hix
      have hle : ((fb.length - oo - 5) / 4) % 2 ^ 32 ≤ (fb.length - oo - 5) / 4 := Nat.mod_le _ _
      have hix' : 4 * FilterBlockBuilder.filterIndex off lg + 4 ≤ fb.length - oo - 5 := by omega
      obtain ⟨v1, h1⟩ := fixed32At_isSome fb (oo + 4 * FilterBlockBuilder.filterIndex off lg) (by omega)
      obtain ⟨v2, h2⟩ := fixed32At_isSome fb (oo + 4 * (FilterBlockBuilder.filterIndex off lg + 1)) (by omega)
      simp only [FilterBlockReader.offsetOf, h1, h2, Res.bind_ok]
      split
      · exact ⟨true, rfl⟩
      · rename_i hbe
        have hsl : slice? fb v1 v2 = some ((fb.drop v1).take (v2 - v1)) := by
          unfold slice?; rw [if_pos (by omega)]
        rw [hsl]
        exact ⟨_, rfl⟩

/-! ### `Table::get` cut into its stages -/

/-- the part of `get` after the filter let the key pass: load the data block and look the key up -/
def Table.getTail (t : Table) (handle : BlockHandle) (key : Bytes) : M (Option Bytes) := do
  let tb ← t.readBlock handle
  let it ← M.lift (Block.iter tb)
  let it ← M.lift (it.seek t.opt.cmp key)
  match ← curKV it with
  | some (k, v) => if t.opt.cmp.cmp k key == .eq then pure (some v) else pure none
  | none => pure none

/-- the part of `get` after the index entry was decoded: consult the filter -/
def Table.getFilt (t : Table) (handle : BlockHandle) (key : Bytes) : M (Option Bytes) := do
  let pass ← match t.filters with
    | some f => M.lift (f.keyMayMatch t.opt.filter handle.offset key)
    | none => pure true
  if !pass then pure none
  else t.getTail handle key

/-- what `get` does with the entry the index iterator stands on -/
def Table.getAt (t : Table) (key : Bytes) : Option (Bytes × Bytes) → M (Option Bytes)
  | none => pure none
  | some (lastInBlock, h) =>
    if t.opt.cmp.cmp key lastInBlock == .gt then pure none
    else
      match BlockHandle.tryDecode h with
      | none => M.fail .corruption
      | some (handle, _) => t.getFilt handle key

theorem Table.get_eq (t : Table) (key : Bytes) :
    t.get key = (do
      let it ← M.lift (Block.iter t.indexBlock)
      let it ← M.lift (it.seek t.opt.cmp key)
      let c ← curKV it
      t.getAt key c) := by
  unfold Table.get
  congr 1

theorem lift_ok_bind {α β} (a : α) (f : α → M β) (w : World) : (M.lift (Res.ok a) >>= f) w = f a w := rfl

/-- equal offsets ⇒ same block (from `offsetsDistinct`) -/
theorem TableImg.WF.block_of_offset {cmp : Cmp} {t : TableImg} (hwf : t.WF cmp) :
    ∀ d1 ∈ t.blocks, ∀ d2 ∈ t.blocks, d1.handle.offset = d2.handle.offset → d1 = d2 := by
  intro d1 h1 d2 h2 ho
  obtain ⟨i, hi⟩ := List.mem_iff_getElem?.mp h1
  obtain ⟨j, hj⟩ := List.mem_iff_getElem?.mp h2
  have := hwf.offsetsDistinct i j d1 d2 hi hj ho
  subst this
  rw [hi] at hj
  exact Option.some.inj hj

/-- stage 3 of `get`: the data block is read (through the cache) and searched -/
theorem getTail_ok (cmp : Cmp) (hc : cmp.Lawful) (p : FilterPolicy) (t : TableImg) (hwf : t.WF cmp)
    (fv : Option Bytes) (tb : Table) (hop : Opened tb t cmp p fv)
    (w : World) (hw : WorldOK w tb t) (d : DBlock) (hd : d ∈ t.blocks) (k : Bytes) :
    ∃ w', tb.getTail d.handle k w = (w', .ok (Spec.lookup cmp d.blk.kvs k)) ∧ WorldOK w' tb t
      ∧ Frame w w' tb := by
  have hoff : ∀ d1 ∈ t.blocks, ∀ d2 ∈ t.blocks, d1.handle.offset = d2.handle.offset →
      d1.blk.contents = d2.blk.contents := by
    intro d1 h1 d2 h2 ho
    rw [hwf.block_of_offset d1 h1 d2 h2 ho]
  obtain ⟨w', hrb, hclean, hfiles, hcoh, hothers, hcap, hnid, hbound⟩ :=
    readBlock_ok cmp t hwf tb w hw.clean hop.fileSize hw.coh hoff d hd
  obtain ⟨it, it', hit, hit', hcur⟩ :=
    seek_current cmp hc (hwf.dataWF d hd).1 (hwf.dataWF d hd).2 (hwf.block_sorted d hd) k
  refine ⟨w', ?_, ⟨hclean, hcoh⟩, ⟨hfiles, ?_, hcap, hnid, hothers, hbound⟩⟩
  · have hs : KeysSorted cmp (d.blk.kvs.map (·.1)) := by
      rw [d.blk.kvs_keys]; exact hwf.block_sorted d hd
    rw [lookup_via_lowerBound cmp hc d.blk.kvs hs k]
    unfold Table.getTail
    simp only [bind, M.bind', hrb, hop.opt, M.lift, hit, hit', curKV, hcur, PBlock.kvs]
    cases hL : Spec.lowerBound cmp (kvOf d.blk.contents d.blk.es) k with
    | none => rfl
    | some i =>
      simp only [Spec.entryAt]
      cases hE : (kvOf d.blk.contents d.blk.es)[i]? with
      | none => rfl
      | some e =>
        obtain ⟨ek, ev⟩ := e
        simp only []
        by_cases he : cmp.cmp ek k = .eq
        · simp [he]; rfl
        · simp [he]; rfl
  · rw [hclean.sched, hw.clean.sched]

/-- stages 1 and 2 of `get`: the index block is searched, the handle decoded; nothing in the world is
    touched -/
theorem get_reduce (cmp : Cmp) (hc : cmp.Lawful) (p : FilterPolicy) (t : TableImg) (hwf : t.WF cmp)
    (fv : Option Bytes) (tb : Table) (hop : Opened tb t cmp p fv) (w : World) (k : Bytes) :
    tb.get k w = match Spec.lowerBound cmp (t.seps.map (fun s => (s, ([] : Bytes)))) k with
      | none => (w, .ok none)
      | some bi => match t.blocks[bi]? with
        | some d => tb.getFilt d.handle k w
        | none => (w, .ok none) := by
  obtain ⟨it, it', hit, hit', hcur⟩ :=
    seek_current cmp hc hwf.indexWF.1 hwf.indexWF.2 (hwf.index_sorted hc) k
  have hcur' : it'.current = .ok (Spec.entryAt t.index.kvs
      (Spec.lowerBound cmp (t.seps.map (fun s => (s, ([] : Bytes)))) k)) := by
    rw [← hwf.index_lowerBound]; exact hcur
  rw [Table.get_eq]
  simp only [bind, M.bind', M.lift, hop.index, hop.opt, hit, hit', curKV, hcur']
  cases hS : Spec.lowerBound cmp (t.seps.map (fun s => (s, ([] : Bytes)))) k with
  | none => rfl
  | some bi =>
    obtain ⟨hbi, _, hge⟩ := sep_lowerBound_some cmp t.seps k bi hS
    have hbi' : bi < t.blocks.length := by simpa [TableImg.seps] using hbi
    have hd : t.blocks[bi]? = some t.blocks[bi] := List.getElem?_eq_getElem hbi'
    generalize t.blocks[bi] = d at hd
    have hidx : t.index.kvs[bi]? = some (d.sep, d.hval) := by
      rw [hwf.indexKVs, List.getElem?_map, hd]; rfl
    have hsep : t.seps[bi]? = some d.sep := by rw [t.seps_getElem?, hd]; rfl
    have hnlt := hge _ hsep
    have hngt : (cmp.cmp k d.sep == .gt) = false := by
      cases h : cmp.cmp k d.sep with
      | gt => exact absurd ((hc.gt_iff _ _).mp h) hnlt
      | lt => rfl
      | eq => rfl
    obtain ⟨n, hdec⟩ := hwf.hval d (List.mem_of_getElem? hd)
    simp only [Spec.entryAt, hidx, hd]
    unfold Table.getAt
    simp only [hop.opt, hngt, hdec]
    rfl

/-- the reader of an opened table with a filter is `new` of the filter block the policy sees -/
theorem Opened.filter_some {tb t cmp p fv} (hop : Opened tb t cmp p fv) {r : FilterBlockReader}
    (hf : tb.filters = some r) : ∃ fb, fv = some fb ∧ FilterBlockReader.new fb = .ok r := by
  have h := hop.filters
  cases fv with
  | none => simp only [] at h; rw [h] at hf; cases hf
  | some fb =>
    obtain ⟨r', hn, hr'⟩ := h
    rw [hr'] at hf
    cases hf
    exact ⟨fb, rfl, hn⟩

/-- a key the (sound) filter rejects is not in the block -/
theorem lookup_none_of_rejected (cmp : Cmp) (hc : cmp.Lawful) (p : FilterPolicy) (t : TableImg)
    (fb : Bytes) (hsound : FilterSound p t fb) (r : FilterBlockReader)
    (hn : FilterBlockReader.new fb = .ok r) (d : DBlock) (hd : d ∈ t.blocks) (k : Bytes)
    (hrej : r.keyMayMatch p d.handle.offset k = .ok false) :
    Spec.lookup cmp d.blk.kvs k = none := by
  apply lookup_eq_none_of_all_ne
  intro e he heq
  have hk : e.1 = k := hc.eq_imp _ _ heq
  have hmem : k ∈ d.keys := hk ▸ mem_kvs_key he
  have := hsound d hd k hmem r hn
  rw [this] at hrej
  cases hrej

/-- stage 2b of `get`: the filter is consulted -/
theorem getFilt_ok (cmp : Cmp) (hc : cmp.Lawful) (p : FilterPolicy) (t : TableImg) (hwf : t.WF cmp)
    (fv : Option Bytes) (tb : Table) (hop : Opened tb t cmp p fv)
    (hsound : ∀ fb, fv = some fb → FilterSound p t fb)
    (hfwf : ∀ fb, fv = some fb → FilterBlockReader.isWellFormed fb = true)
    (w : World) (hw : WorldOK w tb t) (d : DBlock) (hd : d ∈ t.blocks) (k : Bytes) :
    ∃ w', tb.getFilt d.handle k w = (w', .ok (Spec.lookup cmp d.blk.kvs k)) ∧ WorldOK w' tb t
      ∧ Frame w w' tb := by
  have htail := getTail_ok cmp hc p t hwf fv tb hop w hw d hd k
  cases hf : tb.filters with
  | none =>
    have : tb.getFilt d.handle k w = tb.getTail d.handle k w := by
      unfold Table.getFilt; rw [hf]; rfl
    rw [this]; exact htail
  | some r =>
    obtain ⟨fb, hfv, hn⟩ := hop.filter_some hf
    obtain ⟨b, hb⟩ := keyMayMatch_total p fb r (hfwf fb hfv) hn d.handle.offset k
    have hb' : r.keyMayMatch tb.opt.filter d.handle.offset k = .ok b := by rw [hop.opt]; exact hb
    cases b with
    | true =>
      have : tb.getFilt d.handle k w = tb.getTail d.handle k w := by
        unfold Table.getFilt; rw [hf]; simp only [hb']; rfl
      rw [this]; exact htail
    | false =>
      have : tb.getFilt d.handle k w = (w, .ok none) := by
        unfold Table.getFilt; rw [hf]; simp only [hb']; rfl
      rw [this, lookup_none_of_rejected cmp hc p t fb (hsound fb hfv) r hn d hd k hb]
      exact ⟨w, rfl, hw, Frame.refl w tb⟩

/-- C02 on the model: point lookup = lookup in the sorted entry list, for every key.

    `hfwf` (the filter block the reader holds passed `FilterBlockReader::is_well_formed`, as
    `Table::read_filter_block` checks and `FilterView.present` records) is an ADDED hypothesis:
    `Opened.filters` does not carry it, and without it `key_may_match` may panic. -/
theorem get_ok (cmp : Cmp) (hc : cmp.Lawful) (p : FilterPolicy) (t : TableImg) (hwf : t.WF cmp)
    (fv : Option Bytes) (tb : Table) (hop : Opened tb t cmp p fv)
    (hsound : ∀ fb, fv = some fb → FilterSound p t fb)
    (hfwf : ∀ fb, fv = some fb → FilterBlockReader.isWellFormed fb = true)
    (w : World) (hw : WorldOK w tb t) (k : Bytes) :
    ∃ w', tb.get k w = (w', .ok (Spec.lookup cmp t.entries k)) ∧ WorldOK w' tb t ∧ Frame w w' tb := by
  have h2 : Spec.lookup cmp t.entries k = _ := lookup_two_level cmp hc _ _ hwf.ordered k
  rw [get_reduce cmp hc p t hwf fv tb hop w k, h2]
  cases hS : Spec.lowerBound cmp (t.seps.map (fun s => (s, ([] : Bytes)))) k with
  | none => exact ⟨w, rfl, hw, Frame.refl w tb⟩
  | some bi =>
    obtain ⟨hbi, _, _⟩ := sep_lowerBound_some cmp t.seps k bi hS
    have hbi' : bi < t.blocks.length := by simpa [TableImg.seps] using hbi
    have hd : t.blocks[bi]? = some t.blocks[bi] := List.getElem?_eq_getElem hbi'
    generalize t.blocks[bi] = d at hd
    have hgd : t.kvBlocks.getD bi [] = d.blk.kvs := by
      rw [List.getD_eq_getElem?_getD, t.kvBlocks_getElem?, hd]; rfl
    simp only [hd, hgd]
    exact getFilt_ok cmp hc p t hwf fv tb hop hsound hfwf w hw d (List.mem_of_getElem? hd) k

/-- C18 structure, strong form: when the table has a filter and the filter rejects the key for the
    block the index points to, the lookup touches no block: the world is returned unchanged. Neither
    filter soundness nor any assumption on the world is needed. -/
theorem get_filtered_world_eq (cmp : Cmp) (hc : cmp.Lawful) (p : FilterPolicy) (t : TableImg)
    (hwf : t.WF cmp) (fv : Option Bytes) (tb : Table) (hop : Opened tb t cmp p fv)
    (w : World) (k : Bytes)
    (r : FilterBlockReader) (hf : tb.filters = some r)
    (d : DBlock) (bi : Nat)
    (hbi : Spec.lowerBound cmp (t.seps.map (fun s => (s, ([] : Bytes)))) k = some bi)
    (hd : t.blocks[bi]? = some d) (hrej : r.keyMayMatch p d.handle.offset k = .ok false) :
    tb.get k w = (w, .ok none) := by
  rw [get_reduce cmp hc p t hwf fv tb hop w k, hbi]
  simp only [hd]
  have hb' : r.keyMayMatch tb.opt.filter d.handle.offset k = .ok false := by rw [hop.opt]; exact hrej
  unfold Table.getFilt; rw [hf]; simp only [hb']; rfl

/-- C18 structure: when the table has a filter and the filter rejects the key for the block the index
    points to, the lookup touches no block: no read, no cache event (hypotheses as in `get_ok`;
    `hsound` and `hw` are not used, see `get_filtered_world_eq`) -/
theorem get_filtered_no_access (cmp : Cmp) (hc : cmp.Lawful) (p : FilterPolicy) (t : TableImg)
    (hwf : t.WF cmp) (fv : Option Bytes) (tb : Table) (hop : Opened tb t cmp p fv)
    (_hsound : ∀ fb, fv = some fb → FilterSound p t fb)
    (w : World) (_hw : WorldOK w tb t) (k : Bytes)
    (r : FilterBlockReader) (hf : tb.filters = some r)
    (d : DBlock) (bi : Nat)
    (hbi : Spec.lowerBound cmp (t.seps.map (fun s => (s, ([] : Bytes)))) k = some bi)
    (hd : t.blocks[bi]? = some d) (hrej : r.keyMayMatch p d.handle.offset k = .ok false) :
    ∃ w', tb.get k w = (w', .ok none) ∧ w'.readLog = w.readLog ∧ w'.events = w.events
      ∧ w'.cache = w.cache :=
  ⟨w, get_filtered_world_eq cmp hc p t hwf fv tb hop w k r hf d bi hbi hd hrej, rfl, rfl, rfl⟩

/-- C19 on the model: the approximate offset of `k` is the offset of the first block whose index key
    is not below `k`, or the metaindex offset if there is none; the world is untouched -/
theorem approx_ok (cmp : Cmp) (hc : cmp.Lawful) (p : FilterPolicy) (t : TableImg) (hwf : t.WF cmp)
    (fv : Option Bytes) (tb : Table) (hop : Opened tb t cmp p fv) (w : World) (k : Bytes) :
    tb.approxOffsetOf k w =
      (w, .ok (match Spec.lowerBound cmp (t.seps.map (fun s => (s, ([] : Bytes)))) k with
               | some bi => ((t.blocks[bi]?).map (·.handle.offset)).getD 0
               | none => t.metaHandle.offset)) := by
  obtain ⟨it, it', hit, hit', hcur⟩ :=
    seek_current cmp hc hwf.indexWF.1 hwf.indexWF.2 (hwf.index_sorted hc) k
  have hcur' : it'.current = .ok (Spec.entryAt t.index.kvs
      (Spec.lowerBound cmp (t.seps.map (fun s => (s, ([] : Bytes)))) k)) := by
    rw [← hwf.index_lowerBound]; exact hcur
  unfold Table.approxOffsetOf
  simp only [bind, M.bind', M.lift, hop.index, hop.opt, hop.footer, hit, hit', curKV, hcur']
  cases hS : Spec.lowerBound cmp (t.seps.map (fun s => (s, ([] : Bytes)))) k with
  | none => rfl
  | some bi =>
    obtain ⟨hbi, _, _⟩ := sep_lowerBound_some cmp t.seps k bi hS
    have hbi' : bi < t.blocks.length := by simpa [TableImg.seps] using hbi
    have hd : t.blocks[bi]? = some t.blocks[bi] := List.getElem?_eq_getElem hbi'
    generalize t.blocks[bi] = d at hd
    have hidx : t.index.kvs[bi]? = some (d.sep, d.hval) := by
      rw [hwf.indexKVs, List.getElem?_map, hd]; rfl
    obtain ⟨n, hdec⟩ := hwf.hval d (List.mem_of_getElem? hd)
    simp only [Spec.entryAt, hidx, hd, hdec]
    rfl

end Sst

#print axioms Sst.TableImg.WF.ordered
#print axioms Sst.TableImg.WF.index_sorted
#print axioms Sst.TableImg.WF.block_sorted
#print axioms Sst.keyMayMatch_total
#print axioms Sst.get_ok
#print axioms Sst.get_filtered_no_access
#print axioms Sst.approx_ok
