import SstModel.Model.Cmp
/-
  `cmpBytes` is a strict total order on byte strings (helper lemmas for every property that
  mentions key order).
-/
namespace Sst

theorem u8_lt_irrefl (a : UInt8) : ¬ a < a := by
  intro h; have := UInt8.lt_iff_toNat_lt.mp h; omega

theorem u8_eq_of_not_lt {a b : UInt8} (h1 : ¬ a < b) (h2 : ¬ b < a) : a = b := by
  apply UInt8.toNat_inj.mp
  have := mt UInt8.lt_iff_toNat_lt.mpr h1
  have := mt UInt8.lt_iff_toNat_lt.mpr h2
  omega

theorem u8_lt_trans {a b c : UInt8} (h1 : a < b) (h2 : b < c) : a < c := by
  have := UInt8.lt_iff_toNat_lt.mp h1; have := UInt8.lt_iff_toNat_lt.mp h2
  exact UInt8.lt_iff_toNat_lt.mpr (by omega)

theorem u8_lt_asymm {a b : UInt8} (h1 : a < b) : ¬ b < a := by
  intro h2; have := UInt8.lt_iff_toNat_lt.mp h1; have := UInt8.lt_iff_toNat_lt.mp h2; omega

@[simp] theorem cmpBytes_refl (a : Bytes) : cmpBytes a a = .eq := by
  induction a with
  | nil => rfl
  | cons x xs ih => simp [cmpBytes, ih]

theorem cmpBytes_eq_iff {a b : Bytes} : cmpBytes a b = .eq ↔ a = b := by
  constructor
  · intro h
    induction a generalizing b with
    | nil => cases b <;> simp_all [cmpBytes]
    | cons x xs ih =>
      cases b with
      | nil => simp [cmpBytes] at h
      | cons y ys =>
        simp only [cmpBytes] at h
        split at h
        · cases h
        · split at h
          · cases h
          · rename_i h1 h2
            rw [u8_eq_of_not_lt h1 h2, ih h]
  · intro h; subst h; simp

theorem cmpBytes_swap (a b : Bytes) : (cmpBytes a b).swap = cmpBytes b a := by
  induction a generalizing b with
  | nil => cases b <;> rfl
  | cons x xs ih =>
    cases b with
    | nil => rfl
    | cons y ys =>
      simp only [cmpBytes]
      by_cases h1 : x < y
      · simp [h1, u8_lt_asymm h1]
      · by_cases h2 : y < x
        · simp [h1, h2]
        · simp [h1, h2, ih]

theorem cmpBytes_gt_iff {a b : Bytes} : cmpBytes a b = .gt ↔ cmpBytes b a = .lt := by
  rw [← cmpBytes_swap b a]; cases cmpBytes b a <;> simp

theorem cmpBytes_lt_iff_gt {a b : Bytes} : cmpBytes a b = .lt ↔ cmpBytes b a = .gt := by
  rw [← cmpBytes_swap b a]; cases cmpBytes b a <;> simp

/-- strict order on byte strings -/
def blt (a b : Bytes) : Prop := cmpBytes a b = .lt
/-- non-strict order -/
def ble (a b : Bytes) : Prop := cmpBytes a b ≠ .gt

instance (a b : Bytes) : Decidable (blt a b) := by unfold blt; infer_instance
instance (a b : Bytes) : Decidable (ble a b) := by unfold ble; infer_instance

theorem blt_trans {a b c : Bytes} (h1 : blt a b) (h2 : blt b c) : blt a c := by
  unfold blt at *
  induction a generalizing b c with
  | nil =>
    cases b with
    | nil => simp [cmpBytes] at h1
    | cons y ys => cases c <;> simp_all [cmpBytes]
  | cons x xs ih =>
    cases b with
    | nil => simp [cmpBytes] at h1
    | cons y ys =>
      cases c with
      | nil => simp [cmpBytes] at h2
      | cons z zs =>
        simp only [cmpBytes] at h1 h2 ⊢
        by_cases hxy : x < y
        · by_cases hyz : y < z
          · simp [u8_lt_trans hxy hyz]
          · by_cases hzy : z < y
            · simp [hyz, hzy] at h2
            · have := u8_eq_of_not_lt hyz hzy; subst this; simp [hxy]
        · by_cases hyx : y < x
          · simp [hxy, hyx] at h1
          · have := u8_eq_of_not_lt hxy hyx; subst this
            simp only [hxy, if_false] at h1
            by_cases hxz : x < z
            · simp [hxz]
            · by_cases hzx : z < x
              · simp [hxz, hzx] at h2
              · simp only [hxz, hzx, if_false] at h2 ⊢
                exact ih h1 h2

theorem blt_irrefl (a : Bytes) : ¬ blt a a := by simp [blt]

theorem blt_asymm {a b : Bytes} (h : blt a b) : ¬ blt b a := fun h2 => blt_irrefl a (blt_trans h h2)

theorem ble_iff {a b : Bytes} : ble a b ↔ blt a b ∨ a = b := by
  unfold ble blt
  rw [← cmpBytes_eq_iff]
  cases cmpBytes a b <;> simp

theorem not_blt_iff_ble {a b : Bytes} : ¬ blt a b ↔ ble b a := by
  unfold ble blt; rw [Ne, cmpBytes_gt_iff]

theorem not_ble_iff_blt {a b : Bytes} : ¬ ble a b ↔ blt b a := by
  unfold ble blt; rw [Ne, Classical.not_not, cmpBytes_gt_iff]

theorem ble_refl (a : Bytes) : ble a a := by simp [ble]

theorem ble_of_blt {a b : Bytes} (h : blt a b) : ble a b := ble_iff.mpr (.inl h)

theorem blt_total (a b : Bytes) : blt a b ∨ a = b ∨ blt b a := by
  unfold blt
  rw [← cmpBytes_eq_iff, ← cmpBytes_gt_iff (a := a) (b := b)]
  cases cmpBytes a b <;> simp

theorem blt_of_blt_of_ble {a b c : Bytes} (h1 : blt a b) (h2 : ble b c) : blt a c := by
  rcases ble_iff.mp h2 with h | h
  · exact blt_trans h1 h
  · subst h; exact h1

theorem blt_of_ble_of_blt {a b c : Bytes} (h1 : ble a b) (h2 : blt b c) : blt a c := by
  rcases ble_iff.mp h1 with h | h
  · exact blt_trans h h2
  · subst h; exact h2

theorem ble_trans {a b c : Bytes} (h1 : ble a b) (h2 : ble b c) : ble a c := by
  rcases ble_iff.mp h1 with h | h
  · exact ble_of_blt (blt_of_blt_of_ble h h2)
  · subst h; exact h2

theorem ble_antisymm {a b : Bytes} (h1 : ble a b) (h2 : ble b a) : a = b := by
  rcases ble_iff.mp h1 with h | h
  · exact absurd h (not_blt_iff_ble.mpr h2)
  · exact h

/-- cons lemmas used by the separator proofs -/
theorem blt_cons_same {x : UInt8} {as bs : Bytes} : blt (x :: as) (x :: bs) ↔ blt as bs := by
  simp [blt, cmpBytes]

theorem blt_cons_of_lt {x y : UInt8} (as bs : Bytes) (h : x < y) : blt (x :: as) (y :: bs) := by
  simp [blt, cmpBytes, h]

theorem ble_cons_same {x : UInt8} {as bs : Bytes} : ble (x :: as) (x :: bs) ↔ ble as bs := by
  simp [ble, cmpBytes]

theorem blt_cons_iff {x y : UInt8} {as bs : Bytes} :
    blt (x :: as) (y :: bs) ↔ x < y ∨ (x = y ∧ blt as bs) := by
  unfold blt; simp only [cmpBytes]
  by_cases h1 : x < y
  · simp [h1]
  · by_cases h2 : y < x
    · simp only [h1, h2, if_false, if_true]
      constructor
      · intro h; cases h
      · rintro (h | ⟨h, _⟩)
        · exact absurd h (by simp)
        · subst h; exact absurd h2 (u8_lt_irrefl _)
    · have := u8_eq_of_not_lt h1 h2; subst this; simp [h1]

theorem nil_blt_cons (y : UInt8) (bs : Bytes) : blt [] (y :: bs) := rfl
theorem not_blt_nil (a : Bytes) : ¬ blt a [] := by cases a <;> simp [blt, cmpBytes]
theorem nil_ble (a : Bytes) : ble [] a := by cases a <;> simp [ble, cmpBytes]

theorem ble_append_right (a t : Bytes) : ble a (a ++ t) := by
  induction a with
  | nil => exact nil_ble _
  | cons x xs ih => exact ble_cons_same.mpr ih

end Sst
