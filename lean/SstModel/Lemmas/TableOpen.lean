import SstModel.Lemmas.TableOpsSpec
import SstModel.Lemmas.BlockSeek
import SstModel.Lemmas.OpenFooter
/-
  `Table::new` on a well-formed table image with a fault-free source succeeds and yields the
  expected handle (`open_ok`).
-/
namespace Sst

/-! ### step 1: the footer -/

theorem readFooter_clean (w : World) (file : Nat) (img : Bytes) (f : Footer)
    (hcw : CleanWorld w file img) (h48 : 48 ≤ img.length)
    (hf : Footer.tryDecode (img.drop (img.length - 48)) = some f) :
    ∃ w', Table.readFooter file img.length w = (w', .ok f) ∧ CleanWorld w' file img
      ∧ w'.cache = w.cache ∧ w'.files = w.files ∧ w'.events = w.events := by
  have hoff : Consts.fullFooterLength = 48 := rfl
  have hnormal : (if img.length - 48 > img.length then 0 else min 48 (img.length - (img.length - 48))) = 48 := by
    rw [if_neg (by omega)]; omega
  have htake : (img.drop (img.length - 48)).take 48 = img.drop (img.length - 48) := by
    apply List.take_of_length_le
    simp only [List.length_drop]; omega
  unfold Table.readFooter
  rw [if_neg (by rw [hoff]; omega), hoff]
  show ∃ w', M.bind' (readBytes file ⟨img.length - 48, 48⟩) _ w = (w', .ok f) ∧ _
  unfold M.bind' readBytes readAt
  simp only [hcw.sched, hcw.file, hnormal, htake, Nat.sub_self, List.replicate_zero, List.append_nil, hf]
  exact ⟨_, rfl, ⟨hcw.file, rfl⟩, rfl, rfl, rfl⟩

/-! ### step 4: the metaindex lookup -/

/-- in a strictly sorted list, the lower bound of a stored key is that entry -/
theorem entryAt_lowerBound_of_mem (cmp : Cmp) (hc : cmp.Lawful) (kvs : List Spec.Entry)
    (hs : KeysSorted cmp (kvs.map (·.1))) (k v : Bytes) (hm : (k, v) ∈ kvs) :
    Spec.entryAt kvs (Spec.lowerBound cmp kvs k) = some (k, v) := by
  obtain ⟨i, hi, hget⟩ := List.mem_iff_getElem.mp hm
  have hlb : Spec.lowerBound cmp kvs k = some i := by
    rw [TwoLevel.lowerBound_eq_some_iff]
    refine ⟨hi, ?_, ?_⟩
    · intro j hj
      have hp := List.pairwise_iff_getElem.mp hs j i (by simp; omega) (by simpa using hi) hj
      simp only [List.getElem_map, hget] at hp
      exact hp
    · rw [hget]; exact hc.lt_irrefl k
  rw [hlb]
  simp only [Spec.entryAt]
  rw [List.getElem?_eq_getElem hi, hget]

/-- if no stored key equals `k`, the lower bound of `k` is invalid or on another key -/
theorem entryAt_lowerBound_of_not_mem (cmp : Cmp) (kvs : List Spec.Entry) (k : Bytes)
    (hm : ∀ e ∈ kvs, e.1 ≠ k) :
    ∀ e, Spec.entryAt kvs (Spec.lowerBound cmp kvs k) = some e → e.1 ≠ k := by
  intro e he
  cases hl : Spec.lowerBound cmp kvs k with
  | none => rw [hl] at he; cases he
  | some i =>
    rw [hl] at he
    exact hm e (List.mem_of_getElem? he)

theorem PBlock.kvs_keys (b : PBlock) : b.kvs.map (·.1) = b.es.map (·.key) := by
  unfold PBlock.kvs kvOf
  rw [List.map_map]; rfl

/-- the iterator part of `Table::read_filter_block`: `iter`, `seek name`, `current` -/
theorem metaix_lookup (cmp : Cmp) (hc : cmp.Lawful) (b : PBlock) (hwf : b.WF)
    (hs : KeysSorted cmp (b.es.map (·.key))) (name : Bytes) :
    ∃ it it', Block.iter b.contents = .ok it ∧ it.seek cmp name = .ok it'
      ∧ it'.current = .ok (Spec.entryAt b.kvs (Spec.lowerBound cmp b.kvs name)) := by
  obtain ⟨it, hit, hsim⟩ := simB_iter hwf.1
  obtain ⟨it', hseek, hsim'⟩ := simB_seek cmp hc hwf.1 hwf.2 hs hsim name
  exact ⟨it, it', hit, hseek, simB_current hwf.1 hsim'⟩

theorem FilterBlockReader.new_of_isWellFormed (fb : Bytes) (h : FilterBlockReader.isWellFormed fb = true) :
    ∃ r, FilterBlockReader.new fb = .ok r := by
  unfold FilterBlockReader.isWellFormed at h
  split at h
  · cases h
  · rename_i hlen
    unfold FilterBlockReader.new
    have : assert (decide (fb.length ≥ 5)) "FilterBlockReader::new: len >= 5" = .ok () := by
      unfold assert; rw [if_pos (by simp; omega)]
    simp only [this, Res.bind_ok, Res.pure_eq]
    exact ⟨_, rfl⟩

/-- `Sst.readFilterBlock` on a fault-free source -/
theorem readFilterBlock_clean (w : World) (file : Nat) (img : Bytes) (h : BlockHandle) (fb : Bytes)
    (hcw : CleanWorld w file img) (hz : h.size > 0) (hr : blockAt img h = .ok fb)
    (hw : FilterBlockReader.isWellFormed fb = true) :
    ∃ w' r, Sst.readFilterBlock file h w = (w', .ok r) ∧ FilterBlockReader.new fb = .ok r
      ∧ CleanWorld w' file img ∧ w'.cache = w.cache ∧ w'.files = w.files ∧ w'.events = w.events := by
  obtain ⟨w', hrd, hc', h1, h2, h3⟩ := readBlockContents_clean w file img h hcw
  obtain ⟨r, hnew⟩ := FilterBlockReader.new_of_isWellFormed fb hw
  refine ⟨w', r, ?_, hnew, hc', h1, h2, h3⟩
  unfold Sst.readFilterBlock
  rw [if_neg (by omega)]
  show M.bind' (readBlockContents file h) _ w = _
  unfold M.bind'
  rw [hrd, hr]
  simp only [hw, Bool.not_true, Bool.false_eq_true, if_false, M.lift, hnew]

/-- the result `Table::read_filter_block` must produce for filter view `fv` -/
def FiltersOK (fv : Option Bytes) (r : Option FilterBlockReader) : Prop :=
  match fv with
  | none => r = none
  | some fb => ∃ rr, FilterBlockReader.new fb = .ok rr ∧ r = some rr

theorem Table.readFilterBlock_ok (cmp : Cmp) (hc : cmp.Lawful) (p : FilterPolicy) (t : TableImg)
    (hwf : t.WF cmp) (fv : Option Bytes) (hfv : FilterView p t fv) (w : World) (file : Nat)
    (hcw : CleanWorld w file t.img) :
    ∃ w' r, Table.readFilterBlock t.metaix.contents file t.img.length ⟨cmp, p⟩ w = (w', .ok r)
      ∧ FiltersOK fv r
      ∧ CleanWorld w' file t.img ∧ w'.cache = w.cache ∧ w'.files = w.files ∧ w'.events = w.events := by
  obtain ⟨it, it', hit, hseek, hcur⟩ :=
    metaix_lookup cmp hc t.metaix hwf.metaWF hwf.metaSorted (Table.filterName p)
  unfold Table.readFilterBlock
  simp only [bind, M.bind', M.lift, curKV, hit, hseek, hcur]
  cases hfv with
  | absent h =>
    have hne := entryAt_lowerBound_of_not_mem cmp t.metaix.kvs (Table.filterName p) h
    cases he : Spec.entryAt t.metaix.kvs (Spec.lowerBound cmp t.metaix.kvs (Table.filterName p)) with
    | none => exact ⟨w, none, rfl, rfl, hcw, rfl, rfl, rfl⟩
    | some e =>
      obtain ⟨k, v⟩ := e
      have hk : k ≠ Table.filterName p := hne _ he
      simp only [hk, ne_eq, not_false_eq_true, if_true]
      exact ⟨w, none, rfl, rfl, hcw, rfl, rfl, rfl⟩
  | empty v fh n h hd hz =>
    have he := entryAt_lowerBound_of_mem cmp hc t.metaix.kvs
      (by rw [PBlock.kvs_keys]; exact hwf.metaSorted) _ _ h
    simp only [he, ne_eq, not_true_eq_false, if_false, hd, hz, Nat.lt_irrefl, gt_iff_lt]
    exact ⟨w, none, rfl, rfl, hcw, rfl, rfl, rfl⟩
  | present v fh n fb h hd hz hb hr hw =>
    have he := entryAt_lowerBound_of_mem cmp hc t.metaix.kvs
      (by rw [PBlock.kvs_keys]; exact hwf.metaSorted) _ _ h
    obtain ⟨w', r, hrd, hnew, hc', h1, h2, h3⟩ := readFilterBlock_clean w file t.img fh fb hcw hz hr hw
    have hchk := (checkBlockBounds_iff fh t.img.length w).1 hb
    simp only [he, ne_eq, not_true_eq_false, if_false, hd, hz, if_true, M.bind', hchk, hrd]
    exact ⟨w', some r, rfl, ⟨r, hnew, rfl⟩, hc', h1, h2, h3⟩

/-! ### `Table::new` -/

theorem open_ok (cmp : Cmp) (hc : cmp.Lawful) (p : FilterPolicy) (t : TableImg) (hwf : t.WF cmp)
    (fv : Option Bytes) (hfv : FilterView p t fv) (w : World) (file : Nat) (hcw : CleanWorld w file t.img) :
    ∃ w' tb, Table.new ⟨cmp, p⟩ file t.img.length w = (w', .ok tb)
      ∧ Opened tb t cmp p fv ∧ tb.file = file
      ∧ tb.cacheId = (w.cache.nextId + 1) % 2 ^ 64
      ∧ CleanWorld w' file t.img ∧ w'.files = w.files
      ∧ w'.cache.entries = w.cache.entries ∧ w'.cache.cap = w.cache.cap
      ∧ w'.cache.nextId = (w.cache.nextId + 1) % 2 ^ 64
      ∧ w'.events = w.events := by
  obtain ⟨w1, hft, hc1, hca1, hf1, he1⟩ := readFooter_clean w file t.img _ hcw hwf.size.1 hwf.footer
  have hchk1 := (checkBlockBounds_iff t.indexHandle t.img.length w1).1 hwf.indexBounds
  have hchk2 := (checkBlockBounds_iff t.metaHandle t.img.length w1).1 hwf.metaBounds
  obtain ⟨w2, hix, hc2, hca2, hf2, he2⟩ := readTableBlock_clean w1 file t.img t.indexHandle hc1
  rw [hwf.indexRead] at hix
  obtain ⟨w3, hmx, hc3, hca3, hf3, he3⟩ := readTableBlock_clean w2 file t.img t.metaHandle hc2
  rw [hwf.metaRead] at hmx
  obtain ⟨w4, r, hfl, hfok, hc4, hca4, hf4, he4⟩ :=
    Table.readFilterBlock_ok cmp hc p t hwf fv hfv w3 file hc3
  unfold Table.new
  simp only [bind, M.bind', hft, hchk1, hchk2, hix, hmx, hfl, LruCache.newCacheId, pure, M.pure']
  refine ⟨_, _, rfl, ⟨rfl, rfl, rfl, rfl, ?_⟩, rfl, ?_, ⟨hc4.file, hc4.sched⟩, ?_, ?_, ?_, ?_, ?_⟩
  · unfold FiltersOK at hfok
    cases fv with
    | none => exact hfok
    | some fb => exact hfok
  · show (w4.cache.nextId + 1) % 2 ^ 64 = _
    rw [hca4, hca3, hca2, hca1]
  · show w4.files = w.files
    rw [hf4, hf3, hf2, hf1]
  · show w4.cache.entries = _
    rw [hca4, hca3, hca2, hca1]
  · show w4.cache.cap = _
    rw [hca4, hca3, hca2, hca1]
  · show (w4.cache.nextId + 1) % 2 ^ 64 = _
    rw [hca4, hca3, hca2, hca1]
  · show w4.events = _
    rw [he4, he3, he2, he1]

end Sst

#print axioms Sst.readFooter_clean
#print axioms Sst.Table.readFilterBlock_ok
#print axioms Sst.open_ok
